(* C17: [from_messages] on a log in which the messages of an action form a block
   ([Seg]) returns the expected helper tree [logged_of]. *)
From Coq Require Import List PArith Bool Arith Lia.
Require Import Eliot.Base.Level Eliot.Model.Parser Eliot.Model.Forest Eliot.Model.Testing.
Require Import Eliot.Proofs.ParserBasics Eliot.Proofs.ParserOrder Eliot.Proofs.ParserTree Eliot.Proofs.TestingLin.
Import ListNotations.

(* ---- the scanning loop of fromMessages, with the recursive call abstracted -------- *)

(* messageLevel[:-1] == levelPrefix (for a non-empty level) *)
Definition own (p l : level) : bool :=
  level_eqb (prefix_of l) p && negb (match l with [] => true | _ => false end).

Fixpoint scan_gen (rec : level -> tres logged) (uuid : nat) (p : level) (ms : list lmsg)
    (st en : option lmsg) (ch : list logged) : tres logged :=
  match ms with
  | [] =>
      match st, en with
      | Some s, Some e => TOk (LAction s e ch)
      | _, _ => TValueError
      end
  | m :: r =>
      if negb (Nat.eqb (lm_uuid m) uuid) then scan_gen rec uuid p r st en ch
      else if own p (lm_level m) then
        if is_started (lm_status m) then scan_gen rec uuid p r (Some m) en ch
        else if is_completed (lm_status m) then scan_gen rec uuid p r st (Some m) ch
        else scan_gen rec uuid p r st en (ch ++ [LMessage m])
      else if child_start p (lm_level m) then
        match rec (lm_level m) with
        | TOk c => scan_gen rec uuid p r st en (ch ++ [c])
        | TValueError => TValueError
        | TFuel => TFuel
        end
      else scan_gen rec uuid p r st en ch
  end.

Lemma scan_eq n uuid lvl all : forall ms st en ch,
  (fix scan (ms : list lmsg) (st en : option lmsg) (ch : list logged) : tres logged :=
     match ms with
     | [] =>
         match st, en with
         | Some s, Some e => TOk (LAction s e ch)
         | _, _ => TValueError
         end
     | m :: r =>
         if negb (Nat.eqb (lm_uuid m) uuid) then scan r st en ch
         else if level_eqb (prefix_of (lm_level m)) (prefix_of lvl) && negb (match lm_level m with [] => true | _ => false end) then
           if is_started (lm_status m) then scan r (Some m) en ch
           else if is_completed (lm_status m) then scan r st (Some m) ch
           else scan r st en (ch ++ [LMessage m])
         else if child_start (prefix_of lvl) (lm_level m) then
           match from_messages n uuid (lm_level m) all with
           | TOk c => scan r st en (ch ++ [c])
           | TValueError => TValueError
           | TFuel => TFuel
           end
         else scan r st en ch
     end) ms st en ch =
  scan_gen (fun lv => from_messages n uuid lv all) uuid (prefix_of lvl) ms st en ch.
Proof.
  induction ms as [|m r IH]; intros st en ch; [reflexivity|].
  cbn [scan_gen]. unfold own.
  destruct (negb (Nat.eqb (lm_uuid m) uuid)); [apply IH|].
  destruct (level_eqb (prefix_of (lm_level m)) (prefix_of lvl) && negb match lm_level m with [] => true | _ :: _ => false end).
  - destruct (is_started (lm_status m)); [apply IH|]. destruct (is_completed (lm_status m)); apply IH.
  - destruct (child_start (prefix_of lvl) (lm_level m)); [|apply IH].
    destruct (from_messages n uuid (lm_level m) all); try reflexivity. apply IH.
Qed.

Lemma from_messages_unfold n uuid lvl all :
  from_messages (S n) uuid lvl all =
  scan_gen (fun lv => from_messages n uuid lv all) uuid (prefix_of lvl) all None None [].
Proof. exact (scan_eq n uuid lvl all all None None []). Qed.

(* ---- messages the loop ignores ------------------------------------------------------ *)

Definition skips (uuid : nat) (p : level) (m : lmsg) : bool :=
  negb (Nat.eqb (lm_uuid m) uuid) || (negb (own p (lm_level m)) && negb (child_start p (lm_level m))).

Lemma scan_skip rec uuid p xs : forall r st en ch,
  Forall (fun m => skips uuid p m = true) xs ->
  scan_gen rec uuid p (xs ++ r) st en ch = scan_gen rec uuid p r st en ch.
Proof.
  induction xs as [|m xs IH]; intros r st en ch H; [reflexivity|].
  inversion H as [|? ? Hm Hr]; subst. cbn [app scan_gen]. unfold skips in Hm.
  destruct (negb (Nat.eqb (lm_uuid m) uuid)); [now apply IH|]. cbn [orb] in Hm.
  destruct (own p (lm_level m)); [discriminate|].
  destruct (child_start p (lm_level m)); [discriminate|]. now apply IH.
Qed.

Lemma removelast_length {A} (l : list A) : length (removelast l) = length l - 1.
Proof.
  induction l as [|a l IH]; [reflexivity|]. destruct l as [|b l]; [reflexivity|].
  change (removelast (a :: b :: l)) with (a :: removelast (b :: l)). cbn [length] in *. lia.
Qed.

Lemma own_length p l : own p l = true -> length l = S (length p).
Proof.
  unfold own, prefix_of. intros H. apply andb_true_iff in H as [H1 H2].
  apply level_eqb_eq in H1. destruct l as [|x l]; [discriminate|].
  rewrite <- H1, removelast_length. cbn [length]. lia.
Qed.

Lemma own_snoc p j : own p (p ++ [j]) = true.
Proof.
  unfold own, prefix_of. rewrite removelast_last, level_eqb_refl. now destruct p.
Qed.

Lemma own_form p l : own p l = true -> exists j, l = p ++ [j].
Proof.
  unfold own, prefix_of. intros H. apply andb_true_iff in H as [H1 H2].
  apply level_eqb_eq in H1. destruct l as [|x l]; [discriminate|].
  exists (last (x :: l) 1%positive). rewrite <- H1. apply app_removelast_last. discriminate.
Qed.

Lemma child_start_form p l : child_start p l = true -> exists k, l = p ++ [k; 1%positive].
Proof.
  unfold child_start. intros H. apply andb_true_iff in H as [H H3]. apply andb_true_iff in H as [H1 H2].
  apply Nat.eqb_eq in H1. apply level_eqb_eq in H2. apply Pos.eqb_eq in H3.
  assert (N1 : l <> []) by (intros ->; cbn in H1; lia).
  pose proof (app_removelast_last 2%positive N1) as E1. rewrite H3 in E1.
  assert (N2 : removelast l <> []).
  { intros E. apply (f_equal (@length _)) in E. rewrite removelast_length in E. cbn in E. lia. }
  pose proof (app_removelast_last 1%positive N2) as E2. rewrite H2 in E2.
  remember (last (removelast l) 1%positive) as k eqn:Ek. clear Ek.
  exists k. rewrite E1, E2, <- app_assoc. reflexivity.
Qed.

Lemma child_start_snoc p k : child_start p ((p ++ [k]) ++ [1%positive]) = true.
Proof.
  unfold child_start. rewrite !app_length, !removelast_last, last_last, level_eqb_refl. cbn [length].
  replace (length p + 1 + 1) with (length p + 2) by lia. now rewrite Nat.eqb_refl.
Qed.

Lemma outside_skips u l m : outside u l m -> skips u l m = true.
Proof.
  intros H. unfold skips. destruct (Nat.eqb_spec (lm_uuid m) u) as [E|N]; [|reflexivity]. cbn [negb orb].
  specialize (H E).
  destruct (own l (lm_level m)) eqn:E1.
  { apply own_form in E1 as (j & E1). exfalso. eapply H. exact E1. }
  destruct (child_start l (lm_level m)) eqn:E2; [|reflexivity].
  apply child_start_form in E2 as (k & E2). exfalso. eapply H. exact E2.
Qed.

(* a message strictly inside a child action, other than that child's start message *)
Lemma deep_skips u l q p' rest m :
  lm_level m = (l ++ [q]) ++ p' :: rest -> (2 <= p')%positive -> skips u l m = true.
Proof.
  intros E Hp. unfold skips. destruct (negb (Nat.eqb (lm_uuid m) u)); [reflexivity|]. cbn [orb].
  destruct (own l (lm_level m)) eqn:E1.
  { apply own_length in E1. rewrite E, !app_length in E1. cbn [length] in E1. lia. }
  destruct (child_start l (lm_level m)) eqn:E2; [|reflexivity].
  apply child_start_form in E2 as (k & E2). rewrite E, <- app_assoc in E2. apply app_inv_head in E2.
  cbn in E2. injection E2 as _ E2 _. lia.
Qed.

(* ---- nesting depth ------------------------------------------------------------------- *)

Fixpoint depth (t : tree) : nat :=
  match t with
  | TMsg _ => 0
  | TAct _ _ ch =>
      S ((fix go (cs : list tree) : nat :=
            match cs with
            | [] => 0
            | c :: r => Nat.max (depth c) (go r)
            end) ch)
  end.

Fixpoint depth_list (cs : list tree) : nat :=
  match cs with
  | [] => 0
  | c :: r => Nat.max (depth c) (depth_list r)
  end.

Lemma depth_act ty st ch : depth (TAct ty st ch) = S (depth_list ch).
Proof. reflexivity. Qed.

Lemma depth_list_in cs c : In c cs -> depth c <= depth_list cs.
Proof.
  induction cs as [|c0 r IH]; [intros []|]. cbn [depth_list]. intros [->|H]; [lia|].
  apply IH in H. lia.
Qed.

(* ---- the loop on the block of an action ------------------------------------------------ *)

Section Core.
  Variable idf : level -> nat.
  Variable u : nat.
  Variable rec : level -> tres logged.
  Variable l : level.

  Lemma scan_start ty r st en ch :
    scan_gen rec u l (lstart idf u l ty :: r) st en ch = scan_gen rec u l r (Some (lstart idf u l ty)) en ch.
  Proof.
    cbn [scan_gen lstart mk_lmsg lm_uuid lm_level lm_status]. rewrite Nat.eqb_refl. cbn [negb].
    now rewrite own_snoc.
  Qed.

  Lemma scan_end ty st0 pos r st en ch :
    scan_gen rec u l (lend idf u l ty st0 pos :: r) st en ch = scan_gen rec u l r st (Some (lend idf u l ty st0 pos)) ch.
  Proof.
    cbn [scan_gen lend mk_lmsg lm_uuid lm_level lm_status]. rewrite Nat.eqb_refl. cbn [negb].
    rewrite own_snoc. now destruct st0.
  Qed.

  Lemma scan_plain pos ty r st en ch :
    scan_gen rec u l (lplain idf u (l ++ [pos]) ty :: r) st en ch =
    scan_gen rec u l r st en (ch ++ [LMessage (lplain idf u (l ++ [pos]) ty)]).
  Proof.
    cbn [scan_gen lplain mk_lmsg lm_uuid lm_level lm_status]. rewrite Nat.eqb_refl. cbn [negb].
    now rewrite own_snoc.
  Qed.

  Lemma scan_child_start pos ty r st en ch :
    scan_gen rec u l (lstart idf u (l ++ [pos]) ty :: r) st en ch =
    match rec ((l ++ [pos]) ++ [1%positive]) with
    | TOk c => scan_gen rec u l r st en (ch ++ [c])
    | TValueError => TValueError
    | TFuel => TFuel
    end.
  Proof.
    cbn [scan_gen lstart mk_lmsg lm_uuid lm_level lm_status]. rewrite Nat.eqb_refl. cbn [negb].
    destruct (own l ((l ++ [pos]) ++ [1%positive])) eqn:E.
    { apply own_length in E. rewrite !app_length in E. cbn [length] in E. lia. }
    now rewrite child_start_snoc.
  Qed.

  Lemma scan_children ty st0 s cs : forall pos acc r,
    (forall p c, child_from pos cs p = Some c -> is_act c = true ->
                 rec ((l ++ [p]) ++ [1%positive]) = TOk (logged_of idf u (l ++ [p]) c)) ->
    scan_gen rec u l (llin_list idf u l ty st0 pos cs ++ r) s None acc =
    scan_gen rec u l r s (Some (lend idf u l ty st0 (endpos pos cs))) (acc ++ logged_list idf u l pos cs).
  Proof.
    induction cs as [|c cs IH]; intros pos acc r Hrec; cbn [llin_list logged_list endpos].
    - cbn [app]. rewrite scan_end, app_nil_r. reflexivity.
    - assert (Hrec' : forall p c', child_from (Pos.succ pos) cs p = Some c' -> is_act c' = true ->
                 rec ((l ++ [p]) ++ [1%positive]) = TOk (logged_of idf u (l ++ [p]) c')).
      { intros p c' Hp. apply Hrec. cbn [child_from]. pose proof (child_from_range _ _ _ _ Hp) as [Hle _].
        destruct (Pos.eqb_spec p pos); [lia|exact Hp]. }
      rewrite <- app_assoc. destruct c as [ty'|ty' st' ch'].
      + cbn [llin_tree app logged_of]. rewrite scan_plain, (IH _ _ _ Hrec'), <- app_assoc. reflexivity.
      + rewrite llin_tree_act. cbn [app]. rewrite scan_child_start.
        rewrite (Hrec pos (TAct ty' st' ch')) by (first [reflexivity | cbn [child_from]; now rewrite Pos.eqb_refl]).
        rewrite scan_skip.
        * rewrite (IH _ _ _ Hrec'), <- app_assoc. reflexivity.
        * apply Forall_forall. intros m Hm. apply llin_list_levels in Hm as (_ & p' & rest & E & Hp).
          eapply deep_skips; eassumption.
  Qed.
End Core.

(* ---- fromMessages on a log containing the action's block ------------------------------------ *)

Theorem from_messages_core idf u a : forall l fuel all,
  is_act a = true -> Seg idf all u l a -> depth a <= fuel ->
  from_messages fuel u (l ++ [1%positive]) all = TOk (logged_of idf u l a).
Proof.
  induction a as [ty|ty st ch IHch] using tree_ind'; intros l fuel all HA HS Hd; [discriminate|].
  rewrite depth_act in Hd. destruct fuel as [|fuel]; [lia|].
  rewrite from_messages_unfold. unfold prefix_of at 1. rewrite removelast_last.
  set (rec := fun lv => from_messages fuel u lv all).
  assert (Hrec : forall p c, child_from 2 ch p = Some c -> is_act c = true ->
            rec ((l ++ [p]) ++ [1%positive]) = TOk (logged_of idf u (l ++ [p]) c)).
  { intros p c Hp Hc. unfold rec. rewrite Forall_forall in IHch. pose proof (child_from_in _ _ _ _ Hp) as Hin.
    apply IHch; [exact Hin|exact Hc|eapply Seg_child; eassumption|].
    pose proof (depth_list_in _ _ Hin). lia. }
  clearbody rec.
  destruct HS as (PRE & POST & E & HP & HQ). rewrite E, llin_tree_act.
  rewrite scan_skip by (eapply Forall_impl; [|exact HP]; intros m; apply outside_skips).
  cbn [app]. rewrite scan_start.
  rewrite (scan_children idf u rec l ty st _ ch 2 [] POST Hrec).
  rewrite <- (app_nil_r POST).
  rewrite scan_skip by (eapply Forall_impl; [|exact HQ]; intros m; apply outside_skips).
  cbn [scan_gen app]. now rewrite logged_of_act.
Qed.

(* ---- prefix matching against the level rule, stated on its own --------------------------------
   In a log containing the block of the action (ty, st, ch) at (u, l), the messages of task u
   that fromMessages treats as the action's own ([own l]) are exactly its start message, its
   end message and its direct child messages; those it treats as starts of direct child
   actions ([child_start l]) are exactly the start messages of its direct child actions.
   Messages of other actions whose levels merely share the prefix l (deeper descendants,
   or anything outside the block) satisfy neither test. *)

Lemma llin_list_In idf u l ty st cs : forall pos m,
  In m (llin_list idf u l ty st pos cs) <->
  m = lend idf u l ty st (endpos pos cs) \/
  exists p c, child_from pos cs p = Some c /\ In m (llin_tree idf u (l ++ [p]) c).
Proof.
  induction cs as [|c0 r IH]; intros pos m; cbn [llin_list endpos child_from].
  - split.
    + intros [<-|[]]. now left.
    + intros [->|(p & c & H & _)]; [now left|discriminate].
  - rewrite in_app_iff, IH. split.
    + intros [H|[H|(p & c & H1 & H2)]].
      * right. exists pos, c0. now rewrite Pos.eqb_refl.
      * now left.
      * right. exists p, c. split; [|exact H2].
        pose proof (child_from_range _ _ _ _ H1) as [Hle _].
        destruct (Pos.eqb_spec p pos); [lia|exact H1].
    + intros [H|(p & c & H1 & H2)]; [right; now left|].
      destruct (Pos.eqb_spec p pos) as [->|N].
      * injection H1 as <-. now left.
      * right. right. now exists p, c.
Qed.

Theorem prefix_matching idf all u l ty st ch m :
  Seg idf all u l (TAct ty st ch) -> In m all -> lm_uuid m = u ->
  (own l (lm_level m) = true <->
     m = lstart idf u l ty \/ m = lend idf u l ty st (endpos 2 ch) \/
     exists p ty', child_from 2 ch p = Some (TMsg ty') /\ m = lplain idf u (l ++ [p]) ty') /\
  (child_start l (lm_level m) = true <->
     exists p ty' st' ch', child_from 2 ch p = Some (TAct ty' st' ch') /\ m = lstart idf u (l ++ [p]) ty') /\
  (own l (lm_level m) = true -> child_start l (lm_level m) = false).
Proof.
  intros (PRE & POST & -> & HP & HQ) Hm Hu.
  assert (Excl : own l (lm_level m) = true -> child_start l (lm_level m) = false).
  { intros H1. destruct (child_start l (lm_level m)) eqn:H2; [|reflexivity].
    apply own_length in H1. apply child_start_form in H2 as (k & E). rewrite E, app_length in H1. cbn in H1. lia. }
  assert (Out : outside u l m -> own l (lm_level m) = false /\ child_start l (lm_level m) = false).
  { intros HO. apply outside_skips in HO. unfold skips in HO. rewrite Hu, Nat.eqb_refl in HO. cbn in HO.
    apply andb_true_iff in HO as [H1 H2]. now destruct (own l (lm_level m)), (child_start l (lm_level m)). }
  assert (Back1 : m = lstart idf u l ty \/ m = lend idf u l ty st (endpos 2 ch) \/
            (exists p ty', child_from 2 ch p = Some (TMsg ty') /\ m = lplain idf u (l ++ [p]) ty') ->
            own l (lm_level m) = true).
  { intros [->|[->|(p & ty' & _ & ->)]]; apply own_snoc. }
  assert (Back2 : (exists p ty' st' ch', child_from 2 ch p = Some (TAct ty' st' ch') /\ m = lstart idf u (l ++ [p]) ty') ->
            child_start l (lm_level m) = true).
  { intros (p & ty' & st' & ch' & _ & ->). apply child_start_snoc. }
  assert (Cases : outside u l m \/
            (m = lstart idf u l ty \/ m = lend idf u l ty st (endpos 2 ch) \/
             exists p ty', child_from 2 ch p = Some (TMsg ty') /\ m = lplain idf u (l ++ [p]) ty') \/
            (exists p ty' st' ch', child_from 2 ch p = Some (TAct ty' st' ch') /\ m = lstart idf u (l ++ [p]) ty') \/
            skips u l m = true).
  { rewrite Forall_forall in HP, HQ.
    apply in_app_iff in Hm as [Hm|Hm]; [left; now apply HP|].
    apply in_app_iff in Hm as [Hm|Hm]; [|left; now apply HQ].
    rewrite llin_tree_act in Hm. destruct Hm as [<-|Hm]; [right; left; now left|].
    apply llin_list_In in Hm as [->|(p & c & Hc & Hm)]; [right; left; right; now left|].
    destruct c as [ty'|ty' st' ch'].
    - destruct Hm as [<-|[]]. right. left. right. right. now exists p, ty'.
    - rewrite llin_tree_act in Hm. destruct Hm as [<-|Hm].
      + right. right. left. now exists p, ty', st', ch'.
      + right. right. right. apply llin_list_levels in Hm as (_ & p' & rest & E & Hp).
        eapply deep_skips; eassumption. }
  destruct Cases as [HO|[H|[H|H]]].
  - destruct (Out HO) as [E1 E2]. rewrite E1, E2. split; [|split]; [split; [discriminate|]|split; [discriminate|]|discriminate].
    + intros H. now rewrite (Back1 H) in E1.
    + intros H. now rewrite (Back2 H) in E2.
  - pose proof (Back1 H) as E1. pose proof (Excl E1) as E2. rewrite E1, E2.
    split; [|split]; [split; auto|split; [discriminate|]|reflexivity].
    intros H'. now rewrite (Back2 H') in E2.
  - pose proof (Back2 H) as E2.
    assert (E1 : own l (lm_level m) = false).
    { destruct (own l (lm_level m)) eqn:E1; [|reflexivity]. rewrite (Excl eq_refl) in E2. discriminate. }
    rewrite E1, E2. split; [|split]; [split; [discriminate|]|split; auto|discriminate].
    intros H'. now rewrite (Back1 H') in E1.
  - unfold skips in H. rewrite Hu, Nat.eqb_refl in H. cbn in H. apply andb_true_iff in H as [E1 E2].
    apply negb_true_iff in E1, E2. rewrite E1, E2.
    split; [|split]; [split; [discriminate|]|split; [discriminate|]|discriminate].
    + intros H'. now rewrite (Back1 H') in E1.
    + intros H'. now rewrite (Back2 H') in E2.
Qed.
