(* C17, the error branch: [of_type] on a truncated log (a prefix of the captured
   log).  An action whose start message is in the prefix but whose end message is
   not makes fromMessages raise ValueError; an action whose end message is in the
   prefix is rebuilt exactly as from the whole log. *)
From Coq Require Import List PArith Bool Arith Lia Sorted.
Require Import Eliot.Base.Level Eliot.Model.Parser Eliot.Model.Forest Eliot.Model.Testing.
Require Import Eliot.Proofs.ParserBasics Eliot.Proofs.ParserOrder Eliot.Proofs.ParserTree
  Eliot.Proofs.ParserStep Eliot.Proofs.ParserRun Eliot.Proofs.ParserSpec Eliot.Proofs.ParserIds.
Require Import Eliot.Proofs.TestingLin Eliot.Proofs.TestingScan Eliot.Proofs.TestingSpec.
Import ListNotations.

(* ---- identities increase along the log ------------------------------------------------- *)

Definition Inc (xs : list lmsg) : Prop := StronglySorted (fun a b => lm_id a < lm_id b) xs.

Lemma Inc_app A B : Inc (A ++ B) ->
  Inc A /\ Inc B /\ forall a b, In a A -> In b B -> lm_id a < lm_id b.
Proof.
  induction A as [|x A IH]; cbn [app]; intros H.
  - split; [constructor|]. split; [exact H|]. intros a b [].
  - inversion H as [|? ? HS HF]; subst. destruct (IH HS) as (H1 & H2 & H3).
    rewrite Forall_app in HF. destruct HF as [HF1 HF2]. split; [now constructor|]. split; [exact H2|].
    intros a b [<-|Ha] Hb; [|now apply H3]. rewrite Forall_forall in HF2. now apply HF2.
Qed.

Lemma Inc_seq (L : list lmsg) : forall s, map lm_id L = seq s (length L) -> Inc L.
Proof.
  induction L as [|a r IH]; intros s H; [constructor|]. cbn [map length seq] in H.
  injection H as Ha Hr. constructor; [now apply (IH (S s))|].
  apply Forall_forall. intros b Hb. apply (in_map lm_id) in Hb. rewrite Hr in Hb. apply in_seq in Hb. lia.
Qed.

Lemma Inc_llin f : Inc (llin f).
Proof. apply (Inc_seq _ 0). apply llin_ids. Qed.

Lemma firstn_filter_id (L : list lmsg) : forall s j,
  map lm_id L = seq s (length L) -> firstn j L = filter (fun m => lm_id m <? s + j) L.
Proof.
  induction L as [|a r IH]; intros s j H; [now destruct j|]. cbn [map length seq] in H.
  injection H as Ha Hr. destruct j as [|j]; cbn [firstn filter].
  - rewrite Ha, Nat.add_0_r, Nat.ltb_irrefl. symmetry.
    assert (G : forall xs, (forall b, In b xs -> s <= lm_id b) -> filter (fun m => lm_id m <? s) xs = []).
    { induction xs as [|b xs IHx]; intros Hx; [reflexivity|]. cbn [filter].
      destruct (Nat.ltb_spec (lm_id b) s) as [Hlt|_]; [specialize (Hx b (or_introl eq_refl)); lia|].
      apply IHx. intros; apply Hx; now right. }
    apply G. intros b Hb. apply (in_map lm_id) in Hb. rewrite Hr in Hb. apply in_seq in Hb. lia.
  - rewrite Ha. destruct (Nat.ltb_spec s (s + S j)) as [_|N]; [|lia]. f_equal.
    rewrite (IH (S s) j Hr). replace (S s + j) with (s + S j) by lia. reflexivity.
Qed.

Definition before (j : nat) (m : lmsg) : bool := lm_id m <? j.

(* a prefix of the captured log = the messages with identity below j *)
Lemma firstn_llin f j : firstn j (llin f) = filter (before j) (llin f).
Proof. apply (firstn_filter_id _ 0 j). apply llin_ids. Qed.

Lemma filter_all {A} (P : A -> bool) xs : (forall x, In x xs -> P x = true) -> filter P xs = xs.
Proof.
  induction xs as [|x xs IH]; intros H; [reflexivity|]. cbn [filter].
  rewrite (H x (or_introl eq_refl)), IH; [reflexivity|]. intros; apply H; now right.
Qed.

Lemma filter_none {A} (P : A -> bool) xs : (forall x, In x xs -> P x = false) -> filter P xs = [].
Proof.
  induction xs as [|x xs IH]; intros H; [reflexivity|]. cbn [filter].
  rewrite (H x (or_introl eq_refl)), IH; [reflexivity|]. intros; apply H; now right.
Qed.

Lemma Forall_filter {A} (Q : A -> Prop) (P : A -> bool) xs : Forall Q xs -> Forall Q (filter P xs).
Proof.
  rewrite !Forall_forall. intros H x Hx. apply filter_In in Hx as [Hx _]. now apply H.
Qed.

(* ---- first and last message of a block ------------------------------------------------------ *)

Lemma llin_list_last idf u l ty st cs : forall pos,
  exists X, llin_list idf u l ty st pos cs = X ++ [lend idf u l ty st (endpos pos cs)].
Proof.
  induction cs as [|c r IH]; intros pos; cbn [llin_list endpos]; [now exists []|].
  destruct (IH (Pos.succ pos)) as (X & ->). exists (llin_tree idf u (l ++ [pos]) c ++ X).
  now rewrite app_assoc.
Qed.

Lemma llin_tree_last idf u t l : exists X, llin_tree idf u l t = X ++ [end_of idf u l t].
Proof.
  destruct t as [ty|ty st ch]; [now exists []|]. rewrite llin_tree_act. cbn [end_of].
  destruct (llin_list_last idf u l ty st ch 2) as (X & ->). now exists (lstart idf u l ty :: X).
Qed.

Lemma llin_tree_first idf u t l : exists Y, llin_tree idf u l t = start_of idf u l t :: Y.
Proof. destruct t as [ty|ty st ch]; [now exists []|]. rewrite llin_tree_act. eexists. reflexivity. Qed.

Lemma end_in idf u t l : In (end_of idf u l t) (llin_tree idf u l t).
Proof. destruct (llin_tree_last idf u t l) as (X & ->). apply in_app_iff. right. now left. Qed.

Lemma start_in idf u t l : In (start_of idf u l t) (llin_tree idf u l t).
Proof. destruct (llin_tree_first idf u t l) as (Y & ->). now left. Qed.

Lemma block_le_end idf u t l m :
  Inc (llin_tree idf u l t) -> In m (llin_tree idf u l t) -> lm_id m <= lm_id (end_of idf u l t).
Proof.
  destruct (llin_tree_last idf u t l) as (X & ->). intros HI Hm.
  apply Inc_app in HI as (_ & _ & H). apply in_app_iff in Hm as [Hm|[<-|[]]]; [|lia].
  specialize (H m _ Hm (or_introl eq_refl)). lia.
Qed.

Lemma block_ge_start idf u t l m :
  Inc (llin_tree idf u l t) -> In m (llin_tree idf u l t) -> lm_id (start_of idf u l t) <= lm_id m.
Proof.
  destruct (llin_tree_first idf u t l) as (Y & ->). intros HI [<-|Hm]; [lia|].
  inversion HI as [|? ? _ HF]; subst. rewrite Forall_forall in HF. specialize (HF m Hm). lia.
Qed.

Lemma Seg_Inc idf L u l c : Seg idf L u l c -> Inc L -> Inc (llin_tree idf u l c).
Proof.
  intros (PRE & POST & -> & _) HI. apply Inc_app in HI as (_ & HI & _). now apply Inc_app in HI as (HI & _).
Qed.

(* a block whose end message is in the prefix is in the prefix entirely *)
Lemma Seg_filter idf L u l c j :
  Seg idf L u l c -> Inc L -> lm_id (end_of idf u l c) < j -> Seg idf (filter (before j) L) u l c.
Proof.
  intros HS HI Hj. pose proof (Seg_Inc _ _ _ _ _ HS HI) as HIc.
  destruct HS as (PRE & POST & -> & HP & HQ).
  exists (filter (before j) PRE), (filter (before j) POST). rewrite !filter_app. split; [|split; now apply Forall_filter].
  f_equal. f_equal. apply filter_all. intros m Hm. unfold before. apply Nat.ltb_lt.
  pose proof (block_le_end _ _ _ _ _ HIc Hm). lia.
Qed.

(* ---- the loop on a cut block -------------------------------------------------------------------- *)

Section Cut.
  Variable idf : level -> nat.
  Variable u : nat.
  Variable rec : level -> tres logged.
  Variable l : level.
  Variable j : nat.

  Lemma scan_cut ty st0 s cs : forall pos acc,
    Inc (llin_list idf u l ty st0 pos cs) ->
    j <= lm_id (lend idf u l ty st0 (endpos pos cs)) ->
    (forall p c, child_from pos cs p = Some c -> is_act c = true ->
       lm_id (end_of idf u (l ++ [p]) c) < j ->
       rec ((l ++ [p]) ++ [1%positive]) = TOk (logged_of idf u (l ++ [p]) c)) ->
    (forall p c, child_from pos cs p = Some c -> is_act c = true ->
       lm_id (start_of idf u (l ++ [p]) c) < j -> j <= lm_id (end_of idf u (l ++ [p]) c) ->
       rec ((l ++ [p]) ++ [1%positive]) = TValueError) ->
    scan_gen rec u l (filter (before j) (llin_list idf u l ty st0 pos cs)) (Some s) None acc = TValueError.
  Proof.
    induction cs as [|c cs IH]; intros pos acc HI Hend H1 H2; cbn [llin_list endpos] in *.
    - cbn [filter]. unfold before. destruct (Nat.ltb_spec (lm_id (lend idf u l ty st0 pos)) j); [lia|reflexivity].
    - apply Inc_app in HI as (HIc & HIr & Hcross).
      assert (H1' : forall p c', child_from (Pos.succ pos) cs p = Some c' -> is_act c' = true ->
                 lm_id (end_of idf u (l ++ [p]) c') < j ->
                 rec ((l ++ [p]) ++ [1%positive]) = TOk (logged_of idf u (l ++ [p]) c')).
      { intros p c' Hp. apply H1. cbn [child_from]. pose proof (child_from_range _ _ _ _ Hp) as [Hle _].
        destruct (Pos.eqb_spec p pos); [lia|exact Hp]. }
      assert (H2' : forall p c', child_from (Pos.succ pos) cs p = Some c' -> is_act c' = true ->
                 lm_id (start_of idf u (l ++ [p]) c') < j -> j <= lm_id (end_of idf u (l ++ [p]) c') ->
                 rec ((l ++ [p]) ++ [1%positive]) = TValueError).
      { intros p c' Hp. apply H2. cbn [child_from]. pose proof (child_from_range _ _ _ _ Hp) as [Hle _].
        destruct (Pos.eqb_spec p pos); [lia|exact Hp]. }
      assert (Hpos : child_from pos (c :: cs) pos = Some c) by (cbn [child_from]; now rewrite Pos.eqb_refl).
      rewrite filter_app.
      destruct (Nat.ltb_spec (lm_id (end_of idf u (l ++ [pos]) c)) j) as [Hlt|Hge].
      + (* the child is entirely in the prefix *)
        rewrite (filter_all (before j) (llin_tree idf u (l ++ [pos]) c)).
        2:{ intros m Hm. unfold before. apply Nat.ltb_lt. pose proof (block_le_end _ _ _ _ _ HIc Hm). lia. }
        destruct c as [ty'|ty' st' ch'].
        * cbn [llin_tree app]. rewrite scan_plain. now apply IH.
        * rewrite llin_tree_act. cbn [app]. rewrite scan_child_start.
          rewrite (H1 pos _ Hpos eq_refl Hlt). rewrite <- app_assoc || idtac.
          rewrite scan_skip; [now apply IH|].
          apply Forall_forall. intros m Hm. apply llin_list_levels in Hm as (_ & p' & rest & E & Hp).
          eapply deep_skips; eassumption.
      + (* the child is cut: nothing after it is in the prefix *)
        rewrite (filter_none (before j) (llin_list idf u l ty st0 (Pos.succ pos) cs)), app_nil_r.
        2:{ intros m Hm. unfold before. apply Nat.ltb_ge.
            specialize (Hcross _ m (end_in idf u c (l ++ [pos])) Hm). lia. }
        destruct c as [ty'|ty' st' ch'].
        * cbn [llin_tree filter end_of] in *. unfold before.
          destruct (Nat.ltb_spec (lm_id (lplain idf u (l ++ [pos]) ty')) j); [lia|reflexivity].
        * destruct (Nat.ltb_spec (lm_id (start_of idf u (l ++ [pos]) (TAct ty' st' ch'))) j) as [Hs|Hs].
          -- rewrite llin_tree_act. cbn [filter]. cbn [start_of] in Hs. unfold before at 1.
             destruct (Nat.ltb_spec (lm_id (lstart idf u (l ++ [pos]) ty')) j); [|lia].
             rewrite scan_child_start. now rewrite (H2 pos _ Hpos eq_refl Hs Hge).
          -- rewrite filter_none; [reflexivity|]. intros m Hm. unfold before. apply Nat.ltb_ge.
             pose proof (block_ge_start _ _ _ _ _ HIc Hm). lia.
  Qed.
End Cut.

(* ---- fromMessages on a prefix that cuts the action ------------------------------------------------ *)

Theorem from_messages_cut idf u j a : forall l fuel L,
  is_act a = true -> Seg idf L u l a -> Inc L ->
  max_depth (filter (before j) L) < fuel + length l ->
  lm_id (start_of idf u l a) < j -> j <= lm_id (end_of idf u l a) ->
  from_messages fuel u (l ++ [1%positive]) (filter (before j) L) = TValueError.
Proof.
  induction a as [ty|ty st ch IHch] using tree_ind'; intros l fuel L HA HS HI Hf Hs He; [discriminate|].
  cbn [start_of end_of] in Hs, He.
  assert (Hst : In (lstart idf u l ty) (filter (before j) L)).
  { apply filter_In. split; [|unfold before; now apply Nat.ltb_lt].
    eapply Seg_incl; [exact HS|]. apply (start_in idf u (TAct ty st ch)). }
  apply max_depth_ge in Hst. cbn [lstart mk_lmsg lm_level] in Hst. rewrite app_length in Hst. cbn [length] in Hst.
  destruct fuel as [|fuel]; [lia|].
  rewrite from_messages_unfold. unfold prefix_of at 1. rewrite removelast_last.
  set (rec := fun lv => from_messages fuel u lv (filter (before j) L)).
  assert (H1 : forall p c, child_from 2 ch p = Some c -> is_act c = true ->
            lm_id (end_of idf u (l ++ [p]) c) < j ->
            rec ((l ++ [p]) ++ [1%positive]) = TOk (logged_of idf u (l ++ [p]) c)).
  { intros p c Hp Hc Hlt. unfold rec.
    assert (HSc : Seg idf (filter (before j) L) u (l ++ [p]) c).
    { apply Seg_filter; [eapply Seg_child; eassumption|exact HI|exact Hlt]. }
    apply from_messages_core; [exact Hc|exact HSc|].
    destruct (deep_message idf u c (l ++ [p])) as (m & Hm & Hlen).
    pose proof (max_depth_ge _ m (Seg_incl _ _ _ _ _ _ HSc Hm)). rewrite app_length in Hlen. cbn [length] in Hlen. lia. }
  assert (H2 : forall p c, child_from 2 ch p = Some c -> is_act c = true ->
            lm_id (start_of idf u (l ++ [p]) c) < j -> j <= lm_id (end_of idf u (l ++ [p]) c) ->
            rec ((l ++ [p]) ++ [1%positive]) = TValueError).
  { intros p c Hp Hc Hlt Hge. unfold rec. rewrite Forall_forall in IHch.
    apply (IHch c (child_from_in _ _ _ _ Hp)); try assumption.
    - eapply Seg_child; eassumption.
    - rewrite app_length. cbn [length]. lia. }
  clearbody rec.
  pose proof (Seg_Inc _ _ _ _ _ HS HI) as HIa.
  destruct HS as (PRE & POST & E & HP & HQ). subst L. rewrite llin_tree_act in HI, HIa |- *. rewrite !filter_app. cbn [filter].
  unfold before at 2. destruct (Nat.ltb_spec (lm_id (lstart idf u l ty)) j); [|lia].
  rewrite scan_skip by (apply Forall_filter; eapply Forall_impl; [|exact HP]; intros m; apply outside_skips).
  cbn [app]. rewrite scan_start.
  apply Inc_app in HI as (_ & HI & _). apply Inc_app in HI as (_ & _ & Hcross).
  rewrite (filter_none (before j) POST), app_nil_r.
  2:{ intros m Hm. unfold before. apply Nat.ltb_ge.
      assert (Hin : In (lend idf u l ty st (endpos 2 ch)) (lstart idf u l ty :: llin_list idf u l ty st 2 ch)).
      { rewrite <- llin_tree_act. apply (end_in idf u (TAct ty st ch)). }
      specialize (Hcross _ m Hin Hm). lia. }
  inversion HIa as [|? ? HIl _]; subst.
  now apply scan_cut.
Qed.

(* ---- of_type on a prefix of the log ------------------------------------------------------------------ *)

Lemma collect_decide {A B} (g : A -> tres B) (h : A -> B) (b : A -> bool) xs :
  (forall x, In x xs -> g x = if b x then TOk (h x) else TValueError) ->
  collect (map g xs) = if forallb b xs then TOk (map h xs) else TValueError.
Proof.
  induction xs as [|x xs IH]; intros H; [reflexivity|]. cbn [map collect forallb].
  rewrite (H x (or_introl eq_refl)). destruct (b x); [|reflexivity]. cbn [andb].
  rewrite IH by (intros; apply H; now right). now destruct (forallb b xs).
Qed.

Lemma filter_comm {A} (P Q : A -> bool) xs : filter P (filter Q xs) = filter Q (filter P xs).
Proof.
  induction xs as [|x xs IH]; [reflexivity|]. cbn [filter].
  destruct (P x) eqn:EP, (Q x) eqn:EQ; cbn [filter]; rewrite ?EP, ?EQ, IH; reflexivity.
Qed.

(* the actions of type ty whose start message is among the first j messages *)
Definition started_of_type (f : forest) (ty : positive) (j : nat) : list (nat * level * tree) :=
  filter (fun x => lm_id (start_at f x) <? j) (acts_of_type f ty).

Definition ended (f : forest) (j : nat) (x : nat * level * tree) : bool := lm_id (end_at f x) <? j.

Theorem of_type_truncated f ty j :
  of_type (firstn j (llin f)) ty =
  if forallb (ended f j) (started_of_type f ty j)
  then TOk (map (logged_at f) (started_of_type f ty j))
  else TValueError.
Proof.
  rewrite firstn_llin. unfold of_type. fold (sel ty).
  rewrite filter_comm. unfold llin at 3. rewrite sel_from. fold (acts f). fold (acts_of_type f ty).
  rewrite filter_map_swap. fold (start_at f). unfold before at 2. fold (started_of_type f ty j).
  rewrite map_map. apply collect_decide. intros x Hx.
  apply filter_In in Hx as [Hx Hs]. apply filter_In in Hx as [Hx _]. apply Nat.ltb_lt in Hs.
  destruct (acts_at f x Hx) as (T & HT & Hl & HA).
  destruct x as [[u l] a]. unfold start_at, end_at, logged_at, ended in *. cbn [act_uuid act_level act_tree fst snd] in *.
  assert (HS : Seg (lin_id f u) (llin f) u l a).
  { apply (Seg_llin f u T l a HT); [eapply subtree_act_root; eassumption|exact Hl]. }
  destruct a as [|ty0 st ch]; [discriminate|]. cbn [start_of lstart mk_lmsg lm_uuid lm_level].
  unfold end_at. cbn [act_uuid act_level act_tree fst snd].
  destruct (Nat.ltb_spec (lm_id (end_of (lin_id f u) u l (TAct ty0 st ch))) j) as [He|He].
  - assert (HS' : Seg (lin_id f u) (filter (before j) (llin f)) u l (TAct ty0 st ch)).
    { apply Seg_filter; [exact HS|apply Inc_llin|exact He]. }
    apply from_messages_core; [reflexivity|exact HS'|]. eapply Seg_fuel. exact HS'.
  - apply (from_messages_cut (lin_id f u) u j (TAct ty0 st ch));
      [reflexivity|exact HS|apply Inc_llin|lia|exact Hs|exact He].
Qed.

(* membership in the prefix, in terms of identities *)
Lemma in_prefix f j m : In m (firstn j (llin f)) <-> In m (llin f) /\ lm_id m < j.
Proof. rewrite firstn_llin, filter_In. unfold before. now rewrite Nat.ltb_lt. Qed.

Lemma start_at_in f x : In x (acts f) -> In (start_at f x) (llin f).
Proof.
  intros Hx. destruct (acts_at f x Hx) as (T & HT & Hl & HA). destruct x as [[u l] a].
  unfold start_at. cbn [act_uuid act_level act_tree fst snd] in *.
  eapply Seg_incl; [apply (Seg_llin f u T l a HT); [eapply subtree_act_root; eassumption|exact Hl]|]. apply start_in.
Qed.

Lemma end_at_in f x : In x (acts f) -> In (end_at f x) (llin f).
Proof.
  intros Hx. destruct (acts_at f x Hx) as (T & HT & Hl & HA). destruct x as [[u l] a].
  unfold end_at. cbn [act_uuid act_level act_tree fst snd] in *.
  eapply Seg_incl; [apply (Seg_llin f u T l a HT); [eapply subtree_act_root; eassumption|exact Hl]|]. apply end_in.
Qed.

(* every started action of that type has its end message in the prefix: the result is the
   list of their trees (their descendants are then in the prefix as well: an action's end
   message is emitted after all messages of its descendants, [block_le_end]) *)
Theorem of_type_truncated_ok f ty j :
  (forall x, In x (acts_of_type f ty) -> In (start_at f x) (firstn j (llin f)) -> In (end_at f x) (firstn j (llin f))) ->
  of_type (firstn j (llin f)) ty = TOk (map (logged_at f) (started_of_type f ty j)).
Proof.
  intros H. rewrite of_type_truncated.
  replace (forallb (ended f j) (started_of_type f ty j)) with true; [reflexivity|].
  symmetry. apply forallb_forall. intros x Hx. apply filter_In in Hx as [Hx Hs]. apply Nat.ltb_lt in Hs.
  assert (Hx' : In x (acts f)) by (apply filter_In in Hx; apply Hx).
  unfold ended. apply Nat.ltb_lt. apply (in_prefix f j). apply H; [exact Hx|].
  apply in_prefix. split; [now apply start_at_in|exact Hs].
Qed.

(* ValueError exactly when some action of that type is started but not finished in the prefix *)
Theorem of_type_truncated_error f ty j :
  of_type (firstn j (llin f)) ty = TValueError <->
  exists x, In x (acts_of_type f ty) /\ In (start_at f x) (firstn j (llin f)) /\ ~ In (end_at f x) (firstn j (llin f)).
Proof.
  rewrite of_type_truncated. destruct (forallb (ended f j) (started_of_type f ty j)) eqn:E.
  - split; [discriminate|]. intros (x & Hx & Hs & He). exfalso. apply He.
    rewrite forallb_forall in E. apply in_prefix in Hs as [_ Hs].
    assert (Hx' : In x (acts f)) by (apply filter_In in Hx; apply Hx).
    apply in_prefix. split; [now apply end_at_in|]. apply Nat.ltb_lt. apply (E x).
    apply filter_In. split; [exact Hx|now apply Nat.ltb_lt].
  - split; [|reflexivity]. intros _.
    assert (G : exists x, In x (started_of_type f ty j) /\ ended f j x = false).
    { clear -E. induction (started_of_type f ty j) as [|x xs IH]; [discriminate|]. cbn [forallb] in E.
      destruct (ended f j x) eqn:Ex.
      - destruct (IH E) as (y & Hy & Ey). exists y. split; [now right|exact Ey].
      - exists x. split; [now left|exact Ex]. }
    destruct G as (x & Hx & Ex). apply filter_In in Hx as [Hx Hs]. apply Nat.ltb_lt in Hs.
    assert (Hx' : In x (acts f)) by (apply filter_In in Hx; apply Hx).
    exists x. split; [exact Hx|]. split.
    + apply in_prefix. split; [now apply start_at_in|exact Hs].
    + intros He. apply in_prefix in He as [_ He]. unfold ended in Ex. apply Nat.ltb_ge in Ex. lia.
Qed.

(* the messages of a sub-action lie inside the block of the enclosing action *)
Lemma sub_incl idf u T x l c m :
  subtree_at T x = Some c -> In m (llin_tree idf u (l ++ x) c) -> In m (llin_tree idf u l T).
Proof.
  intros Hx Hm.
  assert (HS : Seg idf (llin_tree idf u l T) u l T).
  { exists [], []. rewrite app_nil_r. split; [reflexivity|]. split; constructor. }
  eapply Seg_incl; [eapply Seg_sub; [exact HS|exact Hx]|exact Hm].
Qed.

(* the same, with the descendants spelled out: ValueError exactly when some started action
   of that type, or some started action below it, lacks its end message in the prefix *)
Theorem of_type_truncated_error_desc f ty j :
  of_type (firstn j (llin f)) ty = TValueError <->
  exists x rel y,
    In x (acts_of_type f ty) /\ In (start_at f x) (firstn j (llin f)) /\
    subtree_at (act_tree x) rel = Some y /\ is_act y = true /\
    In (start_at f (act_uuid x, act_level x ++ rel, y)) (firstn j (llin f)) /\
    ~ In (end_at f (act_uuid x, act_level x ++ rel, y)) (firstn j (llin f)).
Proof.
  rewrite of_type_truncated_error. split.
  - intros (x & Hx & Hs & He). exists x, [], (act_tree x).
    assert (Hx' : In x (acts f)) by (apply filter_In in Hx; apply Hx).
    destruct (acts_at f x Hx') as (T & _ & _ & HA).
    destruct x as [[u l] a]. cbn [act_uuid act_level act_tree fst snd] in *. rewrite app_nil_r. auto 10.
  - intros (x & rel & y & Hx & Hs & Hr & HAy & Hsy & Hey). exists x. split; [exact Hx|]. split; [exact Hs|].
    intros He. apply Hey.
    assert (Hx' : In x (acts f)) by (apply filter_In in Hx; apply Hx).
    destruct (acts_at f x Hx') as (T & HT & Hl & HA).
    destruct x as [[u l] a]. cbn [act_uuid act_level act_tree fst snd] in *.
    assert (Hy' : In (u, l ++ rel, y) (acts f)).
    { apply acts_In. exists T. split; [exact HT|]. split; [|exact HAy]. now rewrite subtree_at_app, Hl. }
    apply in_prefix. split; [now apply end_at_in|]. apply in_prefix in He as [_ He].
    unfold end_at in *. cbn [act_uuid act_level act_tree fst snd] in *.
    assert (HS : Seg (lin_id f u) (llin f) u l a).
    { apply (Seg_llin f u T l a HT); [eapply subtree_act_root; eassumption|exact Hl]. }
    pose proof (Seg_Inc _ _ _ _ _ HS (Inc_llin f)) as HIa.
    pose proof (block_le_end _ _ _ _ _ HIa (sub_incl _ _ _ _ _ _ _ Hr (end_in (lin_id f u) u y (l ++ rel)))). lia.
Qed.

(* never TFuel *)
Corollary of_type_truncated_total f ty j : of_type (firstn j (llin f)) ty <> TFuel.
Proof. rewrite of_type_truncated. destruct (forallb _ _); discriminate. Qed.

(* ---- examples ------------------------------------------------------------------------------------------ *)

(* the first 9 messages of [ex17]: the root of task 0 (type 10) and its child of type 10 at [3]
   are started and not finished; the action of type 10 at [3;4] (messages 6..8) and the
   remote-style action of type 4 (messages 4, 5) are complete *)
Example ex17_cut_error :
  of_type (firstn 9 (llin ex17)) 10 = TValueError
  /\ map (fun x => (act_level x, ended ex17 9 x)) (started_of_type ex17 10 9)
     = [([], false); ([3%positive], false); ([3;4]%positive, true)]
  /\ of_type (firstn 9 (llin ex17)) 4
     = TOk [logged_at ex17 (0, [3;3]%positive, TAct 4 PSucceeded [])]
  /\ of_type (firstn 9 (llin ex17)) 12 = TOk [].
Proof. vm_compute. repeat split; reflexivity. Qed.

(* the first 15 messages: tasks 0 and 1 complete, task 2 not started *)
Example ex17_cut_ok :
  (forall x, In x (acts_of_type ex17 10) -> In (start_at ex17 x) (firstn 15 (llin ex17)) ->
             In (end_at ex17 x) (firstn 15 (llin ex17)))
  /\ of_type (firstn 15 (llin ex17)) 10 = TOk (map (logged_at ex17) (started_of_type ex17 10 15))
  /\ map act_level (started_of_type ex17 10 15) = [[]; [3]; [3;4]; [5]]%positive
  /\ of_type (firstn 16 (llin ex17)) 10 = TValueError.
Proof.
  split; [|vm_compute; repeat split; reflexivity].
  intros x Hx Hs. apply in_prefix in Hs as [_ Hs]. apply in_prefix.
  split; [apply end_at_in; apply filter_In in Hx; apply Hx|].
  vm_compute in Hx. repeat (destruct Hx as [<-|Hx]; [vm_compute in Hs |- *; lia|]). destruct Hx.
Qed.
