(* Output stage: Destinations.send and everything that reaches it (C08, and the
   destination-related parts of C07).

   Central notion: [ext l s s'] -- going from s to s' the set of registered
   destinations is unchanged (ids, behaviours, order, the removed ones, the
   global fields) and EVERY registered destination was offered exactly the
   list l, in that order: its log grew by l and its call counter by length l.
   [emits l s s'] is the same with l replaced by [] while no destination was
   ever added (the messages then go to the buffer). *)
From Coq Require Import List PArith NArith ZArith Bool Arith Lia.
Require Import Eliot.Base.Level Eliot.Model.Core Eliot.Model.Prog Eliot.Proofs.CoreBasics.
Import ListNotations.

(* ---- concrete states for the examples --------------------------------------------- *)
Definition ex_cfg : config := mk_config [] [].
Definition ex_exA : exn := mkExn 1 C_Exception 7%positive false.
Definition ex_exB : exn := mkExn 2 C_Exception 8%positive true.     (* str(e) raises *)
(* a healthy destination, a permanently broken one, one that fails on its first call only *)
Definition ex_ds3 : list dest :=
  [mk_dest 0 BNever ex_exA; mk_dest 1 BAlways ex_exA; mk_dest 2 (BMask [true; false]) ex_exB].
Definition ex_s3 : state := api ex_cfg 0 init_state (OAddDests ex_ds3).
Definition ex_m0 : msg := mkfields [(K_mtype, VAtom 20%positive); (11%positive, VInt 5)].
(* the same with a global field that overrides message_type *)
Definition ex_s3g : state := api ex_cfg 0 ex_s3 (OAddGlobals [(K_mtype, VAtom 21%positive)]).
(* a message that is itself an eliot:destination_failure report *)
Definition ex_mrep : msg := mkfields [(K_mtype, VTypeName T_destination_failure)].

(* ---- fields ------------------------------------------------------------------ *)
Lemma fget_fupdate_none k upd : forall m, fget k upd = None -> fget k (fupdate m upd) = fget k m.
Proof.
  unfold fupdate. induction upd as [|[k' v'] r IH]; intros m H; cbn [fold_left fst snd]; [reflexivity|].
  cbn [fget] in H. destruct (Pos.eqb_spec k k') as [->|Hne]; [discriminate|].
  rewrite IH by exact H. apply fget_fset_other. congruence.
Qed.

Lemma stamp_mtype u l mt fs : fget K_mtype (stamp u l mt fs) = Some mt.
Proof. unfold stamp. apply fget_fset_same. Qed.

(* a message carrying the library's eliot:destination_failure type *)
Definition rep_msg (r : msg) : Prop := fget K_mtype r = Some (VTypeName T_destination_failure).

Lemma rep_msg_is_report r : rep_msg r -> is_report r = true.
Proof. unfold rep_msg, is_report. now intros ->. Qed.

Lemma is_report_rep_msg r : is_report r = true -> rep_msg r.
Proof.
  unfold rep_msg, is_report. destruct (fget K_mtype r) as [[]|]; try discriminate.
  intros H. apply Pos.eqb_eq in H. now subst.
Qed.

(* ---- the relation -------------------------------------------------------------- *)
Record ext0 (l : list msg) (s s' : state) : Prop := mkExt0 {
  x_any : any_added s' = any_added s;
  x_gone : gone s' = gone s;
  x_ids : map d_id (dests s') = map d_id (dests s);
  x_beh : map d_behave (dests s') = map d_behave (dests s);
  x_log : map d_log (dests s') = map (fun x => x ++ l) (map d_log (dests s));
  x_calls : map d_calls (dests s') = map (fun n => n + length l) (map d_calls (dests s))
}.

Definition ext (l : list msg) (s s' : state) : Prop := ext0 l s s' /\ globals s' = globals s.

(* C08: all registered destinations were offered the same list *)
Definition uniform (s s' : state) : Prop := exists l, ext0 l s s'.

Lemma map_app_nil {A} (L : list (list A)) : map (fun x => x ++ []) L = L.
Proof. rewrite <- (map_id L) at 2. apply map_ext. intros; apply app_nil_r. Qed.

Lemma map_add_0 (L : list nat) : map (fun n => n + 0) L = L.
Proof. rewrite <- (map_id L) at 2. apply map_ext. intros; lia. Qed.

Lemma ext0_refl s : ext0 [] s s.
Proof. constructor; auto; cbn [length]; [now rewrite map_app_nil | now rewrite map_add_0]. Qed.

Lemma ext0_of_eq s s' :
  any_added s' = any_added s -> gone s' = gone s -> dests s' = dests s -> ext0 [] s s'.
Proof.
  intros A G D. destruct (ext0_refl s) as [a b c d e f].
  constructor; rewrite ?A, ?G, ?D; assumption.
Qed.

Lemma ext0_trans l1 l2 s1 s2 s3 : ext0 l1 s1 s2 -> ext0 l2 s2 s3 -> ext0 (l1 ++ l2) s1 s3.
Proof.
  intros [a1 b1 c1 d1 e1 f1] [a2 b2 c2 d2 e2 f2]. constructor; try congruence.
  - rewrite e2, e1, map_map. apply map_ext. intros; now rewrite app_assoc.
  - rewrite f2, f1, map_map. apply map_ext. intros; rewrite app_length; lia.
Qed.

Lemma ext_refl s : ext [] s s.
Proof. split; [apply ext0_refl | reflexivity]. Qed.

Lemma ext_of_eq s s' :
  any_added s' = any_added s -> gone s' = gone s -> dests s' = dests s -> globals s' = globals s ->
  ext [] s s'.
Proof. intros. split; [now apply ext0_of_eq | assumption]. Qed.

Lemma ext_trans l1 l2 s1 s2 s3 : ext l1 s1 s2 -> ext l2 s2 s3 -> ext (l1 ++ l2) s1 s3.
Proof. intros [H1 G1] [H2 G2]. split; [eapply ext0_trans; eassumption | congruence]. Qed.

Lemma uniform_refl s : uniform s s.
Proof. exists []. apply ext0_refl. Qed.

Lemma uniform_trans s1 s2 s3 : uniform s1 s2 -> uniform s2 s3 -> uniform s1 s3.
Proof. intros [l1 H1] [l2 H2]. exists (l1 ++ l2). eapply ext0_trans; eassumption. Qed.

Lemma ext_uniform l s s' : ext l s s' -> uniform s s'.
Proof. intros [H _]. now exists l. Qed.

(* "only once destinations exist" *)
Definition oi (b : bool) (l : list msg) : list msg := if b then l else [].

Lemma oi_app b l1 l2 : oi b l1 ++ oi b l2 = oi b (l1 ++ l2).
Proof. now destruct b. Qed.

Definition emits (l : list msg) (s s' : state) : Prop := ext (oi (any_added s) l) s s'.

Lemma emits_refl s : emits [] s s.
Proof. unfold emits. replace (oi (any_added s) []) with (@nil msg) by now destruct (any_added s). apply ext_refl. Qed.

Lemma emits_of_eq s s' :
  any_added s' = any_added s -> gone s' = gone s -> dests s' = dests s -> globals s' = globals s ->
  emits [] s s'.
Proof.
  intros. unfold emits. replace (oi (any_added s) []) with (@nil msg) by now destruct (any_added s).
  now apply ext_of_eq.
Qed.

Lemma emits_any l s s' : emits l s s' -> any_added s' = any_added s.
Proof. intros [[] _]; assumption. Qed.

Lemma emits_globals l s s' : emits l s s' -> globals s' = globals s.
Proof. intros [_ G]; assumption. Qed.

Lemma emits_trans l1 l2 s1 s2 s3 : emits l1 s1 s2 -> emits l2 s2 s3 -> emits (l1 ++ l2) s1 s3.
Proof.
  intros H1 H2. unfold emits in *. rewrite (emits_any _ _ _ H1) in H2.
  rewrite <- oi_app. eapply ext_trans; eassumption.
Qed.

Lemma emits_ext l s s' : any_added s = true -> emits l s s' -> ext l s s'.
Proof. unfold emits. now intros ->. Qed.

Lemma emits_uniform l s s' : emits l s s' -> uniform s s'.
Proof. apply ext_uniform. Qed.

(* ---- fan-out and deliver -------------------------------------------------------- *)
Lemma fanout_maps m ds :
  map d_id (fst (fanout m ds)) = map d_id ds /\
  map d_behave (fst (fanout m ds)) = map d_behave ds /\
  map d_calls (fst (fanout m ds)) = map (fun n => n + 1) (map d_calls ds).
Proof.
  induction ds as [|d r IH]; cbn [fanout]; [cbn; auto|].
  destruct (fanout m r) as [r' e1]. cbn [fst map] in *. destruct IH as (-> & -> & ->).
  split; [reflexivity|]. split; [reflexivity|]. f_equal. cbn. lia.
Qed.

Lemma failures_le m ds : length (flat_map (failure_of m) ds) <= length ds.
Proof.
  induction ds as [|d r IH]; cbn [flat_map length]; [lia|].
  rewrite app_length. unfold failure_of at 1. destruct (d_behave d (d_calls d) m); cbn [length]; lia.
Qed.

Lemma deliver_emits s m :
  emits [m] s (fst (deliver s m)) /\
  snd (deliver s m) = if any_added s then flat_map (failure_of m) (dests s) else [].
Proof.
  unfold deliver, emits. destruct (any_added s) eqn:A.
  - pose proof (fanout_spec m (dests s)) as [_ Hs].
    pose proof (fanout_maps m (dests s)) as (Hi & Hb & Hc).
    pose proof (fanout_logs m (dests s)) as Hl.
    destruct (fanout m (dests s)) as [ds errs]. cbn [fst snd oi] in *.
    split; [|exact Hs]. split; [|reflexivity].
    constructor; cbn; auto.
  - cbn [fst snd oi]. split; [|reflexivity]. apply ext_of_eq; cbn; congruence.
Qed.

(* ---- positions: no output ---------------------------------------------------------- *)
Lemma take_level_emits s h : emits [] s (fst (take_level s h)).
Proof.
  unfold take_level. destruct (alookup h (heap s)) as [a|]; [|apply emits_refl].
  destruct (next_level a) as [a' l]. cbn [fst]. apply emits_of_eq; reflexivity.
Qed.

Lemma msg_position_emits s c : emits [] s (fst (fst (msg_position s c))).
Proof.
  unfold msg_position. destruct (cur s c) as [h|].
  - pose proof (take_level_emits s h) as H. destruct (take_level s h) as [s1 l]. exact H.
  - cbn. apply emits_of_eq; reflexivity.
Qed.

Lemma stamp_here_emits s c mt fs :
  emits [] s (fst (stamp_here s c mt fs)) /\
  exists u l, snd (stamp_here s c mt fs) = stamp u l mt fs.
Proof.
  unfold stamp_here. pose proof (msg_position_emits s c) as H.
  destruct (msg_position s c) as [[s1 u] l]. cbn [fst snd] in *. split; [exact H | eauto].
Qed.

(* ---- reports ------------------------------------------------------------------------ *)
Lemma send_report_emits s m : emits [fupdate m (globals s)] s (send_report s m).
Proof. unfold send_report. apply deliver_emits. Qed.

(* the report message of one collected failure: class name, safeunicode text and the
   rendering of the affected message, stamped with some position, plus global fields *)
Definition report_fields (about : msg) (e : exn) : fields :=
  fset K_message (render_of about)
    (fset K_exception (VClassName (e_cls e)) (fset K_reason (safe_str e) [])).

Definition is_report_of (g : fields) (about : msg) (e : exn) (r : msg) : Prop :=
  exists u l, r = fupdate (stamp u l (VTypeName T_destination_failure) (report_fields about e)) g.

Lemma is_report_of_rep_msg g about e r :
  fget K_mtype g = None -> is_report_of g about e r -> rep_msg r.
Proof.
  intros G (u & l & ->). unfold rep_msg. rewrite fget_fupdate_none by exact G. apply stamp_mtype.
Qed.

Lemma is_report_of_content g about e r :
  fget K_mtype g = None -> fget K_exception g = None -> fget K_reason g = None ->
  fget K_message g = None ->
  is_report_of g about e r ->
  fget K_mtype r = Some (VTypeName T_destination_failure) /\
  fget K_exception r = Some (VClassName (e_cls e)) /\
  fget K_reason r = Some (safe_str e) /\
  fget K_message r = Some (render_of about).
Proof.
  intros G1 G2 G3 G4 (u & l & ->). rewrite !fget_fupdate_none by assumption.
  unfold stamp, report_fields. repeat split.
Qed.

Lemma log_report_emits c about s e :
  exists r, emits [r] s (log_report c about s e) /\ is_report_of (globals s) about e r.
Proof.
  unfold log_report. cbv zeta. fold (report_fields about e).
  match goal with |- context [stamp_here s c ?mt ?fs] =>
    pose proof (stamp_here_emits s c mt fs) as (H1 & u & l & Hm);
    destruct (stamp_here s c mt fs) as [s2 m] end.
  cbn [fst snd] in *. subst m.
  eexists. split.
  - change [?r] with ([] ++ [r]). eapply emits_trans; [exact H1 | apply send_report_emits].
  - rewrite (emits_globals _ _ _ H1). exists u, l. reflexivity.
Qed.

Lemma reports_emits c about errs : forall s,
  exists rs, emits rs s (fold_left (log_report c about) errs s) /\
             Forall2 (is_report_of (globals s) about) errs rs.
Proof.
  induction errs as [|e r IH]; intros s; cbn [fold_left].
  - exists []. split; [apply emits_refl | constructor].
  - destruct (log_report_emits c about s e) as (x & Hx & Px).
    destruct (IH (log_report c about s e)) as (rs & Hrs & Prs).
    exists (x :: rs). split.
    + change (x :: rs) with ([x] ++ rs). eapply emits_trans; eassumption.
    + constructor; [exact Px|]. now rewrite (emits_globals _ _ _ Hx) in Prs.
Qed.

(* ---- Destinations.send ------------------------------------------------------------- *)
(* number of reports one send produces *)
(* (whether the message is a report is decided on the message as logged, the
   destinations are called with the global fields merged in) *)
Definition n_reports (s : state) (m : msg) : nat :=
  if is_report m then 0 else length (flat_map (failure_of (fupdate m (globals s))) (dests s)).

(* the failures one send reports: none for a report message, none before the first add *)
Definition reported (s : state) (m : msg) : list exn :=
  if is_report m then []
  else if any_added s then flat_map (failure_of (fupdate m (globals s))) (dests s) else [].

Lemma send_emits_full c s m :
  exists rs, emits (fupdate m (globals s) :: rs) s (send c s m) /\
             Forall2 (is_report_of (globals s) (fupdate m (globals s)))
                     (reported s m) rs.
Proof.
  unfold send, reported. cbv zeta. set (m' := fupdate m (globals s)).
  pose proof (deliver_emits s m') as [H1 He]. destruct (deliver s m') as [s1 errs].
  cbn [fst snd] in *. destruct (is_report m).
  - exists []. split; [exact H1 | constructor].
  - destruct (reports_emits c m' errs s1) as (rs & Hrs & Prs).
    exists rs. split.
    + change (m' :: rs) with ([m'] ++ rs). eapply emits_trans; eassumption.
    + rewrite (emits_globals _ _ _ H1) in Prs. now subst errs.
Qed.

Lemma Forall2_len {A B} (R : A -> B -> Prop) l l' : Forall2 R l l' -> length l = length l'.
Proof. induction 1; cbn; congruence. Qed.

Lemma send_emits c s m :
  exists rs, emits (fupdate m (globals s) :: rs) s (send c s m) /\
             (any_added s = true -> length rs = n_reports s m) /\
             (any_added s = false -> rs = []) /\
             (fget K_mtype (globals s) = None -> Forall rep_msg rs).
Proof.
  destruct (send_emits_full c s m) as (rs & H & P). exists rs. split; [exact H|].
  unfold reported, n_reports in *. split; [|split].
  - intros A. rewrite A in P. apply Forall2_len in P.
    destruct (is_report _); cbn [length] in P; symmetry; exact P.
  - intros A. rewrite A in P. destruct (is_report _); now inversion P.
  - intros G. clear H. induction P as [|e r errs rs' Hr _ IH]; constructor; [|exact IH].
    eapply is_report_of_rep_msg; eassumption.
Qed.

(* C08.1: with destinations registered, every one of them is offered the same list
   m' :: reports *)
Theorem send_uniform c s m :
  any_added s = true ->
  exists reports,
    map d_log (dests (send c s m)) =
      map (fun x => x ++ fupdate m (globals s) :: reports) (map d_log (dests s)) /\
    map d_id (dests (send c s m)) = map d_id (dests s) /\
    map d_behave (dests (send c s m)) = map d_behave (dests s).
Proof.
  intros A. destruct (send_emits c s m) as (rs & H & _). apply (emits_ext _ _ _ A) in H.
  destruct H as [[] _]. exists rs. auto.
Qed.

Example send_uniform_ex :
  any_added ex_s3 = true /\
  exists r1 r2,
    map d_log (dests (send 0 ex_s3 ex_m0)) = [[ex_m0; r1; r2]; [ex_m0; r1; r2]; [ex_m0; r1; r2]] /\
    is_report r1 = true /\ is_report r2 = true /\ r1 <> r2.
Proof.
  split; [reflexivity|]. eexists; eexists. split; [vm_compute; reflexivity|].
  split; [reflexivity|]. split; [reflexivity | discriminate].
Qed.

(* C08.2: one report per failing destination, all after the message itself *)
Theorem C08_report_count c s m :
  any_added s = true -> is_report m = false ->
  exists reports,
    ext (fupdate m (globals s) :: reports) s (send c s m) /\
    length (fupdate m (globals s) :: reports) =
      1 + length (flat_map (failure_of (fupdate m (globals s))) (dests s)) /\
    (* the destinations can recognise them as reports unless a global field named
       message_type overwrites their type *)
    (fget K_mtype (globals s) = None -> Forall (fun r => is_report r = true) reports).
Proof.
  intros A R. destruct (send_emits c s m) as (rs & H & Hl & _ & P).
  exists rs. split; [|split].
  - apply (emits_ext _ _ _ A H).
  - cbn [length]. rewrite (Hl A). unfold n_reports. now rewrite R.
  - intros G. eapply Forall_impl; [|exact (P G)]. intros r. apply rep_msg_is_report.
Qed.

Example C08_report_count_ex :
  any_added ex_s3 = true /\ fget K_mtype (globals ex_s3) = None /\
  is_report ex_m0 = false /\
  length (flat_map (failure_of (fupdate ex_m0 (globals ex_s3))) (dests ex_s3)) = 2 /\
  map (@length msg) (map d_log (dests (send 0 ex_s3 ex_m0))) = [3; 3; 3].
Proof. repeat split. Qed.

(* a global field named message_type: still exactly one report per failure (2 failures,
   3 messages) and none about the reports, although the permanently broken destination
   fails on each of them too -- the recursion guard looks at the message as logged ... *)
Example C08_report_count_global_mtype_ex :
  any_added ex_s3g = true /\ fget K_mtype (globals ex_s3g) = Some (VAtom 21%positive) /\
  is_report ex_m0 = false /\
  length (flat_map (failure_of (fupdate ex_m0 (globals ex_s3g))) (dests ex_s3g)) = 2 /\
  map (@length msg) (map d_log (dests (send 0 ex_s3g ex_m0))) = [3; 3; 3] /\
  map d_calls (dests (send 0 ex_s3g ex_m0)) = [3; 3; 3] /\
  map (map (fget K_mtype)) (map d_log (dests (send 0 ex_s3g ex_m0))) =
    let l := [Some (VAtom 21%positive); Some (VAtom 21%positive); Some (VAtom 21%positive)] in [l; l; l].
Proof. repeat split. Qed.

(* ... but what the destinations are handed then no longer carries the report type: the
   hypothesis of the last clause of C08_report_count is needed *)
Example C08_reports_recognisable_global_mtype_refuted :
  any_added ex_s3g = true /\ is_report ex_m0 = false /\
  ~ exists reports,
      ext (fupdate ex_m0 (globals ex_s3g) :: reports) ex_s3g (send 0 ex_s3g ex_m0) /\
      Forall (fun r => is_report r = true) reports.
Proof.
  split; [reflexivity|]. split; [reflexivity|].
  intros (reports & [[_ _ _ _ Hl _] _] & F). vm_compute in Hl.
  injection Hl as Hl _. subst reports. inversion F as [|? ? F1 _]. discriminate F1.
Qed.

(* ... one per failure, in the order of the failing destinations, each carrying the
   failing exception's class name, its safeunicode text and the rendering of the message *)
Theorem C08_report_content c s m :
  any_added s = true -> is_report m = false ->
  exists reports,
    ext (fupdate m (globals s) :: reports) s (send c s m) /\
    Forall2 (is_report_of (globals s) (fupdate m (globals s)))
            (flat_map (failure_of (fupdate m (globals s))) (dests s)) reports.
Proof.
  intros A R. destruct (send_emits_full c s m) as (rs & H & P). exists rs.
  split; [apply (emits_ext _ _ _ A H)|]. unfold reported in P. now rewrite R, A in P.
Qed.

Example C08_report_content_ex :
  flat_map (failure_of (fupdate ex_m0 (globals ex_s3))) (dests ex_s3) = [ex_exA; ex_exB] /\
  exists r1 r2,
    map d_log (dests (send 0 ex_s3 ex_m0)) = [[ex_m0; r1; r2]; [ex_m0; r1; r2]; [ex_m0; r1; r2]] /\
    is_report_of (globals ex_s3) ex_m0 ex_exA r1 /\ is_report_of (globals ex_s3) ex_m0 ex_exB r2 /\
    fget K_reason r1 = Some (VAtom 7%positive) /\ fget K_reason r2 = Some VSafeFail.
Proof.
  split; [reflexivity|]. eexists; eexists. split; [vm_compute; reflexivity|].
  split; [exists 0, [1%positive]; reflexivity|]. split; [exists 1, [1%positive]; reflexivity|].
  split; reflexivity.
Qed.

(* a failure while delivering a report is not itself reported, whatever the global
   fields are *)
Theorem C08_reports_not_reported c s m :
  any_added s = true -> is_report m = true ->
  ext [fupdate m (globals s)] s (send c s m).
Proof.
  intros A R. destruct (send_emits c s m) as (rs & H & Hl & _).
  specialize (Hl A). unfold n_reports in Hl. rewrite R in Hl. destruct rs; [|discriminate].
  apply (emits_ext _ _ _ A H).
Qed.

Example C08_reports_not_reported_ex :
  any_added ex_s3 = true /\ is_report ex_mrep = true /\
  length (flat_map (failure_of (fupdate ex_mrep (globals ex_s3))) (dests ex_s3)) = 2 /\
  map d_log (dests (send 0 ex_s3 ex_mrep)) = [[ex_mrep]; [ex_mrep]; [ex_mrep]] /\
  (* the same with the global message_type override: two destinations fail on the
     report, nothing is reported *)
  length (flat_map (failure_of (fupdate ex_mrep (globals ex_s3g))) (dests ex_s3g)) = 2 /\
  map (@length msg) (map d_log (dests (send 0 ex_s3g ex_mrep))) = [1; 1; 1].
Proof. repeat split. Qed.

(* C08.3 / C07.7: every destination is called once per appended message, failing or
   not, and one send makes at most 1 + #destinations calls to each *)
Theorem C08_later_deliveries c s m :
  any_added s = true ->
  exists l, ext l s (send c s m) /\
    map d_calls (dests (send c s m)) = map (fun n => n + length l) (map d_calls (dests s)) /\
    1 <= length l <= 1 + length (dests s).
Proof.
  intros A. destruct (send_emits c s m) as (rs & H & Hl & _).
  pose proof (emits_ext _ _ _ A H) as E. eexists. split; [exact E|]. split; [apply E|].
  cbn [length]. pose proof (Hl A) as Hn. unfold msg in *. rewrite Hn. unfold n_reports.
  pose proof (failures_le (fupdate m (globals s)) (dests s)).
  destruct (is_report _); lia.
Qed.

(* the destination that failed on its first call, and the permanently broken one, are
   called again for every later message *)
Example C08_later_deliveries_ex :
  map d_calls (dests ex_s3) = [0; 0; 0] /\
  map d_calls (dests (send 0 ex_s3 ex_m0)) = [3; 3; 3] /\
  map d_calls (dests (send 0 (send 0 ex_s3 ex_m0) ex_m0)) = [5; 5; 5].
Proof. repeat split. Qed.

Lemma map_nth_error' {A B} (f : A -> B) l l' i d' :
  map f l' = map f l -> nth_error l' i = Some d' ->
  exists d, nth_error l i = Some d /\ f d' = f d.
Proof.
  revert l' i. induction l as [|x r IH]; intros [|x' r'] i H N; try discriminate.
  - destruct i; discriminate.
  - cbn in H. injection H as H0 H. destruct i as [|i]; cbn in *.
    + injection N as <-. eauto.
    + eapply IH; eassumption.
Qed.

Theorem C07_report_path_bounded c s m i d d' :
  any_added s = true ->
  nth_error (dests s) i = Some d -> nth_error (dests (send c s m)) i = Some d' ->
  d_id d' = d_id d /\ d_calls d < d_calls d' <= d_calls d + 1 + length (dests s).
Proof.
  intros A N N'. destruct (C08_later_deliveries c s m A) as (l & [[_ _ Hi _ _ _] _] & Hc & Hl).
  split.
  - destruct (map_nth_error' d_id _ _ _ _ Hi N') as (d0 & N0 & E). congruence.
  - assert (Hn : nth_error (map d_calls (dests (send c s m))) i = Some (d_calls d'))
      by now apply map_nth_error.
    rewrite Hc, map_map in Hn.
    rewrite (map_nth_error (fun x => d_calls x + length l) _ _ N) in Hn.
    injection Hn as Hn. lia.
Qed.

(* all three destinations broken for good: one send still makes only 1 + 3 calls to each *)
Example C07_report_path_bounded_ex :
  let s := api ex_cfg 0 init_state
             (OAddDests [mk_dest 0 BAlways ex_exA; mk_dest 1 BAlways ex_exB; mk_dest 2 BAlways ex_exA]) in
  any_added s = true /\ map d_calls (dests (send 0 s ex_m0)) = [4; 4; 4].
Proof. split; reflexivity. Qed.

(* C13.6 / C07: when no destination fails, send hands every destination the message
   (a value: the caller's dictionary plus the global fields) and does nothing else *)
Theorem send_no_failure c s m :
  any_added s = true ->
  flat_map (failure_of (fupdate m (globals s))) (dests s) = [] ->
  send c s m = set_out s true (buffer s) (fst (fanout (fupdate m (globals s)) (dests s))) (gone s).
Proof.
  intros A F. unfold send, deliver. cbv zeta. rewrite A.
  pose proof (fanout_spec (fupdate m (globals s)) (dests s)) as [_ Hs].
  destruct (fanout (fupdate m (globals s)) (dests s)) as [ds errs]. cbn [fst snd] in *.
  rewrite Hs, F. cbn [fold_left]. now destruct (is_report _).
Qed.

Theorem send_no_failure_observable c s m :
  any_added s = true ->
  flat_map (failure_of (fupdate m (globals s))) (dests s) = [] ->
  let s' := send c s m in
  ext [fupdate m (globals s)] s s' /\
  heap s' = heap s /\ ctx s' = ctx s /\ tokens s' = tokens s /\ next_uuid s' = next_uuid s /\
  buffer s' = buffer s /\ ids s' = ids s /\ probes s' = probes s.
Proof.
  intros A F. cbv zeta. split.
  - destruct (send_emits c s m) as (rs & H & Hl & _). pose proof (Hl A) as Hn.
    unfold n_reports in Hn. rewrite F in Hn. destruct (is_report _); (destruct rs; [|discriminate]);
      apply (emits_ext _ _ _ A H).
  - rewrite (send_no_failure c s m A F). cbn. repeat split.
Qed.

Example send_no_failure_ex :
  let s := api ex_cfg 0 init_state (OAddDests [mk_dest 0 BNever ex_exA; mk_dest 1 (BMask [false; true]) ex_exA]) in
  any_added s = true /\ flat_map (failure_of (fupdate ex_m0 (globals s))) (dests s) = [] /\
  map d_log (dests (send 0 s ex_m0)) = [[ex_m0]; [ex_m0]] /\ next_uuid (send 0 s ex_m0) = next_uuid s.
Proof. repeat split. Qed.

(* ---- tracebacks, Logger.write ------------------------------------------------------- *)
(* what a sequence of sends appends: one message per entry of [ts], with that
   message_type, each followed by its failure reports *)
Inductive shape : list (option val) -> list msg -> Prop :=
| shape_nil : shape [] []
| shape_cons t ts x rs l :
    fget K_mtype x = t -> Forall rep_msg rs -> shape ts l -> shape (t :: ts) (x :: rs ++ l).

Lemma shape_app ts1 l1 ts2 l2 : shape ts1 l1 -> shape ts2 l2 -> shape (ts1 ++ ts2) (l1 ++ l2).
Proof.
  induction 1 as [|t ts x rs l Hx Hr Hs IH]; intros H2; [exact H2|].
  cbn [app]. rewrite <- app_assoc. constructor; auto.
Qed.

Lemma shape_one t x rs : fget K_mtype x = t -> Forall rep_msg rs -> shape [t] (x :: rs).
Proof. intros. rewrite <- (app_nil_r rs). constructor; auto. constructor. Qed.

(* every appended message is one of the announced ones or a report *)
Lemma shape_types ts l :
  shape ts l -> Forall (fun x => In (fget K_mtype x) ts \/ rep_msg x) l.
Proof.
  induction 1 as [|t ts x rs l Hx Hr Hs IH]; [constructor|].
  constructor; [left; now left|]. apply Forall_app. split.
  - eapply Forall_impl; [|exact Hr]. auto.
  - eapply Forall_impl; [|exact IH]. intros a [Ha|Ha]; [left; now right | now right].
Qed.

(* the messages that are not reports are exactly the announced ones, in order *)
Definition nonreports (l : list msg) : list msg := filter (fun x => negb (is_report x)) l.

Lemma nonreports_reports rs : Forall rep_msg rs -> nonreports rs = [].
Proof.
  induction 1 as [|r rs Hr _ IH]; [reflexivity|]. unfold nonreports in *. cbn [filter].
  now rewrite (rep_msg_is_report _ Hr).
Qed.

Lemma nonreports_app l1 l2 : nonreports (l1 ++ l2) = nonreports l1 ++ nonreports l2.
Proof. apply filter_app. Qed.

Lemma shape_nonreports ts l :
  shape ts l -> ~ In (Some (VTypeName T_destination_failure)) ts ->
  map (fget K_mtype) (nonreports l) = ts.
Proof.
  induction 1 as [|t ts x rs l Hx Hr Hs IH]; intros N; [reflexivity|].
  assert (R : is_report x = false).
  { destruct (is_report x) eqn:R; [|reflexivity]. apply is_report_rep_msg in R.
    exfalso. apply N. left. unfold rep_msg in R. congruence. }
  change (x :: rs ++ l) with ([x] ++ rs ++ l). rewrite !nonreports_app.
  rewrite (nonreports_reports _ Hr). unfold nonreports at 1. cbn [filter]. rewrite R.
  cbn [negb app map]. rewrite Hx, IH; [reflexivity|]. intros H; apply N; now right.
Qed.

Lemma send_shape c s m :
  fget K_mtype (globals s) = None ->
  exists l, emits l s (send c s m) /\ shape [fget K_mtype m] l /\
            hd_error l = Some (fupdate m (globals s)).
Proof.
  intros G. destruct (send_emits c s m) as (rs & H & _ & _ & P).
  eexists. split; [exact H|]. split; [|reflexivity].
  apply shape_one; [now apply fget_fupdate_none | auto].
Qed.

Section Cfg.
Variable cfg : config.

Lemma log_traceback_plain_shape c s e extra :
  fget K_mtype (globals s) = None ->
  exists l, emits l s (log_traceback_plain c s e extra) /\ shape [Some (VTypeName T_traceback)] l.
Proof.
  intros G. unfold log_traceback_plain.
  match goal with |- context [stamp_here s c ?mt ?fs] =>
    pose proof (stamp_here_emits s c mt fs) as (H1 & u & l & Hm);
    destruct (stamp_here s c mt fs) as [s2 m] end.
  cbn [fst snd] in *. subst m.
  destruct (send_shape c s2 (stamp u l (VTypeName T_traceback) (traceback_fields e extra)))
    as (l2 & H2 & S2 & _).
  { now rewrite (emits_globals _ _ _ H1). }
  exists l2. split.
  - change l2 with ([] ++ l2). eapply emits_trans; eassumption.
  - now rewrite stamp_mtype in S2.
Qed.

(* the traceback of a failing exception extractor, if the extractor registered for
   the class of e raises *)
Definition extractor_tb (e : exn) : list (option val) :=
  match first_registered (registry cfg) (mro_of cfg (e_cls e)) with
  | Some (XRaise _) => [Some (VTypeName T_traceback)]
  | _ => []
  end.

Lemma fields_for_exception_shape c s e :
  fget K_mtype (globals s) = None ->
  exists l, emits l s (fst (fields_for_exception cfg c s e)) /\ shape (extractor_tb e) l.
Proof.
  intros G. unfold fields_for_exception, extractor_tb.
  destruct (first_registered _ _) as [[fs|e']|]; cbn [fst].
  - exists []. split; [apply emits_refl | constructor].
  - now apply log_traceback_plain_shape.
  - exists []. split; [apply emits_refl | constructor].
Qed.

Lemma write_traceback_shape c s e :
  fget K_mtype (globals s) = None ->
  exists l, emits l s (write_traceback cfg c s e) /\
            shape (extractor_tb e ++ [Some (VTypeName T_traceback)]) l.
Proof.
  intros G. unfold write_traceback.
  destruct (fields_for_exception_shape c s e G) as (l1 & H1 & S1).
  destruct (fields_for_exception cfg c s e) as [s1 extra]. cbn [fst] in *.
  destruct (log_traceback_plain_shape c s1 e extra) as (l2 & H2 & S2).
  { now rewrite (emits_globals _ _ _ H1). }
  exists (l1 ++ l2). split; [eapply emits_trans; eassumption | now apply shape_app].
Qed.

(* the message types Logger.write announces *)
Definition written_types (m : msg) (ser : option mser) : list (option val) :=
  match ser with
  | None => [fget K_mtype m]
  | Some sr =>
      match serialize sr m with
      | Ok m' => [fget K_mtype m']
      | Err e => extractor_tb e ++ [Some (VTypeName T_traceback); Some (VTypeName T_serialization_failure)]
      end
  end.

Lemma logger_write_shape c s m ser :
  fget K_mtype (globals s) = None ->
  exists l, emits l s (logger_write cfg c s m ser) /\ shape (written_types m ser) l.
Proof.
  intros G. unfold logger_write, written_types. destruct ser as [sr|].
  2:{ destruct (send_shape c s m G) as (l & H & S & _). eauto. }
  destruct (serialize sr m) as [m'|e].
  { destruct (send_shape c s m' G) as (l & H & S & _). eauto. }
  destruct (write_traceback_shape c s e G) as (l1 & H1 & S1).
  set (s1 := write_traceback cfg c s e) in *.
  match goal with |- context [stamp_here s1 c ?mt ?fs] =>
    pose proof (stamp_here_emits s1 c mt fs) as (H2 & u & lv & Hm);
    destruct (stamp_here s1 c mt fs) as [s3 fm] end.
  cbn [fst snd] in *. subst fm.
  assert (G3 : fget K_mtype (globals s3) = None).
  { now rewrite (emits_globals _ _ _ H2), (emits_globals _ _ _ H1). }
  match goal with |- context [send c s3 ?fm] =>
    destruct (send_shape c s3 fm G3) as (l3 & H3 & S3 & _) end.
  rewrite stamp_mtype in S3.
  exists (l1 ++ [] ++ l3). split.
  - eapply emits_trans; [exact H1|]. eapply emits_trans; eassumption.
  - cbn [app]. replace (extractor_tb e ++ [Some (VTypeName T_traceback); Some (VTypeName T_serialization_failure)])
      with ((extractor_tb e ++ [Some (VTypeName T_traceback)]) ++ [Some (VTypeName T_serialization_failure)])
      by now rewrite <- app_assoc.
    now apply shape_app.
Qed.

(* without the hypothesis on the global fields: still uniform *)
Lemma log_traceback_plain_emits c s e extra : exists l, emits l s (log_traceback_plain c s e extra).
Proof.
  unfold log_traceback_plain.
  match goal with |- context [stamp_here s c ?mt ?fs] =>
    pose proof (stamp_here_emits s c mt fs) as (H1 & _);
    destruct (stamp_here s c mt fs) as [s2 m] end.
  cbn [fst] in *. destruct (send_emits c s2 m) as (rs & H2 & _).
  eexists. eapply emits_trans; eassumption.
Qed.

Lemma fields_for_exception_emits c s e : exists l, emits l s (fst (fields_for_exception cfg c s e)).
Proof.
  unfold fields_for_exception. destruct (first_registered _ _) as [[fs|e']|]; cbn [fst].
  - exists []. apply emits_refl.
  - apply log_traceback_plain_emits.
  - exists []. apply emits_refl.
Qed.

Lemma write_traceback_emits c s e : exists l, emits l s (write_traceback cfg c s e).
Proof.
  unfold write_traceback. destruct (fields_for_exception_emits c s e) as (l1 & H1).
  destruct (fields_for_exception cfg c s e) as [s1 extra]. cbn [fst] in *.
  destruct (log_traceback_plain_emits c s1 e extra) as (l2 & H2).
  eexists. eapply emits_trans; eassumption.
Qed.

Lemma logger_write_emits c s m ser : exists l, emits l s (logger_write cfg c s m ser).
Proof.
  unfold logger_write. destruct ser as [sr|].
  2:{ destruct (send_emits c s m) as (rs & H & _). eauto. }
  destruct (serialize sr m) as [m'|e].
  { destruct (send_emits c s m') as (rs & H & _). eauto. }
  destruct (write_traceback_emits c s e) as (l1 & H1).
  set (s1 := write_traceback cfg c s e) in *.
  match goal with |- context [stamp_here s1 c ?mt ?fs] =>
    pose proof (stamp_here_emits s1 c mt fs) as (H2 & _);
    destruct (stamp_here s1 c mt fs) as [s3 fm] end.
  cbn [fst] in *. destruct (send_emits c s3 fm) as (rs & H3 & _).
  eexists. eapply emits_trans; [exact H1|]. eapply emits_trans; eassumption.
Qed.

(* ---- actions ---------------------------------------------------------------------------- *)
Lemma set_heap_emits s h a : emits [] s (set_heap s h a).
Proof. apply emits_of_eq; reflexivity. Qed.

Lemma start_message_emits c s h fs : exists l, emits l s (start_message cfg c s h fs).
Proof.
  unfold start_message. destruct (alookup h (heap s)) as [a|]; [|exists []; apply emits_refl].
  pose proof (take_level_emits s h) as H1. destruct (take_level s h) as [s1 l]. cbn [fst] in *.
  match goal with |- context [logger_write cfg c s1 ?m ?ser] =>
    destruct (logger_write_emits c s1 m ser) as (l2 & H2) end.
  eexists. eapply emits_trans; eassumption.
Qed.

Lemma start_action_emits c s h task ty fs sers :
  exists l, emits l s (start_action cfg c s h task ty fs sers).
Proof.
  unfold start_action. destruct (if task then None else cur s c) as [p|].
  - destruct (alookup p (heap s)) as [pa|]; [|exists []; apply emits_refl].
    pose proof (take_level_emits s p) as H1. destruct (take_level s p) as [s1 l]. cbn [fst] in *.
    match goal with |- context [start_message cfg c ?s2 h fs] =>
      destruct (start_message_emits c s2 h fs) as (l3 & H3);
      assert (H2 : emits [] s1 s2) by apply set_heap_emits end.
    eexists. eapply emits_trans; [exact H1|]. eapply emits_trans; eassumption.
  - cbn [fresh_uuid].
    match goal with |- context [start_message cfg c ?s2 h fs] =>
      destruct (start_message_emits c s2 h fs) as (l3 & H3);
      assert (H2 : emits [] s s2) by (apply emits_of_eq; reflexivity) end.
    eexists. eapply emits_trans; eassumption.
Qed.

Lemma finish_emits c s h exc : exists l, emits l s (finish cfg c s h exc).
Proof.
  unfold finish. destruct (alookup h (heap s)) as [a|]; [|exists []; apply emits_refl].
  destruct (a_finished a); [exists []; apply emits_refl|].
  match goal with |- context [set_heap s h ?a'] =>
    pose proof (set_heap_emits s h a') as H0; set (s0 := set_heap s h a') in * end.
  destruct exc as [e|].
  - destruct (fields_for_exception_emits c s0 e) as (l1 & H1).
    destruct (fields_for_exception cfg c s0 e) as [s' xf]. cbn [fst] in *.
    pose proof (take_level_emits s' h) as H2. destruct (take_level s' h) as [s2 l]. cbn [fst] in *.
    match goal with |- context [logger_write cfg c s2 ?m ?ser] =>
      destruct (logger_write_emits c s2 m ser) as (l3 & H3) end.
    eexists. eapply emits_trans; [exact H0|]. eapply emits_trans; [exact H1|].
    eapply emits_trans; eassumption.
  - pose proof (take_level_emits s0 h) as H2. destruct (take_level s0 h) as [s2 l]. cbn [fst] in *.
    match goal with |- context [logger_write cfg c s2 ?m ?ser] =>
      destruct (logger_write_emits c s2 m ser) as (l3 & H3) end.
    eexists. eapply emits_trans; [exact H0|]. eapply emits_trans; eassumption.
Qed.

(* ---- operations ---------------------------------------------------------------------------- *)
Definition dest_op (o : op) : bool :=
  match o with OAddDests _ | ORemoveDest _ => true | _ => false end.

(* every operation that does not change the set of destinations offers all of them
   the same messages *)
Lemma api_uniform c s o : dest_op o = false -> uniform s (api cfg c s o).
Proof.
  intros D. destruct o; try discriminate; cbn [api].
  - destruct (start_action_emits c s h task ty fs sers) as (l & H). eapply emits_uniform; eassumption.
  - destruct (alookup h (heap s)); [|apply uniform_refl]. exists []. apply ext0_of_eq; reflexivity.
  - destruct (alookup h (heap s)) as [a|]; [|apply uniform_refl].
    match goal with |- context [finish cfg c ?s2 h exc] =>
      destruct (finish_emits c s2 h exc) as (l & H);
      assert (H0 : uniform s s2) by (exists []; apply ext0_of_eq; reflexivity) end.
    eapply uniform_trans; [exact H0 | eapply emits_uniform; eassumption].
  - exists []. apply ext0_of_eq; reflexivity.
  - destruct (alookup c (tokens s)) as [[|t st]|]; try apply uniform_refl.
    exists []. apply ext0_of_eq; reflexivity.
  - destruct (finish_emits c s h exc) as (l & H). eapply emits_uniform; eassumption.
  - destruct (alookup h (heap s)); [|apply uniform_refl]. exists []. apply ext0_of_eq; reflexivity.
  - pose proof (stamp_here_emits s c mt (mkfields fs)) as (H1 & _).
    destruct (stamp_here s c mt (mkfields fs)) as [s2 m]. cbn [fst] in *.
    destruct (logger_write_emits c s2 m ser) as (l & H).
    eapply emits_uniform. eapply emits_trans; eassumption.
  - destruct (alookup h (heap s)) as [a|]; [|apply uniform_refl].
    pose proof (take_level_emits s h) as H1. destruct (take_level s h) as [s2 l]. cbn [fst] in *.
    match goal with |- context [logger_write cfg c s2 ?m ?ser] =>
      destruct (logger_write_emits c s2 m ser) as (l3 & H3) end.
    eapply emits_uniform. eapply emits_trans; eassumption.
  - destruct (write_traceback_emits c s e) as (l & H). eapply emits_uniform; eassumption.
  - destruct (alookup h (heap s)) as [a|]; [|apply uniform_refl].
    pose proof (take_level_emits s h) as H1. destruct (take_level s h) as [s1 l]. cbn [fst] in *.
    eapply uniform_trans; [eapply emits_uniform; exact H1|].
    exists []. apply ext0_of_eq; reflexivity.
  - destruct (alookup slot (ids s)) as [[u l]|]; [|apply uniform_refl].
    match goal with |- context [start_message cfg c ?s2 h fs] =>
      destruct (start_message_emits c s2 h fs) as (l3 & H3);
      assert (H0 : uniform s s2) by (exists []; apply ext0_of_eq; reflexivity) end.
    eapply uniform_trans; [exact H0 | eapply emits_uniform; eassumption].
  - exists []. apply ext0_of_eq; reflexivity.
  - exists []. apply ext0_of_eq; reflexivity.
  - exists []. apply ext0_of_eq; reflexivity.
  - destruct (logger_write_emits c s (mkfields m) ser) as (l & H). eapply emits_uniform; eassumption.
Qed.

Lemma run_uniform ops : forall s,
  forallb (fun co => negb (dest_op (snd co))) ops = true -> uniform s (run cfg ops s).
Proof.
  unfold run. induction ops as [|[c o] r IH]; intros s H; cbn [fold_left]; [apply uniform_refl|].
  cbn [forallb snd fst] in *. apply andb_true_iff in H as [H1 H2].
  apply uniform_trans with (api cfg c s o); [apply api_uniform; now apply negb_true_iff | apply IH, H2].
Qed.

(* C08: over a stretch of the program in which no destination is added or removed,
   all registered destinations are offered the same sequence; in particular two
   destinations that have seen the same so far (e.g. registered together) still
   have afterwards *)
Theorem C08_same_stream ops s :
  forallb (fun co => negb (dest_op (snd co))) ops = true ->
  exists l,
    map d_id (dests (run cfg ops s)) = map d_id (dests s) /\
    gone (run cfg ops s) = gone s /\
    forall i d, nth_error (dests s) i = Some d ->
      exists d', nth_error (dests (run cfg ops s)) i = Some d' /\
                 d_id d' = d_id d /\ d_behave d' = d_behave d /\
                 d_log d' = d_log d ++ l /\ d_calls d' = d_calls d + length l.
Proof.
  intros H. destruct (run_uniform ops s H) as (l & [Ha Hg Hi Hb Hl Hc]).
  exists l. repeat split; auto. intros i d N.
  assert (Hlen : length (dests (run cfg ops s)) = length (dests s)).
  { rewrite <- (map_length d_id), Hi. apply map_length. }
  destruct (nth_error (dests (run cfg ops s)) i) as [d'|] eqn:N'.
  2:{ apply nth_error_None in N'. assert (i < length (dests s)) by (apply nth_error_Some; congruence). lia. }
  exists d'. split; [reflexivity|].
  destruct (map_nth_error' d_id _ _ _ _ Hi N') as (d1 & N1 & E1).
  destruct (map_nth_error' d_behave _ _ _ _ Hb N') as (d2 & N2 & E2).
  assert (d1 = d) by congruence. assert (d2 = d) by congruence. subst d1 d2.
  repeat split; auto.
  - pose proof (map_nth_error d_log _ _ N') as X. rewrite Hl, map_map in X.
    rewrite (map_nth_error (fun x => d_log x ++ l) _ _ N) in X. congruence.
  - pose proof (map_nth_error d_calls _ _ N') as X. rewrite Hc, map_map in X.
    rewrite (map_nth_error (fun x => d_calls x + length l) _ _ N) in X. congruence.
Qed.

Corollary C08_same_interval_same_log ops s i j di dj di' dj' :
  forallb (fun co => negb (dest_op (snd co))) ops = true ->
  nth_error (dests s) i = Some di -> nth_error (dests s) j = Some dj ->
  nth_error (dests (run cfg ops s)) i = Some di' -> nth_error (dests (run cfg ops s)) j = Some dj' ->
  d_log di = d_log dj -> d_log di' = d_log dj'.
Proof.
  intros H Ni Nj Ni' Nj' E. destruct (C08_same_stream ops s H) as (l & _ & _ & P).
  destruct (P i di Ni) as (x & Nx & _ & _ & Lx & _).
  destruct (P j dj Nj) as (y & Ny & _ & _ & Ly & _).
  assert (x = di') by congruence. assert (y = dj') by congruence. subst. congruence.
Qed.

(* the first add: the buffered messages are replayed to all the new destinations alike *)
Lemma resend_emits c ms : forall s, exists l, emits l s (resend c s ms).
Proof.
  induction ms as [|m r IH]; intros s; cbn [resend]; [exists []; apply emits_refl|].
  destruct (send_emits c s m) as (rs & H & _). destruct (IH (send c s m)) as (l & Hl).
  eexists. eapply emits_trans; eassumption.
Qed.

Theorem C08_first_add_uniform c s ds :
  any_added s = false ->
  uniform (set_out s true [] ds (gone s)) (api cfg c s (OAddDests ds)) /\
  map d_id (dests (api cfg c s (OAddDests ds))) = map d_id ds.
Proof.
  intros A. cbn [api]. rewrite A.
  destruct (resend_emits c (buffer s) (set_out s true [] ds (gone s))) as (l & H).
  split; [eapply emits_uniform; exact H|]. destruct H as [[] _]. assumption.
Qed.

(* a later add leaves the registered destinations as they are *)
Theorem C08_later_add c s ds :
  any_added s = true -> dests (api cfg c s (OAddDests ds)) = dests s ++ ds.
Proof. intros A. cbn [api]. now rewrite A. Qed.

End Cfg.

Definition ex_ops : list (nat * op) :=
  [(0, OStart 1 false (VAtom 30%positive) [] None); (0, OEnter 1);
   (0, OLog (VAtom 20%positive) [(11%positive, VInt 5)] None);
   (0, OExit 1 (Some ex_exA))].

(* start message, message, failed end message and their reports: 7 messages, the same
   for the healthy, the broken and the flaky destination *)
Example C08_same_stream_ex :
  forallb (fun co => negb (dest_op (snd co))) ex_ops = true /\
  exists l, length l = 7 /\ map d_log (dests (run ex_cfg ex_ops ex_s3)) = [l; l; l].
Proof. split; [reflexivity|]. eexists. split; [|vm_compute; reflexivity]. reflexivity. Qed.

(* with a destination added in between the statement is false, as it should be: the
   newcomer has seen less *)
Example C08_same_stream_add_refuted :
  let ops := ex_ops ++ [(0, OAddDests [mk_dest 3 BNever ex_exA])] ++ ex_ops in
  map (@length msg) (map d_log (dests (run ex_cfg ops ex_s3))) = [13; 13; 13; 6].
Proof. vm_compute. reflexivity. Qed.

(* messages logged before any destination exists are replayed to all new destinations *)
Example C08_first_add_uniform_ex :
  let s := run ex_cfg ex_ops init_state in
  any_added s = false /\ length (buffer s) = 3 /\
  map (@length msg) (map d_log (dests (api ex_cfg 0 s (OAddDests ex_ds3)))) = [7; 7; 7].
Proof. vm_compute. repeat split. Qed.
