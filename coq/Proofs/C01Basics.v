(* C01, layer 1: what each API call of the [simple] fragment does to a state with ONE
   never-failing destination and no global fields, as equations on an abstract view of the
   state (heap, current action, token stack, uuid supply, the destination's log), and what the
   parser sees ([to_pmsg]) of each emitted dictionary. *)
From Coq Require Import List PArith NArith ZArith Bool Arith Lia.
Require Import Eliot.Base.Level Eliot.Model.Core Eliot.Model.Prog Eliot.Model.Parser
  Eliot.Model.Forest Eliot.Model.Roundtrip Eliot.Model.Expected.
Require Import Eliot.Proofs.CoreBasics Eliot.Proofs.CtxFrame Eliot.Proofs.CtxRestore.
Import ListNotations.

(* ====================================================================================== *)
(* 1. what the parser sees of a dictionary                                                *)
(* ====================================================================================== *)
Definition pv (m : msg) : option pmsg := to_pmsg 0 m.

Definition pm0 (u : nat) (l : level) (a : option positive) (st : option pstatus) : pmsg :=
  mkPmsg u l a st 0.

Ltac keys_ne := unfold K_uuid, K_level, K_ts, K_atype, K_mtype, K_status, K_reason, K_exception; discriminate.
Ltac fget_tac :=
  repeat (rewrite fget_fset_same || (rewrite fget_fset_other by keys_ne)).

Lemma fget_fupdate_notin k upd : forall m,
  (forall kv, In kv upd -> fst kv <> k) -> fget k (fupdate m upd) = fget k m.
Proof.
  unfold fupdate. induction upd as [|[k' v] r IH]; intros m H; cbn [fold_left]; [reflexivity|].
  rewrite IH by (intros kv Hkv; apply H; now right).
  apply fget_fset_other. apply (H (k', v)). now left.
Qed.

Lemma plain_mkfields fs :
  plain fs = true -> fget K_atype (mkfields fs) = None /\ fget K_status (mkfields fs) = None.
Proof.
  intros P. unfold plain in P. rewrite forallb_forall in P. unfold mkfields.
  split; rewrite fget_fupdate_notin; try reflexivity; intros kv Hkv E; specialize (P kv Hkv);
    unfold plain_key in P; rewrite E in P; cbn in P; discriminate.
Qed.

Lemma plain_fupdate m fs :
  fget K_atype m = None -> fget K_status m = None -> plain fs = true ->
  fget K_atype (fupdate m fs) = None /\ fget K_status (fupdate m fs) = None.
Proof.
  intros A B P. unfold plain in P. rewrite forallb_forall in P.
  split; rewrite fget_fupdate_notin; try assumption; intros kv Hkv E; specialize (P kv Hkv);
    unfold plain_key in P; rewrite E in P; cbn in P; discriminate.
Qed.

(* a plain message *)
Lemma pv_stamp u l mt fs :
  fget K_atype fs = None -> fget K_status fs = None ->
  pv (stamp u l mt fs) = Some (pm0 u l None None).
Proof.
  intros A B. unfold pv, to_pmsg, stamp. fget_tac. rewrite A, B. reflexivity.
Qed.

(* the start message of an action *)
Definition start_dict (u : nat) (l : level) (ty : val) (fs : fields) : msg :=
  fset K_level (VLevel l)
    (fset K_atype ty
    (fset K_uuid (VUuid u)
    (fset K_ts VTime
    (fset K_status (VStatus Started) (mkfields fs))))).

Lemma pv_start u l t fs :
  pv (start_dict u l (VTypeName t) fs) = Some (pm0 u l (Some t) (Some PStarted)).
Proof. unfold pv, to_pmsg, start_dict. fget_tac. reflexivity. Qed.

(* the end message of an action, whatever its success fields / extracted exception fields *)
Definition is_some {A} (o : option A) : bool := match o with Some _ => true | None => false end.

Lemma pv_finish a l exc xf t :
  a_type a = VTypeName t ->
  pv (finish_message a l exc xf) = Some (pm0 (a_uuid a) l (Some t) (Some (status_of (is_some exc)))).
Proof.
  intros T. unfold pv, to_pmsg, finish_message, finish_fields. rewrite T.
  destruct exc as [x|]; fget_tac; reflexivity.
Qed.

(* ====================================================================================== *)
(* 2. association lists                                                                   *)
(* ====================================================================================== *)
Lemma aset_aset {A} k (v v' : A) l : aset k v (aset k v' l) = aset k v l.
Proof.
  induction l as [|[k2 v2] r IH]; cbn [aset].
  - now rewrite Nat.eqb_refl.
  - destruct (Nat.eqb_spec k k2) as [->|N]; cbn [aset].
    + now rewrite Nat.eqb_refl.
    + destruct (Nat.eqb_spec k k2); [congruence|]. now rewrite IH.
Qed.

Lemma alookup_aset_eq {A} k k' (v : A) l :
  alookup k' (aset k v l) = if Nat.eqb k' k then Some v else alookup k' l.
Proof.
  destruct (Nat.eqb_spec k' k) as [->|N].
  - apply alookup_aset_same.
  - apply alookup_aset_other. congruence.
Qed.

(* ====================================================================================== *)
(* 3. the view                                                                            *)
(* ====================================================================================== *)
Definition bump (a : action) : action :=
  mkAction (a_uuid a) (a_level a) (S (a_last a)) (a_finished a) (a_succ a) (a_type a) (a_sers a) (a_token a).
Definition npos (a : action) : level := a_level a ++ [Pos.of_nat (S (a_last a))].
Definition with_token (a : action) (t : option (option nat)) : action :=
  mkAction (a_uuid a) (a_level a) (a_last a) (a_finished a) (a_succ a) (a_type a) (a_sers a) t.
Definition with_succ (a : action) (fs : fields) : action :=
  mkAction (a_uuid a) (a_level a) (a_last a) (a_finished a) (fupdate (a_succ a) fs) (a_type a) (a_sers a) (a_token a).
Definition new_action (u : nat) (l : level) (ty : val) : action := mkAction u l 0 false [] ty None None.

Lemma take_level_some s h a :
  alookup h (heap s) = Some a -> take_level s h = (set_heap s h (bump a), npos a).
Proof. intros E. unfold take_level. rewrite E. reflexivity. Qed.

Section View.
Variable cfg : config.
Variable d : nat.
Variable e : exn.
Variable c : nat.

Definition the_dest (n : nat) (log : list msg) : dest := mkDest d (behave_fn BNever e) n log.

(* one never-failing destination [d], registered; no global fields *)
Definition Good (s : state) : Prop :=
  any_added s = true /\ globals s = [] /\ exists n log, dests s = [the_dest n log].

Definition tr (s : state) : list msg :=
  match dests s with D :: _ => d_log D | [] => [] end.

Lemma Good_trace s : Good s -> trace_of s d = tr s.
Proof.
  intros (_ & _ & n & log & D). unfold trace_of, all_dests, tr. rewrite D. cbn. now rewrite Nat.eqb_refl.
Qed.

Definition View (s' : state) (hp : list (nat * action)) (cu : option nat) (ts : list (option nat))
           (nu : nat) (t : list msg) : Prop :=
  Good s' /\ heap s' = hp /\ cur s' c = cu /\ tstack s' c = ts /\ next_uuid s' = nu /\ tr s' = t.

Lemma View_self s : Good s -> View s (heap s) (cur s c) (tstack s c) (next_uuid s) (tr s).
Proof. unfold View; intuition. Qed.

Lemma View_intro s' hp cu ts nu t :
  Good s' -> heap s' = hp -> cur s' c = cu -> tstack s' c = ts -> next_uuid s' = nu -> tr s' = t ->
  View s' hp cu ts nu t.
Proof. unfold View; intuition. Qed.

Lemma Good_set_heap s h a : Good s -> Good (set_heap s h a).
Proof. exact (fun H => H). Qed.
Lemma Good_set_ctx s v : Good s -> Good (set_ctx s c v).
Proof. exact (fun H => H). Qed.
Lemma Good_set_tokens s t : Good s -> Good (set_tokens s c t).
Proof. exact (fun H => H). Qed.
Lemma Good_add_probe s c0 : Good s -> Good (add_probe s c0).
Proof. exact (fun H => H). Qed.

(* ---- Destinations.send ---------------------------------------------------------------- *)
Lemma send_view c0 s m :
  Good s -> View (send c0 s m) (heap s) (cur s c) (tstack s c) (next_uuid s) (tr s ++ [m]).
Proof.
  intros (A & G & n & log & D). unfold send. rewrite G. cbn [fupdate fold_left].
  unfold deliver. rewrite A, D. cbn [fanout the_dest d_behave behave_fn d_calls d_log d_id].
  assert (X : View (set_out s true (buffer s) [the_dest (S n) (log ++ [m])] (gone s))
                   (heap s) (cur s c) (tstack s c) (next_uuid s) (tr s ++ [m])).
  { unfold View, Good, tr. cbn. rewrite D. cbn. repeat split; eauto. }
  destruct (is_report m); exact X.
Qed.

Lemma logger_write_view c0 s m :
  Good s -> View (logger_write cfg c0 s m None) (heap s) (cur s c) (tstack s c) (next_uuid s) (tr s ++ [m]).
Proof. apply send_view. Qed.

(* ---- messages --------------------------------------------------------------------------- *)
Lemma olog_in s h a mt fs :
  Good s -> cur s c = Some h -> alookup h (heap s) = Some a ->
  View (api cfg c s (OLog mt fs None)) (aset h (bump a) (heap s)) (Some h) (tstack s c) (next_uuid s)
       (tr s ++ [stamp (a_uuid a) (npos a) mt (mkfields fs)]).
Proof.
  intros G C E. cbn [api]. unfold stamp_here, msg_position. rewrite C, (take_level_some _ _ _ E), E.
  pose proof (logger_write_view c (set_heap s h (bump a)) (stamp (a_uuid a) (npos a) mt (mkfields fs))
                (Good_set_heap _ _ _ G)) as V.
  rewrite <- C. exact V.
Qed.

Lemma olog_top s mt fs :
  Good s -> cur s c = None ->
  View (api cfg c s (OLog mt fs None)) (heap s) None (tstack s c) (S (next_uuid s))
       (tr s ++ [stamp (next_uuid s) [1%positive] mt (mkfields fs)]).
Proof.
  intros G C. cbn [api]. unfold stamp_here, msg_position. rewrite C. cbn [fresh_uuid].
  match goal with |- View (logger_write cfg c ?s1 ?m None) _ _ _ _ _ =>
    pose proof (logger_write_view c s1 m G) as V end.
  unfold View in *. cbn in V. rewrite <- C. exact V.
Qed.

Lemma oactlog_in s h a mt fs :
  Good s -> alookup h (heap s) = Some a ->
  View (api cfg c s (OActionLog h mt fs)) (aset h (bump a) (heap s)) (cur s c) (tstack s c) (next_uuid s)
       (tr s ++ [stamp (a_uuid a) (npos a) mt (mkfields fs)]).
Proof.
  intros G E. cbn [api]. rewrite E, (take_level_some _ _ _ E).
  exact (logger_write_view c (set_heap s h (bump a)) _ (Good_set_heap _ _ _ G)).
Qed.

(* ---- start_action ------------------------------------------------------------------------- *)
Lemma start_message_view s h a fs :
  Good s -> alookup h (heap s) = Some a -> a_sers a = None ->
  View (start_message cfg c s h fs) (aset h (bump a) (heap s)) (cur s c) (tstack s c) (next_uuid s)
       (tr s ++ [start_dict (a_uuid a) (npos a) (a_type a) fs]).
Proof.
  intros G E S. unfold start_message. rewrite E, (take_level_some _ _ _ E), S. cbn [opt_ser].
  exact (logger_write_view c (set_heap s h (bump a)) _ (Good_set_heap _ _ _ G)).
Qed.

Lemma ostart_top s h (task : bool) ty fs :
  Good s -> (if task then None else cur s c) = (None : option nat) ->
  View (api cfg c s (OStart h task ty fs None))
       (aset h (bump (new_action (next_uuid s) [] ty)) (heap s)) (cur s c) (tstack s c) (S (next_uuid s))
       (tr s ++ [start_dict (next_uuid s) [1%positive] ty fs]).
Proof.
  intros G C. cbn [api]. unfold start_action. rewrite C. cbn [fresh_uuid].
  match goal with |- View (start_message cfg c ?s2 h fs) _ _ _ _ _ =>
    pose proof (start_message_view s2 h (new_action (next_uuid s) [] ty) fs) as V end.
  cbn in V. rewrite alookup_aset_same, aset_aset in V. apply V; auto.
Qed.

Lemma ostart_in s h p pa ty fs :
  Good s -> cur s c = Some p -> alookup p (heap s) = Some pa ->
  View (api cfg c s (OStart h false ty fs None))
       (aset h (bump (new_action (a_uuid pa) (npos pa) ty)) (aset p (bump pa) (heap s)))
       (Some p) (tstack s c) (next_uuid s)
       (tr s ++ [start_dict (a_uuid pa) (npos pa ++ [1%positive]) ty fs]).
Proof.
  intros G C E. cbn [api]. unfold start_action. rewrite C, E, (take_level_some _ _ _ E).
  match goal with |- View (start_message cfg c ?s2 h fs) _ _ _ _ _ =>
    pose proof (start_message_view s2 h (new_action (a_uuid pa) (npos pa) ty) fs) as V end.
  cbn in V. rewrite alookup_aset_same, aset_aset in V. rewrite <- C. apply V; auto.
Qed.

(* ---- scoping -------------------------------------------------------------------------------- *)
Lemma oenter_view s h a :
  Good s -> alookup h (heap s) = Some a ->
  View (api cfg c s (OEnter h)) (aset h (with_token a (Some (cur s c))) (heap s)) (Some h) (tstack s c)
       (next_uuid s) (tr s).
Proof.
  intros G E. cbn [api]. rewrite E. apply View_intro; try reflexivity; try exact G.
  apply cur_set_ctx_same.
Qed.

Lemma octxenter_view s h :
  Good s ->
  View (api cfg c s (OCtxEnter h)) (heap s) (Some h) (cur s c :: tstack s c) (next_uuid s) (tr s).
Proof.
  intros G. destruct (ctxenter_spec cfg c s h) as [A B]. apply View_intro; try assumption; try reflexivity; exact G.
Qed.

Lemma octxexit_view s t st :
  Good s -> tstack s c = t :: st ->
  View (api cfg c s OCtxExit) (heap s) t st (next_uuid s) (tr s).
Proof.
  intros G E. destruct (ctxexit_spec cfg c s t st E) as [A B].
  apply View_intro; try assumption.
  all: unfold tstack in E; cbn [api]; destruct (alookup c (tokens s)) as [[|t' st']|]; try discriminate; try exact G; reflexivity.
Qed.

Lemma oprobe_view s :
  Good s -> View (api cfg c s OProbe) (heap s) (cur s c) (tstack s c) (next_uuid s) (tr s).
Proof. intros G. apply View_intro; try reflexivity; exact G. Qed.

Lemma oaddsuccess_view s h a fs :
  Good s -> alookup h (heap s) = Some a ->
  View (api cfg c s (OAddSuccess h fs)) (aset h (with_succ a fs) (heap s)) (cur s c) (tstack s c)
       (next_uuid s) (tr s).
Proof. intros G E. cbn [api]. rewrite E. apply View_intro; try reflexivity; exact G. Qed.

(* ---- finish ----------------------------------------------------------------------------------- *)
Hypothesis reg : reg_fields cfg = true.

Lemma first_registered_fields mro :
  match first_registered (registry cfg) mro with Some (XRaise _) => False | _ => True end.
Proof.
  unfold reg_fields in reg. rewrite forallb_forall in reg.
  induction mro as [|k r IH]; cbn [first_registered]; [exact I|].
  destruct (reg_lookup k (registry cfg)) as [x|] eqn:L; [|exact IH].
  assert (In (k, x) (registry cfg)) as Hin.
  { revert L. generalize (registry cfg). induction l as [|[k' x'] l IHl]; cbn [reg_lookup]; [discriminate|].
    destruct (Pos.eqb_spec k k') as [->|N]; intros L.
    - injection L as ->. now left.
    - right. now apply IHl. }
  specialize (reg _ Hin). cbn in reg. destruct x; [exact I|discriminate].
Qed.

Lemma extract_noop c0 s exc : fst (extract cfg c0 s exc) = s.
Proof.
  destruct exc as [x|]; [|reflexivity]. cbn [extract]. unfold fields_for_exception.
  pose proof (first_registered_fields (mro_of cfg (e_cls x))) as F.
  destruct (first_registered _ _) as [[fs|e']|]; try reflexivity. destruct F.
Qed.

Definition finished_of (a : action) : action :=
  mkAction (a_uuid a) (a_level a) (S (a_last a)) true (a_succ a) (a_type a) (a_sers a) (a_token a).

Lemma finish_view s h a exc t :
  Good s -> alookup h (heap s) = Some a -> a_finished a = false -> a_sers a = None ->
  a_type a = VTypeName t ->
  exists m,
    View (finish cfg c s h exc) (aset h (finished_of a) (heap s)) (cur s c) (tstack s c) (next_uuid s)
         (tr s ++ [m]) /\
    pv m = Some (pm0 (a_uuid a) (npos a) (Some t) (Some (status_of (is_some exc)))).
Proof.
  intros G E F S T. rewrite (finish_unfold cfg c s h a exc E F).
  pose proof (extract_noop c (set_heap s h (mark_finished a)) exc) as X.
  destruct (extract cfg c _ exc) as [s1 xf]. cbn [fst] in X. subst s1.
  assert (E1 : alookup h (heap (set_heap s h (mark_finished a))) = Some (mark_finished a))
    by (cbn; apply alookup_aset_same).
  rewrite (take_level_some _ _ _ E1).
  exists (finish_message a (npos (mark_finished a)) exc xf). split.
  - unfold finish_ser. rewrite S. cbn [opt_ser].
    match goal with |- View (logger_write cfg c ?s2 ?m None) _ _ _ _ _ =>
      pose proof (logger_write_view c s2 m G) as V end.
    cbn in V. rewrite aset_aset in V. exact V.
  - apply pv_finish. exact T.
Qed.

Lemma oexit_view s h a exc t tk :
  Good s -> alookup h (heap s) = Some a -> a_finished a = false -> a_sers a = None ->
  a_type a = VTypeName t -> a_token a = Some tk ->
  exists m,
    View (api cfg c s (OExit h exc)) (aset h (finished_of (with_token a None)) (heap s)) tk (tstack s c)
         (next_uuid s) (tr s ++ [m]) /\
    pv m = Some (pm0 (a_uuid a) (npos a) (Some t) (Some (status_of (is_some exc)))).
Proof.
  intros G E F S T K. cbn [api]. rewrite E, K.
  match goal with |- context [finish cfg c ?s2 h exc] =>
    destruct (finish_view s2 h (with_token a None) exc t) as (m & V & P) end; try assumption.
  - cbn. apply alookup_aset_same.
  - exists m. split; [|exact P]. cbn in V. rewrite aset_aset in V.
    destruct V as (V1 & V2 & V3 & V4 & V5 & V6). apply View_intro; try assumption.
    rewrite V3. apply cur_set_ctx_same.
Qed.

(* ---- write_traceback --------------------------------------------------------------------------- *)
Hypothesis regp : reg_plain cfg = true.

Lemma first_registered_plain mro fs :
  first_registered (registry cfg) mro = Some (XFields fs) -> plain fs = true.
Proof.
  unfold reg_plain in regp. rewrite forallb_forall in regp.
  induction mro as [|k r IH]; cbn [first_registered]; [discriminate|].
  destruct (reg_lookup k (registry cfg)) as [x|] eqn:L; [|exact IH].
  intros X. injection X as ->.
  assert (In (k, XFields fs) (registry cfg)) as Hin.
  { revert L. generalize (registry cfg). induction l as [|[k' x'] l IHl]; cbn [reg_lookup]; [discriminate|].
    destruct (Pos.eqb_spec k k') as [->|N]; intros L.
    - injection L as ->. now left.
    - right. now apply IHl. }
  exact (regp _ Hin).
Qed.

Lemma fset_keys k v m kv : In kv (fset k v m) -> fst kv = k \/ In kv m.
Proof.
  induction m as [|[k' v'] r IH]; cbn [fset].
  - intros [<-|[]]. now left.
  - destruct (Pos.compare k k'); cbn [In].
    + intros [<-|H]; [now left|right; now right].
    + intros [<-|H]; [now left|now right].
    + intros [<-|H]; [right; now left|]. destruct (IH H) as [A|A]; [now left|right; now right].
Qed.

Lemma plain_fset k v m : plain_key k = true -> plain m = true -> plain (fset k v m) = true.
Proof.
  intros K P. unfold plain in *. rewrite forallb_forall in *. intros kv H.
  destruct (fset_keys _ _ _ _ H) as [->|H']; [exact K|now apply P].
Qed.

Lemma plain_fupdate_plain upd : forall m, plain m = true -> plain upd = true -> plain (fupdate m upd) = true.
Proof.
  unfold fupdate. induction upd as [|[k v] r IH]; intros m A B; cbn [fold_left]; [exact A|].
  unfold plain in B. cbn [forallb fst] in B. apply andb_true_iff in B as [B1 B2].
  apply IH; [|exact B2]. now apply plain_fset.
Qed.

Lemma plain_fget m : plain m = true -> fget K_atype m = None /\ fget K_status m = None.
Proof.
  intros P. unfold plain in P. rewrite forallb_forall in P.
  assert (X : forall k, plain_key k = false -> fget k m = None).
  { intros k K. induction m as [|[k' v'] r IH]; cbn [fget]; [reflexivity|].
    destruct (Pos.eqb_spec k k') as [->|N].
    - specialize (P (k', v') (or_introl eq_refl)). cbn in P. congruence.
    - apply IH. intros kv H. apply P. now right. }
  split; apply X; reflexivity.
Qed.

Lemma traceback_plain x extra :
  plain extra = true ->
  fget K_atype (traceback_fields x extra) = None /\ fget K_status (traceback_fields x extra) = None.
Proof.
  intros P. apply plain_fget. unfold traceback_fields. apply plain_fupdate_plain; [exact P|reflexivity].
Qed.

Lemma fields_for_exception_plain c0 s x :
  fst (fields_for_exception cfg c0 s x) = s /\ plain (snd (fields_for_exception cfg c0 s x)) = true.
Proof.
  unfold fields_for_exception.
  pose proof (first_registered_fields (mro_of cfg (e_cls x))) as F.
  pose proof (first_registered_plain (mro_of cfg (e_cls x))) as Q.
  destruct (first_registered _ _) as [[fs|e']|]; cbn [fst snd]; try (split; reflexivity); [|destruct F].
  split; [reflexivity|]. unfold mkfields. apply plain_fupdate_plain; [reflexivity|]. now apply Q.
Qed.

(* write_traceback: one plain message of type eliot:traceback at the next position *)
Lemma otraceback_in s h a x :
  Good s -> cur s c = Some h -> alookup h (heap s) = Some a ->
  exists m,
    View (api cfg c s (OTraceback x)) (aset h (bump a) (heap s)) (Some h) (tstack s c) (next_uuid s)
         (tr s ++ [m]) /\
    pv m = Some (pm0 (a_uuid a) (npos a) None None).
Proof.
  intros G C E. cbn [api]. unfold write_traceback.
  destruct (fields_for_exception_plain c s x) as [X1 X2].
  destruct (fields_for_exception cfg c s x) as [s1 extra]. cbn [fst snd] in X1, X2. subst s1.
  unfold log_traceback_plain, stamp_here, msg_position. rewrite C, (take_level_some _ _ _ E), E.
  eexists. split.
  - rewrite <- C. exact (send_view c (set_heap s h (bump a)) _ (Good_set_heap _ _ _ G)).
  - destruct (traceback_plain x extra X2) as [A B]. now apply pv_stamp.
Qed.

Lemma otraceback_top s x :
  Good s -> cur s c = None ->
  exists m,
    View (api cfg c s (OTraceback x)) (heap s) None (tstack s c) (S (next_uuid s)) (tr s ++ [m]) /\
    pv m = Some (pm0 (next_uuid s) [1%positive] None None).
Proof.
  intros G C. cbn [api]. unfold write_traceback.
  destruct (fields_for_exception_plain c s x) as [X1 X2].
  destruct (fields_for_exception cfg c s x) as [s1 extra]. cbn [fst snd] in X1, X2. subst s1.
  unfold log_traceback_plain, stamp_here, msg_position. rewrite C. cbn [fresh_uuid].
  eexists. split.
  - match goal with |- View (send c ?s1 ?m) _ _ _ _ _ => pose proof (send_view c s1 m G) as V end.
    unfold View in *. cbn in V. rewrite <- C. exact V.
  - destruct (traceback_plain x extra X2) as [A B]. now apply pv_stamp.
Qed.

End View.
