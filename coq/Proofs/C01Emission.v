(* C01, layer 2: the emission theorem.  By induction on the syntax of a [simple] program,
   generalised over the start state: running the compiled calls of a statement list appends
   to the destination's log exactly the messages of the trees it contributes ([kids]), laid
   out under the current action from its next free position (resp., at top level, as new
   tasks with uuids from the supply counter), advances that position by the number of
   children, restores the current action and the token stack, and leaves every action not
   declared by the statements alone.

   [eval_spec]          the master lemma, for every [simple] statement list, both inside an
                        action ([InSpec]) and at top level ([TopSpec]), from any [Good] state.
   [C01_emission_view]  for whole programs: what destination d received, as the parser reads
                        each dictionary, is [lin0 (expected p)] (identities are added in
                        C01Roundtrip.v: [C01_emission]). *)
From Coq Require Import List PArith NArith ZArith Bool Arith Lia.
Require Import Eliot.Base.Level Eliot.Model.Core Eliot.Model.Prog Eliot.Model.Parser
  Eliot.Model.Forest Eliot.Model.Roundtrip Eliot.Model.Expected.
Require Import Eliot.Proofs.CoreBasics Eliot.Proofs.CtxFrame Eliot.Proofs.CtxRestore.
Require Import Eliot.Proofs.ParserBasics Eliot.Proofs.ParserOrder Eliot.Proofs.ParserTree.
Require Import Eliot.Proofs.C01Basics.
Import ListNotations.

(* ====================================================================================== *)
(* 1. unfolding the declarative reading                                                   *)
(* ====================================================================================== *)
Lemma kids_cons x r : kids (x :: r) = kids_stmt x ++ (if raises_stmt x then [] else kids r).
Proof. reflexivity. Qed.
Lemma raises_cons x r : raises (x :: r) = raises_stmt x || raises r.
Proof. reflexivity. Qed.
Lemma kids_stmt_act h style task ty fs sers succ body :
  kids_stmt (SAct h style task ty fs sers succ body)
  = [TAct (ty_of ty) (status_of (raises body)) (kids body)].
Proof. reflexivity. Qed.
Lemma kids_stmt_try body : kids_stmt (STry body) = kids body.
Proof. reflexivity. Qed.
Lemma kids_stmt_reenter h body : kids_stmt (SReenter h body) = kids body.
Proof. reflexivity. Qed.
Lemma raises_stmt_act h style task ty fs sers succ body :
  raises_stmt (SAct h style task ty fs sers succ body) = raises body.
Proof. reflexivity. Qed.
Lemma raises_stmt_reenter h body : raises_stmt (SReenter h body) = raises body.
Proof. reflexivity. Qed.
Lemma handles_cons x r : handles (x :: r) = handles_stmt x ++ handles r.
Proof. reflexivity. Qed.
Lemma has_tb_cons x r : has_tb (x :: r) = has_tb_stmt x || has_tb r.
Proof. reflexivity. Qed.

(* the syntactic [raises] is the outcome of the compiled program *)
Lemma raises_outcome_both :
  (forall st, raises_stmt st = is_some (outcome_stmt st)).
Proof.
  apply (stmt_ind'
    (fun st => raises_stmt st = is_some (outcome_stmt st))
    (fun p => raises p = is_some (outcome p))); intros; try reflexivity.
  - rewrite raises_stmt_act. exact H.
  - rewrite raises_stmt_reenter. exact H.
  - rewrite raises_cons, H, H0. unfold outcome. cbn [first_raise].
    destruct (outcome_stmt st); reflexivity.
Qed.

Lemma raises_stmt_compile st c : raises_stmt st = is_some (snd (compile_stmt c st)).
Proof. now rewrite compile_outcome_stmt, raises_outcome_both. Qed.

Lemma raises_compile p c : raises p = is_some (snd (compile c p)).
Proof.
  rewrite compile_outcome. induction p as [|x r IH]; [reflexivity|].
  rewrite raises_cons, IH, raises_outcome_both. unfold outcome. cbn [first_raise].
  destruct (outcome_stmt x); reflexivity.
Qed.

Lemma nodupb_NoDup l : nodupb l = true -> NoDup l.
Proof.
  induction l as [|x r IH]; cbn [nodupb]; [constructor|].
  intros H. apply andb_true_iff in H as [H1 H2]. constructor; [|now apply IH].
  intros Hin. apply negb_true_iff in H1.
  assert (existsb (Nat.eqb x) r = true); [|congruence].
  apply existsb_exists. exists x. split; [exact Hin|apply Nat.eqb_refl].
Qed.

Lemma NoDup_app_parts {A} (l1 l2 : list A) : NoDup (l1 ++ l2) -> NoDup l1 /\ NoDup l2.
Proof.
  induction l1 as [|x r IH]; cbn [app]; intros H; [split; [constructor|exact H]|].
  inversion H as [|? ? N ND]; subst. destruct (IH ND) as [A1 A2]. split; [|exact A2].
  constructor; [|exact A1]. intros X. apply N. apply in_app_iff. now left.
Qed.

(* ====================================================================================== *)
(* 2. layout of children under an action, without identities                              *)
(* ====================================================================================== *)
Definition Z0 : level -> nat := fun _ => 0.
Definition Z00 : nat -> level -> nat := fun _ _ => 0.

(* the children [cs] of the action with prefix [l] whose last handed-out position is [k] *)
Fixpoint lay (u : nat) (l : level) (k : nat) (cs : list tree) : list pmsg :=
  match cs with
  | [] => []
  | t :: r => lin_tree Z0 u (l ++ [Pos.of_nat (S k)]) t ++ lay u l (S k) r
  end.

Lemma lay_app u l cs1 : forall k cs2,
  lay u l k (cs1 ++ cs2) = lay u l k cs1 ++ lay u l (k + length cs1) cs2.
Proof.
  induction cs1 as [|t r IH]; intros k cs2; cbn [lay app length].
  - now rewrite Nat.add_0_r.
  - rewrite IH, <- app_assoc. do 3 f_equal. lia.
Qed.

Lemma lin_list_lay u l ty st cs : forall k,
  lin_list Z0 u l ty st (Pos.of_nat (S k)) cs
  = lay u l k cs ++ [end_msg Z0 u l ty st (Pos.of_nat (S (k + length cs)))].
Proof.
  induction cs as [|t r IH]; intros k; cbn [lin_list lay length app].
  - now rewrite Nat.add_0_r.
  - rewrite <- Nat2Pos.inj_succ by lia. rewrite IH, <- app_assoc. do 4 f_equal. lia.
Qed.

Lemma lin_tree_act_lay u l ty st cs :
  lin_tree Z0 u l (TAct ty st cs)
  = start_msg Z0 u l ty :: lay u l 1 cs ++ [end_msg Z0 u l ty st (Pos.of_nat (S (S (length cs))))].
Proof. rewrite lin_tree_act. f_equal. exact (lin_list_lay u l ty st cs 1). Qed.

Lemma lin_from_app idf f1 : forall u f2,
  lin_from idf u (f1 ++ f2) = lin_from idf u f1 ++ lin_from idf (u + length f1) f2.
Proof.
  induction f1 as [|t r IH]; intros u f2; cbn [lin_from app length].
  - now rewrite Nat.add_0_r.
  - rewrite IH, <- app_assoc. do 3 f_equal. lia.
Qed.

Lemma end_status_of b : end_status (status_of b) = status_of b.
Proof. destruct b; reflexivity. Qed.

(* ====================================================================================== *)
(* 3. the specification of a run, in the two modes                                        *)
(* ====================================================================================== *)
Definition same_core (a a' : action) : Prop :=
  a_uuid a' = a_uuid a /\ a_level a' = a_level a /\ a_finished a' = a_finished a /\
  a_type a' = a_type a /\ a_sers a' = a_sers a /\ a_token a' = a_token a.

Lemma same_core_refl a : same_core a a.
Proof. unfold same_core; intuition. Qed.
Lemma same_core_trans a b c : same_core a b -> same_core b c -> same_core a c.
Proof. unfold same_core; intuition congruence. Qed.

Section Emission.
Variable cfg : config.
Variable d : nat.
Variable e : exn.
Variable c : nat.
Hypothesis reg : reg_fields cfg = true.

Notation Good := (Good d e).
Notation View := (View d e c).

(* inside action [h] (record [a] at the start): children [cs] *)
Definition InSpec (h : nat) (a : action) (cs : list tree) (H : list nat) (s s' : state) : Prop :=
  Good s' /\ cur s' c = Some h /\ tstack s' c = tstack s c /\ next_uuid s' = next_uuid s /\
  (exists a', alookup h (heap s') = Some a' /\ same_core a a' /\ a_last a' = a_last a + length cs) /\
  (forall h', h' <> h -> ~ In h' H -> alookup h' (heap s') = alookup h' (heap s)) /\
  map pv (tr s') = map pv (tr s) ++ map Some (lay (a_uuid a) (a_level a) (a_last a) cs).

(* at top level: tasks [f] *)
Definition TopSpec (f : forest) (H : list nat) (s s' : state) : Prop :=
  Good s' /\ cur s' c = None /\ tstack s' c = tstack s c /\ next_uuid s' = next_uuid s + length f /\
  (forall h', ~ In h' H -> alookup h' (heap s') = alookup h' (heap s)) /\
  map pv (tr s') = map pv (tr s) ++ map Some (lin_from Z00 (next_uuid s) f).

Lemma InSpec_nil h a s :
  Good s -> cur s c = Some h -> alookup h (heap s) = Some a -> InSpec h a [] [] s s.
Proof.
  intros G C E. unfold InSpec. split; [exact G|]. split; [exact C|]. do 2 (split; [reflexivity|]).
  split; [|split].
  - exists a. split; [exact E|]. split; [apply same_core_refl|]. cbn. lia.
  - reflexivity.
  - cbn. now rewrite app_nil_r.
Qed.

Lemma TopSpec_nil s : Good s -> cur s c = None -> TopSpec [] [] s s.
Proof.
  intros G C. unfold TopSpec. split; [exact G|]. split; [exact C|]. split; [reflexivity|].
  split; [|split].
  - cbn. lia.
  - reflexivity.
  - cbn. now rewrite app_nil_r.
Qed.

Lemma InSpec_trans h a cs1 cs2 H1 H2 s s1 s2 :
  InSpec h a cs1 H1 s s1 ->
  (forall a1, alookup h (heap s1) = Some a1 -> InSpec h a1 cs2 H2 s1 s2) ->
  InSpec h a (cs1 ++ cs2) (H1 ++ H2) s s2.
Proof.
  intros (G1 & C1 & T1 & N1 & (a1 & E1 & S1 & L1) & F1 & P1) K.
  destruct (K a1 E1) as (G2 & C2 & T2 & N2 & (a2 & E2 & S2 & L2) & F2 & P2).
  unfold InSpec. split; [exact G2|]. split; [exact C2|]. split; [congruence|]. split; [congruence|].
  split; [|split].
  - exists a2. split; [exact E2|]. split; [eapply same_core_trans; eassumption|].
    rewrite app_length. lia.
  - intros h' N I. rewrite F2, F1; auto; intros X; apply I; apply in_app_iff; auto.
  - rewrite P2, P1, lay_app, map_app, <- app_assoc.
    destruct S1 as (U & LV & _). rewrite U, LV, L1. reflexivity.
Qed.

Lemma TopSpec_trans f1 f2 H1 H2 s s1 s2 :
  TopSpec f1 H1 s s1 -> TopSpec f2 H2 s1 s2 -> TopSpec (f1 ++ f2) (H1 ++ H2) s s2.
Proof.
  intros (G1 & C1 & T1 & N1 & F1 & P1) (G2 & C2 & T2 & N2 & F2 & P2).
  unfold TopSpec. split; [exact G2|]. split; [exact C2|]. split; [congruence|]. split; [|split].
  - rewrite app_length. lia.
  - intros h' I. rewrite F2, F1; auto; intros X; apply I; apply in_app_iff; auto.
  - rewrite P2, P1, lin_from_app, map_app, <- app_assoc, N1. reflexivity.
Qed.

(* a step that changes nothing the specifications look at (a probe) *)
Lemma InSpec_after h a cs H s s1 s2 :
  InSpec h a cs H s s1 ->
  View s2 (heap s1) (cur s1 c) (tstack s1 c) (next_uuid s1) (tr s1) ->
  InSpec h a cs H s s2.
Proof.
  intros (G1 & C1 & T1 & N1 & A1 & F1 & P1) (G2 & V2 & V3 & V4 & V5 & V6).
  unfold InSpec. rewrite V2, V3, V4, V5, V6. auto 10.
Qed.

Lemma TopSpec_after f H s s1 s2 :
  TopSpec f H s s1 ->
  View s2 (heap s1) (cur s1 c) (tstack s1 c) (next_uuid s1) (tr s1) ->
  TopSpec f H s s2.
Proof.
  intros (G1 & C1 & T1 & N1 & F1 & P1) (G2 & V2 & V3 & V4 & V5 & V6).
  unfold TopSpec. rewrite V2, V3, V4, V5, V6. auto 10.
Qed.

Lemma run_probe s : run cfg (probe c) s = api cfg c s OProbe.
Proof. reflexivity. Qed.

(* ---- the induction hypotheses ----------------------------------------------------------- *)
Definition Pst (st : stmt) : Prop :=
  forall s, Good s -> NoDup (handles_stmt st) -> (has_tb_stmt st = true -> reg_plain cfg = true) ->
    (forall h a, cur s c = Some h -> alookup h (heap s) = Some a -> ~ In h (handles_stmt st) ->
       simple_stmt (Some h) st = true ->
       InSpec h a (kids_stmt st) (handles_stmt st) s (run cfg (fst (compile_stmt c st)) s)) /\
    (cur s c = None -> simple_stmt None st = true ->
       TopSpec (kids_stmt st) (handles_stmt st) s (run cfg (fst (compile_stmt c st)) s)).

Definition Qp (p : list stmt) : Prop :=
  forall s, Good s -> NoDup (handles p) -> (has_tb p = true -> reg_plain cfg = true) ->
    (forall h a, cur s c = Some h -> alookup h (heap s) = Some a -> ~ In h (handles p) ->
       forallb (simple_stmt (Some h)) p = true ->
       InSpec h a (kids p) (handles p) s (run cfg (fst (compile c p)) s)) /\
    (cur s c = None -> forallb (simple_stmt None) p = true ->
       TopSpec (kids p) (handles p) s (run cfg (fst (compile c p)) s)).

(* ---- the body of an action and its end, from the state just after start_action ------------ *)
(* [v]: the current action before the block; the action [h] has uuid [u], prefix [l], type [t]
   and has handed out position 1 (its start message) *)
Definition ActPost (h u : nat) (l : level) (t : positive) (body : list stmt) (v : option nat)
           (s1 s' : state) : Prop :=
  Good s' /\ cur s' c = v /\ tstack s' c = tstack s1 c /\ next_uuid s' = next_uuid s1 /\
  (forall h', h' <> h -> ~ In h' (handles body) -> alookup h' (heap s') = alookup h' (heap s1)) /\
  map pv (tr s') = map pv (tr s1) ++
     map Some (lay u l 1 (kids body)
               ++ [end_msg Z0 u l t (status_of (raises body)) (Pos.of_nat (S (S (length (kids body)))))]).

Section Tail.
Variables (h u : nat) (l : level) (t : positive) (succ : fields) (body : list stmt).
Variables (bops : list (nat * op)) (bout : option exn).
Hypothesis CB : compile c body = (bops, bout).
Hypothesis IHb : Qp body.
Hypothesis ND : NoDup (handles body).
Hypothesis NI : ~ In h (handles body).
Hypothesis SB : forallb (simple_stmt (Some h)) body = true.
Hypothesis TB : has_tb body = true -> reg_plain cfg = true.

Let succ_ops : list (nat * op) := match bout with None => [(c, OAddSuccess h succ)] | Some _ => [] end.

Lemma bout_raises : status_of (is_some bout) = status_of (raises body).
Proof. rewrite (raises_compile body c), CB. reflexivity. Qed.

(* after the body and the optional add_success_fields *)
Lemma body_then_succ s3 a :
  Good s3 -> cur s3 c = Some h -> alookup h (heap s3) = Some a ->
  let s5 := run cfg succ_ops (run cfg bops s3) in
  Good s5 /\ cur s5 c = Some h /\ tstack s5 c = tstack s3 c /\ next_uuid s5 = next_uuid s3 /\
  (exists a5, alookup h (heap s5) = Some a5 /\ same_core a a5 /\ a_last a5 = a_last a + length (kids body)) /\
  (forall h', h' <> h -> ~ In h' (handles body) -> alookup h' (heap s5) = alookup h' (heap s3)) /\
  map pv (tr s5) = map pv (tr s3) ++ map Some (lay (a_uuid a) (a_level a) (a_last a) (kids body)).
Proof.
  intros G C E. cbn zeta.
  destruct (IHb s3 G ND TB) as [IHin _].
  specialize (IHin h a C E NI SB). rewrite CB in IHin. cbn [fst] in IHin.
  set (s4 := run cfg bops s3) in *.
  destruct IHin as (G4 & C4 & T4 & N4 & (a4 & E4 & S4 & L4) & F4 & P4).
  unfold succ_ops. destruct bout as [x|].
  - rewrite run_nil. repeat (split; [assumption|]). split; [|split; assumption].
    exists a4. auto.
  - change (run cfg [(c, OAddSuccess h succ)] s4) with (api cfg c s4 (OAddSuccess h succ)).
    destruct (oaddsuccess_view cfg d e c s4 h a4 succ G4 E4) as (G5 & V2 & V3 & V4 & V5 & V6).
    split; [exact G5|]. split; [congruence|]. split; [congruence|]. split; [congruence|].
    split; [|split].
    + exists (with_succ a4 succ). rewrite V2, alookup_aset_same. split; [reflexivity|].
      split; [|exact L4]. unfold same_core in *. cbn. intuition.
    + intros h' N I. rewrite V2, alookup_aset_other by congruence. now apply F4.
    + now rewrite V6.
Qed.

Lemma tail_with v s1 :
  Good s1 -> alookup h (heap s1) = Some (bump (new_action u l (VTypeName t))) -> cur s1 c = v ->
  ActPost h u l t body v s1
    (run cfg ([(c, OEnter h)] ++ probe c ++ bops ++ succ_ops ++ [(c, OExit h bout)]) s1).
Proof.
  intros G1 E1 C1.
  set (a0 := bump (new_action u l (VTypeName t))) in *.
  rewrite run_app. change (run cfg [(c, OEnter h)] s1) with (api cfg c s1 (OEnter h)).
  destruct (oenter_view cfg d e c s1 h a0 G1 E1) as (G2 & H2 & C2 & T2 & N2 & R2).
  set (s2 := api cfg c s1 (OEnter h)) in *.
  rewrite run_app, run_probe.
  destruct (oprobe_view cfg d e c s2 G2) as (G3 & H3 & C3 & T3 & N3 & R3).
  set (s3 := api cfg c s2 OProbe) in *.
  rewrite run_app, run_app.
  assert (E3 : alookup h (heap s3) = Some (with_token a0 (Some (cur s1 c)))).
  { rewrite H3, H2. apply alookup_aset_same. }
  destruct (body_then_succ s3 _ G3 (eq_trans C3 C2) E3)
    as (G5 & C5 & T5 & N5 & (a5 & E5 & S5 & L5) & F5 & P5).
  set (s5 := run cfg succ_ops (run cfg bops s3)) in *.
  change (run cfg [(c, OExit h bout)] s5) with (api cfg c s5 (OExit h bout)).
  destruct S5 as (U5 & LV5 & FN5 & TY5 & SE5 & TK5). cbn in U5, LV5, FN5, TY5, SE5, TK5.
  destruct (oexit_view cfg d e c reg s5 h a5 bout t (cur s1 c) G5 E5 FN5 SE5 TY5 TK5)
    as (m & (G6 & H6 & C6 & T6 & N6 & R6) & PM).
  unfold ActPost. split; [exact G6|]. split; [congruence|]. split; [congruence|]. split; [congruence|].
  split.
  - intros h' N I. rewrite H6, alookup_aset_other by congruence. rewrite F5 by assumption.
    rewrite H3, H2. apply alookup_aset_other. congruence.
  - rewrite R6, map_app, P5, R3, R2. cbn [map]. rewrite PM, map_app, <- app_assoc. cbn [map a_uuid a_level a_last with_token a0 bump new_action].
    do 3 f_equal. unfold end_msg, mk_msg, pm0, npos, Z0. rewrite U5, LV5, L5, end_status_of, bout_raises.
    cbn. reflexivity.
Qed.

Lemma tail_ctx v s1 :
  Good s1 -> alookup h (heap s1) = Some (bump (new_action u l (VTypeName t))) -> cur s1 c = v ->
  ActPost h u l t body v s1
    (run cfg ([(c, OCtxEnter h)] ++ probe c ++ bops ++ succ_ops ++ [(c, OCtxExit)] ++ probe c
              ++ [(c, OFinish h bout)]) s1).
Proof.
  intros G1 E1 C1.
  set (a0 := bump (new_action u l (VTypeName t))) in *.
  rewrite run_app. change (run cfg [(c, OCtxEnter h)] s1) with (api cfg c s1 (OCtxEnter h)).
  destruct (octxenter_view cfg d e c s1 h G1) as (G2 & H2 & C2 & T2 & N2 & R2).
  set (s2 := api cfg c s1 (OCtxEnter h)) in *.
  rewrite run_app, run_probe.
  destruct (oprobe_view cfg d e c s2 G2) as (G3 & H3 & C3 & T3 & N3 & R3).
  set (s3 := api cfg c s2 OProbe) in *.
  rewrite run_app, run_app.
  assert (E3 : alookup h (heap s3) = Some a0) by (now rewrite H3, H2).
  destruct (body_then_succ s3 _ G3 (eq_trans C3 C2) E3)
    as (G5 & C5 & T5 & N5 & (a5 & E5 & S5 & L5) & F5 & P5).
  set (s5 := run cfg succ_ops (run cfg bops s3)) in *.
  rewrite run_app. change (run cfg [(c, OCtxExit)] s5) with (api cfg c s5 OCtxExit).
  assert (T5' : tstack s5 c = cur s1 c :: tstack s1 c) by congruence.
  destruct (octxexit_view cfg d e c s5 _ _ G5 T5') as (G6 & H6 & C6 & T6 & N6 & R6).
  set (s6 := api cfg c s5 OCtxExit) in *.
  rewrite run_app, run_probe.
  destruct (oprobe_view cfg d e c s6 G6) as (G7 & H7 & C7 & T7 & N7 & R7).
  set (s7 := api cfg c s6 OProbe) in *.
  change (run cfg [(c, OFinish h bout)] s7) with (finish cfg c s7 h bout).
  destruct S5 as (U5 & LV5 & FN5 & TY5 & SE5 & TK5). cbn in U5, LV5, FN5, TY5, SE5, TK5.
  assert (E7 : alookup h (heap s7) = Some a5) by (now rewrite H7, H6).
  destruct (finish_view cfg d e c reg s7 h a5 bout t G7 E7 FN5 SE5 TY5)
    as (m & (G8 & H8 & C8 & T8 & N8 & R8) & PM).
  unfold ActPost. split; [exact G8|]. split; [congruence|]. split; [congruence|]. split; [congruence|].
  split.
  - intros h' N I. rewrite H8, alookup_aset_other by congruence. rewrite H7, H6, F5 by assumption.
    now rewrite H3, H2.
  - rewrite R8, map_app, R7, R6, P5, R3, R2. cbn [map]. rewrite PM, map_app, <- app_assoc.
    cbn [map a_uuid a_level a_last a0 bump new_action].
    do 3 f_equal. unfold end_msg, mk_msg, pm0, npos, Z0. rewrite U5, LV5, L5, end_status_of, bout_raises.
    cbn. reflexivity.
Qed.

End Tail.

(* ---- single plain messages ----------------------------------------------------------------- *)
Lemma one_msg_in h a s s' m ty :
  alookup h (heap s) = Some a ->
  View s' (aset h (bump a) (heap s)) (Some h) (tstack s c) (next_uuid s) (tr s ++ [m]) ->
  pv m = Some (pm0 (a_uuid a) (npos a) None None) ->
  InSpec h a [TMsg ty] [] s s'.
Proof.
  intros E (G' & H' & C' & T' & N' & R') PM.
  unfold InSpec. split; [exact G'|]. split; [exact C'|]. split; [exact T'|]. split; [exact N'|].
  split; [|split].
  - exists (bump a). rewrite H', alookup_aset_same. split; [reflexivity|].
    split; [unfold same_core; cbn; intuition|]. cbn. lia.
  - intros h' N _. rewrite H'. apply alookup_aset_other. congruence.
  - rewrite R', map_app. cbn [map lay lin_tree app]. rewrite PM. reflexivity.
Qed.

Lemma one_msg_top s s' m ty :
  View s' (heap s) None (tstack s c) (S (next_uuid s)) (tr s ++ [m]) ->
  pv m = Some (pm0 (next_uuid s) [1%positive] None None) ->
  TopSpec [TMsg ty] [] s s'.
Proof.
  intros (G' & H' & C' & T' & N' & R') PM.
  unfold TopSpec. split; [exact G'|]. split; [exact C'|]. split; [exact T'|]. split; [|split].
  - rewrite N'. cbn. lia.
  - intros h' _. now rewrite H'.
  - rewrite R', map_app. cbn [map lin_from lin_task lin_tree app]. rewrite PM. reflexivity.
Qed.

Lemma InSpec_mono h a cs H H' s s' : incl H H' -> InSpec h a cs H s s' -> InSpec h a cs H' s s'.
Proof.
  intros I (G1 & C1 & T1 & N1 & A1 & F1 & P1). unfold InSpec. repeat (split; [assumption|]).
  split; [|exact P1]. intros h' N X. apply F1; auto.
Qed.

Lemma TopSpec_mono f H H' s s' : incl H H' -> TopSpec f H s s' -> TopSpec f H' s s'.
Proof.
  intros I (G1 & C1 & T1 & N1 & F1 & P1). unfold TopSpec. repeat (split; [assumption|]).
  split; [|exact P1]. intros h' X. apply F1; auto.
Qed.

Lemma is_handle_eq h h0 : is_handle (Some h) h0 = true -> h0 = h.
Proof. cbn. apply Nat.eqb_eq. Qed.

(* ---- the master lemma -------------------------------------------------------------------------- *)
Lemma handles_act h style task ty fs sers succ body :
  handles_stmt (SAct h style task ty fs sers succ body) = h :: handles body.
Proof. reflexivity. Qed.

Lemma act_case h style task ty fs sers succ body : Qp body -> Pst (SAct h style task ty fs sers succ body).
Proof.
  intros IHb s G ND TB. rewrite handles_act in *. inversion ND as [|? ? NI NDb]; subst.
  change (has_tb_stmt (SAct h style task ty fs sers succ body)) with (has_tb body) in TB.
  rewrite compile_stmt_act, kids_stmt_act. destruct (compile c body) as [bops bout] eqn:CB.
  split.
  - (* inside action p *)
    intros p pa C E NIp S. cbn [simple_stmt is_none orb] in S.
    apply andb_true_iff in S as [S SB]. apply andb_true_iff in S as [S SS].
    apply andb_true_iff in S as [ST STY]. apply negb_true_iff in ST. subst task.
    destruct sers; [discriminate|]. destruct ty; try discriminate. rename a into t.
    assert (Nhp : h <> p) by (intros ->; apply NIp; now left).
    destruct (ostart_in cfg d e c s h p pa (VTypeName t) fs G C E) as (G1 & H1 & C1 & T1 & N1 & R1).
    set (s1 := api cfg c s (OStart h false (VTypeName t) fs None)) in *.
    assert (E1 : alookup h (heap s1) = Some (bump (new_action (a_uuid pa) (npos pa) (VTypeName t))))
      by (rewrite H1; apply alookup_aset_same).
    match goal with |- InSpec _ _ _ _ _ (run cfg ?o s) => set (s' := run cfg o s) end.
    assert (POST : ActPost h (a_uuid pa) (npos pa) t body (Some p) s1 s').
    { subst s'. cbn zeta. destruct style; cbn [fst app]; rewrite run_cons; cbn [fst snd]; fold s1.
      - exact (tail_with h (a_uuid pa) (npos pa) t succ body bops bout CB IHb NDb NI SB TB (Some p) s1 G1 E1 C1).
      - exact (tail_ctx h (a_uuid pa) (npos pa) t succ body bops bout CB IHb NDb NI SB TB (Some p) s1 G1 E1 C1).
      - exact (tail_ctx h (a_uuid pa) (npos pa) t succ body bops bout CB IHb NDb NI SB TB (Some p) s1 G1 E1 C1). }
    clearbody s'.
    destruct POST as (G' & C' & T' & N' & F' & P').
    unfold InSpec. split; [exact G'|]. split; [exact C'|]. split; [congruence|]. split; [congruence|].
    split; [|split].
    + exists (bump pa). split.
      * rewrite F'; [|congruence|intros X; apply NIp; now right].
        rewrite H1, alookup_aset_other by congruence. apply alookup_aset_same.
      * split; [unfold same_core; cbn; intuition|]. cbn. lia.
    + intros h' N X. rewrite F'; [|intros ->; apply X; now left|intros Y; apply X; now right].
      rewrite H1, alookup_aset_other by (intros ->; apply X; now left).
      apply alookup_aset_other. congruence.
    + rewrite P', R1, map_app. cbn [map lay]. rewrite pv_start, app_nil_r, lin_tree_act_lay, <- app_assoc.
      cbn [ty_of map app]. reflexivity.
  - (* top level *)
    intros C S. cbn [simple_stmt is_none orb] in S.
    apply andb_true_iff in S as [S SB]. apply andb_true_iff in S as [STY SS].
    destruct sers; [discriminate|]. destruct ty; try discriminate. rename a into t.
    assert (CT : (if task then None else cur s c) = (None : option nat)) by (destruct task; auto).
    destruct (ostart_top cfg d e c s h task (VTypeName t) fs G CT) as (G1 & H1 & C1 & T1 & N1 & R1).
    set (s1 := api cfg c s (OStart h task (VTypeName t) fs None)) in *.
    assert (E1 : alookup h (heap s1) = Some (bump (new_action (next_uuid s) [] (VTypeName t))))
      by (rewrite H1; apply alookup_aset_same).
    assert (C1' : cur s1 c = None) by congruence.
    match goal with |- TopSpec _ _ _ (run cfg ?o s) => set (s' := run cfg o s) end.
    assert (POST : ActPost h (next_uuid s) [] t body None s1 s').
    { subst s'. cbn zeta. destruct style; cbn [fst app]; rewrite run_cons; cbn [fst snd]; fold s1.
      - exact (tail_with h (next_uuid s) [] t succ body bops bout CB IHb NDb NI SB TB None s1 G1 E1 C1').
      - exact (tail_ctx h (next_uuid s) [] t succ body bops bout CB IHb NDb NI SB TB None s1 G1 E1 C1').
      - exact (tail_ctx h (next_uuid s) [] t succ body bops bout CB IHb NDb NI SB TB None s1 G1 E1 C1'). }
    clearbody s'.
    destruct POST as (G' & C' & T' & N' & F' & P').
    unfold TopSpec. split; [exact G'|]. split; [exact C'|]. split; [congruence|]. split; [|split].
    + rewrite N', N1. cbn. lia.
    + intros h' X. rewrite F'; [|intros ->; apply X; now left|intros Y; apply X; now right].
      rewrite H1. apply alookup_aset_other. intros ->; apply X; now left.
    + rewrite P', R1, map_app. cbn [map lin_from lin_task]. rewrite pv_start, app_nil_r.
      change (Z00 (next_uuid s)) with Z0. rewrite lin_tree_act_lay, <- app_assoc.
      cbn [ty_of map app]. reflexivity.
Qed.

Lemma cons_case st rest : Pst st -> Qp rest -> Qp (st :: rest).
Proof.
  intros IHs IHr s G ND TB. rewrite handles_cons in *. rewrite has_tb_cons in TB.
  destruct (NoDup_app_parts _ _ ND) as [ND1 ND2].
  assert (TB1 : has_tb_stmt st = true -> reg_plain cfg = true) by (intros X; apply TB; now rewrite X).
  assert (TB2 : has_tb rest = true -> reg_plain cfg = true) by (intros X; apply TB; rewrite X; apply orb_true_r).
  destruct (IHs s G ND1 TB1) as [IHin IHtop].
  rewrite compile_cons, kids_cons. pose proof (raises_stmt_compile st c) as RS.
  destruct (compile_stmt c st) as [ops out] eqn:CS. cbn [fst snd] in *.
  split.
  - intros h a C E NI S. cbn [forallb] in S. apply andb_true_iff in S as [S1 S2].
    assert (NI1 : ~ In h (handles_stmt st)) by (intros X; apply NI; apply in_app_iff; now left).
    assert (NI2 : ~ In h (handles rest)) by (intros X; apply NI; apply in_app_iff; now right).
    specialize (IHin h a C E NI1 S1).
    assert (A1 : InSpec h a (kids_stmt st) (handles_stmt st) s (run cfg (ops ++ probe c) s)).
    { rewrite run_app, run_probe. eapply InSpec_after; [exact IHin|]. apply oprobe_view. apply IHin. }
    rewrite RS. destruct out as [x|]; cbn [is_some fst].
    + rewrite app_nil_r. eapply InSpec_mono; [|exact A1]. apply incl_appl, incl_refl.
    + destruct (compile c rest) as [rops rout] eqn:CR. cbn [fst].
      rewrite app_assoc, run_app. eapply InSpec_trans; [exact A1|].
      intros a1 E1. destruct A1 as (G1 & C1 & _).
      destruct (IHr _ G1 ND2 TB2) as [IHrin _]. specialize (IHrin h a1 C1 E1 NI2 S2).
      rewrite CR in IHrin. exact IHrin.
  - intros C S. cbn [forallb] in S. apply andb_true_iff in S as [S1 S2].
    specialize (IHtop C S1).
    assert (A1 : TopSpec (kids_stmt st) (handles_stmt st) s (run cfg (ops ++ probe c) s)).
    { rewrite run_app, run_probe. eapply TopSpec_after; [exact IHtop|]. apply oprobe_view. apply IHtop. }
    rewrite RS. destruct out as [x|]; cbn [is_some fst].
    + rewrite app_nil_r. eapply TopSpec_mono; [|exact A1]. apply incl_appl, incl_refl.
    + destruct (compile c rest) as [rops rout] eqn:CR. cbn [fst].
      rewrite app_assoc, run_app. eapply TopSpec_trans; [exact A1|].
      destruct A1 as (G1 & C1 & _).
      destruct (IHr _ G1 ND2 TB2) as [_ IHrtop]. specialize (IHrtop C1 S2).
      rewrite CR in IHrtop. exact IHrtop.
Qed.

Lemma reenter_case h0 body : Qp body -> Pst (SReenter h0 body).
Proof.
  intros IHb s G ND TB.
  change (handles_stmt (SReenter h0 body)) with (handles body) in *.
  change (has_tb_stmt (SReenter h0 body)) with (has_tb body) in TB.
  rewrite compile_stmt_reenter, kids_stmt_reenter. destruct (compile c body) as [bops bout] eqn:CB.
  cbn [fst]. split; [|intros _ S; discriminate].
  intros h a C E NI S. cbn [simple_stmt] in S. apply andb_true_iff in S as [S1 S2].
  apply is_handle_eq in S1. subst h0.
  rewrite run_app. change (run cfg [(c, OCtxEnter h)] s) with (api cfg c s (OCtxEnter h)).
  destruct (octxenter_view cfg d e c s h G) as (G2 & H2 & C2 & T2 & N2 & R2).
  set (s2 := api cfg c s (OCtxEnter h)) in *.
  rewrite run_app, run_probe.
  destruct (oprobe_view cfg d e c s2 G2) as (G3 & H3 & C3 & T3 & N3 & R3).
  set (s3 := api cfg c s2 OProbe) in *.
  rewrite run_app.
  assert (E3 : alookup h (heap s3) = Some a) by (now rewrite H3, H2).
  destruct (IHb s3 G3 ND TB) as [IHin _]. specialize (IHin h a (eq_trans C3 C2) E3 NI S2).
  rewrite CB in IHin. cbn [fst] in IHin.
  set (s4 := run cfg bops s3) in *.
  destruct IHin as (G4 & C4 & T4 & N4 & A4 & F4 & P4).
  change (run cfg [(c, OCtxExit)] s4) with (api cfg c s4 OCtxExit).
  assert (T4' : tstack s4 c = cur s c :: tstack s c) by congruence.
  destruct (octxexit_view cfg d e c s4 _ _ G4 T4') as (G5 & H5 & C5 & T5 & N5 & R5).
  unfold InSpec. split; [exact G5|]. split; [congruence|]. split; [congruence|]. split; [congruence|].
  split; [|split].
  - rewrite H5. exact A4.
  - intros h' N X. rewrite H5, F4 by assumption. now rewrite H3, H2.
  - now rewrite R5, P4, R3, R2.
Qed.

Theorem eval_spec : forall p, Qp p.
Proof.
  apply (prog_ind' Pst Qp).
  - (* SMsg *)
    intros mt fs ser s G _ _. change (fst (compile_stmt c (SMsg mt fs ser))) with [(c, OLog mt fs ser)].
    change (run cfg [(c, OLog mt fs ser)] s) with (api cfg c s (OLog mt fs ser)). split.
    + intros h a C E _ S. cbn [simple_stmt] in S. apply andb_true_iff in S as [S1 S2].
      destruct ser; [discriminate|]. destruct (plain_mkfields fs S2) as [A B].
      eapply one_msg_in; [exact E|apply olog_in; assumption|now apply pv_stamp].
    + intros C S. cbn [simple_stmt] in S. apply andb_true_iff in S as [S1 S2].
      destruct ser; [discriminate|]. destruct (plain_mkfields fs S2) as [A B].
      eapply one_msg_top; [apply olog_top; assumption|now apply pv_stamp].
  - (* SActLog *)
    intros h0 mt fs s G _ _. change (fst (compile_stmt c (SActLog h0 mt fs))) with [(c, OActionLog h0 mt fs)].
    change (run cfg [(c, OActionLog h0 mt fs)] s) with (api cfg c s (OActionLog h0 mt fs)).
    split; [|intros _ S; discriminate].
    intros h a C E _ S. cbn [simple_stmt] in S. apply andb_true_iff in S as [S1 S2].
    apply is_handle_eq in S1. subst h0. destruct (plain_mkfields fs S2) as [A B].
    eapply one_msg_in; [exact E|rewrite <- C; apply oactlog_in; assumption|now apply pv_stamp].
  - (* SAct *) exact act_case.
  - (* SRaise *)
    intros x s G _ _. change (fst (compile_stmt c (SRaise x))) with (@nil (nat * op)). rewrite run_nil.
    split.
    + intros h a C E _ _. now apply InSpec_nil.
    + intros C _. now apply TopSpec_nil.
  - (* STry *)
    intros body IHb s G ND TB. rewrite compile_stmt_try, kids_stmt_try. cbn [fst].
    destruct (IHb s G ND TB) as [IHin IHtop]. split.
    + intros h a C E NI S. exact (IHin h a C E NI S).
    + intros C S. exact (IHtop C S).
  - (* STraceback *)
    intros x s G _ TB. specialize (TB eq_refl).
    change (fst (compile_stmt c (STraceback x))) with [(c, OTraceback x)].
    change (run cfg [(c, OTraceback x)] s) with (api cfg c s (OTraceback x)). split.
    + intros h a C E _ _.
      destruct (otraceback_in cfg d e c reg TB s h a x G C E) as (m & V & PM).
      eapply one_msg_in; eassumption.
    + intros C _.
      destruct (otraceback_top cfg d e c reg TB s x G C) as (m & V & PM).
      eapply one_msg_top; eassumption.
  - (* SHandoff *) intros h slot h' c' body _ s G _ _. split; [intros ? ? _ _ _ S|intros _ S]; discriminate.
  - (* SReenter *) exact reenter_case.
  - (* SFinishAgain *) intros h exc s G _ _. split; [intros ? ? _ _ _ S|intros _ S]; discriminate.
  - (* SRawWrite *) intros m ser s G _ _. split; [intros ? ? _ _ _ S|intros _ S]; discriminate.
  - (* SSpawn *) intros c' body _ s G _ _. split; [intros ? ? _ _ _ S|intros _ S]; discriminate.
  - (* [] *)
    intros s G _ _. change (fst (compile c [])) with (@nil (nat * op)). rewrite run_nil. split.
    + intros h a C E _ _. now apply InSpec_nil.
    + intros C _. now apply TopSpec_nil.
  - exact cons_case.
Qed.

End Emission.

(* ====================================================================================== *)
(* 4. whole programs                                                                      *)
(* ====================================================================================== *)
Lemma reg_plain_fields cfg : reg_plain cfg = true -> reg_fields cfg = true.
Proof.
  unfold reg_plain, reg_fields. rewrite !forallb_forall. intros H x Hx. specialize (H x Hx).
  destruct (snd x); [reflexivity|discriminate].
Qed.

Lemma reg_ok_fields cfg p : reg_ok cfg p = true -> reg_fields cfg = true.
Proof. unfold reg_ok. destruct (has_tb p); [apply reg_plain_fields|auto]. Qed.

Lemma reg_ok_plain cfg p : reg_ok cfg p = true -> has_tb p = true -> reg_plain cfg = true.
Proof. unfold reg_ok. intros H T. now rewrite T in H. Qed.

(* the state in which the program starts: destination d registered, nothing logged *)
Definition start_state (d : nat) (e : exn) : state := set_out init_state true [] [mk_dest d BNever e] [].

Lemma run_one_dest cfg d e : run cfg (one_dest d e) init_state = start_state d e.
Proof. reflexivity. Qed.

Lemma run_prog_fst cfg pre p :
  fst (run_prog cfg pre p) = run cfg (fst (compile 0 p)) (run cfg pre init_state).
Proof. unfold run_prog. destruct (compile 0 p) as [ops out]. cbn [fst]. apply run_app. Qed.

Lemma Good_start d e : Good d e (start_state d e).
Proof. unfold Good, start_state. cbn. repeat split. exists 0, []. reflexivity. Qed.

(* what the destination received, as the parser sees it message by message, is the
   linearisation of the expected forest (identities aside) *)
Theorem C01_emission_view cfg d e p :
  simple p = true -> reg_ok cfg p = true ->
  Good d e (fst (run_prog cfg (one_dest d e) p)) /\
  map pv (trace_of (fst (run_prog cfg (one_dest d e) p)) d) = map Some (lin0 (expected p)).
Proof.
  intros S R. unfold simple in S. apply andb_true_iff in S as [S1 S2]. apply nodupb_NoDup in S2.
  rewrite run_prog_fst, run_one_dest.
  destruct (eval_spec cfg d e 0 (reg_ok_fields cfg p R) p (start_state d e) (Good_start d e) S2
              (reg_ok_plain cfg p R)) as [_ T].
  destruct (T eq_refl S1) as (G & _ & _ & _ & _ & P).
  split; [exact G|]. rewrite (Good_trace d e _ G), P. reflexivity.
Qed.

(* ====================================================================================== *)
(* Examples                                                                               *)
(* ====================================================================================== *)
Module C01Examples.

Definition ex_e : exn := mkExn 1 8%positive 30%positive false.
(* an extractor for class 8 *)
Definition ex_cfg : config := mk_config [] [(8%positive, XFields [(20%positive, VInt 4)])].
Definition T (n : positive) : val := VTypeName n.

(* six tasks: a context-less message; a start_task action with nesting depth 4 that uses the three
   block styles, action.log, a traceback, a failing action inside a try block, fields that name
   reserved keys, success fields, a re-entered context; a try block at top level whose message and
   traceback are tasks of their own; two more top-level actions, the last one failing (its
   exception escapes the program, the final message is never logged) *)
Definition ex_p : list stmt :=
  [ SMsg (T 10) [(21%positive, VInt 1)] None;
    SAct 1 WithBlock true (T 11) [(K_status, VInt 1)] None [(K_atype, VInt 2)]
      [ SMsg (T 12) [] None;
        SAct 2 CtxFinish false (T 13) [] None []
          [ SActLog 2 (T 19) [];
            STry [ SAct 3 RunFinish false (T 14) [] None []
                     [ SMsg (T 15) [] None; STraceback ex_e; SRaise ex_e; SMsg (T 16) [] None ];
                   SMsg (T 16) [] None ];
            SMsg (T 16) [] None ];
        STry [ SMsg (T 17) [] None;
               SAct 4 WithBlock false (T 18) [] None []
                 [ SReenter 4 [SMsg (T 15) [] None];
                   SAct 8 WithBlock false (T 18) [] None [] [SAct 9 CtxFinish false (T 18) [] None [] [SRaise ex_e]] ];
               SMsg (T 17) [] None ];
        SMsg (T 12) [] None ];
    STry [SMsg (T 10) [] None; STraceback ex_e; SRaise ex_e];
    SAct 5 RunFinish false (T 11) [] None [] [SAct 6 WithBlock false (T 11) [] None [] []];
    SAct 7 CtxFinish false (T 11) [] None [] [SRaise ex_e];
    SMsg (T 10) [] None ].

Example ex_simple : simple ex_p = true /\ reg_ok ex_cfg ex_p = true.
Proof. vm_compute. split; reflexivity. Qed.

Example ex_expected :
  expected ex_p =
  [ TMsg 10;
    TAct 11 PSucceeded
      [ TMsg 12;
        TAct 13 PSucceeded [TMsg 19; TAct 14 PFailed [TMsg 15; TMsg T_traceback]; TMsg 16];
        TMsg 17;
        TAct 18 PFailed [TMsg 15; TAct 18 PFailed [TAct 18 PFailed []]];
        TMsg 12 ];
    TMsg 10;
    TMsg T_traceback;
    TAct 11 PSucceeded [TAct 11 PSucceeded []];
    TAct 11 PFailed [] ].
Proof. vm_compute. reflexivity. Qed.

(* the conclusion of [C01_emission_view], by evaluation: 29 messages *)
Example ex_emission_view :
  map pv (trace_of (fst (run_prog ex_cfg (one_dest 0 ex_e) ex_p)) 0) = map Some (lin0 (expected ex_p))
  /\ length (lin0 (expected ex_p)) = 29.
Proof. vm_compute. split; reflexivity. Qed.

(* the hypotheses of the master lemma inside an action, on a state that is not the start state:
   action 40 (a child of task action 41) is current, has handed out 2 positions, 3 messages were
   logged; the statements run there are the body of action 1 of [ex_p] *)
Definition ex_pre : list (nat * op) :=
  one_dest 0 ex_e ++
  [(0, OStart 41 true (T 30) [] None); (0, OEnter 41); (0, OStart 40 false (T 31) [] None); (0, OEnter 40);
   (0, OLog (T 32) [] None)].
Definition ex_s : state := run ex_cfg ex_pre init_state.
Definition ex_body : list stmt :=
  match nth 1 ex_p (SRaise ex_e) with SAct _ _ _ _ _ _ _ body => body | _ => [] end.

Example ex_master_hyps :
  Good 0 ex_e ex_s /\ cur ex_s 0 = Some 40 /\
  (exists a, alookup 40 (heap ex_s) = Some a /\ a_last a = 2 /\ a_level a = [2%positive] /\ a_uuid a = 0) /\
  NoDup (handles ex_body) /\ ~ In 40 (handles ex_body) /\
  forallb (simple_stmt (Some 40)) ex_body = true /\ length (tr ex_s) = 3.
Proof.
  split; [|split; [|split; [|split; [|split; [|split]]]]].
  - unfold Good. vm_compute. repeat split. eexists _, _. reflexivity.
  - reflexivity.
  - eexists. vm_compute. repeat split.
  - apply nodupb_NoDup. reflexivity.
  - vm_compute. intuition discriminate.
  - reflexivity.
  - reflexivity.
Qed.

(* ... and its conclusion there: the 18 new messages are the children laid out from position 3
   of prefix [2] in task 0; the action's counter moved on by the 5 children *)
Example ex_master_concl :
  let s' := run ex_cfg (fst (compile 0 ex_body)) ex_s in
  map pv (tr s') = map pv (tr ex_s) ++ map Some (lay 0 [2%positive] 2 (kids ex_body)) /\
  length (lay 0 [2%positive] 2 (kids ex_body)) = 18 /\
  cur s' 0 = Some 40 /\ option_map a_last (alookup 40 (heap s')) = Some 7 /\ next_uuid s' = next_uuid ex_s.
Proof. vm_compute. repeat split; reflexivity. Qed.

End C01Examples.
