(* Proofs about Model/Generators.v (property C15). *)
From Coq Require Import List Arith Bool Lia.
Require Import Eliot.Model.Generators.
Import ListNotations.

(* ------------------------------------------------------------ list update *)
Lemma nth_error_upd_nth_eq {A} (f : A -> A) l n :
  nth_error (upd_nth n f l) n = option_map f (nth_error l n).
Proof.
  revert n. induction l as [|x l IH]; intros [|n]; cbn; auto.
Qed.
Lemma nth_error_upd_nth_neq {A} (f : A -> A) l n m :
  n <> m -> nth_error (upd_nth n f l) m = nth_error l m.
Proof.
  revert n m. induction l as [|x l IH]; intros [|n] [|m] H; cbn; auto; try congruence.
Qed.

Lemma get_upd_eq g f w : get g (upd_gen g f w) = option_map f (get g w).
Proof. apply nth_error_upd_nth_eq. Qed.
Lemma get_upd_neq g x f w : g <> x -> get x (upd_gen g f w) = get x w.
Proof. apply nth_error_upd_nth_neq. Qed.

Lemma mem_In g l : mem g l = true <-> In g l.
Proof.
  unfold mem. rewrite existsb_exists. split.
  - intros [x [Hx E]]. apply Nat.eqb_eq in E. now subst.
  - intros H. exists g. split; auto. apply Nat.eqb_refl.
Qed.
Lemma mem_false g l : mem g l = false -> ~ In g l.
Proof. intros E H. apply mem_In in H. congruence. Qed.

(* ================================================================ frame *)
(* w' differs from w at most in the trace and in generators outside P *)
Definition keeps (P : gid -> Prop) (w w' : world) : Prop :=
  w_main w' = w_main w /\ w_stack w' = w_stack w /\ forall x, P x -> get x w' = get x w.

Lemma keeps_refl P w : keeps P w w.
Proof. repeat split; auto. Qed.
Lemma keeps_trans (P Q : gid -> Prop) w1 w2 w3 :
  keeps P w1 w2 -> keeps Q w2 w3 -> (forall x, P x -> Q x) -> keeps P w1 w3.
Proof.
  intros (a & b & c) (a' & b' & c') H. repeat split; try congruence.
  intros x Hx. rewrite c' by auto. auto.
Qed.
Lemma keeps_weaken (P Q : gid -> Prop) w w' : keeps Q w w' -> (forall x, P x -> Q x) -> keeps P w w'.
Proof. intros (a & b & c) H. repeat split; auto. Qed.
Lemma keeps_emit P e w : keeps P w (emit e w).
Proof. repeat split; auto. Qed.
Lemma keeps_upd (P : gid -> Prop) g f w : ~ P g -> keeps P w (upd_gen g f w).
Proof.
  intros H. repeat split; auto. intros x Hx. apply get_upd_neq. intros ->. auto.
Qed.

Definition res_frame (res : resumer) : Prop :=
  forall g i w, keeps (fun x => In x (w_stack w)) w (fst (res g i w)).

Lemma cur_ctx_keeps w w' : keeps (fun x => In x (w_stack w)) w w' -> cur_ctx w' = cur_ctx w.
Proof.
  intros (a & b & c). unfold cur_ctx. rewrite b. destruct (w_stack w) as [|g st] eqn:E; auto.
  rewrite c by (left; reflexivity). reflexivity.
Qed.

(* a context operation executed while g's context is current touches g only *)
Lemma do_op_frame o w g st :
  w_stack w = g :: st ->
  keeps (fun x => x <> g) w (fst (do_op o w)).
Proof.
  intros E. unfold do_op. destruct (apply_op o (cur_ctx w)) as [c|]; cbn [fst].
  - unfold set_cur_ctx. rewrite E.
    apply (keeps_trans _ (fun x => x <> g) _ (set_ctx g (Some c) w)); [| apply keeps_emit | auto].
    apply keeps_upd. auto.
  - apply keeps_emit.
Qed.

Lemma keeps_step (P Q : gid -> Prop) w w1 w2 :
  keeps Q w w1 -> (forall x, P x -> Q x) -> keeps P w1 w2 -> keeps P w w2.
Proof.
  intros (a & b & c) H (a' & b' & c'). repeat split; try congruence.
  intros x Hx. rewrite c' by auto. auto.
Qed.

Lemma run_seg_frame res : res_frame res ->
  forall sg w g st, w_stack w = g :: st ->
  keeps (fun x => In x st /\ x <> g) w (fst (run_seg res sg w)).
Proof.
  intros Hres. induction sg as [h k IH|h k IH|k IH|g' i k IH|v s|v|e]; intros w g st E; cbn [run_seg].
  - pose proof (do_op_frame (OpEnter h) w g st E) as F.
    apply (keeps_step _ _ _ _ _ F); [intros x [_ H]; exact H|].
    apply IH. destruct F as (_ & b & _). congruence.
  - pose proof (do_op_frame (OpExit h) w g st E) as F.
    destruct (do_op (OpExit h) w) as [w1 ok]. cbn [fst] in F.
    destruct ok; cbn [fst].
    + apply (keeps_step _ _ _ _ _ F); [intros x [_ H]; exact H|].
      apply IH. destruct F as (_ & b & _). congruence.
    + eapply keeps_weaken; [exact F|]. intros x [_ H]; exact H.
  - pose proof (do_op_frame OpProbe w g st E) as F.
    apply (keeps_step _ _ _ _ _ F); [intros x [_ H]; exact H|].
    apply IH. destruct F as (_ & b & _). congruence.
  - pose proof (Hres g' i w) as F. destruct (res g' i w) as [w1 o]. cbn [fst] in F.
    apply (keeps_step _ _ _ _ _ F).
    + intros x [Hx _]. rewrite E. now right.
    + apply IH. destruct F as (_ & b & _). congruence.
  - apply keeps_refl.
  - apply keeps_refl.
  - apply keeps_refl.
Qed.

Lemma keeps_then (P : gid -> Prop) w w1 w2 : keeps P w w1 -> keeps P w1 w2 -> keeps P w w2.
Proof. intros A B. apply (keeps_trans P P w w1 w2 A B). auto. Qed.
Lemma keeps_upd_top st g f w : keeps (fun x => In x st /\ x <> g) w (upd_gen g f w).
Proof. apply keeps_upd. intros [_ H]. congruence. Qed.

Lemma inner_resume_frame res : res_frame res ->
  forall g bi w st, w_stack w = g :: st ->
  keeps (fun x => In x st /\ x <> g) w (fst (inner_resume res g bi w)).
Proof.
  intros Hres g bi w st E. unfold inner_resume.
  destruct (get g w) as [x|]; [|apply keeps_refl].
  assert (R : forall s, keeps (fun x => In x st /\ x <> g) w
     (fst (let (w1, r) := run_seg res (g_body x s bi) w in
        match r with
        | RYield v s' => (set_i g (PSuspended s') w1, ORet v)
        | RReturn v => (set_i g PFinished w1, OStop v)
        | RRaise e => (set_i g PFinished w1, ORaise e)
        end))).
  { intros s. pose proof (run_seg_frame res Hres (g_body x s bi) w g st E) as F.
    destruct (run_seg res (g_body x s bi) w) as [w1 r]. cbn [fst] in F.
    destruct r; cbn [fst]; (apply (keeps_then _ _ _ _ F)); apply keeps_upd_top. }
  destruct (g_i x); destruct bi as [[v|]|e]; try apply R; try apply keeps_refl;
    cbn [fst]; apply keeps_upd_top.
Qed.

Lemma ctx_run_frame res : res_frame res ->
  forall g bi w, ~ In g (w_stack w) ->
  keeps (fun x => In x (w_stack w)) w (fst (ctx_run g (inner_resume res g bi) w)).
Proof.
  intros Hres g bi w Hg. unfold ctx_run.
  pose proof (inner_resume_frame res Hres g bi (push g w) (w_stack w) eq_refl) as F.
  destruct (inner_resume res g bi (push g w)) as [w1 o]. cbn [fst] in *.
  destruct F as (a & b & c). repeat split; cbn.
  - rewrite a. reflexivity.
  - rewrite b. reflexivity.
  - intros x Hx. unfold get, pop in *. cbn. apply c. split; auto. intros ->. auto.
Qed.

Lemma tramp_frame legacy res : res_frame res ->
  forall g bi w, ~ In g (w_stack w) ->
  keeps (fun x => In x (w_stack w)) w (fst (tramp legacy res g bi w)).
Proof.
  intros Hres g bi w Hg. unfold tramp.
  pose proof (ctx_run_frame res Hres g bi w Hg) as F.
  destruct (ctx_run g (inner_resume res g bi) w) as [w1 o]. cbn [fst] in F.
  destruct o; cbn [fst]; apply (keeps_then _ _ _ _ F); apply keeps_upd; exact Hg.
Qed.

Lemma wrapper_resume_frame legacy res : res_frame res ->
  forall g i w, ~ In g (w_stack w) ->
  keeps (fun x => In x (w_stack w)) w (fst (wrapper_resume legacy res g i w)).
Proof.
  intros Hres g i w Hg. unfold wrapper_resume.
  destruct (get g w) as [x|]; [|apply keeps_refl].
  assert (S : keeps (fun x => In x (w_stack w)) w
     (fst (tramp legacy res g (BSend None) (set_w g WSuspended (set_ctx g (Some (copy_ctx (cur_ctx w))) w))))).
  { eapply keeps_then; [unfold set_ctx; apply keeps_upd; exact Hg |].
    eapply keeps_then; [unfold set_w; apply keeps_upd; exact Hg |].
    exact (tramp_frame legacy res Hres g (BSend None)
             (set_w g WSuspended (set_ctx g (Some (copy_ctx (cur_ctx w))) w)) Hg). }
  destruct (g_w x).
  - destruct i as [|[v|]|e|]; auto; try apply keeps_refl; cbn [fst]; apply keeps_upd; auto.
  - destruct i as [|v|e|]; try (apply tramp_frame; auto).
    pose proof (tramp_frame legacy res Hres g (BThrow GeneratorExit) w Hg) as F.
    destruct (tramp legacy res g (BThrow GeneratorExit) w). exact F.
  - destruct i; apply keeps_refl.
Qed.

Lemma resume_frame legacy fuel : res_frame (resume legacy fuel).
Proof.
  induction fuel as [|f IH]; intros g i w; cbn [resume].
  - apply keeps_refl.
  - set (w0 := emit (ECall (who w) g i (cur_ctx w)) w).
    destruct (mem g (w_stack w0)) eqn:M.
    + cbn [fst]. eapply keeps_then; apply keeps_emit.
    + apply mem_false in M.
      pose proof (wrapper_resume_frame legacy (resume legacy f) IH g i w0 M) as F.
      destruct (wrapper_resume legacy (resume legacy f) g i w0) as [w1 o]. cbn [fst] in *.
      eapply keeps_then; [apply (keeps_emit _ (ECall (who w) g i (cur_ctx w)) w) |].
      eapply keeps_then; [exact F | apply keeps_emit].
Qed.

(* C15, second clause: whatever the generator does, the caller's current
   context (object and content), hence its current action, is what it was *)
Theorem driver_unchanged legacy fuel g i w :
  let w' := fst (resume legacy fuel g i w) in
  w_stack w' = w_stack w /\ w_main w' = w_main w /\ cur_ctx w' = cur_ctx w.
Proof.
  cbn. pose proof (resume_frame legacy fuel g i w) as F.
  split; [apply F|]. split; [apply F|]. apply cur_ctx_keeps. exact F.
Qed.

(* ========================================================= own context *)
(* The statement is about the trace alone.  For generator g we scan the
   trace, remembering
     c_start: a copy of the caller's context at the first call on g that can
              start it (next / send(None)),
     c_own:   the context left by g's own latest operation,
   and require of every operation executed by g that the current context it
   sees is c_own (c_start if g has not executed any operation yet) and that
   what it leaves is the operation applied to that. *)
Record cstate := mkcs { c_start : option ctx; c_own : option ctx }.
Definition cinit := mkcs None None.
Definition starts (i : input) : bool :=
  match i with Next => true | Send None => true | _ => false end.
Definition eff (s : cstate) : option ctx :=
  match c_own s with Some o => Some o | None => c_start s end.

Definition c_next (g : gid) (s : cstate) (e : event) : cstate :=
  match e with
  | ECall _ g' i c =>
      if Nat.eqb g' g && starts i && negb (is_some (c_start s))
      then mkcs (Some (copy_ctx c)) (c_own s) else s
  | EOp (Some g') _ _ _ a => if Nat.eqb g' g then mkcs (c_start s) (Some a) else s
  | _ => s
  end.
Definition c_ok (g : gid) (s : cstate) (e : event) : Prop :=
  match e with
  | EOp (Some g') o ok b a =>
      g' = g -> eff s = Some b /\ a = apply_total o b /\ ok = is_some (apply_op o b)
  | _ => True
  end.
Fixpoint chain (g : gid) (s : cstate) (t : list event) : Prop :=
  match t with
  | [] => True
  | e :: t' => c_ok g s e /\ chain g (c_next g s e) t'
  end.
Definition final (g : gid) (s : cstate) (t : list event) : cstate := fold_left (c_next g) t s.

Lemma chain_app g t1 : forall s t2,
  chain g s (t1 ++ t2) <-> chain g s t1 /\ chain g (final g s t1) t2.
Proof.
  induction t1 as [|e t1 IH]; intros s t2; cbn.
  - tauto.
  - rewrite IH. tauto.
Qed.
Lemma final_app g t1 t2 s : final g s (t1 ++ t2) = final g (final g s t1) t2.
Proof. apply fold_left_app. Qed.

Definition hist (w : world) : list event := rev (w_trace w).
Definition fin (g : gid) (w : world) : cstate := final g cinit (hist w).

Definition rel (g : gid) (s : cstate) (stack : list gid) (ox : option gen) : Prop :=
  match ox with
  | None => ~ In g stack
  | Some x =>
      match g_ctx x with
      | Some c => eff s = Some c /\ g_w x <> WUnstarted
      | None => ~ In g stack /\ (g_w x = WFinished \/ (g_w x = WUnstarted /\ s = cinit))
      end
  end.

Definition Inv (g : gid) (w : world) : Prop :=
  chain g cinit (hist w) /\ rel g (fin g w) (w_stack w) (get g w).

Lemma hist_emit e w : hist (emit e w) = hist w ++ [e].
Proof. reflexivity. Qed.
Lemma fin_emit g e w : fin g (emit e w) = c_next g (fin g w) e.
Proof. unfold fin. rewrite hist_emit, final_app. reflexivity. Qed.
Lemma chain_emit g e w : chain g cinit (hist w) -> c_ok g (fin g w) e -> chain g cinit (hist (emit e w)).
Proof.
  intros H K. rewrite hist_emit. apply chain_app. split; auto. cbn. auto.
Qed.

Lemma inv_emit_neutral g e w :
  Inv g w -> (forall s, c_next g s e = s) -> (forall s, c_ok g s e) -> Inv g (emit e w).
Proof.
  intros [C R] N K. split.
  - apply chain_emit; auto.
  - rewrite fin_emit, N. exact R.
Qed.

(* operations that do not touch the trace *)
Lemma inv_same_trace g w w' :
  Inv g w -> w_trace w' = w_trace w -> rel g (fin g w) (w_stack w') (get g w') -> Inv g w'.
Proof.
  intros [C R] T R'. unfold Inv, fin, hist in *. rewrite T. split; auto.
Qed.

Lemma inv_upd_other g g' f w : g' <> g -> Inv g w -> Inv g (upd_gen g' f w).
Proof.
  intros N I. apply (inv_same_trace g w); auto.
  rewrite get_upd_neq by auto. apply I.
Qed.

Lemma rel_stack_other g g' s st ox : g' <> g -> rel g s st ox -> rel g s (g' :: st) ox.
Proof.
  intros N. unfold rel. destruct ox as [x|].
  - destruct (g_ctx x); auto. intros [A B]. split; auto. intros [E|E]; auto.
  - intros A [E|E]; auto.
Qed.
Lemma rel_stack_tl g s st ox : rel g s st ox -> rel g s (tl st) ox.
Proof.
  assert (T : In g (tl st) -> In g st) by (destruct st; cbn; auto).
  unfold rel. destruct ox as [x|]; [destruct (g_ctx x)|]; intuition.
Qed.

Lemma inv_push_other g g' w : g' <> g -> Inv g w -> Inv g (push g' w).
Proof.
  intros N I. apply (inv_same_trace g w); auto. apply rel_stack_other; auto. apply I.
Qed.
Lemma inv_pop g w : Inv g w -> Inv g (pop w).
Proof.
  intros I. apply (inv_same_trace g w); auto. apply rel_stack_tl. apply I.
Qed.
Lemma inv_push_self g w x c : get g w = Some x -> g_ctx x = Some c -> Inv g w -> Inv g (push g w).
Proof.
  intros G Cx I. apply (inv_same_trace g w); auto.
  destruct I as [_ R]. unfold get, push in *. cbn. rewrite G in *. unfold rel in *. rewrite Cx in *. exact R.
Qed.
Lemma inv_set_i g g' s w : Inv g w -> Inv g (set_i g' s w).
Proof.
  intros I. destruct (Nat.eq_dec g' g) as [->|N]; [|apply inv_upd_other; auto].
  apply (inv_same_trace g w); auto. unfold set_i. rewrite get_upd_eq.
  destruct I as [_ R]. destruct (get g w) as [x|]; cbn in *; auto.
Qed.
Lemma inv_set_w_fin g g' w : Inv g w -> Inv g (set_w g' WFinished w).
Proof.
  intros I. destruct (Nat.eq_dec g' g) as [->|N]; [|apply inv_upd_other; auto].
  apply (inv_same_trace g w); auto. unfold set_w. rewrite get_upd_eq.
  destruct I as [_ R]. destruct (get g w) as [x|]; cbn in *; auto.
  destruct (g_ctx x).
  - split; [apply R | discriminate].
  - split; [apply R | auto].
Qed.
Lemma inv_set_w_susp g g' w :
  Inv g w -> (g' = g -> forall x, get g w = Some x -> g_ctx x <> None) -> Inv g (set_w g' WSuspended w).
Proof.
  intros I H. destruct (Nat.eq_dec g' g) as [->|N]; [|apply inv_upd_other; auto].
  apply (inv_same_trace g w); auto. unfold set_w. rewrite get_upd_eq.
  destruct I as [_ R]. specialize (H eq_refl). destruct (get g w) as [x|]; cbn in *; auto.
  specialize (H x eq_refl). destruct (g_ctx x); [|congruence].
  split; [apply R | discriminate].
Qed.

Lemma on_stack_ctx g w : Inv g w -> In g (w_stack w) -> exists x c, get g w = Some x /\ g_ctx x = Some c.
Proof.
  intros [_ R] H. unfold rel in R. destruct (get g w) as [x|]; [|tauto].
  destruct (g_ctx x) as [c|] eqn:Cx; [exists x, c; auto | tauto].
Qed.

(* any context operation, executed by anybody, keeps the invariant *)
Lemma inv_do_op g o w : Inv g w -> Inv g (fst (do_op o w)).
Proof.
  intros I. unfold do_op.
  destruct (w_stack w) as [|t st] eqn:E.
  - (* the driver *)
    assert (W : who w = None) by (unfold who; now rewrite E).
    rewrite W. destruct (apply_op o (cur_ctx w)) as [a|]; cbn [fst].
    + apply inv_emit_neutral; auto; [| now cbn].
      unfold set_cur_ctx. rewrite E. apply (inv_same_trace g w); auto. destruct I as [_ R]. rewrite E in R. exact R.
    + apply inv_emit_neutral; auto; now cbn.
  - assert (W : who w = Some t) by (unfold who; now rewrite E).
    rewrite W. destruct (Nat.eq_dec t g) as [->|N].
    + (* g itself *)
      destruct (on_stack_ctx g w I) as (x & c & G & Cx); [rewrite E; now left|].
      assert (B : cur_ctx w = c) by (unfold cur_ctx; now rewrite E, G, Cx).
      rewrite B. destruct I as [Ch R]. unfold rel in R. rewrite G, Cx in R.
      destruct (apply_op o c) as [a|] eqn:A; cbn [fst].
      * assert (A' : cur_ctx (set_cur_ctx a w) = a).
        { unfold set_cur_ctx, cur_ctx. rewrite E. cbn [set_ctx upd_gen w_stack]. rewrite E.
          unfold set_ctx. rewrite get_upd_eq, G. reflexivity. }
        rewrite A'.
        assert (T : w_trace (set_cur_ctx a w) = w_trace w) by (unfold set_cur_ctx; rewrite E; reflexivity).
        assert (Hh : hist (set_cur_ctx a w) = hist w) by (unfold hist; now rewrite T).
        assert (Hf : fin g (set_cur_ctx a w) = fin g w) by (unfold fin; now rewrite Hh).
        assert (Gs : get g (set_cur_ctx a w) = Some (mkgen (g_body x) (Some a) (g_w x) (g_i x))).
        { unfold set_cur_ctx. rewrite E. unfold set_ctx. rewrite get_upd_eq, G. reflexivity. }
        assert (Ss : w_stack (set_cur_ctx a w) = g :: st) by (unfold set_cur_ctx; rewrite E; exact E).
        split.
        -- apply chain_emit; [rewrite Hh; auto|]. rewrite Hf. cbn. intros _. split; [apply R|].
           unfold apply_total. rewrite A. auto.
        -- rewrite fin_emit, Hf. cbn [c_next]. rewrite Nat.eqb_refl.
           change (get g (emit (EOp (Some g) o true c a) (set_cur_ctx a w))) with (get g (set_cur_ctx a w)).
           rewrite Gs. cbn. split; [reflexivity | apply R].
      * split.
        -- apply chain_emit; auto. cbn. intros _. split; [apply R|].
           unfold apply_total. rewrite A. auto.
        -- rewrite fin_emit. cbn [c_next]. rewrite Nat.eqb_refl.
           change (get g (emit (EOp (Some g) o false c c) w)) with (get g w).
           rewrite G. cbn. rewrite Cx. split; [reflexivity | apply R].
    + (* another generator *)
      assert (NE : Nat.eqb t g = false) by (apply Nat.eqb_neq; auto).
      destruct (apply_op o (cur_ctx w)) as [a|]; cbn [fst].
      * apply inv_emit_neutral; [| intros s; cbn; now rewrite NE | intros s; cbn; congruence].
        unfold set_cur_ctx. rewrite E. apply inv_upd_other; auto.
      * apply inv_emit_neutral; auto; [intros s; cbn; now rewrite NE | intros s; cbn; congruence].
Qed.

Definition res_inv (g : gid) (res : resumer) : Prop := forall x i w, Inv g w -> Inv g (fst (res x i w)).

Lemma inv_run_seg g res : res_inv g res -> forall sg w, Inv g w -> Inv g (fst (run_seg res sg w)).
Proof.
  intros Hres. induction sg as [h k IH|h k IH|k IH|g' i k IH|v s|v|e]; intros w I; cbn [run_seg]; auto.
  - apply IH, inv_do_op, I.
  - pose proof (inv_do_op g (OpExit h) w I) as J. destruct (do_op (OpExit h) w) as [w1 ok].
    destruct ok; cbn [fst] in *; auto.
  - apply IH, inv_do_op, I.
  - pose proof (Hres g' i w I) as J. destruct (res g' i w) as [w1 o]. cbn [fst] in J. apply IH, J.
Qed.

Lemma inv_inner_resume g res : res_inv g res -> forall g' bi w, Inv g w -> Inv g (fst (inner_resume res g' bi w)).
Proof.
  intros Hres g' bi w I. unfold inner_resume. destruct (get g' w) as [x|]; auto.
  assert (R : forall s, Inv g
     (fst (let (w1, r) := run_seg res (g_body x s bi) w in
        match r with
        | RYield v s' => (set_i g' (PSuspended s') w1, ORet v)
        | RReturn v => (set_i g' PFinished w1, OStop v)
        | RRaise e => (set_i g' PFinished w1, ORaise e)
        end))).
  { intros s. pose proof (inv_run_seg g res Hres (g_body x s bi) w I) as J.
    destruct (run_seg res (g_body x s bi) w) as [w1 r]. cbn [fst] in J.
    destruct r; cbn [fst]; apply inv_set_i; auto. }
  destruct (g_i x); destruct bi as [[v|]|e]; try apply R; auto; cbn [fst]; apply inv_set_i; auto.
Qed.

(* one turn of the wrapper loop on a started generator *)
Lemma inv_tramp g legacy res : res_inv g res -> res_frame res ->
  forall g' bi w, ~ In g' (w_stack w) ->
  (g' = g -> exists x c, get g w = Some x /\ g_ctx x = Some c) ->
  Inv g w -> Inv g (fst (tramp legacy res g' bi w)).
Proof.
  intros Hres Hfr g' bi w Hg Hc I. unfold tramp, ctx_run.
  assert (IP : Inv g (push g' w)).
  { destruct (Nat.eq_dec g' g) as [->|N]; [|apply inv_push_other; auto].
    destruct (Hc eq_refl) as (x & c & G & Cx). eapply inv_push_self; eauto. }
  pose proof (inv_inner_resume g res Hres g' bi (push g' w) IP) as J.
  pose proof (inner_resume_frame res Hfr g' bi (push g' w) (w_stack w) eq_refl) as F.
  destruct (inner_resume res g' bi (push g' w)) as [w1 o]. cbn [fst] in *.
  assert (K : g' = g -> forall x, get g (pop w1) = Some x -> g_ctx x <> None).
  { intros -> x G. destruct (on_stack_ctx g w1 J) as (x' & c & G' & Cx).
    - destruct F as (_ & b & _). rewrite b. now left.
    - unfold get, pop in *. cbn in G. rewrite G' in G. inversion G; subst. congruence. }
  destruct o; cbn [fst].
  - apply inv_set_w_susp; [apply inv_pop; auto | exact K].
  - apply inv_set_w_fin, inv_pop; auto.
  - apply inv_set_w_fin, inv_pop; auto.
Qed.

Lemma inv_ecall g a g' i c w :
  Inv g w ->
  (g' <> g \/ starts i = false \/ (forall x, get g w = Some x -> g_ctx x <> None \/ g_w x = WFinished)) ->
  Inv g (emit (ECall a g' i c) w).
Proof.
  intros [Ch R] H. split; [apply chain_emit; cbn; auto|].
  rewrite fin_emit. change (get g (emit (ECall a g' i c) w)) with (get g w).
  change (w_stack (emit (ECall a g' i c) w)) with (w_stack w).
  cbn [c_next].
  destruct (Nat.eqb g' g) eqn:E1; cbn [andb]; auto.
  destruct (starts i) eqn:E2; cbn [andb]; auto.
  destruct (c_start (fin g w)) as [s0|] eqn:E3; cbn [is_some negb]; auto.
  destruct H as [H|[H|H]].
  - apply Nat.eqb_eq in E1. congruence.
  - congruence.
  - unfold rel in *. destruct (get g w) as [x|]; auto.
    destruct (H x eq_refl) as [K|K].
    + destruct (g_ctx x) as [c0|]; [|congruence].
      destruct R as [R1 R2]. split; auto. unfold eff in *. cbn.
      rewrite E3 in R1. destruct (c_own (fin g w)); auto.
    + destruct (g_ctx x) as [c0|].
      * destruct R as [R1 R2]. split; auto. unfold eff in *. cbn.
        rewrite E3 in R1. destruct (c_own (fin g w)); auto.
      * split; [apply R | auto].
Qed.

Lemma rel_ctx_some g w x :
  Inv g w -> get g w = Some x -> g_w x = WSuspended -> exists c, g_ctx x = Some c.
Proof.
  intros [_ R] G Wx. unfold rel in R. rewrite G in R. destruct (g_ctx x) as [c|]; [eauto|].
  destruct R as [_ [R|[R _]]]; congruence.
Qed.
Lemma rel_unstarted g w x :
  Inv g w -> get g w = Some x -> g_w x = WUnstarted ->
  g_ctx x = None /\ fin g w = cinit /\ ~ In g (w_stack w).
Proof.
  intros [_ R] G Wx. unfold rel in R. rewrite G in R. destruct (g_ctx x) as [c|].
  - destruct R as [_ R]. congruence.
  - destruct R as [A [B|[_ C]]]; [congruence | auto].
Qed.

Lemma inv_call_wrapper g legacy res : res_inv g res -> res_frame res ->
  forall g' i w, ~ In g' (w_stack w) -> Inv g w ->
  Inv g (fst (wrapper_resume legacy res g' i (emit (ECall (who w) g' i (cur_ctx w)) w))).
Proof.
  intros Hres Hfr g' i w Hg I.
  set (w0 := emit (ECall (who w) g' i (cur_ctx w)) w).
  unfold wrapper_resume. change (get g' w0) with (get g' w).
  destruct (get g' w) as [x|] eqn:G.
  2:{ cbn [fst]. apply inv_ecall; auto. destruct (Nat.eq_dec g' g) as [->|N]; auto.
      right; right. intros y Gy. congruence. }
  destruct (g_w x) eqn:Wx.
  - (* not started *)
    assert (NS : starts i = false -> Inv g w0) by (intros; apply inv_ecall; auto).
    assert (St : starts i = true ->
       Inv g (fst (tramp legacy res g' (BSend None)
                (set_w g' WSuspended (set_ctx g' (Some (copy_ctx (cur_ctx w0))) w0))))).
    { intros Hs. destruct (Nat.eq_dec g' g) as [->|N].
      - destruct (rel_unstarted g w x I G Wx) as (Cx & Fc & Ns).
        assert (G2 : get g (set_w g WSuspended (set_ctx g (Some (copy_ctx (cur_ctx w0))) w0))
                     = Some (mkgen (g_body x) (Some (copy_ctx (cur_ctx w))) WSuspended (g_i x))).
        { unfold set_w, set_ctx. rewrite !get_upd_eq. change (get g w0) with (get g w). rewrite G. reflexivity. }
        apply inv_tramp; auto.
        + intros _. eexists. eexists. split; [exact G2 | reflexivity].
        + split.
          * change (chain g cinit (hist w0)). apply chain_emit; [apply I | exact Logic.I].
          * rewrite G2.
            change (fin g (set_w g WSuspended (set_ctx g (Some (copy_ctx (cur_ctx w0))) w0))) with (fin g w0).
            unfold w0. rewrite fin_emit, Fc. cbn [c_next]. rewrite Nat.eqb_refl, Hs. cbn.
            split; [reflexivity | discriminate].
      - apply inv_tramp; auto; [intros; congruence|].
        apply inv_upd_other; auto. apply inv_upd_other; auto. apply inv_ecall; auto. }
    destruct i as [|[v|]|e|]; cbn [fst].
    + apply St. reflexivity.
    + apply NS. reflexivity.
    + apply St. reflexivity.
    + apply inv_set_w_fin, NS. reflexivity.
    + apply inv_set_w_fin, NS. reflexivity.
  - (* suspended *)
    assert (I0 : Inv g w0).
    { apply inv_ecall; auto. destruct (Nat.eq_dec g' g) as [->|N]; auto. right; right.
      intros y Gy. rewrite G in Gy. inversion Gy; subst y.
      destruct (rel_ctx_some g w x I G Wx) as [c Cx]. left; congruence. }
    assert (Tr : forall bi, Inv g (fst (tramp legacy res g' bi w0))).
    { intros bi. apply inv_tramp; auto. intros ->.
      destruct (rel_ctx_some g w x I G Wx) as [c Cx]. exists x, c. split; auto. }
    destruct i as [|v|e|]; try apply Tr.
    pose proof (Tr (BThrow GeneratorExit)) as T.
    destruct (tramp legacy res g' (BThrow GeneratorExit) w0). exact T.
  - (* finished *)
    assert (I0 : Inv g w0).
    { apply inv_ecall; auto. destruct (Nat.eq_dec g' g) as [->|N]; auto. right; right.
      intros y Gy. rewrite G in Gy. inversion Gy; subst y. auto. }
    destruct i; exact I0.
Qed.

Lemma inv_resume g legacy fuel : res_inv g (resume legacy fuel).
Proof.
  induction fuel as [|f IH]; intros g' i w I; cbn [resume]; auto.
  set (w0 := emit (ECall (who w) g' i (cur_ctx w)) w).
  destruct (mem g' (w_stack w0)) eqn:M.
  - cbn [fst]. apply inv_emit_neutral; [| now cbn | now cbn].
    apply inv_ecall; auto. destruct (Nat.eq_dec g' g) as [->|N]; auto. right; right.
    apply mem_In in M. destruct (on_stack_ctx g w I M) as (x & c & G & Cx).
    intros y Gy. rewrite G in Gy. inversion Gy; subst y. left; congruence.
  - apply mem_false in M.
    pose proof (inv_call_wrapper g legacy (resume legacy f) IH (resume_frame legacy f) g' i w M I) as J.
    fold w0 in J. destruct (wrapper_resume legacy (resume legacy f) g' i w0) as [w1 o]. cbn [fst] in *.
    apply inv_emit_neutral; [auto | now cbn | now cbn].
Qed.

Lemma inv_init g bodies : Inv g (init_world bodies).
Proof.
  split; [exact Logic.I|]. unfold rel, get, init_world. cbn.
  rewrite nth_error_map. destruct (nth_error bodies g); cbn; auto.
Qed.

Lemma inv_run_script g res : res_inv g res -> forall script w, Inv g w -> Inv g (run_script res script w).
Proof.
  intros Hres. induction script as [|st script IH]; intros w I; cbn; auto.
  apply IH. destruct st; cbn [run_dstep]; auto; apply inv_do_op; auto.
Qed.

(* C15, first clause.  For every family of bodies, every driver script (any
   interleaving of resumptions of several generators, from arbitrary and
   changing driver contexts, nested resumptions included) and every generator
   g: each operation g executes sees (copy of its resumer's context at its
   first resumption) updated by g's own earlier operations, nothing else. *)
Theorem own_context legacy fuel bodies script g :
  chain g cinit (hist (run_script (resume legacy fuel) script (init_world bodies))).
Proof.
  apply (inv_run_script g (resume legacy fuel) (inv_resume g legacy fuel) script (init_world bodies)).
  apply inv_init.
Qed.
