(* Proofs about Model/Generators.v (property C15). *)
From Coq Require Import List Arith Bool Lia.
Require Import Eliot.Model.Generators.
Import ListNotations.

(* ------------------------------------------------------------ list update *)
Lemma nth_error_upd_nth_eq {A} (f : A -> A) l n :
  nth_error (upd_nth n f l) n = option_map f (nth_error l n).
Proof.
  revert n. induction l as [|x l IH]; intros [|n]; cbn; auto.
Qed.
Lemma nth_error_upd_nth_neq {A} (f : A -> A) l n m :
  n <> m -> nth_error (upd_nth n f l) m = nth_error l m.
Proof.
  revert n m. induction l as [|x l IH]; intros [|n] [|m] H; cbn; auto; try congruence.
Qed.

Lemma get_upd_eq g f w : get g (upd_gen g f w) = option_map f (get g w).
Proof. apply nth_error_upd_nth_eq. Qed.
Lemma get_upd_neq g x f w : g <> x -> get x (upd_gen g f w) = get x w.
Proof. apply nth_error_upd_nth_neq. Qed.

Lemma mem_In g l : mem g l = true <-> In g l.
Proof.
  unfold mem. rewrite existsb_exists. split.
  - intros [x [Hx E]]. apply Nat.eqb_eq in E. now subst.
  - intros H. exists g. split; auto. apply Nat.eqb_refl.
Qed.
Lemma mem_false g l : mem g l = false -> ~ In g l.
Proof. intros E H. apply mem_In in H. congruence. Qed.

(* ================================================================ frame *)
(* w' differs from w at most in the trace and in generators outside P *)
Definition keeps (P : gid -> Prop) (w w' : world) : Prop :=
  w_main w' = w_main w /\ w_stack w' = w_stack w /\ forall x, P x -> get x w' = get x w.

Lemma keeps_refl P w : keeps P w w.
Proof. repeat split; auto. Qed.
Lemma keeps_trans (P Q : gid -> Prop) w1 w2 w3 :
  keeps P w1 w2 -> keeps Q w2 w3 -> (forall x, P x -> Q x) -> keeps P w1 w3.
Proof.
  intros (a & b & c) (a' & b' & c') H. repeat split; try congruence.
  intros x Hx. rewrite c' by auto. auto.
Qed.
Lemma keeps_weaken (P Q : gid -> Prop) w w' : keeps Q w w' -> (forall x, P x -> Q x) -> keeps P w w'.
Proof. intros (a & b & c) H. repeat split; auto. Qed.
Lemma keeps_emit P e w : keeps P w (emit e w).
Proof. repeat split; auto. Qed.
Lemma keeps_upd (P : gid -> Prop) g f w : ~ P g -> keeps P w (upd_gen g f w).
Proof.
  intros H. repeat split; auto. intros x Hx. apply get_upd_neq. intros ->. auto.
Qed.

Definition res_frame (res : resumer) : Prop :=
  forall g i w, keeps (fun x => In x (w_stack w)) w (fst (res g i w)).

Lemma cur_ctx_keeps w w' : keeps (fun x => In x (w_stack w)) w w' -> cur_ctx w' = cur_ctx w.
Proof.
  intros (a & b & c). unfold cur_ctx. rewrite b. destruct (w_stack w) as [|g st] eqn:E; auto.
  rewrite c by (left; reflexivity). reflexivity.
Qed.

(* a context operation executed while g's context is current touches g only *)
Lemma do_op_frame o w g st :
  w_stack w = g :: st ->
  keeps (fun x => x <> g) w (fst (do_op o w)).
Proof.
  intros E. unfold do_op. destruct (apply_op o (cur_ctx w)) as [c|]; cbn [fst].
  - unfold set_cur_ctx. rewrite E.
    apply (keeps_trans _ (fun x => x <> g) _ (set_ctx g (Some c) w)); [| apply keeps_emit | auto].
    apply keeps_upd. auto.
  - apply keeps_emit.
Qed.

Lemma keeps_step (P Q : gid -> Prop) w w1 w2 :
  keeps Q w w1 -> (forall x, P x -> Q x) -> keeps P w1 w2 -> keeps P w w2.
Proof.
  intros (a & b & c) H (a' & b' & c'). repeat split; try congruence.
  intros x Hx. rewrite c' by auto. auto.
Qed.

Lemma run_seg_frame res : res_frame res ->
  forall sg w g st, w_stack w = g :: st ->
  keeps (fun x => In x st /\ x <> g) w (fst (run_seg res sg w)).
Proof.
  intros Hres. induction sg as [h k IH|h k IH|k IH|g' i k IH|v s|v|e]; intros w g st E; cbn [run_seg].
  - pose proof (do_op_frame (OpEnter h) w g st E) as F.
    apply (keeps_step _ _ _ _ _ F); [intros x [_ H]; exact H|].
    apply IH. destruct F as (_ & b & _). congruence.
  - pose proof (do_op_frame (OpExit h) w g st E) as F.
    destruct (do_op (OpExit h) w) as [w1 ok]. cbn [fst] in F.
    destruct ok; cbn [fst].
    + apply (keeps_step _ _ _ _ _ F); [intros x [_ H]; exact H|].
      apply IH. destruct F as (_ & b & _). congruence.
    + eapply keeps_weaken; [exact F|]. intros x [_ H]; exact H.
  - pose proof (do_op_frame OpProbe w g st E) as F.
    apply (keeps_step _ _ _ _ _ F); [intros x [_ H]; exact H|].
    apply IH. destruct F as (_ & b & _). congruence.
  - pose proof (Hres g' i w) as F. destruct (res g' i w) as [w1 o]. cbn [fst] in F.
    apply (keeps_step _ _ _ _ _ F).
    + intros x [Hx _]. rewrite E. now right.
    + apply IH. destruct F as (_ & b & _). congruence.
  - apply keeps_refl.
  - apply keeps_refl.
  - apply keeps_refl.
Qed.

Lemma keeps_then (P : gid -> Prop) w w1 w2 : keeps P w w1 -> keeps P w1 w2 -> keeps P w w2.
Proof. intros A B. apply (keeps_trans P P w w1 w2 A B). auto. Qed.
Lemma keeps_upd_top st g f w : keeps (fun x => In x st /\ x <> g) w (upd_gen g f w).
Proof. apply keeps_upd. intros [_ H]. congruence. Qed.

Lemma inner_resume_frame res : res_frame res ->
  forall g bi w st, w_stack w = g :: st ->
  keeps (fun x => In x st /\ x <> g) w (fst (inner_resume res g bi w)).
Proof.
  intros Hres g bi w st E. unfold inner_resume.
  destruct (get g w) as [x|]; [|apply keeps_refl].
  assert (R : forall s, keeps (fun x => In x st /\ x <> g) w
     (fst (seg_outcome g (run_seg res (g_body x s bi) w)))).
  { intros s. pose proof (run_seg_frame res Hres (g_body x s bi) w g st E) as F.
    unfold seg_outcome. destruct (snd (run_seg res (g_body x s bi) w)); cbn [fst];
      (apply (keeps_then _ _ _ _ F)); apply keeps_upd_top. }
  destruct (g_i x); destruct bi as [[v|]|e]; try apply R; try apply keeps_refl;
    cbn [fst]; apply keeps_upd_top.
Qed.

Lemma ctx_run_frame res : res_frame res ->
  forall g bi w, ~ In g (w_stack w) ->
  keeps (fun x => In x (w_stack w)) w (fst (ctx_run g (inner_resume res g bi) w)).
Proof.
  intros Hres g bi w Hg. unfold ctx_run.
  pose proof (inner_resume_frame res Hres g bi (push g w) (w_stack w) eq_refl) as F.
  destruct (inner_resume res g bi (push g w)) as [w1 o]. cbn [fst] in *.
  destruct F as (a & b & c). repeat split; cbn.
  - rewrite a. reflexivity.
  - rewrite b. reflexivity.
  - intros x Hx. unfold get, pop in *. cbn. apply c. split; auto. intros ->. auto.
Qed.

Lemma tramp_frame legacy res : res_frame res ->
  forall g bi w, ~ In g (w_stack w) ->
  keeps (fun x => In x (w_stack w)) w (fst (tramp legacy res g bi w)).
Proof.
  intros Hres g bi w Hg. unfold tramp.
  pose proof (ctx_run_frame res Hres g bi w Hg) as F.
  destruct (ctx_run g (inner_resume res g bi) w) as [w1 o]. cbn [fst] in F.
  destruct o; cbn [fst]; apply (keeps_then _ _ _ _ F); apply keeps_upd; exact Hg.
Qed.

Lemma wrapper_resume_frame legacy res : res_frame res ->
  forall g i w, ~ In g (w_stack w) ->
  keeps (fun x => In x (w_stack w)) w (fst (wrapper_resume legacy res g i w)).
Proof.
  intros Hres g i w Hg. unfold wrapper_resume.
  destruct (get g w) as [x|]; [|apply keeps_refl].
  assert (S : keeps (fun x => In x (w_stack w)) w
     (fst (tramp legacy res g (BSend None) (set_w g WSuspended (set_ctx g (Some (copy_ctx (cur_ctx w))) w))))).
  { eapply keeps_then; [unfold set_ctx; apply keeps_upd; exact Hg |].
    eapply keeps_then; [unfold set_w; apply keeps_upd; exact Hg |].
    exact (tramp_frame legacy res Hres g (BSend None)
             (set_w g WSuspended (set_ctx g (Some (copy_ctx (cur_ctx w))) w)) Hg). }
  destruct (g_w x).
  - destruct i as [|[v|]|e|]; auto; try apply keeps_refl; cbn [fst]; apply keeps_upd; auto.
  - destruct i as [|v|e|]; try (apply tramp_frame; auto).
    pose proof (tramp_frame legacy res Hres g (BThrow GeneratorExit) w Hg) as F.
    destruct (tramp legacy res g (BThrow GeneratorExit) w). exact F.
  - destruct i; apply keeps_refl.
Qed.

Lemma resume_frame legacy fuel : res_frame (resume legacy fuel).
Proof.
  induction fuel as [|f IH]; intros g i w; cbn [resume].
  - apply keeps_refl.
  - set (w0 := emit (ECall (who w) g i (cur_ctx w)) w).
    destruct (mem g (w_stack w0)) eqn:M.
    + cbn [fst]. eapply keeps_then; apply keeps_emit.
    + apply mem_false in M.
      pose proof (wrapper_resume_frame legacy (resume legacy f) IH g i w0 M) as F.
      destruct (wrapper_resume legacy (resume legacy f) g i w0) as [w1 o]. cbn [fst] in *.
      eapply keeps_then; [apply (keeps_emit _ (ECall (who w) g i (cur_ctx w)) w) |].
      eapply keeps_then; [exact F | apply keeps_emit].
Qed.

(* C15, second clause: whatever the generator does, the caller's current
   context (object and content), hence its current action, is what it was *)
Theorem driver_unchanged legacy fuel g i w :
  let w' := fst (resume legacy fuel g i w) in
  w_stack w' = w_stack w /\ w_main w' = w_main w /\ cur_ctx w' = cur_ctx w.
Proof.
  cbn. pose proof (resume_frame legacy fuel g i w) as F.
  split; [apply F|]. split; [apply F|]. apply cur_ctx_keeps. exact F.
Qed.

(* ========================================================= own context *)
(* The statement is about the trace alone.  For generator g we scan the
   trace, remembering
     c_start: a copy of the caller's context at the first call on g that can
              start it (next / send(None)),
     c_own:   the context left by g's own latest operation,
   and require of every operation executed by g that the current context it
   sees is c_own (c_start if g has not executed any operation yet) and that
   what it leaves is the operation applied to that. *)
Record cstate := mkcs { c_start : option ctx; c_own : option ctx }.
Definition cinit := mkcs None None.
Definition starts (i : input) : bool :=
  match i with Next => true | Send None => true | _ => false end.
Definition eff (s : cstate) : option ctx :=
  match c_own s with Some o => Some o | None => c_start s end.

Definition c_next (g : gid) (s : cstate) (e : event) : cstate :=
  match e with
  | ECall _ g' i c =>
      if Nat.eqb g' g && starts i && negb (is_some (c_start s))
      then mkcs (Some (copy_ctx c)) (c_own s) else s
  | EOp (Some g') _ _ _ a => if Nat.eqb g' g then mkcs (c_start s) (Some a) else s
  | _ => s
  end.
Definition c_ok (g : gid) (s : cstate) (e : event) : Prop :=
  match e with
  | EOp (Some g') o ok b a =>
      g' = g -> eff s = Some b /\ a = apply_total o b /\ ok = is_some (apply_op o b)
  | _ => True
  end.
Fixpoint chain (g : gid) (s : cstate) (t : list event) : Prop :=
  match t with
  | [] => True
  | e :: t' => c_ok g s e /\ chain g (c_next g s e) t'
  end.
Definition final (g : gid) (s : cstate) (t : list event) : cstate := fold_left (c_next g) t s.

Lemma chain_app g t1 : forall s t2,
  chain g s (t1 ++ t2) <-> chain g s t1 /\ chain g (final g s t1) t2.
Proof.
  induction t1 as [|e t1 IH]; intros s t2; cbn.
  - tauto.
  - rewrite IH. tauto.
Qed.
Lemma final_app g t1 t2 s : final g s (t1 ++ t2) = final g (final g s t1) t2.
Proof. apply fold_left_app. Qed.

Definition hist (w : world) : list event := rev (w_trace w).
Definition fin (g : gid) (w : world) : cstate := final g cinit (hist w).

Definition rel (g : gid) (s : cstate) (stack : list gid) (ox : option gen) : Prop :=
  match ox with
  | None => ~ In g stack
  | Some x =>
      match g_ctx x with
      | Some c => eff s = Some c /\ g_w x <> WUnstarted
      | None => ~ In g stack /\ (g_w x = WFinished \/ (g_w x = WUnstarted /\ s = cinit))
      end
  end.

Definition Inv (g : gid) (w : world) : Prop :=
  chain g cinit (hist w) /\ rel g (fin g w) (w_stack w) (get g w).

Lemma hist_emit e w : hist (emit e w) = hist w ++ [e].
Proof. reflexivity. Qed.
Lemma fin_emit g e w : fin g (emit e w) = c_next g (fin g w) e.
Proof. unfold fin. rewrite hist_emit, final_app. reflexivity. Qed.
Lemma chain_emit g e w : chain g cinit (hist w) -> c_ok g (fin g w) e -> chain g cinit (hist (emit e w)).
Proof.
  intros H K. rewrite hist_emit. apply chain_app. split; auto. cbn. auto.
Qed.

Lemma inv_emit_neutral g e w :
  Inv g w -> (forall s, c_next g s e = s) -> (forall s, c_ok g s e) -> Inv g (emit e w).
Proof.
  intros [C R] N K. split.
  - apply chain_emit; auto.
  - rewrite fin_emit, N. exact R.
Qed.

(* operations that do not touch the trace *)
Lemma inv_same_trace g w w' :
  Inv g w -> w_trace w' = w_trace w -> rel g (fin g w) (w_stack w') (get g w') -> Inv g w'.
Proof.
  intros [C R] T R'. unfold Inv, fin, hist in *. rewrite T. split; auto.
Qed.

Lemma inv_upd_other g g' f w : g' <> g -> Inv g w -> Inv g (upd_gen g' f w).
Proof.
  intros N I. apply (inv_same_trace g w); auto.
  rewrite get_upd_neq by auto. apply I.
Qed.

Lemma rel_stack_other g g' s st ox : g' <> g -> rel g s st ox -> rel g s (g' :: st) ox.
Proof.
  intros N. unfold rel. destruct ox as [x|].
  - destruct (g_ctx x); auto. intros [A B]. split; auto. intros [E|E]; auto.
  - intros A [E|E]; auto.
Qed.
Lemma rel_stack_tl g s st ox : rel g s st ox -> rel g s (tl st) ox.
Proof.
  assert (T : In g (tl st) -> In g st) by (destruct st; cbn; auto).
  unfold rel. destruct ox as [x|]; [destruct (g_ctx x)|]; intuition.
Qed.

Lemma inv_push_other g g' w : g' <> g -> Inv g w -> Inv g (push g' w).
Proof.
  intros N I. apply (inv_same_trace g w); auto. apply rel_stack_other; auto. apply I.
Qed.
Lemma inv_pop g w : Inv g w -> Inv g (pop w).
Proof.
  intros I. apply (inv_same_trace g w); auto. apply rel_stack_tl. apply I.
Qed.
Lemma inv_push_self g w x c : get g w = Some x -> g_ctx x = Some c -> Inv g w -> Inv g (push g w).
Proof.
  intros G Cx I. apply (inv_same_trace g w); auto.
  destruct I as [_ R]. unfold get, push in *. cbn. rewrite G in *. unfold rel in *. rewrite Cx in *. exact R.
Qed.
Lemma inv_set_i g g' s w : Inv g w -> Inv g (set_i g' s w).
Proof.
  intros I. destruct (Nat.eq_dec g' g) as [->|N]; [|apply inv_upd_other; auto].
  apply (inv_same_trace g w); auto. unfold set_i. rewrite get_upd_eq.
  destruct I as [_ R]. destruct (get g w) as [x|]; cbn in *; auto.
Qed.
Lemma inv_set_w_fin g g' w : Inv g w -> Inv g (set_w g' WFinished w).
Proof.
  intros I. destruct (Nat.eq_dec g' g) as [->|N]; [|apply inv_upd_other; auto].
  apply (inv_same_trace g w); auto. unfold set_w. rewrite get_upd_eq.
  destruct I as [_ R]. destruct (get g w) as [x|]; cbn in *; auto.
  destruct (g_ctx x).
  - split; [apply R | discriminate].
  - split; [apply R | auto].
Qed.
Lemma inv_set_w_susp g g' w :
  Inv g w -> (g' = g -> forall x, get g w = Some x -> g_ctx x <> None) -> Inv g (set_w g' WSuspended w).
Proof.
  intros I H. destruct (Nat.eq_dec g' g) as [->|N]; [|apply inv_upd_other; auto].
  apply (inv_same_trace g w); auto. unfold set_w. rewrite get_upd_eq.
  destruct I as [_ R]. specialize (H eq_refl). destruct (get g w) as [x|]; cbn in *; auto.
  specialize (H x eq_refl). destruct (g_ctx x); [|congruence].
  split; [apply R | discriminate].
Qed.

Lemma on_stack_ctx g w : Inv g w -> In g (w_stack w) -> exists x c, get g w = Some x /\ g_ctx x = Some c.
Proof.
  intros [_ R] H. unfold rel in R. destruct (get g w) as [x|]; [|tauto].
  destruct (g_ctx x) as [c|] eqn:Cx; [exists x, c; auto | tauto].
Qed.

(* any context operation, executed by anybody, keeps the invariant *)
Lemma inv_do_op g o w : Inv g w -> Inv g (fst (do_op o w)).
Proof.
  intros I. unfold do_op.
  destruct (w_stack w) as [|t st] eqn:E.
  - (* the driver *)
    assert (W : who w = None) by (unfold who; now rewrite E).
    rewrite W. destruct (apply_op o (cur_ctx w)) as [a|]; cbn [fst].
    + apply inv_emit_neutral; auto; [| now cbn].
      unfold set_cur_ctx. rewrite E. apply (inv_same_trace g w); auto. destruct I as [_ R]. rewrite E in R. exact R.
    + apply inv_emit_neutral; auto; now cbn.
  - assert (W : who w = Some t) by (unfold who; now rewrite E).
    rewrite W. destruct (Nat.eq_dec t g) as [->|N].
    + (* g itself *)
      destruct (on_stack_ctx g w I) as (x & c & G & Cx); [rewrite E; now left|].
      assert (B : cur_ctx w = c) by (unfold cur_ctx; now rewrite E, G, Cx).
      rewrite B. destruct I as [Ch R]. unfold rel in R. rewrite G, Cx in R.
      destruct (apply_op o c) as [a|] eqn:A; cbn [fst].
      * assert (A' : cur_ctx (set_cur_ctx a w) = a).
        { unfold set_cur_ctx, cur_ctx. rewrite E. cbn [set_ctx upd_gen w_stack]. rewrite E.
          unfold set_ctx. rewrite get_upd_eq, G. reflexivity. }
        rewrite A'.
        assert (T : w_trace (set_cur_ctx a w) = w_trace w) by (unfold set_cur_ctx; rewrite E; reflexivity).
        assert (Hh : hist (set_cur_ctx a w) = hist w) by (unfold hist; now rewrite T).
        assert (Hf : fin g (set_cur_ctx a w) = fin g w) by (unfold fin; now rewrite Hh).
        assert (Gs : get g (set_cur_ctx a w) = Some (mkgen (g_body x) (Some a) (g_w x) (g_i x))).
        { unfold set_cur_ctx. rewrite E. unfold set_ctx. rewrite get_upd_eq, G. reflexivity. }
        assert (Ss : w_stack (set_cur_ctx a w) = g :: st) by (unfold set_cur_ctx; rewrite E; exact E).
        split.
        -- apply chain_emit; [rewrite Hh; auto|]. rewrite Hf. cbn. intros _. split; [apply R|].
           unfold apply_total. rewrite A. auto.
        -- rewrite fin_emit, Hf. cbn [c_next]. rewrite Nat.eqb_refl.
           change (get g (emit (EOp (Some g) o true c a) (set_cur_ctx a w))) with (get g (set_cur_ctx a w)).
           rewrite Gs. cbn. split; [reflexivity | apply R].
      * split.
        -- apply chain_emit; auto. cbn. intros _. split; [apply R|].
           unfold apply_total. rewrite A. auto.
        -- rewrite fin_emit. cbn [c_next]. rewrite Nat.eqb_refl.
           change (get g (emit (EOp (Some g) o false c c) w)) with (get g w).
           rewrite G. cbn. rewrite Cx. split; [reflexivity | apply R].
    + (* another generator *)
      assert (NE : Nat.eqb t g = false) by (apply Nat.eqb_neq; auto).
      destruct (apply_op o (cur_ctx w)) as [a|]; cbn [fst].
      * apply inv_emit_neutral; [| intros s; cbn; now rewrite NE | intros s; cbn; congruence].
        unfold set_cur_ctx. rewrite E. apply inv_upd_other; auto.
      * apply inv_emit_neutral; auto; [intros s; cbn; now rewrite NE | intros s; cbn; congruence].
Qed.

Definition res_inv (g : gid) (res : resumer) : Prop := forall x i w, Inv g w -> Inv g (fst (res x i w)).

Lemma inv_run_seg g res : res_inv g res -> forall sg w, Inv g w -> Inv g (fst (run_seg res sg w)).
Proof.
  intros Hres. induction sg as [h k IH|h k IH|k IH|g' i k IH|v s|v|e]; intros w I; cbn [run_seg]; auto.
  - apply IH, inv_do_op, I.
  - pose proof (inv_do_op g (OpExit h) w I) as J. destruct (do_op (OpExit h) w) as [w1 ok].
    destruct ok; cbn [fst] in *; auto.
  - apply IH, inv_do_op, I.
  - pose proof (Hres g' i w I) as J. destruct (res g' i w) as [w1 o]. cbn [fst] in J. apply IH, J.
Qed.

Lemma inv_inner_resume g res : res_inv g res -> forall g' bi w, Inv g w -> Inv g (fst (inner_resume res g' bi w)).
Proof.
  intros Hres g' bi w I. unfold inner_resume. destruct (get g' w) as [x|]; auto.
  assert (R : forall s, Inv g (fst (seg_outcome g' (run_seg res (g_body x s bi) w)))).
  { intros s. pose proof (inv_run_seg g res Hres (g_body x s bi) w I) as J.
    unfold seg_outcome. destruct (snd (run_seg res (g_body x s bi) w)); cbn [fst]; apply inv_set_i; auto. }
  destruct (g_i x); destruct bi as [[v|]|e]; try apply R; auto; cbn [fst]; apply inv_set_i; auto.
Qed.

(* one turn of the wrapper loop on a started generator *)
Lemma inv_tramp g legacy res : res_inv g res -> res_frame res ->
  forall g' bi w, ~ In g' (w_stack w) ->
  (g' = g -> exists x c, get g w = Some x /\ g_ctx x = Some c) ->
  Inv g w -> Inv g (fst (tramp legacy res g' bi w)).
Proof.
  intros Hres Hfr g' bi w Hg Hc I. unfold tramp, ctx_run.
  assert (IP : Inv g (push g' w)).
  { destruct (Nat.eq_dec g' g) as [->|N]; [|apply inv_push_other; auto].
    destruct (Hc eq_refl) as (x & c & G & Cx). eapply inv_push_self; eauto. }
  pose proof (inv_inner_resume g res Hres g' bi (push g' w) IP) as J.
  pose proof (inner_resume_frame res Hfr g' bi (push g' w) (w_stack w) eq_refl) as F.
  destruct (inner_resume res g' bi (push g' w)) as [w1 o]. cbn [fst] in *.
  assert (K : g' = g -> forall x, get g (pop w1) = Some x -> g_ctx x <> None).
  { intros -> x G. destruct (on_stack_ctx g w1 J) as (x' & c & G' & Cx).
    - destruct F as (_ & b & _). rewrite b. now left.
    - unfold get, pop in *. cbn in G. rewrite G' in G. inversion G; subst. congruence. }
  destruct o; cbn [fst].
  - apply inv_set_w_susp; [apply inv_pop; auto | exact K].
  - apply inv_set_w_fin, inv_pop; auto.
  - apply inv_set_w_fin, inv_pop; auto.
Qed.

Lemma inv_ecall g a g' i c w :
  Inv g w ->
  (g' <> g \/ starts i = false \/ (forall x, get g w = Some x -> g_ctx x <> None \/ g_w x = WFinished)) ->
  Inv g (emit (ECall a g' i c) w).
Proof.
  intros [Ch R] H. split; [apply chain_emit; cbn; auto|].
  rewrite fin_emit. change (get g (emit (ECall a g' i c) w)) with (get g w).
  change (w_stack (emit (ECall a g' i c) w)) with (w_stack w).
  cbn [c_next].
  destruct (Nat.eqb g' g) eqn:E1; cbn [andb]; auto.
  destruct (starts i) eqn:E2; cbn [andb]; auto.
  destruct (c_start (fin g w)) as [s0|] eqn:E3; cbn [is_some negb]; auto.
  destruct H as [H|[H|H]].
  - apply Nat.eqb_eq in E1. congruence.
  - congruence.
  - unfold rel in *. destruct (get g w) as [x|]; auto.
    destruct (H x eq_refl) as [K|K].
    + destruct (g_ctx x) as [c0|]; [|congruence].
      destruct R as [R1 R2]. split; auto. unfold eff in *. cbn.
      rewrite E3 in R1. destruct (c_own (fin g w)); [auto | discriminate].
    + destruct (g_ctx x) as [c0|].
      * destruct R as [R1 R2]. split; auto. unfold eff in *. cbn.
        rewrite E3 in R1. destruct (c_own (fin g w)); [auto | discriminate].
      * split; [apply R | auto].
Qed.

Lemma rel_ctx_some g w x :
  Inv g w -> get g w = Some x -> g_w x = WSuspended -> exists c, g_ctx x = Some c.
Proof.
  intros [_ R] G Wx. unfold rel in R. rewrite G in R. destruct (g_ctx x) as [c|]; [eauto|].
  destruct R as [_ [R|[R _]]]; congruence.
Qed.
Lemma rel_unstarted g w x :
  Inv g w -> get g w = Some x -> g_w x = WUnstarted ->
  g_ctx x = None /\ fin g w = cinit /\ ~ In g (w_stack w).
Proof.
  intros [_ R] G Wx. unfold rel in R. rewrite G in R. destruct (g_ctx x) as [c|].
  - destruct R as [_ R]. congruence.
  - destruct R as [A [B|[_ C]]]; [congruence | auto].
Qed.

Lemma inv_call_wrapper g legacy res : res_inv g res -> res_frame res ->
  forall g' i w, ~ In g' (w_stack w) -> Inv g w ->
  Inv g (fst (wrapper_resume legacy res g' i (emit (ECall (who w) g' i (cur_ctx w)) w))).
Proof.
  intros Hres Hfr g' i w Hg I.
  set (w0 := emit (ECall (who w) g' i (cur_ctx w)) w).
  unfold wrapper_resume. change (get g' w0) with (get g' w).
  destruct (get g' w) as [x|] eqn:G.
  2:{ cbn [fst]. apply inv_ecall; auto. destruct (Nat.eq_dec g' g) as [->|N]; auto.
      right; right. intros y Gy. congruence. }
  destruct (g_w x) eqn:Wx.
  - (* not started *)
    assert (NS : starts i = false -> Inv g w0) by (intros; apply inv_ecall; auto).
    assert (St : starts i = true ->
       Inv g (fst (tramp legacy res g' (BSend None)
                (set_w g' WSuspended (set_ctx g' (Some (copy_ctx (cur_ctx w0))) w0))))).
    { intros Hs. destruct (Nat.eq_dec g' g) as [->|N].
      - destruct (rel_unstarted g w x I G Wx) as (Cx & Fc & Ns).
        assert (G2 : get g (set_w g WSuspended (set_ctx g (Some (copy_ctx (cur_ctx w0))) w0))
                     = Some (mkgen (g_body x) (Some (copy_ctx (cur_ctx w))) WSuspended (g_i x))).
        { unfold set_w, set_ctx. rewrite !get_upd_eq. change (get g w0) with (get g w). rewrite G. reflexivity. }
        apply inv_tramp; auto.
        + intros _. eexists. eexists. split; [exact G2 | reflexivity].
        + split.
          * change (chain g cinit (hist w0)). apply chain_emit; [apply I | exact Logic.I].
          * rewrite G2.
            change (fin g (set_w g WSuspended (set_ctx g (Some (copy_ctx (cur_ctx w0))) w0))) with (fin g w0).
            unfold w0. rewrite fin_emit, Fc. cbn [c_next]. rewrite Nat.eqb_refl, Hs. cbn.
            split; [reflexivity | discriminate].
      - apply inv_tramp; auto; [intros; congruence|].
        apply inv_upd_other; auto. apply inv_upd_other; auto. apply inv_ecall; auto. }
    destruct i as [|[v|]|e|]; cbn [fst].
    + apply St. reflexivity.
    + apply NS. reflexivity.
    + apply St. reflexivity.
    + apply inv_set_w_fin, NS. reflexivity.
    + apply inv_set_w_fin, NS. reflexivity.
  - (* suspended *)
    assert (I0 : Inv g w0).
    { apply inv_ecall; auto. destruct (Nat.eq_dec g' g) as [->|N]; auto. right; right.
      intros y Gy. rewrite G in Gy. inversion Gy; subst y.
      destruct (rel_ctx_some g w x I G Wx) as [c Cx]. left; congruence. }
    assert (Tr : forall bi, Inv g (fst (tramp legacy res g' bi w0))).
    { intros bi. apply inv_tramp; auto. intros ->.
      destruct (rel_ctx_some g w x I G Wx) as [c Cx]. exists x, c. split; auto. }
    destruct i as [|v|e|]; try apply Tr.
    pose proof (Tr (BThrow GeneratorExit)) as T.
    destruct (tramp legacy res g' (BThrow GeneratorExit) w0). exact T.
  - (* finished *)
    assert (I0 : Inv g w0).
    { apply inv_ecall; auto. destruct (Nat.eq_dec g' g) as [->|N]; auto. right; right.
      intros y Gy. rewrite G in Gy. inversion Gy; subst y. auto. }
    destruct i; exact I0.
Qed.

Lemma inv_resume g legacy fuel : res_inv g (resume legacy fuel).
Proof.
  induction fuel as [|f IH]; intros g' i w I; cbn [resume]; auto.
  set (w0 := emit (ECall (who w) g' i (cur_ctx w)) w).
  destruct (mem g' (w_stack w0)) eqn:M.
  - cbn [fst]. apply inv_emit_neutral; [| now cbn | now cbn].
    apply inv_ecall; auto. destruct (Nat.eq_dec g' g) as [->|N]; auto. right; right.
    apply mem_In in M. destruct (on_stack_ctx g w I M) as (x & c & G & Cx).
    intros y Gy. rewrite G in Gy. inversion Gy; subst y. left; congruence.
  - apply mem_false in M.
    pose proof (inv_call_wrapper g legacy (resume legacy f) IH (resume_frame legacy f) g' i w M I) as J.
    fold w0 in J. destruct (wrapper_resume legacy (resume legacy f) g' i w0) as [w1 o]. cbn [fst] in *.
    apply inv_emit_neutral; [auto | now cbn | now cbn].
Qed.

Lemma inv_init g bodies : Inv g (init_world bodies).
Proof.
  split; [exact Logic.I|]. unfold rel, get, init_world. cbn.
  rewrite nth_error_map. destruct (nth_error bodies g); cbn; auto.
Qed.

Lemma inv_run_script g res : res_inv g res -> forall script w, Inv g w -> Inv g (run_script res script w).
Proof.
  intros Hres. induction script as [|st script IH]; intros w I; cbn; auto.
  apply IH. destruct st; cbn [run_dstep]; auto; apply inv_do_op; auto.
Qed.

(* C15, first clause.  For every family of bodies, every driver script (any
   interleaving of resumptions of several generators, from arbitrary and
   changing driver contexts, nested resumptions included) and every generator
   g: each operation g executes sees (copy of its resumer's context at its
   first resumption) updated by g's own earlier operations, nothing else. *)
Theorem own_context legacy fuel bodies script g :
  chain g cinit (hist (run_script (resume legacy fuel) script (init_world bodies))).
Proof.
  apply (inv_run_script g (resume legacy fuel) (inv_resume g legacy fuel) script (init_world bodies)).
  apply inv_init.
Qed.

(* ========================================================= transparency *)
(* Simulation between the world driven through the wrapper (resume false)
   and the world in which the inner automata are driven directly (dresume). *)
Definition strel (ws : wstate) (ia ib : pstate) : Prop :=
  match ws with
  | WUnstarted => ia = PUnstarted /\ ib = PUnstarted
  | WSuspended => ia = ib /\ exists s, ib = PSuspended s
  | WFinished => ib = PFinished
  end.
Definition grel (loose : Prop) (oa ob : option gen) : Prop :=
  match oa, ob with
  | None, None => True
  | Some a, Some b =>
      g_body a = g_body b /\ g_ctx a = g_ctx b /\ (loose \/ strel (g_w a) (g_i a) (g_i b))
  | _, _ => False
  end.
Definition Rl (L : gid -> Prop) (w d : world) : Prop :=
  w_main w = w_main d /\ w_stack w = w_stack d /\ w_trace w = w_trace d /\
  forall x, grel (L x) (get x w) (get x d).
(* generators that are running have their protocol state rewritten when they stop *)
Definition R (w d : world) : Prop := Rl (fun x => In x (w_stack w)) w d.
Definition Rloose (g : gid) (w d : world) : Prop := Rl (fun x => x = g \/ In x (w_stack w)) w d.

Lemma grel_weaken (P Q : Prop) oa ob : (P -> Q) -> grel P oa ob -> grel Q oa ob.
Proof. unfold grel. destruct oa, ob; intuition. Qed.
Lemma Rl_weaken (L L' : gid -> Prop) w d : (forall x, L x -> L' x) -> Rl L w d -> Rl L' w d.
Proof. intros H (a & b & c & e). repeat split; auto. intros x. eapply grel_weaken; [apply H | apply e]. Qed.
Lemma Rl_emit L e w d : Rl L w d -> Rl L (emit e w) (emit e d).
Proof. intros (a & b & c & f). repeat split; cbn; auto. congruence. Qed.
Lemma Rl_push L g w d : Rl L w d -> Rl L (push g w) (push g d).
Proof. intros (a & b & c & f). repeat split; cbn; auto. congruence. Qed.
Lemma Rl_pop L w d : Rl L w d -> Rl L (pop w) (pop d).
Proof. intros (a & b & c & f). repeat split; cbn; auto. congruence. Qed.
Lemma Rl_upd L g f f' w d :
  Rl L w d ->
  (forall a b, grel (L g) (Some a) (Some b) -> grel (L g) (Some (f a)) (Some (f' b))) ->
  Rl L (upd_gen g f w) (upd_gen g f' d).
Proof.
  intros (a & b & c & e) H. repeat split; auto. intros x.
  destruct (Nat.eq_dec g x) as [<-|N].
  - rewrite !get_upd_eq. specialize (e g).
    destruct (get g w) as [ga|], (get g d) as [gb|]; cbn [option_map]; auto.
  - rewrite !get_upd_neq by auto. apply e.
Qed.
Lemma Rl_upd_left L g f w d :
  Rl L w d ->
  (forall a b, grel (L g) (Some a) (Some b) -> grel (L g) (Some (f a)) (Some b)) ->
  Rl L (upd_gen g f w) d.
Proof.
  intros (a & b & c & e) H. repeat split; auto. intros x.
  destruct (Nat.eq_dec g x) as [<-|N].
  - rewrite get_upd_eq. specialize (e g).
    destruct (get g w) as [ga|], (get g d) as [gb|]; cbn [option_map]; auto.
  - rewrite get_upd_neq by auto. apply e.
Qed.

Lemma Rl_cur_ctx L w d : Rl L w d -> cur_ctx w = cur_ctx d.
Proof.
  intros (a & b & c & e). unfold cur_ctx. rewrite <- b. destruct (w_stack w) as [|g st]; auto.
  specialize (e g). destruct (get g w) as [ga|], (get g d) as [gb|]; cbn in e; try tauto.
  destruct e as (_ & e & _). now rewrite e.
Qed.
Lemma Rl_who L w d : Rl L w d -> who w = who d.
Proof. intros (a & b & c & e). unfold who. now rewrite b. Qed.

Lemma do_op_stack o w : w_stack (fst (do_op o w)) = w_stack w.
Proof.
  unfold do_op. destruct (apply_op o (cur_ctx w)); cbn; auto.
  unfold set_cur_ctx. destruct (w_stack w) eqn:E; cbn; auto.
Qed.

Lemma Rl_set_cur_ctx L c w d : Rl L w d -> Rl L (set_cur_ctx c w) (set_cur_ctx c d).
Proof.
  intros H. pose proof H as (a & b & e & f). unfold set_cur_ctx. rewrite <- b.
  destruct (w_stack w) as [|g st] eqn:E.
  - repeat split; cbn; auto.
  - unfold set_ctx. apply Rl_upd; auto. intros ga gb. cbn. intuition.
Qed.

Lemma Rl_do_op L o w d :
  Rl L w d -> Rl L (fst (do_op o w)) (fst (do_op o d)) /\ snd (do_op o w) = snd (do_op o d).
Proof.
  intros H. unfold do_op. rewrite <- (Rl_cur_ctx L w d H), <- (Rl_who L w d H).
  destruct (apply_op o (cur_ctx w)) as [a|]; cbn [fst snd]; split; auto.
  - pose proof (Rl_set_cur_ctx L a w d H) as H'.
    rewrite <- (Rl_cur_ctx L _ _ H'). apply Rl_emit. exact H'.
  - apply Rl_emit. exact H.
Qed.

Lemma R_do_op o w d : R w d -> R (fst (do_op o w)) (fst (do_op o d)) /\ snd (do_op o w) = snd (do_op o d).
Proof.
  intros H. unfold R in *. rewrite do_op_stack. apply Rl_do_op. exact H.
Qed.

Definition sim (rw rd : resumer) : Prop :=
  forall g i w d, R w d -> R (fst (rw g i w)) (fst (rd g i d)) /\ snd (rw g i w) = snd (rd g i d).

Lemma run_seg_sim rw rd : sim rw rd ->
  forall sg w d, R w d ->
  R (fst (run_seg rw sg w)) (fst (run_seg rd sg d)) /\ snd (run_seg rw sg w) = snd (run_seg rd sg d).
Proof.
  intros Hs. induction sg as [h k IH|h k IH|k IH|g' i k IH|v s|v|e]; intros w d H; cbn [run_seg]; auto.
  - apply IH. apply R_do_op. exact H.
  - destruct (R_do_op (OpExit h) w d H) as [H1 H2].
    destruct (do_op (OpExit h) w) as [w1 ok], (do_op (OpExit h) d) as [d1 ok']. cbn [fst snd] in *. subst ok'.
    destruct ok; auto.
  - apply IH. apply R_do_op. exact H.
  - destruct (Hs g' i w d H) as [H1 H2].
    destruct (rw g' i w) as [w1 o], (rd g' i d) as [d1 o']. cbn [fst snd] in *. subst o'. apply IH. exact H1.
Qed.

(* what is known about g when its body stops *)
Definition Gpost (g : gid) (o : outcome) (w d : world) : Prop :=
  match get g w, get g d with
  | Some a, Some b =>
      g_i a = g_i b /\ match o with ORet _ => exists s, g_i b = PSuspended s | _ => g_i b = PFinished end
  | _, _ => True
  end.

Lemma stop_sim g st w1 d1 (o : outcome) stw :
  R w1 d1 -> w_stack w1 = g :: stw ->
  (match o with ORet _ => exists s, st = PSuspended s | _ => st = PFinished end) ->
  Rloose g (pop (set_i g st w1)) (pop (set_i g st d1)) /\
  Gpost g o (pop (set_i g st w1)) (pop (set_i g st d1)) /\
  w_stack (pop (set_i g st w1)) = stw.
Proof.
  intros HR Es Ho. split; [|split].
  - unfold Rloose. apply Rl_pop. unfold set_i.
    assert (HL : Rl (fun x => x = g \/ In x stw) w1 d1).
    { eapply Rl_weaken; [|exact HR]. cbn. rewrite Es. intros x [<-|Hx]; auto. }
    cbn [pop w_stack upd_gen]. rewrite Es. cbn [tl].
    apply Rl_upd; auto. intros ga gb. cbn. intuition.
  - unfold Gpost, pop, set_i, get. cbn.
    rewrite !nth_error_upd_nth_eq.
    destruct (nth_error (w_gens w1) g), (nth_error (w_gens d1) g); cbn; auto.
  - cbn. rewrite Es. reflexivity.
Qed.

Lemma seg_outcome_sim g p1 p2 stw :
  R (fst p1) (fst p2) -> snd p1 = snd p2 -> w_stack (fst p1) = g :: stw ->
  let r1 := seg_outcome g p1 in
  let r2 := seg_outcome g p2 in
  snd r1 = snd r2 /\ Rloose g (pop (fst r1)) (pop (fst r2)) /\
  Gpost g (snd r1) (pop (fst r1)) (pop (fst r2)) /\ w_stack (pop (fst r1)) = stw.
Proof.
  intros HR E Es. cbn zeta. unfold seg_outcome. rewrite <- E.
  destruct (snd p1) as [v s'|v|e]; cbn [fst snd]; (split; [reflexivity|]).
  - apply (stop_sim g (PSuspended s') _ _ (ORet v)); eauto.
  - apply (stop_sim g PFinished _ _ (OStop v)); eauto.
  - apply (stop_sim g PFinished _ _ (ORaise e)); eauto.
Qed.

Lemma ctx_run_eq g f w : ctx_run g f w = (pop (fst (f (push g w))), snd (f (push g w))).
Proof. unfold ctx_run. destruct (f (push g w)); reflexivity. Qed.

Lemma ctx_run_sim rw rd : sim rw rd -> res_frame rw ->
  forall g bi w d a b,
  Rloose g w d -> ~ In g (w_stack w) ->
  get g w = Some a -> get g d = Some b -> g_i a = g_i b ->
  (g_i b = PUnstarted /\ bi = BSend None) \/ (exists s, g_i b = PSuspended s) ->
  let r1 := ctx_run g (inner_resume rw g bi) w in
  let r2 := ctx_run g (inner_resume rd g bi) d in
  snd r1 = snd r2 /\ Rloose g (fst r1) (fst r2) /\ Gpost g (snd r1) (fst r1) (fst r2) /\
  w_stack (fst r1) = w_stack w.
Proof.
  intros Hs Hf g bi w d a b H Hg Ga Gb Ei Hst. cbn zeta. rewrite !ctx_run_eq. cbn [fst snd].
  assert (HP : R (push g w) (push g d)).
  { unfold R. apply Rl_push. eapply Rl_weaken; [|exact H]. cbn. intros x [->|Hx]; auto. }
  assert (Body : g_body a = g_body b).
  { destruct H as (_ & _ & _ & e). specialize (e g). rewrite Ga, Gb in e. apply e. }
  assert (GO : forall s,
     inner_resume rw g bi (push g w) = seg_outcome g (run_seg rw (g_body a s bi) (push g w)) ->
     inner_resume rd g bi (push g d) = seg_outcome g (run_seg rd (g_body b s bi) (push g d)) ->
     snd (inner_resume rw g bi (push g w)) = snd (inner_resume rd g bi (push g d)) /\
     Rloose g (pop (fst (inner_resume rw g bi (push g w)))) (pop (fst (inner_resume rd g bi (push g d)))) /\
     Gpost g (snd (inner_resume rw g bi (push g w))) (pop (fst (inner_resume rw g bi (push g w))))
           (pop (fst (inner_resume rd g bi (push g d)))) /\
     w_stack (pop (fst (inner_resume rw g bi (push g w)))) = w_stack w).
  { intros s -> ->. rewrite <- Body.
    pose proof (run_seg_sim rw rd Hs (g_body a s bi) (push g w) (push g d) HP) as [S1 S2].
    pose proof (run_seg_frame rw Hf (g_body a s bi) (push g w) g (w_stack w) eq_refl) as (_ & Es & _).
    apply seg_outcome_sim; auto. }
  unfold inner_resume in GO |- *.
  change (get g (push g w)) with (get g w) in *. change (get g (push g d)) with (get g d) in *.
  rewrite Ga, Gb in *. rewrite Ei in *.
  destruct Hst as [[E ->]|[s E]]; rewrite E in *.
  - apply (GO 0); reflexivity.
  - apply (GO s); reflexivity.
Qed.

Lemma close_sim g o w1 d1 :
  Rloose g w1 d1 -> Gpost g o w1 d1 ->
  R (set_w g (match o with ORet _ => WSuspended | _ => WFinished end) w1) d1.
Proof.
  intros (a & b & c & e) P. unfold R. repeat split; auto. intros x.
  change (w_stack (set_w g match o with ORet _ => WSuspended | _ => WFinished end w1)) with (w_stack w1).
  destruct (Nat.eq_dec g x) as [<-|N].
  - unfold set_w. rewrite get_upd_eq. specialize (e g). unfold Gpost in P.
    destruct (get g w1) as [ga|], (get g d1) as [gb|]; cbn [option_map]; auto.
    cbn in *. destruct e as (e1 & e2 & _). destruct P as [P1 P2].
    split; auto. split; auto. right.
    destruct o; cbn; auto.
  - unfold set_w. rewrite get_upd_neq by auto. eapply grel_weaken; [|apply e].
    intros [->|H]; [congruence | auto].
Qed.

Lemma tramp_sim rw rd : sim rw rd -> res_frame rw ->
  forall g bi w d a b,
  Rloose g w d -> ~ In g (w_stack w) ->
  get g w = Some a -> get g d = Some b -> g_i a = g_i b ->
  (g_i b = PUnstarted /\ bi = BSend None) \/ (exists s, g_i b = PSuspended s) ->
  R (fst (tramp false rw g bi w)) (fst (ctx_run g (inner_resume rd g bi) d)) /\
  snd (tramp false rw g bi w) = snd (ctx_run g (inner_resume rd g bi) d).
Proof.
  intros Hs Hf g bi w d a b H Hg Ga Gb Ei Hst. unfold tramp.
  pose proof (ctx_run_sim rw rd Hs Hf g bi w d a b H Hg Ga Gb Ei Hst) as (E & Hl & P & _).
  cbn zeta in *.
  destruct (ctx_run g (inner_resume rw g bi) w) as [w1 o].
  destruct (ctx_run g (inner_resume rd g bi) d) as [d1 o']. cbn [fst snd] in *. subst o'.
  destruct o as [v|v|e]; cbn [fst snd]; (split; [|reflexivity]).
  - apply (close_sim g (ORet v)); auto.
  - apply (close_sim g (OStop v)); auto.
  - apply (close_sim g (ORaise e)); auto.
Qed.

Lemma R_loose g w d : R w d -> Rloose g w d.
Proof. apply Rl_weaken. auto. Qed.

Lemma R_get g w d : R w d -> ~ In g (w_stack w) ->
  match get g w, get g d with
  | Some a, Some b => g_body a = g_body b /\ g_ctx a = g_ctx b /\ strel (g_w a) (g_i a) (g_i b)
  | None, None => True
  | _, _ => False
  end.
Proof.
  intros (_ & _ & _ & e) Hg. specialize (e g). unfold grel in e.
  destruct (get g w), (get g d); auto. intuition.
Qed.

(* the protocol applied to the wrapper = the protocol applied to the inner generator *)
Lemma wrapper_direct_sim rw rd : sim rw rd -> res_frame rw ->
  forall g i w d, R w d -> ~ In g (w_stack w) ->
  R (fst (wrapper_resume false rw g i w)) (fst (direct_resume rd g i d)) /\
  snd (wrapper_resume false rw g i w) = snd (direct_resume rd g i d).
Proof.
  intros Hs Hf g i w d H Hg. pose proof (R_get g w d H Hg) as G.
  unfold wrapper_resume, direct_resume.
  destruct (get g w) as [a|] eqn:Ga; destruct (get g d) as [b|] eqn:Gb; try (exfalso; exact G).
  2:{ split; auto. }
  destruct G as (Eb & Ec & St).
  assert (Fin1 : forall (o : outcome), g_i b = PUnstarted ->
            R (set_w g WFinished w) (set_i g PFinished d)).
  { intros _ _. destruct H as (h1 & h2 & h3 & h4). unfold R. repeat split; auto.
    intros x. change (w_stack (set_w g WFinished w)) with (w_stack w).
    unfold set_w, set_i. destruct (Nat.eq_dec g x) as [<-|N].
    - rewrite !get_upd_eq, Ga, Gb. cbn. auto.
    - rewrite !get_upd_neq by auto. apply h4. }
  destruct (g_w a) eqn:Wa; cbn in St.
  - (* not started *)
    destruct St as [Sa Sb]. rewrite Sb.
    assert (Start :
      R (fst (tramp false rw g (BSend None) (set_w g WSuspended (set_ctx g (Some (copy_ctx (cur_ctx w))) w))))
        (fst (ctx_run g (inner_resume rd g (BSend None)) (set_ctx g (Some (copy_ctx (cur_ctx d))) d))) /\
      snd (tramp false rw g (BSend None) (set_w g WSuspended (set_ctx g (Some (copy_ctx (cur_ctx w))) w))) =
      snd (ctx_run g (inner_resume rd g (BSend None)) (set_ctx g (Some (copy_ctx (cur_ctx d))) d))).
    { apply (tramp_sim rw rd Hs Hf g (BSend None) _ _
               (mkgen (g_body a) (Some (copy_ctx (cur_ctx w))) WSuspended (g_i a))
               (mkgen (g_body b) (Some (copy_ctx (cur_ctx d))) (g_w b) (g_i b))); auto.
      - rewrite <- (Rl_cur_ctx _ w d H). unfold Rloose.
        change (w_stack (set_w g WSuspended (set_ctx g (Some (copy_ctx (cur_ctx w))) w))) with (w_stack w).
        unfold set_w. apply Rl_upd_left.
        + unfold set_ctx. apply Rl_upd; [apply R_loose; exact H|]. intros ga gb. cbn. intuition.
        + intros ga gb. cbn. intuition.
      - unfold set_w, set_ctx. rewrite !get_upd_eq, Ga. reflexivity.
      - unfold set_ctx. rewrite get_upd_eq, Gb. reflexivity.
      - cbn. congruence. }
    destruct i as [|[v|]|e|]; auto; cbn [fst snd]; split; auto.
    + apply (Fin1 (ORet None)); auto.
    + apply (Fin1 (ORet None)); auto.
  - (* suspended *)
    destruct St as [Sa [s Sb]]. rewrite Sb.
    assert (Tr : forall bi,
      R (fst (tramp false rw g bi w)) (fst (ctx_run g (inner_resume rd g bi) d)) /\
      snd (tramp false rw g bi w) = snd (ctx_run g (inner_resume rd g bi) d)).
    { intros bi. apply (tramp_sim rw rd Hs Hf g bi w d a b); auto. apply R_loose; auto. right. eauto. }
    destruct i as [|v|e|]; try apply Tr.
    destruct (Tr (BThrow GeneratorExit)) as [T1 T2].
    destruct (tramp false rw g (BThrow GeneratorExit) w) as [w1 o].
    destruct (ctx_run g (inner_resume rd g (BThrow GeneratorExit)) d) as [d1 o']. cbn [fst snd] in *.
    subst o'. auto.
  - (* finished *)
    rewrite St. destruct i; auto.
Qed.

Lemma resume_sim fuel : sim (resume false fuel) (dresume fuel).
Proof.
  induction fuel as [|f IH]; intros g i w d H; cbn [resume dresume]; auto.
  rewrite <- (Rl_who _ w d H), <- (Rl_cur_ctx _ w d H).
  set (e := ECall (who w) g i (cur_ctx w)).
  assert (H0 : R (emit e w) (emit e d)) by (apply Rl_emit; exact H).
  change (w_stack (emit e d)) with (w_stack d). change (w_stack (emit e w)) with (w_stack w).
  destruct H as (h1 & h2 & h3 & h4). rewrite <- h2.
  destruct (mem g (w_stack w)) eqn:M.
  - cbn [fst snd]. split; auto.
    rewrite <- (Rl_who _ _ _ H0), <- (Rl_cur_ctx _ _ _ H0). apply Rl_emit. exact H0.
  - apply mem_false in M.
    destruct (wrapper_direct_sim (resume false f) (dresume f) IH (resume_frame false f) g i
                (emit e w) (emit e d) H0 M) as [S1 S2].
    destruct (wrapper_resume false (resume false f) g i (emit e w)) as [w1 o].
    destruct (direct_resume (dresume f) g i (emit e d)) as [d1 o']. cbn [fst snd] in *. subst o'.
    split; auto.
    rewrite <- (Rl_who _ _ _ S1), <- (Rl_cur_ctx _ _ _ S1). apply Rl_emit. exact S1.
Qed.

Lemma run_script_sim rw rd : sim rw rd ->
  forall script w d, R w d -> R (run_script rw script w) (run_script rd script d).
Proof.
  intros Hs. induction script as [|st script IH]; intros w d H; cbn; auto.
  apply IH. destruct st; cbn [run_dstep]; auto; try (apply R_do_op; auto). apply Hs; auto.
Qed.

Lemma R_refl_init bodies : R (init_world bodies) (init_world bodies).
Proof.
  unfold R. repeat split; auto. intros x. unfold grel, get, init_world. cbn.
  rewrite nth_error_map. destruct (nth_error bodies x); cbn; auto.
Qed.

(* C15, third clause: everything observable (every value returned by
   next/send/throw/close, StopIteration values, exceptions, every context
   probe of every party, nested resumptions included) is the same whether the
   driver talks to the wrapper or to the generator itself. *)
Theorem transparent fuel bodies script :
  w_trace (run_wrapped fuel bodies script) = w_trace (run_direct fuel bodies script) /\
  w_main (run_wrapped fuel bodies script) = w_main (run_direct fuel bodies script).
Proof.
  pose proof (run_script_sim _ _ (resume_sim fuel) script _ _ (R_refl_init bodies)) as (a & b & c & _).
  split; auto.
Qed.

(* ------------------------------------------------- script-level corollaries *)
Lemma run_script_stack legacy fuel script : forall w,
  w_stack (run_script (resume legacy fuel) script w) = w_stack w.
Proof.
  unfold run_script. induction script as [|st script IH]; intros w; cbn [fold_left]; auto.
  rewrite IH. destruct st; cbn [run_dstep]; auto; try apply do_op_stack.
  apply (resume_frame legacy fuel g i w).
Qed.

(* every DResume of every script leaves the driver where it was: still in the
   thread's own context, whose content (current action and tokens) is unchanged *)
Theorem driver_unchanged_script fuel bodies script g i :
  let w := run_wrapped fuel bodies script in
  let w' := run_dstep (resume false fuel) (DResume g i) w in
  w_stack w = [] /\ w_stack w' = [] /\ w_main w' = w_main w /\ cur_ctx w' = cur_ctx w.
Proof.
  cbn zeta. unfold run_wrapped.
  assert (S : w_stack (run_script (resume false fuel) script (init_world bodies)) = []).
  { rewrite run_script_stack. reflexivity. }
  cbn [run_dstep].
  destruct (driver_unchanged false fuel g i (run_script (resume false fuel) script (init_world bodies)))
    as (a & b & c).
  repeat split; auto. congruence.
Qed.

Theorem own_context_wrapped fuel bodies script g :
  chain g cinit (hist (run_wrapped fuel bodies script)).
Proof. apply own_context. Qed.

Theorem transparent_tables fuel ts script :
  run_tables false fuel ts script = run_tables_direct fuel ts script.
Proof.
  unfold run_tables, run_tables_direct, observe.
  destruct (transparent fuel (map table_body ts) script) as [a b].
  unfold run_wrapped, run_direct in *. rewrite a, b. reflexivity.
Qed.

(* --------------------------------------------------------------- examples *)
Definition RI : tseg := ([], TRaise XInput).

(* x = yield 1; return x *)
Definition t_ret : table :=
  [ (([], TYield (VConst (Some 1)) 1), RI, RI); (([], TReturn VInput), RI, RI) ].
Definition s_ret := [DResume 0 Next; DResume 0 (Send (Some 5))].

Example ex_ret_wrapped :
  run_tables false 3 [t_ret] s_ret =
  ([BCall None 0 Next None; BRet None 0 (ORet (Some 1)) None;
    BCall None 0 (Send (Some 5)) None; BRet None 0 (OStop (Some 5)) None], None).
Proof. vm_compute. reflexivity. Qed.

(* the wrapper before the fix (`break`): the return value is dropped, so
   transparency is false of it -- the one-yield witness *)
Theorem transparent_legacy_refuted :
  exists fuel bodies script,
    w_trace (run_legacy fuel bodies script) <> w_trace (run_direct fuel bodies script).
Proof.
  exists 3, [table_body t_ret], s_ret. vm_compute. discriminate.
Qed.

(* an action spanning a yield; the driver starts the generator inside its own
   action 1, leaves it, and resumes the generator from no action at all *)
Definition t_span : table :=
  [ (([TProbe; TEnter 10; TProbe], TYield (VConst (Some 1)) 1), RI, RI);
    (([TProbe; TExit 10; TProbe], TReturn (VConst (Some 2))),
     ([TExit 10], TRaise XInput), ([TExit 10], TRaise XInput)) ].
Definition s_span :=
  [DCreate 0; DEnter 1; DResume 0 Next; DProbe; DExit 1; DProbe; DResume 0 Next; DProbe].

Example ex_span :
  run_tables false 3 [t_span] s_span =
  ([BOp None (OpEnter 1) true None (Some 1);
    BCall None 0 Next (Some 1);
    BOp (Some 0) OpProbe true (Some 1) (Some 1);
    BOp (Some 0) (OpEnter 10) true (Some 1) (Some 10);
    BOp (Some 0) OpProbe true (Some 10) (Some 10);
    BRet None 0 (ORet (Some 1)) (Some 1);
    BOp None OpProbe true (Some 1) (Some 1);
    BOp None (OpExit 1) true (Some 1) None;
    BOp None OpProbe true None None; BCall None 0 Next None;
    BOp (Some 0) OpProbe true (Some 10) (Some 10);
    BOp (Some 0) (OpExit 10) true (Some 10) (Some 1);
    BOp (Some 0) OpProbe true (Some 1) (Some 1);
    BRet None 0 (OStop (Some 2)) None; BOp None OpProbe true None None], None).
Proof. vm_compute. reflexivity. Qed.

(* the chain predicate is not vacuous: it rejects a trace in which a generator
   started from action 1 sees no action (context copied at the wrong time, or
   send() outside context.run) ... *)
Example chain_rejects_wrong_context :
  ~ chain 0 cinit [ECall None 0 Next (mkctx (Some 1) []);
                   EOp (Some 0) OpProbe true (mkctx None []) (mkctx None [])].
Proof.
  cbn. intros [_ [H _]]. destruct (H eq_refl) as [E _]. discriminate.
Qed.
(* ... and one in which the driver's later context leaks into the generator *)
Example chain_rejects_leak :
  ~ chain 0 cinit [ECall None 0 Next (mkctx None []);
                   EOp (Some 0) OpProbe true (mkctx None []) (mkctx None []);
                   EOp None (OpEnter 1) true (mkctx None []) (mkctx (Some 1) [(1, None)]);
                   ECall None 0 Next (mkctx (Some 1) [(1, None)]);
                   EOp (Some 0) OpProbe true (mkctx (Some 1) []) (mkctx (Some 1) [])].
Proof.
  cbn. intros (_ & _ & _ & _ & H & _). destruct (H eq_refl) as [E _]. discriminate.
Qed.
(* and it accepts (by own_context) the run above, in which the hypotheses of
   every clause are exercised: 6 operations by generator 0 *)
Example ex_span_ops :
  length (filter (fun e => match e with EOp (Some 0) _ _ _ _ => true | _ => false end)
                 (hist (run_wrapped 3 [table_body t_span] s_span))) = 6.
Proof. vm_compute. reflexivity. Qed.
(* driver_unchanged is about a state where the two contexts really differ *)
Example ex_driver_differs :
  let w := run_wrapped 3 [table_body t_span] [DEnter 1; DResume 0 Next] in
  cur (w_main w) = Some 1 /\
  option_map cur (match get 0 w with Some x => g_ctx x | None => None end) = Some (Some 10).
Proof. vm_compute. auto. Qed.
