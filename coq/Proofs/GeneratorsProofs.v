(* Proofs about Model/Generators.v (property C15). *)
From Coq Require Import List Arith Bool Lia.
Require Import Eliot.Model.Generators.
Import ListNotations.

(* ------------------------------------------------------------ list update *)
Lemma nth_error_upd_nth_eq {A} (f : A -> A) l n :
  nth_error (upd_nth n f l) n = option_map f (nth_error l n).
Proof.
  revert n. induction l as [|x l IH]; intros [|n]; cbn; auto.
Qed.
Lemma nth_error_upd_nth_neq {A} (f : A -> A) l n m :
  n <> m -> nth_error (upd_nth n f l) m = nth_error l m.
Proof.
  revert n m. induction l as [|x l IH]; intros [|n] [|m] H; cbn; auto; try congruence.
Qed.

Lemma get_upd_eq g f w : get g (upd_gen g f w) = option_map f (get g w).
Proof. apply nth_error_upd_nth_eq. Qed.
Lemma get_upd_neq g x f w : g <> x -> get x (upd_gen g f w) = get x w.
Proof. apply nth_error_upd_nth_neq. Qed.

Lemma mem_In g l : mem g l = true <-> In g l.
Proof.
  unfold mem. rewrite existsb_exists. split.
  - intros [x [Hx E]]. apply Nat.eqb_eq in E. now subst.
  - intros H. exists g. split; auto. apply Nat.eqb_refl.
Qed.
Lemma mem_false g l : mem g l = false -> ~ In g l.
Proof. intros E H. apply mem_In in H. congruence. Qed.

(* ================================================================ frame *)
(* w' differs from w at most in the trace and in generators outside P *)
Definition keeps (P : gid -> Prop) (w w' : world) : Prop :=
  w_main w' = w_main w /\ w_stack w' = w_stack w /\ forall x, P x -> get x w' = get x w.

Lemma keeps_refl P w : keeps P w w.
Proof. repeat split; auto. Qed.
Lemma keeps_trans (P Q : gid -> Prop) w1 w2 w3 :
  keeps P w1 w2 -> keeps Q w2 w3 -> (forall x, P x -> Q x) -> keeps P w1 w3.
Proof.
  intros (a & b & c) (a' & b' & c') H. repeat split; try congruence.
  intros x Hx. rewrite c' by auto. auto.
Qed.
Lemma keeps_weaken (P Q : gid -> Prop) w w' : keeps Q w w' -> (forall x, P x -> Q x) -> keeps P w w'.
Proof. intros (a & b & c) H. repeat split; auto. Qed.
Lemma keeps_emit P e w : keeps P w (emit e w).
Proof. repeat split; auto. Qed.
Lemma keeps_upd (P : gid -> Prop) g f w : ~ P g -> keeps P w (upd_gen g f w).
Proof.
  intros H. repeat split; auto. intros x Hx. apply get_upd_neq. intros ->. auto.
Qed.

Definition res_frame (res : resumer) : Prop :=
  forall g i w, keeps (fun x => In x (w_stack w)) w (fst (res g i w)).

Lemma cur_ctx_keeps w w' : keeps (fun x => In x (w_stack w)) w w' -> cur_ctx w' = cur_ctx w.
Proof.
  intros (a & b & c). unfold cur_ctx. rewrite b. destruct (w_stack w) as [|g st] eqn:E; auto.
  rewrite c by (left; reflexivity). reflexivity.
Qed.

(* a context operation executed while g's context is current touches g only *)
Lemma do_op_frame o w g st :
  w_stack w = g :: st ->
  keeps (fun x => x <> g) w (fst (do_op o w)).
Proof.
  intros E. unfold do_op. destruct (apply_op o (cur_ctx w)); cbn [fst].
  - unfold set_cur_ctx. rewrite E. eapply keeps_trans; [| apply keeps_emit | auto].
    apply keeps_upd. auto.
  - apply keeps_emit.
Qed.

Lemma run_seg_frame res : res_frame res ->
  forall sg w g st, w_stack w = g :: st ->
  keeps (fun x => In x st /\ x <> g) w (fst (run_seg res sg w)).
Proof.
  intros Hres. induction sg as [h k IH|h k IH|k IH|g' i k IH|v s|v|e]; intros w g st E; cbn [run_seg].
  - pose proof (do_op_frame (OpEnter h) w g st E) as F.
    eapply keeps_trans; [eapply keeps_weaken; [exact F|] | apply (IH _ g st) | auto]; cbn; try tauto.
    destruct F as (_ & b & _). congruence.
  - pose proof (do_op_frame (OpExit h) w g st E) as F.
    destruct (do_op (OpExit h) w) as [w1 ok]. cbn [fst] in F.
    destruct ok; cbn [fst].
    + eapply keeps_trans; [eapply keeps_weaken; [exact F|] | apply (IH _ g st) | auto]; cbn; try tauto.
      destruct F as (_ & b & _). congruence.
    + eapply keeps_weaken; [exact F|]. cbn; tauto.
  - pose proof (do_op_frame OpProbe w g st E) as F.
    eapply keeps_trans; [eapply keeps_weaken; [exact F|] | apply (IH _ g st) | auto]; cbn; try tauto.
    destruct F as (_ & b & _). congruence.
  - pose proof (Hres g' i w) as F. destruct (res g' i w) as [w1 o]. cbn [fst] in F.
    eapply keeps_trans; [eapply keeps_weaken; [exact F|] | apply (IH o _ g st) | auto].
    + cbn. intros x [Hx _]. rewrite E. now right.
    + destruct F as (_ & b & _). congruence.
  - apply keeps_refl.
  - apply keeps_refl.
  - apply keeps_refl.
Qed.

Lemma inner_resume_frame res : res_frame res ->
  forall g bi w st, w_stack w = g :: st ->
  keeps (fun x => In x st /\ x <> g) w (fst (inner_resume res g bi w)).
Proof.
  intros Hres g bi w st E. unfold inner_resume.
  destruct (get g w) as [x|]; [|apply keeps_refl].
  assert (R : forall s, keeps (fun x => In x st /\ x <> g) w
     (fst (let (w1, r) := run_seg res (g_body x s bi) w in
        match r with
        | RYield v s' => (set_i g (PSuspended s') w1, ORet v)
        | RReturn v => (set_i g PFinished w1, OStop v)
        | RRaise e => (set_i g PFinished w1, ORaise e)
        end))).
  { intros s. pose proof (run_seg_frame res Hres (g_body x s bi) w g st E) as F.
    destruct (run_seg res (g_body x s bi) w) as [w1 r]. cbn [fst] in F.
    destruct r; cbn [fst]; (eapply keeps_trans; [exact F | apply keeps_upd | auto]); tauto. }
  destruct (g_i x); destruct bi as [[v|]|e]; try apply R; try apply keeps_refl;
    cbn [fst]; apply keeps_upd; tauto.
Qed.

Lemma ctx_run_frame res : res_frame res ->
  forall g bi w, ~ In g (w_stack w) ->
  keeps (fun x => In x (w_stack w)) w (fst (ctx_run g (inner_resume res g bi) w)).
Proof.
  intros Hres g bi w Hg. unfold ctx_run.
  pose proof (inner_resume_frame res Hres g bi (push g w) (w_stack w) eq_refl) as F.
  destruct (inner_resume res g bi (push g w)) as [w1 o]. cbn [fst] in *.
  destruct F as (a & b & c). repeat split; cbn.
  - rewrite a. reflexivity.
  - rewrite b. reflexivity.
  - intros x Hx. unfold get, pop in *. cbn. apply c. split; auto. intros ->. auto.
Qed.

Lemma tramp_frame legacy res : res_frame res ->
  forall g bi w, ~ In g (w_stack w) ->
  keeps (fun x => In x (w_stack w)) w (fst (tramp legacy res g bi w)).
Proof.
  intros Hres g bi w Hg. unfold tramp.
  pose proof (ctx_run_frame res Hres g bi w Hg) as F.
  destruct (ctx_run g (inner_resume res g bi) w) as [w1 o]. cbn [fst] in F.
  destruct o; cbn [fst]; (eapply keeps_trans; [exact F | apply keeps_upd | auto]);
    destruct F as (_ & b & _); rewrite b; auto.
Qed.

Lemma wrapper_resume_frame legacy res : res_frame res ->
  forall g i w, ~ In g (w_stack w) ->
  keeps (fun x => In x (w_stack w)) w (fst (wrapper_resume legacy res g i w)).
Proof.
  intros Hres g i w Hg. unfold wrapper_resume.
  destruct (get g w) as [x|]; [|apply keeps_refl].
  assert (S : keeps (fun x => In x (w_stack w)) w
     (fst (tramp legacy res g (BSend None) (set_w g WSuspended (set_ctx g (Some (copy_ctx (cur_ctx w))) w))))).
  { eapply keeps_trans; [apply (keeps_upd _ g _ w Hg) | | auto].
    eapply keeps_trans; [apply keeps_upd; exact Hg | apply tramp_frame; auto | auto]. }
  destruct (g_w x).
  - destruct i as [|[v|]|e|]; auto; try apply keeps_refl; cbn [fst]; apply keeps_upd; auto.
  - destruct i as [|v|e|]; try (apply tramp_frame; auto).
    pose proof (tramp_frame legacy res Hres g (BThrow GeneratorExit) w Hg) as F.
    destruct (tramp legacy res g (BThrow GeneratorExit) w). exact F.
  - destruct i; apply keeps_refl.
Qed.

Lemma resume_frame legacy fuel : res_frame (resume legacy fuel).
Proof.
  induction fuel as [|f IH]; intros g i w; cbn [resume].
  - apply keeps_refl.
  - set (w0 := emit (ECall (who w) g i (cur_ctx w)) w).
    destruct (mem g (w_stack w0)) eqn:M.
    + cbn [fst]. eapply keeps_trans; [apply keeps_emit | apply keeps_emit | auto].
    + apply mem_false in M.
      pose proof (wrapper_resume_frame legacy (resume legacy f) IH g i w0 M) as F.
      destruct (wrapper_resume legacy (resume legacy f) g i w0) as [w1 o]. cbn [fst] in *.
      eapply keeps_trans; [apply (keeps_emit _ (ECall (who w) g i (cur_ctx w)) w) | | auto].
      eapply keeps_trans; [exact F | apply keeps_emit | auto].
Qed.

(* C15, second clause: whatever the generator does, the caller's current
   context (object and content), hence its current action, is what it was *)
Theorem driver_unchanged legacy fuel g i w :
  let w' := fst (resume legacy fuel g i w) in
  w_stack w' = w_stack w /\ w_main w' = w_main w /\ cur_ctx w' = cur_ctx w.
Proof.
  cbn. pose proof (resume_frame legacy fuel g i w) as F.
  split; [apply F|]. split; [apply F|]. apply cur_ctx_keeps. exact F.
Qed.
