(* C11, parser half: the lines on disk after a crash are a prefix of the emission
   (Proofs/CrashProofs.v), and every prefix of the messages of well-formed tasks parses
   without error, with no task reported complete unless all its messages are in the prefix
   (corollaries of the C09 theorems). *)
From Coq Require Import List PArith Arith Lia.
Require Import Eliot.Base.Level Eliot.Model.Parser Eliot.Model.Forest.
Require Import Eliot.Proofs.ParserBasics Eliot.Proofs.ParserOrder Eliot.Proofs.ParserInterleave
  Eliot.Proofs.ParserTree Eliot.Proofs.ParserStep Eliot.Proofs.ParserRun Eliot.Proofs.ParserSpec Eliot.Proofs.ParserIds.
Import ListNotations.

Lemma In_firstn_In {A} (l : list A) j x : In x (firstn j l) -> In x l.
Proof.
  revert j. induction l as [|y l IH]; intros [|j] H; cbn [firstn] in H; try contradiction.
  destruct H as [->|H]; [now left | right; eapply IH; eauto].
Qed.

Lemma NoDup_firstn {A} (l : list A) j : NoDup l -> NoDup (firstn j l).
Proof.
  revert j. induction l as [|x l IH]; intros [|j] H; cbn [firstn]; try constructor.
  - inversion H as [|? ? Hx Hl]; subst. intros Hin. apply Hx. eapply In_firstn_In; eauto.
  - inversion H; subst. now apply IH.
Qed.

Lemma incl_firstn {A} (l : list A) j : incl (firstn j l) l.
Proof. intros x Hx. eapply In_firstn_In; eauto. Qed.

Theorem prefix_parses (f : forest) (j : nat) :
  exists r, parse_loop [] (firstn j (lin f)) [] = POk r.
Proof.
  apply parser_no_error with (f := f).
  - apply NoDup_firstn, lin_nodup.
  - apply incl_firstn.
Qed.

(* no task is reported complete while one of its messages is missing from the lines read so far;
   what remains at the end is incomplete *)
Theorem prefix_no_false_complete (f : forest) (j : nat) :
  exists cs p,
    parse_trace [] (firstn j (lin f)) = POk (cs, p) /\
    (forall i m c, nth_error (firstn j (lin f)) i = Some m -> nth_error cs i = Some c ->
       ~ all_received f (pm_uuid m) (firstn (S i) (firstn j (lin f))) -> c = []) /\
    (forall u t, ulookup u p = Some t -> task_complete t = false).
Proof.
  destruct (parser_complete_exact f (firstn j (lin f))) as (cs & p & Htr & _ & _ & Hstep & _ & _ & Hrest).
  - apply NoDup_firstn, lin_nodup.
  - apply incl_firstn.
  - exists cs, p. split; [exact Htr|]. split.
    + intros i m c Hm Hc Hnot.
      destruct (Hstep i m Hm) as (c' & Hc' & _ & Hn).
      rewrite Hc in Hc'. injection Hc' as <-. now apply Hn.
    + intros u t Hu. destruct (Hrest u t Hu) as (T & _ & _ & Hc & _). exact Hc.
Qed.
