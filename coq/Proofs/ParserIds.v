(* [pm_id] of the messages of [lin f] is the index in emission order (as in
   lib/forests.py linearize); in particular all identities are distinct. *)
From Coq Require Import List PArith Bool Arith Lia.
Require Import Eliot.Base.Level Eliot.Model.Parser Eliot.Model.Forest.
Require Import Eliot.Proofs.ParserBasics Eliot.Proofs.ParserOrder Eliot.Proofs.ParserTree Eliot.Proofs.ParserStep Eliot.Proofs.ParserRun.
Import ListNotations.

Definition key (m : pmsg) : nat * level := (pm_uuid m, pm_level m).

Lemma lin_tree_keys idf idf' u t : forall l,
  map key (lin_tree idf u l t) = map key (lin_tree idf' u l t).
Proof.
  induction t as [ty|ty st ch IHch] using tree_ind'; intros l; [reflexivity|].
  rewrite !lin_tree_act. cbn [map]. f_equal.
  generalize 2%positive. induction ch as [|c r IHr]; intros pos; cbn [lin_list]; [reflexivity|].
  inversion IHch as [|? ? Hc Hr]; subst. rewrite !map_app, (Hc (l ++ [pos])), (IHr Hr). reflexivity.
Qed.

Lemma lin_from_keys idf idf' f : forall u0,
  map key (lin_from idf u0 f) = map key (lin_from idf' u0 f).
Proof.
  induction f as [|T r IH]; intros u0; cbn [lin_from]; [reflexivity|].
  rewrite !map_app, IH. f_equal. destruct T; cbn [lin_task]; apply lin_tree_keys.
Qed.

Lemma index_of_nth ms : forall i u l,
  NoDup (map key ms) -> nth_error (map key ms) i = Some (u, l) -> index_of u l ms = i.
Proof.
  induction ms as [|m r IH]; intros i u l ND Hi; [destruct i; discriminate|].
  cbn [map] in ND. inversion ND as [|? ? Hn ND']; subst.
  destruct i as [|i]; cbn in Hi; cbn [index_of].
  - injection Hi as <- <-. now rewrite Nat.eqb_refl, level_eqb_refl.
  - destruct (Nat.eqb (pm_uuid m) u && level_eqb (pm_level m) l) eqn:E.
    + exfalso. apply andb_true_iff in E as [E1 E2]. apply Nat.eqb_eq in E1. apply level_eqb_eq in E2.
      apply Hn. replace (key m) with (u, l) by (unfold key; congruence).
      eapply nth_error_In. exact Hi.
    + f_equal. now apply IH.
Qed.

Lemma seq_char (l : list nat) : forall s,
  (forall i x, nth_error l i = Some x -> x = s + i) -> l = seq s (length l).
Proof.
  induction l as [|a l IH]; intros s H; [reflexivity|]. cbn [length seq].
  rewrite (H 0 a eq_refl), Nat.add_0_r. f_equal. apply IH.
  intros i x Hi. rewrite (H (S i) x Hi). lia.
Qed.

Lemma NoDup_map_inj_in {A B} (g : A -> B) l :
  NoDup l -> (forall a b, In a l -> In b l -> g a = g b -> a = b) -> NoDup (map g l).
Proof.
  induction l as [|a l IH]; intros ND Hg; cbn [map]; [constructor|].
  inversion ND; subst. constructor.
  - rewrite in_map_iff. intros (b & E & Hb). rewrite (Hg b a) in Hb; auto; [now right|now left].
  - apply IH; [assumption|]. intros x y Hx Hy. apply Hg; now right.
Qed.

Theorem lin_ids f : map pm_id (lin f) = seq 0 (length (lin f)).
Proof.
  rewrite <- (map_length pm_id). apply seq_char. intros i x Hi. cbn [Nat.add].
  rewrite nth_error_map in Hi. destruct (nth_error (lin f) i) as [m|] eqn:Em; [|discriminate].
  injection Hi as <-.
  pose proof (nth_error_In _ _ Em) as Hm. apply lin_In in Hm as (T & _ & Hm).
  apply lin_task_shape in Hm as [_ ->]. unfold lin_id.
  apply index_of_nth.
  - unfold lin0. rewrite (lin_from_keys _ (lin_id f)). fold (lin f).
    apply NoDup_map_inj_in; [apply lin_nodup|].
    intros a b Ha Hb E. unfold key in E. injection E as E1 E2. now apply (lin_key_inj f).
  - unfold lin0. rewrite (lin_from_keys _ (lin_id f)). fold (lin f).
    rewrite nth_error_map, Em. reflexivity.
Qed.

Corollary lin_ids_distinct f : NoDup (map pm_id (lin f)).
Proof. rewrite lin_ids. apply seq_NoDup. Qed.
