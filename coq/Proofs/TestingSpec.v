(* C17 — the test helpers (LoggedAction.fromMessages / of_type / descendants /
   type_tree / succeeded) rebuild, for every action of every forest, the tree
   the parser builds from the same messages.  All forests: any depth, repeated
   types, equal types among siblings and descendants, remote sub-tasks
   (ordinary action children), failed actions, several tasks. *)
From Coq Require Import List PArith Bool Arith Lia.
Require Import Eliot.Base.Level Eliot.Model.Parser Eliot.Model.Forest Eliot.Model.Testing.
Require Import Eliot.Proofs.ParserBasics Eliot.Proofs.ParserOrder Eliot.Proofs.ParserTree
  Eliot.Proofs.ParserStep Eliot.Proofs.ParserRun Eliot.Proofs.ParserSpec Eliot.Proofs.ParserIds.
Require Import Eliot.Proofs.TestingLin Eliot.Proofs.TestingScan.
Import ListNotations.

(* ---- fuel: [of_type] uses S (max level length) ------------------------------------------ *)

Lemma fold_max_ge (all : list lmsg) : forall acc,
  acc <= fold_left (fun acc m => Nat.max acc (length (lm_level m))) all acc /\
  forall m, In m all -> length (lm_level m) <= fold_left (fun acc m => Nat.max acc (length (lm_level m))) all acc.
Proof.
  induction all as [|a r IH]; intros acc; cbn [fold_left]; [split; [lia|intros m []]|].
  destruct (IH (Nat.max acc (length (lm_level a)))) as [H1 H2]. split; [lia|].
  intros m [<-|H]; [lia|now apply H2].
Qed.

Lemma max_depth_ge all m : In m all -> length (lm_level m) <= max_depth all.
Proof. apply fold_max_ge. Qed.

Lemma deep_message idf u t : forall l,
  exists m, In m (llin_tree idf u l t) /\ length l + depth t <= length (lm_level m).
Proof.
  induction t as [ty|ty st ch IHch] using tree_ind'; intros l.
  - exists (lplain idf u l ty). split; [now left|]. cbn. lia.
  - rewrite llin_tree_act, depth_act.
    assert (H : forall pos, depth_list ch = 0 \/
              exists m, In m (llin_list idf u l ty st pos ch) /\ length l + 1 + depth_list ch <= length (lm_level m)).
    { induction ch as [|c r IHr]; intros pos; [now left|]. cbn [depth_list llin_list].
      inversion IHch as [|? ? Hc Hr]; subst.
      destruct (Nat.le_gt_cases (depth_list r) (depth c)) as [Hle|Hgt].
      - destruct (depth c) as [|d] eqn:Ed; [left; lia|]. right.
        destruct (Hc (l ++ [pos])) as (m & Hm & Hlen). exists m. split; [apply in_app_iff; now left|].
        rewrite app_length in Hlen. cbn [length] in Hlen. lia.
      - destruct (IHr Hr (Pos.succ pos)) as [E|(m & Hm & Hlen)]; [lia|]. right.
        exists m. split; [apply in_app_iff; now right|]. lia. }
    destruct (H 2%positive) as [E|(m & Hm & Hlen)].
    + exists (lstart idf u l ty). split; [now left|]. cbn. rewrite app_length. cbn. lia.
    + exists m. split; [now right|]. lia.
Qed.

Lemma Seg_incl idf all u l c m : Seg idf all u l c -> In m (llin_tree idf u l c) -> In m all.
Proof. intros (PRE & POST & -> & _) H. apply in_app_iff. right. apply in_app_iff. now left. Qed.

Lemma Seg_fuel idf all u l c : Seg idf all u l c -> depth c <= S (max_depth all).
Proof.
  intros HS. destruct (deep_message idf u c l) as (m & Hm & Hlen).
  pose proof (max_depth_ge all m (Seg_incl _ _ _ _ _ _ HS Hm)). lia.
Qed.

(* ---- 2. fromMessages ----------------------------------------------------------------------- *)

(* any action [a] of the forest, at level prefix [l] of task [u]: the helper finds exactly
   its own start and end message, its direct child messages and its direct child actions *)
Theorem from_messages_spec_fuel f u T l a fuel :
  nth_error f u = Some T -> subtree_at T l = Some a -> is_act a = true -> depth a <= fuel ->
  from_messages fuel u (l ++ [1%positive]) (llin f) = TOk (logged_of (lin_id f u) u l a).
Proof.
  intros HT Hl HA Hd. apply from_messages_core; [exact HA| |exact Hd].
  apply (Seg_llin f u T l a HT); [eapply subtree_act_root; eassumption|exact Hl].
Qed.

Theorem from_messages_spec f u T l a :
  nth_error f u = Some T -> subtree_at T l = Some a -> is_act a = true ->
  from_messages (S (max_depth (llin f))) u (l ++ [1%positive]) (llin f) = TOk (logged_of (lin_id f u) u l a).
Proof.
  intros HT Hl HA. apply (from_messages_spec_fuel f u T l a _ HT Hl HA).
  eapply Seg_fuel. apply (Seg_llin f u T l a HT); [eapply subtree_act_root; eassumption|exact Hl].
Qed.

(* prefix matching, on the whole log of a forest: which messages of task u the helper takes
   as the action's own and which as starts of its direct child actions *)
Theorem prefix_matching_llin f u T l ty st ch m :
  nth_error f u = Some T -> subtree_at T l = Some (TAct ty st ch) -> In m (llin f) -> lm_uuid m = u ->
  (own l (lm_level m) = true <->
     m = lstart (lin_id f u) u l ty \/ m = lend (lin_id f u) u l ty st (endpos 2 ch) \/
     exists p ty', child_from 2 ch p = Some (TMsg ty') /\ m = lplain (lin_id f u) u (l ++ [p]) ty') /\
  (child_start l (lm_level m) = true <->
     exists p ty' st' ch', child_from 2 ch p = Some (TAct ty' st' ch') /\ m = lstart (lin_id f u) u (l ++ [p]) ty') /\
  (own l (lm_level m) = true -> child_start l (lm_level m) = false).
Proof.
  intros HT Hl. apply prefix_matching.
  apply (Seg_llin f u T l _ HT); [eapply subtree_act_root; [exact Hl|reflexivity]|exact Hl].
Qed.

(* ---- 3. of_type ------------------------------------------------------------------------------ *)

Definition sel (ty : positive) (m : lmsg) : bool :=
  opt_eqb Pos.eqb (lm_atype m) (Some ty) && is_started (lm_status m).

Definition act_uuid (x : nat * level * tree) : nat := fst (fst x).
Definition act_level (x : nat * level * tree) : level := snd (fst x).
Definition act_tree (x : nat * level * tree) : tree := snd x.

(* the expected helper tree / the start and end message of an action of the forest *)
Definition logged_at (f : forest) (x : nat * level * tree) : logged :=
  logged_of (lin_id f (act_uuid x)) (act_uuid x) (act_level x) (act_tree x).
Definition start_at (f : forest) (x : nat * level * tree) : lmsg :=
  start_of (lin_id f (act_uuid x)) (act_uuid x) (act_level x) (act_tree x).
Definition end_at (f : forest) (x : nat * level * tree) : lmsg :=
  end_of (lin_id f (act_uuid x)) (act_uuid x) (act_level x) (act_tree x).

Lemma filter_map_swap {A B} (P : B -> bool) (g : A -> B) l :
  filter P (map g l) = map g (filter (fun a => P (g a)) l).
Proof.
  induction l as [|a l IH]; cbn [map filter]; [reflexivity|].
  destruct (P (g a)); cbn [map]; now rewrite IH.
Qed.

Lemma sel_tree idf u ty t : forall l,
  filter (sel ty) (llin_tree idf u l t) =
  map (fun la => start_of idf u (fst la) (snd la)) (filter (fun la => has_type ty (snd la)) (acts_tree l t)).
Proof.
  induction t as [ty0|ty0 st ch IHch] using tree_ind'; intros l; [reflexivity|].
  rewrite llin_tree_act, acts_tree_act. cbn [filter fst snd has_type].
  assert (E : sel ty (lstart idf u l ty0) = Pos.eqb ty0 ty) by (unfold sel; cbn; now rewrite andb_true_r).
  rewrite E.
  assert (R : forall pos, filter (sel ty) (llin_list idf u l ty0 st pos ch) =
              map (fun la => start_of idf u (fst la) (snd la))
                  (filter (fun la => has_type ty (snd la)) (acts_list l pos ch))).
  { induction ch as [|c r IHr]; intros pos; cbn [llin_list acts_list].
    - cbn [filter]. replace (sel ty (lend idf u l ty0 st pos)) with false; [reflexivity|].
      unfold sel. cbn. destruct st; now rewrite andb_false_r.
    - inversion IHch as [|? ? Hc Hr]; subst. rewrite !filter_app, map_app, Hc, (IHr Hr). reflexivity. }
  rewrite R. now destruct (Pos.eqb ty0 ty).
Qed.

Lemma sel_from idf ty f : forall u0,
  filter (sel ty) (llin_from idf u0 f) =
  map (fun x => start_of (idf (act_uuid x)) (act_uuid x) (act_level x) (act_tree x))
      (filter (fun x => has_type ty (act_tree x)) (acts_from u0 f)).
Proof.
  induction f as [|T r IH]; intros u0; cbn [llin_from acts_from]; [reflexivity|].
  rewrite !filter_app, map_app, IH. f_equal.
  rewrite filter_map_swap, map_map. cbn [act_tree act_uuid act_level fst snd].
  destruct T as [ty0|ty0 st ch]; [reflexivity|]. cbn [llin_task]. apply sel_tree.
Qed.

Lemma collect_ok {A} (l : list A) : collect (map TOk l) = TOk l.
Proof. induction l as [|a l IH]; cbn [map collect]; [reflexivity|]. now rewrite IH. Qed.

Lemma acts_at f x : In x (acts f) ->
  exists T, nth_error f (act_uuid x) = Some T /\ subtree_at T (act_level x) = Some (act_tree x) /\
            is_act (act_tree x) = true.
Proof. destruct x as [[u l] a]. intros H. now apply acts_In in H. Qed.

(* the actions of type ty, in pre-order = emission order of their start messages *)
Definition acts_of_type (f : forest) (ty : positive) : list (nat * level * tree) :=
  filter (fun x => has_type ty (act_tree x)) (acts f).

Theorem of_type_spec f ty :
  of_type (llin f) ty = TOk (map (logged_at f) (acts_of_type f ty)).
Proof.
  unfold of_type. fold (sel ty). unfold llin at 3. rewrite sel_from. fold (acts f). fold (acts_of_type f ty).
  rewrite map_map, <- collect_ok, map_map. f_equal. apply map_ext_in. intros x Hx.
  apply filter_In in Hx as [Hx _]. destruct (acts_at f x Hx) as (T & HT & Hl & HA).
  destruct x as [[u l] a]. cbn [act_uuid act_level act_tree fst snd] in *.
  destruct a as [|ty0 st ch]; [discriminate|]. cbn [start_of lstart mk_lmsg lm_uuid lm_level].
  now apply (from_messages_spec f u T l).
Qed.

(* ---- 4. the same tree as the parser ------------------------------------------------------------ *)

(* the shape of a tree of messages: identities only (identities are emission indices, [llin_ids]) *)
Inductive shape :=
| SMsg (id : nat)
| SAct (start end_ : option nat) (ch : list shape).

Fixpoint shape_of_logged (a : logged) : shape :=
  match a with
  | LMessage m => SMsg (lm_id m)
  | LAction s e ch => SAct (Some (lm_id s)) (Some (lm_id e)) (map shape_of_logged ch)
  end.

Fixpoint shape_of_node (n : node) : shape :=
  match n with
  | NMsg m => SMsg (pm_id m)
  | NAct s e _ _ ch =>
      SAct (option_map pm_id s) (option_map pm_id e)
        ((fix go (l : list (level * node)) : list shape :=
            match l with
            | [] => []
            | (_, c) :: r => shape_of_node c :: go r
            end) ch)
  end.

(* the same with whole messages *)
Inductive mshape :=
| MMsg (m : pmsg)
| MAct (start end_ : option pmsg) (ch : list mshape).

Fixpoint mshape_of_logged (a : logged) : mshape :=
  match a with
  | LMessage m => MMsg (to_pmsg m)
  | LAction s e ch => MAct (Some (to_pmsg s)) (Some (to_pmsg e)) (map mshape_of_logged ch)
  end.

Fixpoint mshape_of_node (n : node) : mshape :=
  match n with
  | NMsg m => MMsg m
  | NAct s e _ _ ch =>
      MAct s e
        ((fix go (l : list (level * node)) : list mshape :=
            match l with
            | [] => []
            | (_, c) :: r => mshape_of_node c :: go r
            end) ch)
  end.

Fixpoint shape_of_mshape (s : mshape) : shape :=
  match s with
  | MMsg m => SMsg (pm_id m)
  | MAct s e ch => SAct (option_map pm_id s) (option_map pm_id e) (map shape_of_mshape ch)
  end.

Lemma shape_logged_m a : shape_of_logged a = shape_of_mshape (mshape_of_logged a).
Proof.
  revert a. fix IH 1. intros [m|s e ch]; [reflexivity|]. cbn [shape_of_logged mshape_of_logged shape_of_mshape].
  f_equal. rewrite map_map. induction ch as [|c r IHr]; cbn [map]; [reflexivity|]. now rewrite IH, IHr.
Qed.

Lemma shape_node_m n : shape_of_node n = shape_of_mshape (mshape_of_node n).
Proof.
  revert n. fix IH 1. intros [m|s e lv uu ch]; [reflexivity|]. cbn [shape_of_node mshape_of_node shape_of_mshape].
  f_equal. induction ch as [|[k c] r IHr]; cbn [map]; [reflexivity|]. now rewrite IH, IHr.
Qed.

Lemma present_all idf u l t : present idf u (fun _ => true) l t = true.
Proof.
  unfold present. pose proof (lin_tree_nonempty idf u t l) as N.
  destruct (lin_tree idf u l t); [congruence|reflexivity].
Qed.

Theorem logged_node_same idf u t : forall l,
  mshape_of_logged (logged_of idf u l t) = mshape_of_node (node_of idf u (fun _ => true) l t).
Proof.
  induction t as [ty|ty st ch IHch] using tree_ind'; intros l; [reflexivity|].
  rewrite logged_of_act, node_of_act. cbn [mshape_of_logged mshape_of_node]. f_equal.
  generalize 2%positive. induction ch as [|c r IHr]; intros pos; cbn [logged_list children_of map]; [reflexivity|].
  inversion IHch as [|? ? Hc Hr]; subst. rewrite present_all. cbn [app]. now rewrite Hc, (IHr Hr).
Qed.

Theorem logged_node_shape idf u t l :
  shape_of_logged (logged_of idf u l t) = shape_of_node (node_of idf u (fun _ => true) l t).
Proof. now rewrite shape_logged_m, shape_node_m, logged_node_same. Qed.

(* the node of the action at path x inside the parser's tree of the whole task *)
Fixpoint node_at (n : node) (x : level) : option node :=
  match x with
  | [] => Some n
  | j :: r =>
      match n with
      | NAct _ _ lv _ ch =>
          match llookup (lv ++ [j]) ch with
          | Some c => node_at c r
          | None => None
          end
      | NMsg _ => None
      end
  end.

Lemma children_lookup idf u R l cs : forall pos j c,
  child_from pos cs j = Some c -> present idf u R (l ++ [j]) c = true ->
  llookup (l ++ [j]) (children_of idf u R l pos cs) = Some (node_of idf u R (l ++ [j]) c).
Proof.
  induction cs as [|c0 r IH]; intros pos j c; cbn [child_from children_of]; [discriminate|].
  destruct (Pos.eqb_spec j pos) as [->|N].
  - intros E HP. injection E as ->. rewrite HP. cbn [app llookup]. now rewrite level_eqb_refl.
  - intros E HP. destruct (present idf u R (l ++ [pos]) c0); cbn [app llookup].
    + rewrite level_eqb_snoc. destruct (Pos.eqb_spec j pos); [congruence|]. now apply IH.
    + now apply IH.
Qed.

Theorem node_at_subtree idf u t : forall x l a,
  subtree_at t x = Some a -> is_act t = true ->
  node_at (node_of idf u (fun _ => true) l t) x = Some (node_of idf u (fun _ => true) (l ++ x) a).
Proof.
  intros x. revert t. induction x as [|j r IH]; intros t l a Hx HA.
  - cbn in Hx. injection Hx as <-. now rewrite app_nil_r.
  - destruct t as [|ty st ch]; [discriminate|]. cbn [subtree_at] in Hx.
    destruct (child_from 2 ch j) as [c|] eqn:Ec; [|discriminate].
    rewrite node_of_act. cbn [node_at].
    rewrite (children_lookup idf u _ l ch 2 j c Ec (present_all idf u _ c)).
    replace (l ++ j :: r) with ((l ++ [j]) ++ r) by now rewrite <- app_assoc.
    destruct r as [|j' r'].
    + cbn in Hx. injection Hx as <-. now rewrite app_nil_r.
    + apply IH; [exact Hx|]. destruct c; [discriminate|reflexivity].
Qed.

(* for every action of the forest: the helper's tree has the shape of the node the parser
   holds for that action inside the root [node_of ... [] T] of the completed task
   ([final_task_root]) *)
Theorem same_as_parser f u T l a t :
  nth_error f u = Some T -> subtree_at T l = Some a -> is_act a = true -> final_task f u t ->
  exists root n,
    task_root t = Some root /\ node_at root l = Some n /\
    n = node_of (lin_id f u) u (fun _ => true) l a /\
    shape_of_logged (logged_of (lin_id f u) u l a) = shape_of_node n /\
    mshape_of_logged (logged_of (lin_id f u) u l a) = mshape_of_node n.
Proof.
  intros HT Hl HA Hf. pose proof (subtree_act_root _ _ _ Hl HA) as HAT.
  exists (node_of (lin_id f u) u (fun _ => true) [] T), (node_of (lin_id f u) u (fun _ => true) l a).
  split; [now apply (final_task_root f u t T)|].
  split; [apply (node_at_subtree _ _ T l [] a Hl HAT)|].
  split; [reflexivity|]. split; [apply logged_node_shape|apply logged_node_same].
Qed.

(* ---- 5. descendants, type_tree, succeeded ---------------------------------------------------------- *)

Section Pre.
  Variable idf : level -> nat.
  Variable u : nat.

  (* the pre-order listing of the expected tree *)
  Fixpoint pre_tree (l : level) (t : tree) : list logged :=
    match t with
    | TMsg _ => [logged_of idf u l t]
    | TAct ty st ch =>
        logged_of idf u l t ::
        (fix go (pos : positive) (cs : list tree) : list logged :=
           match cs with
           | [] => []
           | c :: r => pre_tree (l ++ [pos]) c ++ go (Pos.succ pos) r
           end) 2%positive ch
    end.

  Fixpoint pre_list (l : level) (pos : positive) (cs : list tree) : list logged :=
    match cs with
    | [] => []
    | c :: r => pre_tree (l ++ [pos]) c ++ pre_list l (Pos.succ pos) r
    end.

  Lemma pre_tree_act l ty st ch :
    pre_tree l (TAct ty st ch) = logged_of idf u l (TAct ty st ch) :: pre_list l 2 ch.
  Proof.
    cbn [pre_tree]. f_equal. generalize 2%positive.
    induction ch as [|c r IH]; intros pos; cbn [pre_list]; [reflexivity|]. now rewrite IH.
  Qed.

  Fixpoint desc_list (l : list logged) : list logged :=
    match l with
    | [] => []
    | c :: r => c :: descendants c ++ desc_list r
    end.

  Lemma descendants_act s e ch : descendants (LAction s e ch) = desc_list ch.
  Proof. reflexivity. Qed.

  Theorem descendants_spec t : forall l,
    logged_of idf u l t :: descendants (logged_of idf u l t) = pre_tree l t.
  Proof.
    induction t as [ty|ty st ch IHch] using tree_ind'; intros l; [reflexivity|].
    rewrite pre_tree_act. f_equal. rewrite logged_of_act, descendants_act.
    generalize 2%positive. induction ch as [|c r IHr]; intros pos; cbn [logged_list desc_list pre_list]; [reflexivity|].
    inversion IHch as [|? ? Hc Hr]; subst. rewrite <- (Hc (l ++ [pos])), (IHr Hr). reflexivity.
  Qed.

  Corollary descendants_tl t l : descendants (logged_of idf u l t) = tl (pre_tree l t).
  Proof. now rewrite <- descendants_spec. Qed.

  (* pre-order = emission order: the first messages of the listed nodes are the
     action's block of the log without the end messages, in log order *)
  Definition first_msg (a : logged) : lmsg :=
    match a with LMessage m => m | LAction s _ _ => s end.

  Theorem pre_tree_emission t : forall l,
    map first_msg (pre_tree l t) = filter (fun m => negb (is_completed (lm_status m))) (llin_tree idf u l t).
  Proof.
    induction t as [ty|ty st ch IHch] using tree_ind'; intros l; [reflexivity|].
    rewrite pre_tree_act, llin_tree_act, logged_of_act. cbn [map first_msg filter lstart mk_lmsg lm_status is_completed negb].
    f_equal. generalize 2%positive. induction ch as [|c r IHr]; intros pos; cbn [pre_list llin_list map].
    - cbn [filter lend mk_lmsg lm_status]. now destruct st.
    - inversion IHch as [|? ? Hc Hr]; subst. rewrite map_app, filter_app, Hc, (IHr Hr). reflexivity.
  Qed.

  (* type_tree *)
  Fixpoint ttree_of (t : tree) : ttree :=
    match t with
    | TMsg ty => TTMsg (Some ty)
    | TAct ty _ ch => TTAct (Some ty) (map ttree_of ch)
    end.

  Theorem type_tree_spec t : forall l, type_tree (logged_of idf u l t) = ttree_of t.
  Proof.
    induction t as [ty|ty st ch IHch] using tree_ind'; intros l; [reflexivity|].
    rewrite logged_of_act. cbn [type_tree ttree_of lstart mk_lmsg lm_atype]. f_equal.
    generalize 2%positive. induction ch as [|c r IHr]; intros pos; cbn [logged_list map]; [reflexivity|].
    inversion IHch as [|? ? Hc Hr]; subst. now rewrite Hc, (IHr Hr).
  Qed.

  Theorem succeeded_spec l ty st ch :
    succeeded (logged_of idf u l (TAct ty st ch)) =
    match end_status st with PSucceeded => true | _ => false end.
  Proof. rewrite logged_of_act. reflexivity. Qed.

  Corollary succeeded_iff l ty st ch :
    succeeded (logged_of idf u l (TAct ty st ch)) = true <-> end_status st = PSucceeded.
  Proof. rewrite succeeded_spec. destruct st; cbn; split; congruence. Qed.
End Pre.

(* ---- examples ----------------------------------------------------------------------------------------- *)

(* type 10 at depths 1, 2 and 3 of task 0 and as the root of task 2; equal-typed
   siblings; a failed action; a remote-style sub-action (type 4) in two places; a
   context-less message task whose message type is 10 *)
Definition ex17 : forest :=
  [ TAct 10 PSucceeded
      [ TMsg 11;
        TAct 10 PFailed [TMsg 13; TAct 4 PSucceeded []; TAct 10 PSucceeded [TMsg 11]];
        TMsg 11;
        TAct 10 PSucceeded [] ];
    TMsg 10;
    TAct 10 PFailed [TAct 4 PSucceeded [TMsg 11]] ].

Example ex17_lin : map to_pmsg (llin ex17) = lin ex17 /\ map lm_id (llin ex17) = seq 0 20.
Proof. vm_compute. split; reflexivity. Qed.

(* the action of type 10 at depth 3: task 0, prefix [3;4] *)
Example ex17_hyp :
  exists T, nth_error ex17 0 = Some T /\
    subtree_at T [3;4]%positive = Some (TAct 10 PSucceeded [TMsg 11]) /\
    In (0, [3;4]%positive, TAct 10 PSucceeded [TMsg 11]) (acts ex17).
Proof. eexists. split; [reflexivity|]. split; [reflexivity|]. vm_compute. auto 10. Qed.

(* among the 14 messages of task 0, the action at prefix [3] owns 3 (start 2, message 3, end 9;
   nothing of its grandchild at [3;4]) and sees the 2 starts of its direct child actions (4 and 6) *)
Example ex17_prefix_matching :
  map lm_id (filter (fun m => Nat.eqb (lm_uuid m) 0 && own [3%positive] (lm_level m)) (llin ex17)) = [2; 3; 9]
  /\ map lm_id (filter (fun m => Nat.eqb (lm_uuid m) 0 && child_start [3%positive] (lm_level m)) (llin ex17)) = [4; 6]
  /\ Seg (lin_id ex17 0) (llin ex17) 0 [3%positive]
       (TAct 10 PFailed [TMsg 13; TAct 4 PSucceeded []; TAct 10 PSucceeded [TMsg 11]]).
Proof.
  split; [reflexivity|]. split; [reflexivity|].
  apply (Seg_llin ex17 0 (nth 0 ex17 (TMsg 1))); reflexivity.
Qed.

Example ex17_from_messages :
  from_messages (S (max_depth (llin ex17))) 0 [3;4;1]%positive (llin ex17)
  = TOk (logged_of (lin_id ex17 0) 0 [3;4]%positive (TAct 10 PSucceeded [TMsg 11]))
  /\ from_messages (S (max_depth (llin ex17))) 0 [3;1]%positive (llin ex17)
  = TOk (logged_at ex17 (0, [3]%positive, TAct 10 PFailed [TMsg 13; TAct 4 PSucceeded []; TAct 10 PSucceeded [TMsg 11]])).
Proof. vm_compute. split; reflexivity. Qed.

(* five actions of type 10: depths 1, 2, 3, 2 of task 0 and the root of task 2, in emission order *)
Example ex17_of_type :
  of_type (llin ex17) 10 = TOk (map (logged_at ex17) (acts_of_type ex17 10))
  /\ map (fun x => (act_uuid x, act_level x)) (acts_of_type ex17 10)
     = [(0, []); (0, [3%positive]); (0, [3;4]%positive); (0, [5%positive]); (2, [])]
  /\ match of_type (llin ex17) 10 with
     | TOk r => map (fun a => lm_id (first_msg a)) r = [0; 2; 6; 11; 15]
     | _ => False
     end
  /\ match of_type (llin ex17) 4 with TOk r => length r = 2 | _ => False end.
Proof. vm_compute. repeat split; reflexivity. Qed.

Example ex17_same_as_parser :
  match parse_stream (lin ex17) with
  | POk ([t0; t1; t2], []) =>
      match task_root t0 with
      | Some root =>
          option_map shape_of_node (node_at root [3]%positive)
          = Some (shape_of_logged (logged_at ex17 (0, [3]%positive,
                    TAct 10 PFailed [TMsg 13; TAct 4 PSucceeded []; TAct 10 PSucceeded [TMsg 11]])))
          /\ option_map shape_of_node (node_at root [3;4]%positive)
          = Some (SAct (Some 6) (Some 8) [SMsg 7])
          /\ match of_type (llin ex17) 10 with
             | TOk (r :: _) => shape_of_logged r = shape_of_node root
             | _ => False
             end
      | None => False
      end
  | _ => False
  end.
Proof. vm_compute. repeat split; reflexivity. Qed.

Example ex17_descendants :
  let a := logged_at ex17 (0, [], nth 0 ex17 (TMsg 1)) in
  map (fun d => lm_id (first_msg d)) (descendants a) = [1; 2; 3; 4; 6; 7; 10; 11]
  /\ a :: descendants a = pre_tree (lin_id ex17 0) 0 [] (nth 0 ex17 (TMsg 1))
  /\ type_tree a = TTAct (Some 10%positive)
       [TTMsg (Some 11%positive);
        TTAct (Some 10%positive) [TTMsg (Some 13%positive); TTAct (Some 4%positive) []; TTAct (Some 10%positive) [TTMsg (Some 11%positive)]];
        TTMsg (Some 11%positive); TTAct (Some 10%positive) []]
  /\ succeeded a = true
  /\ succeeded (logged_at ex17 (0, [3]%positive, TAct 10 PFailed [TMsg 13; TAct 4 PSucceeded []; TAct 10 PSucceeded [TMsg 11]])) = false.
Proof. vm_compute. repeat split; reflexivity. Qed.
