From Coq Require Import List PArith Bool.
Require Import Eliot.Base.Level Eliot.Model.Parser Eliot.Model.Testing.
Import ListNotations.

Lemma messages_of_type_spec all ty m :
  In m (messages_of_type all ty) <-> In m all /\ lm_mtype m = Some ty.
Proof.
  unfold messages_of_type. rewrite filter_In. split; intros [H1 H2]; split; auto.
  - destruct (lm_mtype m) as [t|]; cbn in H2; [|discriminate]. apply Pos.eqb_eq in H2. now subst.
  - rewrite H2. cbn. apply Pos.eqb_refl.
Qed.
