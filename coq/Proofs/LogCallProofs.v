(* Proofs about the log_call model (Model/LogCall.v). *)
From Coq Require Import List PArith ZArith Bool String Lia.
Require Import Eliot.Model.LogCall.
Import ListNotations.

(* ------------------------------------------------------------------ *)
(* Part A: association lists *)

Lemma memb_In k l : memb k l = true <-> In k l.
Proof.
  unfold memb. rewrite existsb_exists. split.
  - intros [x [Hx He]]. apply Pos.eqb_eq in He. now subst.
  - intros H. exists k. split; auto. apply Pos.eqb_refl.
Qed.

Lemma memb_false k l : memb k l = false <-> ~ In k l.
Proof.
  rewrite <- memb_In. destruct (memb k l); split; intros; try discriminate; auto.
  now contradiction H.
Qed.

Lemma nodupb_NoDup l : nodupb l = true <-> NoDup l.
Proof.
  induction l as [|x r IH]; cbn [nodupb].
  - split; auto using NoDup_nil.
  - rewrite andb_true_iff, negb_true_iff, memb_false, IH. split.
    + intros [A B]. now constructor.
    + intros H. inversion H; subst. auto.
Qed.

Lemma lookup_None {A} k (m : list (name * A)) : lookup k m = None <-> ~ In k (keys m).
Proof.
  induction m as [|[k' v] r IH]; cbn [lookup keys map fst].
  - split; auto.
  - destruct (Pos.eqb k k') eqn:E.
    + apply Pos.eqb_eq in E. subst. split; [discriminate|]. intros H. contradiction H. now left.
    + apply Pos.eqb_neq in E. rewrite IH. unfold keys. split.
      * intros H [H1|H1]; [congruence|auto].
      * intros H H1. apply H. now right.
Qed.

Lemma lookup_In {A} k (v : A) m : lookup k m = Some v -> In (k, v) m.
Proof.
  induction m as [|[k' v'] r IH]; cbn [lookup]; [discriminate|].
  destruct (Pos.eqb k k') eqn:E.
  - apply Pos.eqb_eq in E. subst. intros H. inversion H. now left.
  - intros H. right. auto.
Qed.

Lemma lookup_NoDup {A} k (v : A) m : NoDup (keys m) -> In (k, v) m -> lookup k m = Some v.
Proof.
  induction m as [|[k' v'] r IH]; cbn [lookup keys map fst]; [intros _ []|].
  intros ND [H|H].
  - inversion H; subst. now rewrite Pos.eqb_refl.
  - inversion ND; subst. destruct (Pos.eqb k k') eqn:E.
    + apply Pos.eqb_eq in E. subst. contradiction H2.
      change (In k' (map fst r)). apply in_map_iff. now exists (k', v).
    + now apply IH.
Qed.

Lemma lookup_app {A} k (m1 m2 : list (name * A)) :
  lookup k (m1 ++ m2) = match lookup k m1 with Some v => Some v | None => lookup k m2 end.
Proof.
  induction m1 as [|[k' v'] r IH]; cbn [lookup app]; auto.
  destruct (Pos.eqb k k'); auto.
Qed.

Lemma keys_app {A} (m1 m2 : list (name * A)) : keys (m1 ++ m2) = keys m1 ++ keys m2.
Proof. unfold keys. apply map_app. Qed.

Lemma lookup_dset_same {A} k (v : A) m : lookup k (dset k v m) = Some v.
Proof.
  induction m as [|[k' v'] r IH]; cbn [dset lookup].
  - now rewrite Pos.eqb_refl.
  - destruct (Pos.eqb k k') eqn:E; cbn [lookup].
    + now rewrite Pos.eqb_refl.
    + now rewrite E.
Qed.

Lemma lookup_dset_other {A} k k' (v : A) m : k <> k' -> lookup k (dset k' v m) = lookup k m.
Proof.
  intros N. induction m as [|[k2 v2] r IH]; cbn [dset lookup].
  - apply Pos.eqb_neq in N. now rewrite N.
  - destruct (Pos.eqb k' k2) eqn:E; cbn [lookup].
    + apply Pos.eqb_eq in E. subst k2. apply Pos.eqb_neq in N. now rewrite N.
    + destruct (Pos.eqb k k2); auto.
Qed.

Lemma lookup_remove_key_same {A} k (m : list (name * A)) : lookup k (remove_key k m) = None.
Proof.
  induction m as [|[k' v] r IH]; cbn [remove_key lookup]; auto.
  destruct (Pos.eqb k k') eqn:E; auto. cbn [lookup]. now rewrite E.
Qed.

Lemma lookup_remove_key_other {A} k k' (m : list (name * A)) :
  k <> k' -> lookup k (remove_key k' m) = lookup k m.
Proof.
  intros N. induction m as [|[k2 v] r IH]; cbn [remove_key lookup]; auto.
  destruct (Pos.eqb k' k2) eqn:E.
  - apply Pos.eqb_eq in E. subst k2. apply Pos.eqb_neq in N. now rewrite N.
  - cbn [lookup]. destruct (Pos.eqb k k2); auto.
Qed.

Lemma lookup_map_snd {A B} (g : A -> B) k (m : list (name * A)) :
  lookup k (map (fun kv => (fst kv, g (snd kv))) m) = option_map g (lookup k m).
Proof.
  induction m as [|[k' v] r IH]; cbn [map lookup fst snd]; auto.
  destruct (Pos.eqb k k'); auto.
Qed.

(* the dict comprehension keeps exactly the listed keys that are present *)
Lemma lookup_select inc m : forall acc k,
  lookup k (select inc m acc) =
  if memb k inc then match lookup k m with Some v => Some v | None => lookup k acc end
  else lookup k acc.
Proof.
  induction inc as [|x r IH]; intros acc k; cbn [select memb existsb]; auto.
  fold (memb k r).
  destruct (Pos.eqb k x) eqn:E; cbn [orb].
  - apply Pos.eqb_eq in E. subst x.
    destruct (lookup k m) eqn:L; rewrite IH, ?L.
    + rewrite lookup_dset_same. now destruct (memb k r).
    + now destruct (memb k r).
  - apply Pos.eqb_neq in E.
    destruct (lookup x m) eqn:L; rewrite IH; auto.
    rewrite lookup_dset_other by auto. reflexivity.
Qed.

(* ------------------------------------------------------------------ *)
(* Part B: without a keyword naming a positional-only parameter, dropping the
   '/' marker changes nothing *)

Lemma names_demote s : names (demote s) = names s.
Proof.
  unfold names, demote. rewrite map_map. apply map_ext.
  intros p. unfold demote_param. now destruct (p_kind p).
Qed.

Lemma has_kind_demote kd s : kd <> KPosOnly -> kd <> KNormal -> has_kind kd (demote s) = has_kind kd s.
Proof.
  intros N1 N2. unfold has_kind, demote. induction s as [|p r IH]; cbn [map existsb]; auto.
  rewrite IH. f_equal. unfold demote_param.
  destruct (p_kind p) eqn:K; cbn; rewrite ?K; destruct kd; try reflexivity; congruence.
Qed.

Lemma n_positional_demote s : n_positional (demote s) = n_positional s.
Proof.
  unfold n_positional, demote. induction s as [|p r IH]; cbn [map filter]; auto.
  replace (is_positional (p_kind (demote_param p))) with (is_positional (p_kind p)).
  - destruct (is_positional (p_kind p)); cbn [List.length]; now rewrite IH.
  - unfold demote_param. now destruct (p_kind p) eqn:K; cbn [p_kind]; rewrite ?K.
Qed.

Lemma kw_target_demote s k : kw_target (demote s) k = kw_target s k || posonly_name s k.
Proof.
  unfold kw_target, posonly_name, demote. induction s as [|p r IH]; cbn [map existsb]; auto.
  rewrite IH. unfold demote_param.
  destruct (p_kind p) eqn:K; cbn [p_kind p_name by_keyword kind_eqb andb]; rewrite ?K;
    cbn [by_keyword kind_eqb andb orb];
    destruct (Pos.eqb (p_name p) k); cbn [orb andb];
    destruct (existsb _ r); destruct (existsb _ r); auto.
Qed.

Lemma posonly_name_In s p : In p s -> p_kind p = KPosOnly -> posonly_name s (p_name p) = true.
Proof.
  intros H K. unfold posonly_name. apply existsb_exists. exists p. split; auto.
  rewrite K. cbn. apply Pos.eqb_refl.
Qed.

Lemma demote_param_other p : p_kind p <> KPosOnly -> demote_param p = p.
Proof. unfold demote_param. destruct (p_kind p); auto. congruence. Qed.

Lemma bind_params_demote_same sg kw ps pos :
  (forall k, In k (keys kw) -> posonly_name sg k = false) ->
  (forall p, In p ps -> p_kind p = KPosOnly -> ~ In (p_name p) (keys kw)) ->
  bind_params (demote sg) (demote ps) pos kw = bind_params sg ps pos kw.
Proof.
  intros Hk. revert pos. induction ps as [|p r IH]; intros pos Hp; [reflexivity|].
  assert (IH' : forall pos, bind_params (demote sg) (demote r) pos kw = bind_params sg r pos kw).
  { intros pos'. apply IH. intros q Hq. apply Hp. now right. }
  assert (F : filter (fun kv : name * value => negb (kw_target (demote sg) (fst kv))) kw =
              filter (fun kv => negb (kw_target sg (fst kv))) kw).
  { apply filter_ext_in. intros [k v] Hin. cbn [fst]. rewrite kw_target_demote.
    rewrite (Hk k), orb_false_r; auto. change (In k (map fst kw)). apply in_map_iff. now exists (k, v). }
  change (demote (p :: r)) with (demote_param p :: demote r).
  destruct (p_kind p) eqn:K.
  - (* positional-only in sg, ordinary in demote sg *)
    assert (Hn : ~ In (p_name p) (keys kw)) by (apply Hp; [now left|auto]).
    unfold demote_param at 1. rewrite K. cbn [bind_params p_kind p_name p_default]. rewrite K.
    destruct pos as [|v pos'].
    + apply lookup_None in Hn. rewrite Hn. unfold or_default. cbn [p_default]. now rewrite IH'.
    + apply memb_false in Hn. rewrite Hn. now rewrite IH'.
  - rewrite (demote_param_other p) by congruence. cbn [bind_params]. rewrite K.
    destruct pos as [|v pos']; [|destruct (memb _ _); now rewrite ?IH'].
    destruct (lookup _ _); unfold or_default; now rewrite IH'.
  - rewrite (demote_param_other p) by congruence. cbn [bind_params]. rewrite K. now rewrite IH'.
  - rewrite (demote_param_other p) by congruence. cbn [bind_params]. rewrite K.
    destruct (lookup _ _); unfold or_default; now rewrite IH'.
  - rewrite (demote_param_other p) by congruence. cbn [bind_params]. rewrite K. now rewrite IH', F.
Qed.

Lemma bind_demote_same s c : no_posonly_kw s c -> bind (demote s) c = bind s c.
Proof.
  intros H. unfold bind.
  rewrite !has_kind_demote by discriminate. rewrite n_positional_demote.
  replace (forallb (fun kv : name * value => kw_target (demote s) (fst kv)) (c_kw c))
    with (forallb (fun kv : name * value => kw_target s (fst kv)) (c_kw c)).
  2:{ unfold no_posonly_kw in H. induction (c_kw c) as [|[k v] r IH]; cbn [forallb fst]; auto.
      rewrite IH.
      - rewrite kw_target_demote, (H k), orb_false_r; auto. now left.
      - intros k' Hk'. apply H. now right. }
  - rewrite bind_params_demote_same; auto.
    intros p Hp K Hin. apply H in Hin. rewrite (posonly_name_In s p) in Hin; auto. discriminate.
Qed.

(* ------------------------------------------------------------------ *)
(* Part C: what the boltons-generated function forwards binds again to the
   same arguments, both for getcallargs (demoted signature) and for the real
   function *)

Definition posc (va : bool) (p : param) (bv : bval) : list value :=
  match p_kind p, bv with
  | KPosOnly, BVal v => [v]
  | KNormal, BVal v => if fwd_by_keyword va p then [] else [v]
  | KVarArgs, BTuple vs => vs
  | _, _ => []
  end.

Definition kwc (va : bool) (p : param) (bv : bval) : list (name * value) :=
  match p_kind p, bv with
  | KNormal, BVal v => if fwd_by_keyword va p then [(p_name p, v)] else []
  | KKwOnly, BVal v => [(p_name p, v)]
  | KVarKw, BDict kv => kv
  | _, _ => []
  end.

Lemma fwd_pos_cons va p ps n bv b :
  fwd_pos va (p :: ps) ((n, bv) :: b) = posc va p bv ++ fwd_pos va ps b.
Proof. reflexivity. Qed.

Lemma fwd_kw_cons va p ps n bv b :
  fwd_kw va (p :: ps) ((n, bv) :: b) = kwc va p bv ++ fwd_kw va ps b.
Proof. reflexivity. Qed.

Lemma names_inj (s : fsig) p q :
  NoDup (names s) -> In p s -> In q s -> p_name p = p_name q -> p = q.
Proof.
  induction s as [|x r IH]; cbn [names map]; [intros _ []|].
  intros ND [Hp|Hp] [Hq|Hq] E; inversion ND; subst; auto.
  - contradiction H1. rewrite E. now apply in_map.
  - contradiction H1. rewrite <- E. now apply in_map.
Qed.

Lemma has_kind_In kd (s : fsig) p : In p s -> p_kind p = kd -> has_kind kd s = true.
Proof.
  intros H K. unfold has_kind. apply existsb_exists. exists p. split; auto.
  rewrite K. now destruct kd.
Qed.

Lemma kw_target_In (s : fsig) p : In p s -> by_keyword (p_kind p) = true -> kw_target s (p_name p) = true.
Proof.
  intros H K. unfold kw_target. apply existsb_exists. exists p. split; auto.
  now rewrite K, Pos.eqb_refl.
Qed.

Lemma Forall2_combine_In {A B} (P : A -> B -> Prop) l1 l2 a b :
  Forall2 P l1 l2 -> In (a, b) (combine l1 l2) -> P a b.
Proof.
  induction 1; cbn [combine]; [intros []|].
  intros [E|E]; [inversion E; now subst|auto].
Qed.

Lemma Forall2_In_combine {A B} (P : A -> B -> Prop) l1 l2 a :
  Forall2 P l1 l2 -> In a l1 -> exists b, In (a, b) (combine l1 l2).
Proof.
  induction 1; [intros []|]. intros [->|H1].
  - exists y. now left.
  - destruct (IHForall2 H1) as [b0 Hb]. exists b0. now right.
Qed.

Section Forward.
  Variable s : fsig.
  Variable DK : list (name * value).
  Variable dm : bool.
  Variable b : bindings.
  Hypothesis Hord : order_ok s = true.
  Hypothesis Hnd : NoDup (names s).
  Hypothesis HDKnd : NoDup (keys DK).
  Hypothesis HDK : forall k, In k (keys DK) -> kw_target (demote s) k = false.

  Let va := has_kind KVarArgs s.

  Definition tr (p : param) : param := if dm then demote_param p else p.
  Let T := map tr s.

  (* an entry of the bindings relative to its parameter *)
  Definition R (p : param) (e : name * bval) : Prop :=
    fst e = p_name p /\
    match p_kind p with
    | KVarArgs => exists vs, snd e = BTuple vs
    | KVarKw => snd e = BDict DK
    | _ => exists v, snd e = BVal v
    end.

  Hypothesis HR : Forall2 R s b.
  Let KW' := fwd_kw va s b.

  Lemma T_cases : T = s \/ T = demote s.
  Proof.
    unfold T, tr. destruct dm; [right; reflexivity|left]. apply map_id.
  Qed.

  Lemma tr_other p : p_kind p <> KPosOnly -> tr p = p.
  Proof. unfold tr. destruct dm; auto. apply demote_param_other. Qed.

  Lemma kwT_of_s k : kw_target s k = true -> kw_target T k = true.
  Proof.
    destruct T_cases as [-> | ->]; auto. rewrite kw_target_demote. intros ->. reflexivity.
  Qed.

  Lemma kwT_le_D k : kw_target T k = true -> kw_target (demote s) k = true.
  Proof.
    destruct T_cases as [-> | ->]; auto. rewrite kw_target_demote. intros ->. reflexivity.
  Qed.

  Lemma R_cases p n bv : R p (n, bv) -> n = p_name p /\
    ((p_kind p = KPosOnly /\ exists v, bv = BVal v /\ posc va p bv = [v] /\ kwc va p bv = []) \/
     (p_kind p = KNormal /\ fwd_by_keyword va p = false /\
        exists v, bv = BVal v /\ posc va p bv = [v] /\ kwc va p bv = []) \/
     (p_kind p = KNormal /\ fwd_by_keyword va p = true /\
        exists v, bv = BVal v /\ posc va p bv = [] /\ kwc va p bv = [(p_name p, v)]) \/
     (p_kind p = KVarArgs /\ exists vs, bv = BTuple vs /\ posc va p bv = vs /\ kwc va p bv = []) \/
     (p_kind p = KKwOnly /\ fwd_by_keyword va p = true /\
        exists v, bv = BVal v /\ posc va p bv = [] /\ kwc va p bv = [(p_name p, v)]) \/
     (p_kind p = KVarKw /\ bv = BDict DK /\ posc va p bv = [] /\ kwc va p bv = DK)).
  Proof.
    intros [Hn Hk]. cbn [fst snd] in *. split; auto.
    unfold posc, kwc. destruct (p_kind p) eqn:K.
    - left. destruct Hk as [v ->]. split; auto. now exists v.
    - destruct Hk as [v ->]. destruct (fwd_by_keyword va p) eqn:F.
      + right. right. left. split; auto. split; auto. now exists v.
      + right. left. split; auto. split; auto. now exists v.
    - right. right. right. left. destruct Hk as [vs ->]. split; auto. now exists vs.
    - right. right. right. right. left. destruct Hk as [v ->]. split; auto. split.
      + unfold fwd_by_keyword. now rewrite K.
      + now exists v.
    - right. right. right. right. right. subst bv. auto.
  Qed.

  Lemma fwd_kw_keys ps b' : Forall2 R ps b' -> forall k, In k (keys (fwd_kw va ps b')) ->
    (exists p, In p ps /\ fwd_by_keyword va p = true /\ p_name p = k) \/ In k (keys DK).
  Proof.
    induction 1 as [|p [n bv] ps b' HRp HF IH]; intros k; [cbn; intros []|].
    rewrite fwd_kw_cons, keys_app, in_app_iff.
    intros [Hk|Hk].
    - destruct (R_cases _ _ _ HRp) as [-> [C|[C|[C|[C|[C|C]]]]]].
      + destruct C as [_ [v [_ [_ E]]]]. rewrite E in Hk. destruct Hk.
      + destruct C as [_ [_ [v [_ [_ E]]]]]. rewrite E in Hk. destruct Hk.
      + destruct C as [_ [F [v [_ [_ E]]]]]. rewrite E in Hk. destruct Hk as [<-|[]].
        left. exists p. split; [now left|auto].
      + destruct C as [_ [v [_ [_ E]]]]. rewrite E in Hk. destruct Hk.
      + destruct C as [_ [F [v [_ [_ E]]]]]. rewrite E in Hk. destruct Hk as [<-|[]].
        left. exists p. split; [now left|auto].
      + destruct C as [_ [_ [_ E]]]. rewrite E in Hk. now right.
    - destruct (IH k Hk) as [[q [Hq Hr]]|Hd]; [left|now right].
      exists q. split; [now right|auto].
  Qed.

  Lemma kwD_of_param p : In p s -> p_kind p <> KVarArgs -> p_kind p <> KVarKw ->
    kw_target (demote s) (p_name p) = true.
  Proof.
    intros Hin N1 N2. rewrite kw_target_demote. destruct (p_kind p) eqn:K; try congruence.
    - rewrite (posonly_name_In s p); auto. apply orb_true_r.
    - rewrite (kw_target_In s p); auto. now rewrite K.
    - rewrite (kw_target_In s p); auto. now rewrite K.
  Qed.

  Lemma not_in_DK p : In p s -> p_kind p <> KVarArgs -> p_kind p <> KVarKw -> ~ In (p_name p) (keys DK).
  Proof.
    intros Hin N1 N2 H. apply HDK in H. rewrite kwD_of_param in H; auto. discriminate.
  Qed.

  (* F1: a parameter forwarded positionally is not a forwarded keyword *)
  Lemma positional_not_kw p : In p s ->
    (p_kind p = KPosOnly \/ (p_kind p = KNormal /\ fwd_by_keyword va p = false)) ->
    ~ In (p_name p) (keys KW').
  Proof.
    intros Hin Hk H. apply (fwd_kw_keys s b HR) in H as [[q [Hq [Hf He]]]|Hd].
    - assert (q = p) by (apply (names_inj s); auto). subst q.
      destruct Hk as [K|[K F]]; [|congruence].
      unfold fwd_by_keyword in Hf. rewrite K in Hf. discriminate.
    - revert Hd. apply not_in_DK; auto; destruct Hk as [K|[K _]]; congruence.
  Qed.

  Lemma in_fwd_kw ps b' p n v : Forall2 R ps b' -> In (p, (n, BVal v)) (combine ps b') ->
    fwd_by_keyword va p = true -> In (p_name p, v) (fwd_kw va ps b').
  Proof.
    induction 1 as [|q [n' bv] ps b' HRq HF IH]; cbn [combine]; [intros []|].
    intros [E|E] F; rewrite fwd_kw_cons; apply in_or_app.
    - inversion E; subst q n' bv. left.
      destruct (R_cases _ _ _ HRq) as [_ [C|[C|[C|[C|[C|C]]]]]].
      + destruct C as [K _]. unfold fwd_by_keyword in F. rewrite K in F. discriminate.
      + destruct C as [_ [F' _]]. congruence.
      + destruct C as [_ [_ [v' [Ev [_ E']]]]]. inversion Ev; subst. rewrite E'. now left.
      + destruct C as [K _]. unfold fwd_by_keyword in F. rewrite K in F. discriminate.
      + destruct C as [_ [_ [v' [Ev [_ E']]]]]. inversion Ev; subst. rewrite E'. now left.
      + destruct C as [_ [Ev _]]. discriminate.
    - right. auto.
  Qed.

  Lemma fwd_kw_nodup ps b' : Forall2 R ps b' -> order_ok ps = true -> NoDup (names ps) ->
    (forall p, In p ps -> In p s) -> NoDup (keys (fwd_kw va ps b')).
  Proof.
    induction 1 as [|p [n bv] ps b' HRp HF IH]; intros Ho Hn Hs; [constructor|].
    cbn [order_ok] in Ho. apply andb_true_iff in Ho as [Ho1 Ho2].
    cbn [names map] in Hn. inversion Hn as [|x l Hn1 Hn2]; subst.
    assert (IH' : NoDup (keys (fwd_kw va ps b'))).
    { apply IH; auto. intros q Hq. apply Hs. now right. }
    assert (Hps : In p s) by (apply Hs; now left).
    assert (Fresh : by_keyword (p_kind p) = true -> ~ In (p_name p) (keys (fwd_kw va ps b'))).
    { intros Bk H. apply (fwd_kw_keys ps b' HF) in H as [[q [Hq [_ He]]]|Hd].
      - apply Hn1. rewrite <- He. now apply in_map.
      - revert Hd. apply not_in_DK; auto; intros K; rewrite K in Bk; discriminate. }
    rewrite fwd_kw_cons, keys_app.
    destruct (R_cases _ _ _ HRp) as [_ [C|[C|[C|[C|[C|C]]]]]].
    + destruct C as [_ [v [_ [_ E]]]]. now rewrite E.
    + destruct C as [_ [_ [v [_ [_ E]]]]]. now rewrite E.
    + destruct C as [K [_ [v [_ [_ E]]]]]. rewrite E. cbn [keys map fst app].
      constructor; auto. apply Fresh. now rewrite K.
    + destruct C as [_ [v [_ [_ E]]]]. now rewrite E.
    + destruct C as [K [_ [v [_ [_ E]]]]]. rewrite E. cbn [keys map fst app].
      constructor; auto. apply Fresh. now rewrite K.
    + destruct C as [K [_ [_ E]]]. rewrite E.
      destruct ps as [|q ps].
      * inversion HF; subst. cbn [fwd_kw keys map]. now rewrite app_nil_r.
      * cbn [forallb] in Ho1. unfold may_follow in Ho1. rewrite K in Ho1. discriminate.
  Qed.

  Lemma KW'_nodup : NoDup (keys KW').
  Proof. apply fwd_kw_nodup; auto. Qed.

  (* F2: a parameter forwarded by keyword is found again under its name *)
  Lemma lookup_forwarded p n v : In (p, (n, BVal v)) (combine s b) ->
    fwd_by_keyword va p = true -> lookup (p_name p) KW' = Some v.
  Proof.
    intros Hin F. apply lookup_NoDup; [apply KW'_nodup|]. now apply (in_fwd_kw s b p n v).
  Qed.

  Definition silent (p : param) : bool :=
    match p_kind p with
    | KPosOnly | KVarArgs => false
    | KNormal => fwd_by_keyword va p
    | _ => true
    end.

  Lemma fwd_pos_silent ps b' : Forall2 R ps b' -> forallb silent ps = true -> fwd_pos va ps b' = [].
  Proof.
    induction 1 as [|p [n bv] ps b' HRp HF IH]; cbn [forallb]; auto.
    intros H. apply andb_true_iff in H as [H1 H2]. rewrite fwd_pos_cons, IH by auto.
    rewrite app_nil_r. unfold silent in H1.
    destruct (R_cases _ _ _ HRp) as [_ [C|[C|[C|[C|[C|C]]]]]].
    + destruct C as [K _]. rewrite K in H1. discriminate.
    + destruct C as [K [F _]]. rewrite K in H1. congruence.
    + now destruct C as [_ [_ [v [_ [E _]]]]].
    + destruct C as [K _]. rewrite K in H1. discriminate.
    + now destruct C as [_ [_ [v [_ [E _]]]]].
    + now destruct C as [_ [_ [E _]]].
  Qed.

  (* F4: nothing positional is forwarded after a keyword-forwarded parameter or after *args *)
  Lemma tail_silent p ps : (forall q, In q ps -> In q s) -> forallb (may_follow p) ps = true ->
    ((p_kind p = KNormal /\ fwd_by_keyword va p = true) \/ p_kind p = KVarArgs \/ p_kind p = KKwOnly) ->
    forallb silent ps = true.
  Proof.
    intros Hs Hm Hp. apply forallb_forall. intros q Hq.
    rewrite forallb_forall in Hm. specialize (Hm q Hq). unfold may_follow in Hm. unfold silent.
    destruct Hp as [[K F]|[K|K]]; rewrite K in Hm.
    - unfold fwd_by_keyword in F. rewrite K in F. apply andb_true_iff in F as [F1 F2].
      rewrite F1 in Hm. apply negb_true_iff in F2.
      destruct (p_kind q) eqn:Kq; cbn in Hm; auto; try discriminate.
      + unfold fwd_by_keyword. rewrite Kq, F2. cbn. now rewrite Hm.
      + assert (va = true) by (apply (has_kind_In KVarArgs s q); auto). congruence.
    - destruct (p_kind q); auto; discriminate.
    - destruct (p_kind q); auto; discriminate.
  Qed.

  Definition fT (kv : name * value) : bool := negb (kw_target T (fst kv)).

  (* F3: the **kw dictionary is rebuilt from the forwarded keywords *)
  Lemma filter_fwd_kw ps b' : Forall2 R ps b' -> order_ok ps = true -> (forall p, In p ps -> In p s) ->
    filter fT (fwd_kw va ps b') = if has_kind KVarKw ps then DK else [].
  Proof.
    induction 1 as [|p [n bv] ps b' HRp HF IH]; intros Ho Hs; [reflexivity|].
    cbn [order_ok] in Ho. apply andb_true_iff in Ho as [Ho1 Ho2].
    assert (Hps : In p s) by (apply Hs; now left).
    assert (IH' : filter fT (fwd_kw va ps b') = if has_kind KVarKw ps then DK else []).
    { apply IH; auto. intros q Hq. apply Hs. now right. }
    assert (Drop : forall v, by_keyword (p_kind p) = true -> filter fT [(p_name p, v)] = []).
    { intros v Bk. cbn [filter]. unfold fT. cbn [fst]. rewrite kwT_of_s; auto. now apply kw_target_In. }
    rewrite fwd_kw_cons, filter_app. unfold has_kind. cbn [existsb]. fold (has_kind KVarKw ps).
    destruct (R_cases _ _ _ HRp) as [_ [C|[C|[C|[C|[C|C]]]]]].
    + destruct C as [K [v [_ [_ E]]]]. now rewrite E, K.
    + destruct C as [K [_ [v [_ [_ E]]]]]. now rewrite E, K.
    + destruct C as [K [_ [v [_ [_ E]]]]]. rewrite E, K, Drop; auto. now rewrite K.
    + destruct C as [K [v [_ [_ E]]]]. now rewrite E, K.
    + destruct C as [K [_ [v [_ [_ E]]]]]. rewrite E, K, Drop; auto. now rewrite K.
    + destruct C as [K [_ [_ E]]]. rewrite E, K. cbn [kind_eqb orb].
      destruct ps as [|q ps].
      * inversion HF; subst. cbn [fwd_kw filter]. rewrite app_nil_r.
        clear - HDK T. induction DK as [|[k v] r IHr]; auto.
        cbn [filter]. unfold fT at 1. cbn [fst].
        destruct (kw_target T k) eqn:E.
        -- apply kwT_le_D in E. rewrite HDK in E; [discriminate|now left].
        -- cbn [negb]. f_equal. apply IHr. intros k' Hk'. apply HDK. now right.
      * cbn [forallb] in Ho1. unfold may_follow in Ho1. rewrite K in Ho1. discriminate.
  Qed.

  Lemma trp_name p : p_name (tr p) = p_name p.
  Proof. unfold tr, demote_param. destruct dm; auto. now destruct (p_kind p). Qed.

  (* the walk of either binder over the forwarded call gives the bindings back *)
  Lemma rebind_walk ps b' : Forall2 R ps b' -> order_ok ps = true ->
    (forall p e, In (p, e) (combine ps b') -> In (p, e) (combine s b)) ->
    bind_params T (map tr ps) (fwd_pos va ps b') KW' = Ok b'.
  Proof.
    induction 1 as [|p [n bv] ps b' HRp HF IH]; intros Ho Hs; [reflexivity|].
    cbn [order_ok] in Ho. apply andb_true_iff in Ho as [Ho1 Ho2].
    assert (Hpe : In (p, (n, bv)) (combine s b)) by (apply Hs; now left).
    assert (Hps : In p s) by (eapply in_combine_l; eauto).
    assert (Hqs : forall q, In q ps -> In q s).
    { intros q Hq. destruct (Forall2_In_combine _ _ _ _ HF Hq) as [e He].
      eapply in_combine_l. apply Hs. right. exact He. }
    assert (IH' : bind_params T (map tr ps) (fwd_pos va ps b') KW' = Ok b').
    { apply IH; auto. intros q e Hq. apply Hs. now right. }
    rewrite fwd_pos_cons. cbn [map].
    destruct (R_cases _ _ _ HRp) as [-> [C|[C|[C|[C|[C|C]]]]]].
    + (* positional-only *)
      destruct C as [K [v [-> [E _]]]]. rewrite E. cbn [app].
      assert (Hn : ~ In (p_name p) (keys KW')) by (apply positional_not_kw; auto).
      assert (Htr : tr p = mkParam (p_name p) KNormal (p_default p) \/ tr p = p).
      { unfold tr, demote_param. destruct dm; rewrite ?K; auto. }
      destruct Htr as [-> | ->].
      * cbn [bind_params p_kind p_name].
        apply memb_false in Hn. rewrite Hn. now rewrite IH'.
      * cbn [bind_params]. rewrite K. now rewrite IH'.
    + destruct C as [K [F [v [-> [E _]]]]]. rewrite E. cbn [app].
      assert (Hn : ~ In (p_name p) (keys KW')) by (apply positional_not_kw; auto).
      rewrite tr_other by congruence. cbn [bind_params]. rewrite K.
      apply memb_false in Hn. rewrite Hn. now rewrite IH'.
    + destruct C as [K [F [v [-> [E _]]]]]. rewrite E. cbn [app].
      assert (St : fwd_pos va ps b' = []).
      { apply fwd_pos_silent; auto. apply (tail_silent p); auto. }
      rewrite St in *. rewrite tr_other by congruence. cbn [bind_params]. rewrite K.
      rewrite (lookup_forwarded p (p_name p) v); auto. now rewrite IH'.
    + destruct C as [K [vs [-> [E _]]]]. rewrite E.
      assert (St : fwd_pos va ps b' = []).
      { apply fwd_pos_silent; auto. apply (tail_silent p); auto. }
      rewrite St in *. rewrite app_nil_r. rewrite tr_other by congruence. cbn [bind_params]. rewrite K.
      now rewrite IH'.
    + destruct C as [K [F [v [-> [E _]]]]]. rewrite E. cbn [app].
      rewrite tr_other by congruence. cbn [bind_params]. rewrite K.
      rewrite (lookup_forwarded p (p_name p) v); auto. now rewrite IH'.
    + destruct C as [K [-> [E _]]]. rewrite E. cbn [app].
      rewrite tr_other by congruence. cbn [bind_params]. rewrite K. rewrite IH'. cbn [rcons].
      fold fT. unfold KW'. rewrite (filter_fwd_kw s b); auto.
      rewrite (has_kind_In KVarKw s p); auto.
  Qed.

  Lemma n_positional_T : n_positional T = n_positional s.
  Proof. destruct T_cases as [-> | ->]; auto using n_positional_demote. Qed.

  Lemma has_kind_T kd : kd <> KPosOnly -> kd <> KNormal -> has_kind kd T = has_kind kd s.
  Proof. intros. destruct T_cases as [-> | ->]; auto using has_kind_demote. Qed.

  Lemma fwd_pos_len ps b' : va = false -> Forall2 R ps b' -> (forall p, In p ps -> In p s) ->
    List.length (fwd_pos va ps b') <= n_positional ps.
  Proof.
    intros Hva. induction 1 as [|p [n bv] ps b' HRp HF IH]; intros Hs; [cbn; lia|].
    assert (IH' : List.length (fwd_pos va ps b') <= n_positional ps).
    { apply IH. intros q Hq. apply Hs. now right. }
    rewrite fwd_pos_cons, app_length. unfold n_positional in *. cbn [filter].
    destruct (R_cases _ _ _ HRp) as [_ [C|[C|[C|[C|[C|C]]]]]].
    + destruct C as [K [v [_ [E _]]]]. rewrite E, K. cbn. lia.
    + destruct C as [K [_ [v [_ [E _]]]]]. rewrite E, K. cbn. lia.
    + destruct C as [K [_ [v [_ [E _]]]]]. rewrite E, K. cbn. lia.
    + destruct C as [K _]. assert (va = true); [|congruence].
      apply (has_kind_In KVarArgs s p); auto. apply Hs. now left.
    + destruct C as [K [_ [v [_ [E _]]]]]. rewrite E, K. cbn. lia.
    + destruct C as [K [_ [E _]]]. rewrite E, K. cbn. lia.
  Qed.

  Lemma fwd_kw_targets ps b' : has_kind KVarKw s = false -> Forall2 R ps b' ->
    (forall p, In p ps -> In p s) ->
    forallb (fun kv : name * value => kw_target T (fst kv)) (fwd_kw va ps b') = true.
  Proof.
    intros Hvk. induction 1 as [|p [n bv] ps b' HRp HF IH]; intros Hs; [reflexivity|].
    assert (Hps : In p s) by (apply Hs; now left).
    rewrite fwd_kw_cons, forallb_app, IH by (intros q Hq; apply Hs; now right).
    rewrite andb_true_r.
    destruct (R_cases _ _ _ HRp) as [_ [C|[C|[C|[C|[C|C]]]]]].
    + now destruct C as [_ [v [_ [_ ->]]]].
    + now destruct C as [_ [_ [v [_ [_ ->]]]]].
    + destruct C as [K [_ [v [_ [_ ->]]]]]. cbn [forallb fst]. rewrite kwT_of_s; auto.
      apply kw_target_In; auto. now rewrite K.
    + now destruct C as [_ [v [_ [_ ->]]]].
    + destruct C as [K [_ [v [_ [_ ->]]]]]. cbn [forallb fst]. rewrite kwT_of_s; auto.
      apply kw_target_In; auto. now rewrite K.
    + destruct C as [K _]. rewrite (has_kind_In KVarKw s p) in Hvk; auto. discriminate.
  Qed.

  Lemma rebind : bind T (forward s b) = Ok b.
  Proof.
    unfold bind, forward. cbn [c_pos c_kw]. fold va. fold KW'.
    assert (N : nodupb (keys KW') = true) by (apply nodupb_NoDup, KW'_nodup).
    rewrite N. cbn [negb].
    rewrite !has_kind_T by discriminate. rewrite n_positional_T. fold va.
    assert (A2 : negb va && Nat.ltb (n_positional s) (List.length (fwd_pos va s b)) = false).
    { apply andb_false_iff. destruct (Bool.bool_dec va true) as [Hva|Hva].
      - left. now rewrite Hva.
      - right. apply not_true_is_false in Hva. apply PeanoNat.Nat.ltb_ge. apply fwd_pos_len; auto. }
    rewrite A2.
    assert (A3 : negb (has_kind KVarKw s) &&
                 negb (forallb (fun kv : name * value => kw_target T (fst kv)) KW') = false).
    { apply andb_false_iff. destruct (has_kind KVarKw s) eqn:Hvk; [now left|right].
      unfold KW'. rewrite fwd_kw_targets; auto. }
    rewrite A3.
    apply rebind_walk; auto.
  Qed.
End Forward.

(* ------------------------------------------------------------------ *)
(* Part D: the bindings produced by a successful binding have the shape the
   forwarding lemma needs *)

Lemma rcons_ok x r b : rcons x r = Ok b -> exists b', r = Ok b' /\ b = x :: b'.
Proof. destruct r; cbn [rcons]; [|discriminate]. intros H. inversion H. eauto. Qed.

Lemma or_default_ok n p r b : or_default n p r = Ok b ->
  exists d b', r = Ok b' /\ b = (n, BVal d) :: b'.
Proof.
  unfold or_default. destruct (p_default p); [|discriminate].
  intros H. apply rcons_ok in H as [b' [H ->]]. eauto.
Qed.

Definition dict_of (sg : fsig) (kw : list (name * value)) : list (name * value) :=
  filter (fun kv => negb (kw_target (demote sg) (fst kv))) kw.

Lemma bind_params_shape sg kw ps : forall pos b,
  bind_params (demote sg) (demote ps) pos kw = Ok b -> Forall2 (R (dict_of sg kw)) ps b.
Proof.
  induction ps as [|p r IH]; intros pos b H.
  - cbn in H. inversion H. constructor.
  - change (demote (p :: r)) with (demote_param p :: demote r) in H.
    assert (Fin : forall bv pos' b', bind_params (demote sg) (demote r) pos' kw = Ok b' ->
              b = (p_name p, bv) :: b' ->
              match p_kind p with
              | KVarArgs => exists vs, bv = BTuple vs
              | KVarKw => bv = BDict (dict_of sg kw)
              | _ => exists v, bv = BVal v
              end -> Forall2 (R (dict_of sg kw)) (p :: r) b).
    { intros bv pos' b' H1 -> H2. constructor; [split; auto|eauto]. }
    destruct (p_kind p) eqn:K.
    + unfold demote_param in H. rewrite K in H. cbn [bind_params p_kind p_name p_default] in H.
      destruct pos as [|v pos'].
      * destruct (lookup (p_name p) kw).
        -- apply rcons_ok in H as [b' [H ->]]. eapply Fin; eauto.
        -- unfold or_default in H. cbn [p_default] in H. destruct (p_default p); [|discriminate].
           apply rcons_ok in H as [b' [H ->]]. eapply Fin; eauto.
      * destruct (memb _ _); [discriminate|].
        apply rcons_ok in H as [b' [H ->]]. eapply Fin; eauto.
    + rewrite demote_param_other in H by congruence. cbn [bind_params] in H. rewrite K in H.
      destruct pos as [|v pos'].
      * destruct (lookup (p_name p) kw).
        -- apply rcons_ok in H as [b' [H ->]]. eapply Fin; eauto.
        -- apply or_default_ok in H as [d [b' [H ->]]]. eapply Fin; eauto.
      * destruct (memb _ _); [discriminate|].
        apply rcons_ok in H as [b' [H ->]]. eapply Fin; eauto.
    + rewrite demote_param_other in H by congruence. cbn [bind_params] in H. rewrite K in H.
      apply rcons_ok in H as [b' [H ->]]. eapply Fin; eauto.
    + rewrite demote_param_other in H by congruence. cbn [bind_params] in H. rewrite K in H.
      destruct (lookup (p_name p) kw).
      * apply rcons_ok in H as [b' [H ->]]. eapply Fin; eauto.
      * apply or_default_ok in H as [d [b' [H ->]]]. eapply Fin; eauto.
    + rewrite demote_param_other in H by congruence. cbn [bind_params] in H. rewrite K in H.
      apply rcons_ok in H as [b' [H ->]]. eapply Fin; eauto.
Qed.

Lemma keys_filter_In {A} (g : name * A -> bool) m k :
  In k (keys (filter g m)) -> exists v, In (k, v) m /\ g (k, v) = true.
Proof.
  unfold keys. rewrite in_map_iff. intros [[k' v] [E H]]. cbn in E. subst k'.
  apply filter_In in H. eauto.
Qed.

Lemma keys_filter_NoDup {A} (g : name * A -> bool) m : NoDup (keys m) -> NoDup (keys (filter g m)).
Proof.
  induction m as [|[k v] r IH]; cbn [filter keys map fst]; auto.
  intros H. inversion H; subst. destruct (g (k, v)); auto.
  cbn [keys map fst]. constructor; auto.
  intros Hin. apply keys_filter_In in Hin as [v' [Hin _]]. apply H2.
  change (In k (map fst r)). apply in_map_iff. now exists (k, v').
Qed.

Lemma wf_sig_parts s : wf_sig s = true -> order_ok s = true /\ NoDup (names s).
Proof. unfold wf_sig. rewrite andb_true_iff, nodupb_NoDup. auto. Qed.

Lemma bind_ok_parts s c b : bind s c = Ok b ->
  NoDup (keys (c_kw c)) /\ bind_params s s (c_pos c) (c_kw c) = Ok b.
Proof.
  unfold bind. destruct (nodupb (keys (c_kw c))) eqn:N; [|discriminate]. cbn [negb].
  destruct (_ && _); [discriminate|]. destruct (_ && _); [discriminate|].
  intros H. split; auto. now apply nodupb_NoDup.
Qed.

(* the forwarded call binds to the same arguments, under either binder *)
Lemma forward_faithful dm s c b : wf_sig s = true -> bind (demote s) c = Ok b ->
  bind (map (tr dm) s) (forward s b) = Ok b.
Proof.
  intros Hwf Hb. apply wf_sig_parts in Hwf as [Ho Hn].
  apply bind_ok_parts in Hb as [Hk Hb].
  apply (rebind s (dict_of s (c_kw c))); auto.
  - now apply keys_filter_NoDup.
  - intros k Hin. apply keys_filter_In in Hin as [v [_ H]]. cbn [fst] in H. now apply negb_true_iff in H.
  - eapply bind_params_shape. exact Hb.
Qed.

Lemma forward_getcallargs s c b : wf_sig s = true -> bind (demote s) c = Ok b ->
  bind (demote s) (forward s b) = Ok b.
Proof. intros Hwf Hb. exact (forward_faithful true s c b Hwf Hb). Qed.

Lemma forward_real s c b : wf_sig s = true -> bind (demote s) c = Ok b ->
  bind s (forward s b) = Ok b.
Proof.
  intros Hwf Hb. generalize (forward_faithful false s c b Hwf Hb).
  unfold tr. now rewrite map_id.
Qed.

(* ------------------------------------------------------------------ *)
(* The decorated function (current code) *)

Definition body_outcome (r : body_result) : outcome :=
  match r with BReturned v => Returned v | BRaised e => Raised (RExn e) end.

Definition end_message (t : string) (lvl : list positive) (include_result : bool) (r : body_result) : message :=
  match r with
  | BReturned v => end_success t lvl (if include_result then [(N_result, FResult v)] else [])
  | BRaised e => end_failed t lvl (RExn e)
  end.

Lemma sigbind_ok s c b : sigbind s c = Ok b -> bind s c = Ok b.
Proof. unfold sigbind. now destruct (sigbind_quirk s c). Qed.

Lemma sigbind_guarded s c : no_posonly_default_clash s c -> sigbind s c = bind s c.
Proof.
  unfold no_posonly_default_clash, sigbind. intros H.
  destruct (sigbind_quirk s c); auto. now rewrite H.
Qed.

Lemma wrapper_accepted f o parent c b :
  sigbind (f_sig f) c = Ok b ->
  wrapper f o parent c =
    (body_outcome (f_body f b),
     [start_message (action_type_of f o) (match parent with Some l => l | None => [] end) (logged_args o b);
      end_message (action_type_of f o) (match parent with Some l => l | None => [] end)
                  (o_include_result o) (f_body f b)]).
Proof.
  intros Hb. unfold wrapper. rewrite Hb. unfold call_fn. rewrite (sigbind_ok _ _ _ Hb).
  unfold body_outcome, end_message. now destruct (f_body f b).
Qed.

Lemma wrapper_rejected f o parent c :
  sigbind (f_sig f) c = TypeErr -> wrapper f o parent c = (Raised RTypeError, []).
Proof. intros H. unfold wrapper. now rewrite H. Qed.

(* ------------------------------------------------------------------ *)
(* C18: transparency.  No condition on the signature or on the names. *)

Theorem C18_outcome_thm : forall (f : fn) (o : opts) (parent : option (list positive)) (c : fcall),
  no_posonly_default_clash (f_sig f) c ->
  fst (wrapper f o parent c) = call_fn f c.
Proof.
  intros f o parent c Hg. pose proof (sigbind_guarded _ _ Hg) as E.
  unfold call_fn. destruct (bind (f_sig f) c) as [b|] eqn:B.
  - rewrite (wrapper_accepted f o parent c b E). cbn [fst]. now destruct (f_body f b).
  - now rewrite (wrapper_rejected f o parent c E).
Qed.

Lemma logged_args_spec o b k :
  lookup k (logged_args o b) =
  if included o k && negb (Pos.eqb k N_self) then lookup k b else None.
Proof.
  unfold logged_args, included. destruct (o_include_args o) as [inc|].
  - rewrite lookup_select. cbn [lookup]. destruct (memb k inc); cbn [andb]; auto.
    destruct (Pos.eqb k N_self) eqn:E; cbn [negb].
    + apply Pos.eqb_eq in E. subst. now rewrite lookup_remove_key_same.
    + apply Pos.eqb_neq in E. rewrite lookup_remove_key_other by auto. now destruct (lookup k b).
  - cbn [andb]. destruct (Pos.eqb k N_self) eqn:E; cbn [negb].
    + apply Pos.eqb_eq in E. subst. apply lookup_remove_key_same.
    + apply Pos.eqb_neq in E. now apply lookup_remove_key_other.
Qed.

Lemma start_message_spec t lvl fields k :
  lookup k (start_message t lvl fields) =
  if Pos.eqb k N_action_status then Some (FStatus Started)
  else if Pos.eqb k N_timestamp then Some FTime
  else if Pos.eqb k N_task_uuid then Some FUuid
  else if Pos.eqb k N_action_type then Some (FType t)
  else if Pos.eqb k N_task_level then Some (FLevel (lvl ++ [1%positive]))
  else option_map FArg (lookup k fields).
Proof.
  unfold start_message, identify.
  destruct (Pos.eqb k N_task_level) eqn:E5.
  { apply Pos.eqb_eq in E5. subst. rewrite lookup_dset_same. reflexivity. }
  apply Pos.eqb_neq in E5. rewrite lookup_dset_other by auto.
  destruct (Pos.eqb k N_action_type) eqn:E4.
  { apply Pos.eqb_eq in E4. subst. rewrite lookup_dset_same. reflexivity. }
  apply Pos.eqb_neq in E4. rewrite lookup_dset_other by auto.
  destruct (Pos.eqb k N_task_uuid) eqn:E3.
  { apply Pos.eqb_eq in E3. subst. rewrite lookup_dset_same. reflexivity. }
  apply Pos.eqb_neq in E3. rewrite lookup_dset_other by auto.
  destruct (Pos.eqb k N_timestamp) eqn:E2.
  { apply Pos.eqb_eq in E2. subst. rewrite lookup_dset_same. reflexivity. }
  apply Pos.eqb_neq in E2. rewrite lookup_dset_other by auto.
  destruct (Pos.eqb k N_action_status) eqn:E1.
  { apply Pos.eqb_eq in E1. subst. rewrite lookup_dset_same. reflexivity. }
  apply Pos.eqb_neq in E1. rewrite lookup_dset_other by auto.
  apply lookup_map_snd.
Qed.

Definition tail_fields (s : status) (t : string) (l : list positive) : message :=
  [(N_action_status, FStatus s); (N_timestamp, FTime); (N_task_uuid, FUuid);
   (N_action_type, FType t); (N_task_level, FLevel l)].

Theorem C18_logged_thm : forall (f : fn) (o : opts) (parent : option (list positive)) (c : fcall) (b : bindings),
  no_posonly_default_clash (f_sig f) c ->
  bind (f_sig f) c = Ok b ->
  let t := action_type_of f o in
  let lvl := match parent with Some l => l | None => [] end in
  exists start end_ : message,
    (* exactly one action: its start and its end *)
    snd (wrapper f o parent c) = [start; end_] /\
    (* the start message: the five keys Action._start assigns, and otherwise exactly
       Python's bindings without self, restricted to include_args *)
    (forall k, lookup k start =
       if Pos.eqb k N_action_status then Some (FStatus Started)
       else if Pos.eqb k N_timestamp then Some FTime
       else if Pos.eqb k N_task_uuid then Some FUuid
       else if Pos.eqb k N_action_type then Some (FType t)
       else if Pos.eqb k N_task_level then Some (FLevel (lvl ++ [1%positive]))
       else if included o k && negb (Pos.eqb k N_self) then option_map FArg (lookup k b)
       else None) /\
    (* the end message: result iff include_result; exception and reason on failure *)
    end_ = match f_body f b with
           | BReturned v =>
               (if o_include_result o then [(N_result, FResult v)] else []) ++
               tail_fields Succeeded t (lvl ++ [2%positive])
           | BRaised e =>
               [(N_exception, FExcName (RExn e)); (N_reason, FReason (RExn e))] ++
               tail_fields Failed t (lvl ++ [2%positive])
           end.
Proof.
  intros f o parent c b Hg B t lvl.
  pose proof (sigbind_guarded _ _ Hg) as E. rewrite B in E.
  rewrite (wrapper_accepted f o parent c b E). cbn [snd].
  eexists. eexists. split; [reflexivity|]. split.
  - intros k. rewrite start_message_spec. fold t. fold lvl.
    repeat (destruct (Pos.eqb k _); [reflexivity|]).
    rewrite logged_args_spec. now destruct (_ && _).
  - fold t. fold lvl. unfold end_message. destruct (f_body f b) as [v|e].
    + destruct (o_include_result o); reflexivity.
    + reflexivity.
Qed.

(* the decorator's default action type *)
Theorem C18_type_default_thm : forall f o,
  o_action_type o = None -> action_type_of f o = (f_module f ++ "." ++ f_qualname f)%string.
Proof. intros f o H. unfold action_type_of. now rewrite H. Qed.

(* an argument list the function rejects: TypeError from sig.bind, and nothing is logged *)
Theorem C18_invalid_call_thm : forall f o parent c,
  bind (f_sig f) c = TypeErr ->
  wrapper f o parent c = (Raised RTypeError, []).
Proof.
  intros f o parent c B. apply wrapper_rejected. unfold sigbind.
  now destruct (sigbind_quirk (f_sig f) c).
Qed.

(* include_args must name parameters: otherwise ValueError at decoration time *)
Theorem C18_decoration_thm : forall f o,
  decorate_ok f o = true <->
  match o_include_args o with None => True | Some inc => forall k, In k inc -> In k (names (f_sig f)) end.
Proof.
  intros f o. unfold decorate_ok. destruct (o_include_args o) as [inc|]; [|tauto].
  rewrite forallb_forall. split; intros H k Hk; apply memb_In; auto.
Qed.

(* ------------------------------------------------------------------ *)
(* The remaining guard cannot be dropped *)

Definition nm_x : name := 15%positive.
Definition nm_kw : name := 19%positive.

Definition const_fn (s : fsig) (v : value) : fn := mkFn s "m" "f" (fun _ => BReturned v).
Definition default_opts : opts := mkOpts None None true.

(* def f(x=101, /, **kwargs): return 500      f(x=2): Python binds x=101, kwargs={'x': 2};
   Signature.bind raises TypeError *)
Theorem C18_posonly_default_refuted_thm :
  exists (f : fn) (o : opts) (c : fcall),
    wf_sig (f_sig f) = true /\
    bind (f_sig f) c = Ok [(nm_x, BVal 101%Z); (nm_kw, BDict [(nm_x, 2%Z)])] /\
    call_fn f c = Returned 500%Z /\
    wrapper f o None c = (Raised RTypeError, []).
Proof.
  exists (const_fn [mkParam nm_x KPosOnly (Some 101%Z); mkParam nm_kw KVarKw None] 500%Z), default_opts,
         (mkCall [] [(nm_x, 2%Z)]).
  repeat split; vm_compute; reflexivity.
Qed.

(* ------------------------------------------------------------------ *)
(* Regression: the three inputs on which the wrapper failed before cc84555 *)

(* def f(x, /, **kwargs): return 500      f(1, x=2)   (was F3b) *)
Example regression_posonly_kw_clash :
  let f := const_fn [mkParam nm_x KPosOnly None; mkParam nm_kw KVarKw None] 500%Z in
  let c := mkCall [1%Z] [(nm_x, 2%Z)] in
  no_posonly_default_clash (f_sig f) c /\
  call_fn f c = Returned 500%Z /\
  fst (wrapper f default_opts None c) = Returned 500%Z /\
  lookup nm_kw (hd [] (snd (wrapper f default_opts None c))) = Some (FArg (BDict [(nm_x, 2%Z)])).
Proof. repeat split; try (vm_compute; reflexivity). intros H. vm_compute in H. discriminate. Qed.

(* def h(x, /): return x      h(x=1)   (was F3c): TypeError on both sides, nothing logged *)
Example regression_posonly_by_keyword :
  let f := mkFn [mkParam nm_x KPosOnly None] "m" "h"
             (fun b => match lookup nm_x b with Some (BVal v) => BReturned v | _ => BReturned 0%Z end) in
  let c := mkCall [] [(nm_x, 1%Z)] in
  no_posonly_default_clash (f_sig f) c /\
  call_fn f c = Raised RTypeError /\
  wrapper f default_opts None c = (Raised RTypeError, []).
Proof. repeat split; vm_compute; reflexivity. Qed.

(* def f(_call): return 7      f(3)   (was F3e) *)
Example regression_param_named_call :
  let f := const_fn [mkParam N_underscore_call KNormal None] 7%Z in
  let c := mkCall [3%Z] [] in
  no_posonly_default_clash (f_sig f) c /\
  call_fn f c = Returned 7%Z /\
  fst (wrapper f default_opts None c) = Returned 7%Z /\
  lookup N_underscore_call (hd [] (snd (wrapper f default_opts None c))) = Some (FArg (BVal 3%Z)).
Proof. repeat split; try (vm_compute; reflexivity). intros H. vm_compute in H. discriminate. Qed.

(* ------------------------------------------------------------------ *)
(* The hypotheses are satisfiable on a non-trivial case:
     class K:
         def f(self, logger, action_type=101, /, fields=102, *args, result, _serializers=103, **kwargs): return 500
     K().f(1, 2, 3, 4, result=5, x=6, y=7)     inside an action whose next child is at [2; 3]
   with include_args = [action_type; self; args; kwargs; logger] and include_result = false *)

Definition nm_logger : name := 11%positive.
Definition nm_serializers : name := 12%positive.
Definition nm_fields : name := 13%positive.
Definition nm_y : name := 16%positive.
Definition nm_args : name := 18%positive.

Definition ex_sig : fsig :=
  [mkParam N_self KPosOnly None; mkParam nm_logger KPosOnly None; mkParam N_action_type KPosOnly (Some 101%Z);
   mkParam nm_fields KNormal (Some 102%Z); mkParam nm_args KVarArgs None;
   mkParam N_result KKwOnly None; mkParam nm_serializers KKwOnly (Some 103%Z); mkParam nm_kw KVarKw None].
Definition ex_fn : fn := mkFn ex_sig "m" "K.f" (fun _ => BReturned 500%Z).
Definition ex_call : fcall :=
  mkCall [900%Z; 1%Z; 2%Z; 3%Z; 4%Z] [(N_result, 5%Z); (nm_x, 6%Z); (nm_y, 7%Z)].
Definition ex_opts : opts :=
  mkOpts None (Some [N_action_type; N_self; nm_args; nm_kw; nm_logger]) false.

Example ex_wf : wf_sig ex_sig = true.
Proof. vm_compute. reflexivity. Qed.

Example ex_guard : no_posonly_default_clash ex_sig ex_call.
Proof. intros H. vm_compute in H. discriminate. Qed.

(* the guard also holds, non-vacuously, when a keyword does name an unfilled positional-only
   parameter but Python rejects the call as well: K().f(logger=1, result=5) *)
Example ex_guard_quirk :
  sigbind_quirk ex_sig (mkCall [900%Z] [(nm_logger, 1%Z); (N_result, 5%Z)]) = true /\
  no_posonly_default_clash ex_sig (mkCall [900%Z] [(nm_logger, 1%Z); (N_result, 5%Z)]).
Proof. split; [|intros _]; vm_compute; reflexivity. Qed.

Example ex_decorate : decorate_ok ex_fn ex_opts = true.
Proof. vm_compute. reflexivity. Qed.

Example ex_bind : bind ex_sig ex_call =
  Ok [(N_self, BVal 900%Z); (nm_logger, BVal 1%Z); (N_action_type, BVal 2%Z); (nm_fields, BVal 3%Z);
      (nm_args, BTuple [4%Z]); (N_result, BVal 5%Z); (nm_serializers, BVal 103%Z);
      (nm_kw, BDict [(nm_x, 6%Z); (nm_y, 7%Z)])].
Proof. vm_compute. reflexivity. Qed.

Example ex_wrapper : wrapper ex_fn ex_opts (Some [2; 3]%positive) ex_call =
  (Returned 500%Z,
   [[(N_action_type, FType "m.K.f"); (nm_args, FArg (BTuple [4%Z]));
     (nm_kw, FArg (BDict [(nm_x, 6%Z); (nm_y, 7%Z)])); (nm_logger, FArg (BVal 1%Z));
     (N_action_status, FStatus Started); (N_timestamp, FTime); (N_task_uuid, FUuid);
     (N_task_level, FLevel [2; 3; 1]%positive)];
    tail_fields Succeeded "m.K.f" [2; 3; 2]%positive]).
Proof. vm_compute. reflexivity. Qed.

(* an invalid argument list for the same function: nothing is logged *)
Example ex_invalid : wrapper ex_fn ex_opts None (mkCall [900%Z; 1%Z] []) = (Raised RTypeError, []).
Proof. vm_compute. reflexivity. Qed.

(* ================================================================== *)
(* Legacy wrapper (before cc84555): its transparency needed two more guards, and
   the three witnesses below refute it without them *)

Lemma legacy_wrapper_accepted f o parent c b :
  wf_sig (f_sig f) = true -> no_param_named_call (f_sig f) ->
  bind (demote (f_sig f)) c = Ok b ->
  wrapper_legacy f o parent c =
    (body_outcome (f_body f b),
     [start_message (action_type_of f o) (match parent with Some l => l | None => [] end) (logged_args o b);
      end_message (action_type_of f o) (match parent with Some l => l | None => [] end)
                  (o_include_result o) (f_body f b)]).
Proof.
  intros Hwf Hc Hb. unfold wrapper_legacy. rewrite Hb.
  apply memb_false in Hc. rewrite Hc.
  rewrite (forward_getcallargs _ c b) by auto.
  unfold call_fn. rewrite (forward_real _ c b) by auto.
  unfold body_outcome, end_message. now destruct (f_body f b).
Qed.

Theorem legacy_outcome : forall (f : fn) (o : opts) (parent : option (list positive)) (c : fcall),
  wf_sig (f_sig f) = true ->
  no_param_named_call (f_sig f) ->
  no_posonly_kw (f_sig f) c ->
  fst (wrapper_legacy f o parent c) = call_fn f c.
Proof.
  intros f o parent c Hwf Hc Hg.
  pose proof (bind_demote_same _ _ Hg) as E.
  unfold call_fn. destruct (bind (f_sig f) c) as [b|] eqn:B.
  - rewrite (legacy_wrapper_accepted f o parent c b Hwf Hc E). cbn [fst]. now destruct (f_body f b).
  - unfold wrapper_legacy. now rewrite E.
Qed.

(* F3b, F3c, F3e against the legacy wrapper *)
Theorem C18_legacy_refuted_thm :
  (exists f o c, wf_sig (f_sig f) = true /\ posonly_kw_clash (f_sig f) c = true /\
     call_fn f c = Returned 500%Z /\ wrapper_legacy f o None c = (Raised RTypeError, [])) /\
  (exists f o c, wf_sig (f_sig f) = true /\
     call_fn f c = Raised RTypeError /\ fst (wrapper_legacy f o None c) = Returned 1%Z) /\
  (exists f o c, wf_sig (f_sig f) = true /\
     call_fn f c = Returned 7%Z /\ wrapper_legacy f o None c = (Raised RTypeError, [])).
Proof.
  split; [|split].
  - exists (const_fn [mkParam nm_x KPosOnly None; mkParam nm_kw KVarKw None] 500%Z), default_opts,
           (mkCall [1%Z] [(nm_x, 2%Z)]).
    repeat split; vm_compute; reflexivity.
  - exists (mkFn [mkParam nm_x KPosOnly None] "m" "h"
              (fun b => match lookup nm_x b with Some (BVal v) => BReturned v | _ => BReturned 0%Z end)),
           default_opts, (mkCall [] [(nm_x, 1%Z)]).
    repeat split; vm_compute; reflexivity.
  - exists (const_fn [mkParam N_underscore_call KNormal None] 7%Z), default_opts, (mkCall [3%Z] []).
    repeat split; vm_compute; reflexivity.
Qed.
