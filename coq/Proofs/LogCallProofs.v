(* Proofs about the log_call model (Model/LogCall.v). *)
From Coq Require Import List PArith ZArith Bool String Lia.
Require Import Eliot.Model.LogCall.
Import ListNotations.

(* ------------------------------------------------------------------ *)
(* Part A: association lists *)

Lemma memb_In k l : memb k l = true <-> In k l.
Proof.
  unfold memb. rewrite existsb_exists. split.
  - intros [x [Hx He]]. apply Pos.eqb_eq in He. now subst.
  - intros H. exists k. split; auto. apply Pos.eqb_refl.
Qed.

Lemma memb_false k l : memb k l = false <-> ~ In k l.
Proof.
  rewrite <- memb_In. destruct (memb k l); split; intros; try discriminate; auto.
  now contradiction H.
Qed.

Lemma nodupb_NoDup l : nodupb l = true <-> NoDup l.
Proof.
  induction l as [|x r IH]; cbn [nodupb].
  - split; auto using NoDup_nil.
  - rewrite andb_true_iff, negb_true_iff, memb_false, IH. split.
    + intros [A B]. now constructor.
    + intros H. inversion H; subst. auto.
Qed.

Lemma lookup_None {A} k (m : list (name * A)) : lookup k m = None <-> ~ In k (keys m).
Proof.
  induction m as [|[k' v] r IH]; cbn [lookup keys map fst].
  - split; auto.
  - destruct (Pos.eqb k k') eqn:E.
    + apply Pos.eqb_eq in E. subst. split; [discriminate|]. intros H. contradiction H. now left.
    + apply Pos.eqb_neq in E. rewrite IH. unfold keys. split.
      * intros H [H1|H1]; [congruence|auto].
      * intros H H1. apply H. now right.
Qed.

Lemma lookup_In {A} k (v : A) m : lookup k m = Some v -> In (k, v) m.
Proof.
  induction m as [|[k' v'] r IH]; cbn [lookup]; [discriminate|].
  destruct (Pos.eqb k k') eqn:E.
  - apply Pos.eqb_eq in E. subst. intros H. inversion H. now left.
  - intros H. right. auto.
Qed.

Lemma lookup_NoDup {A} k (v : A) m : NoDup (keys m) -> In (k, v) m -> lookup k m = Some v.
Proof.
  induction m as [|[k' v'] r IH]; cbn [lookup keys map fst]; [intros _ []|].
  intros ND [H|H].
  - inversion H; subst. now rewrite Pos.eqb_refl.
  - inversion ND; subst. destruct (Pos.eqb k k') eqn:E.
    + apply Pos.eqb_eq in E. subst. contradiction H2.
      change (In k' (map fst r)). apply in_map_iff. now exists (k', v).
    + now apply IH.
Qed.

Lemma lookup_app {A} k (m1 m2 : list (name * A)) :
  lookup k (m1 ++ m2) = match lookup k m1 with Some v => Some v | None => lookup k m2 end.
Proof.
  induction m1 as [|[k' v'] r IH]; cbn [lookup app]; auto.
  destruct (Pos.eqb k k'); auto.
Qed.

Lemma keys_app {A} (m1 m2 : list (name * A)) : keys (m1 ++ m2) = keys m1 ++ keys m2.
Proof. unfold keys. apply map_app. Qed.

Lemma lookup_dset_same {A} k (v : A) m : lookup k (dset k v m) = Some v.
Proof.
  induction m as [|[k' v'] r IH]; cbn [dset lookup].
  - now rewrite Pos.eqb_refl.
  - destruct (Pos.eqb k k') eqn:E; cbn [lookup].
    + now rewrite Pos.eqb_refl.
    + now rewrite E.
Qed.

Lemma lookup_dset_other {A} k k' (v : A) m : k <> k' -> lookup k (dset k' v m) = lookup k m.
Proof.
  intros N. induction m as [|[k2 v2] r IH]; cbn [dset lookup].
  - apply Pos.eqb_neq in N. now rewrite N.
  - destruct (Pos.eqb k' k2) eqn:E; cbn [lookup].
    + apply Pos.eqb_eq in E. subst k2. apply Pos.eqb_neq in N. now rewrite N.
    + destruct (Pos.eqb k k2); auto.
Qed.

Lemma lookup_remove_key_same {A} k (m : list (name * A)) : lookup k (remove_key k m) = None.
Proof.
  induction m as [|[k' v] r IH]; cbn [remove_key lookup]; auto.
  destruct (Pos.eqb k k') eqn:E; auto. cbn [lookup]. now rewrite E.
Qed.

Lemma lookup_remove_key_other {A} k k' (m : list (name * A)) :
  k <> k' -> lookup k (remove_key k' m) = lookup k m.
Proof.
  intros N. induction m as [|[k2 v] r IH]; cbn [remove_key lookup]; auto.
  destruct (Pos.eqb k' k2) eqn:E.
  - apply Pos.eqb_eq in E. subst k2. apply Pos.eqb_neq in N. now rewrite N.
  - cbn [lookup]. destruct (Pos.eqb k k2); auto.
Qed.

Lemma lookup_map_snd {A B} (g : A -> B) k (m : list (name * A)) :
  lookup k (map (fun kv => (fst kv, g (snd kv))) m) = option_map g (lookup k m).
Proof.
  induction m as [|[k' v] r IH]; cbn [map lookup fst snd]; auto.
  destruct (Pos.eqb k k'); auto.
Qed.

(* the dict comprehension keeps exactly the listed keys that are present *)
Lemma lookup_select inc m : forall acc k,
  lookup k (select inc m acc) =
  if memb k inc then match lookup k m with Some v => Some v | None => lookup k acc end
  else lookup k acc.
Proof.
  induction inc as [|x r IH]; intros acc k; cbn [select memb existsb]; auto.
  fold (memb k r).
  destruct (Pos.eqb k x) eqn:E; cbn [orb].
  - apply Pos.eqb_eq in E. subst x.
    destruct (lookup k m) eqn:L; rewrite IH, ?L.
    + rewrite lookup_dset_same. now destruct (memb k r).
    + now destruct (memb k r).
  - apply Pos.eqb_neq in E.
    destruct (lookup x m) eqn:L; rewrite IH; auto.
    rewrite lookup_dset_other by auto. reflexivity.
Qed.

(* ------------------------------------------------------------------ *)
(* Part B: without a keyword naming a positional-only parameter, dropping the
   '/' marker changes nothing *)

Lemma names_demote s : names (demote s) = names s.
Proof.
  unfold names, demote. rewrite map_map. apply map_ext.
  intros p. unfold demote_param. now destruct (p_kind p).
Qed.

Lemma has_kind_demote kd s : kd <> KPosOnly -> kd <> KNormal -> has_kind kd (demote s) = has_kind kd s.
Proof.
  intros N1 N2. unfold has_kind, demote. induction s as [|p r IH]; cbn [map existsb]; auto.
  rewrite IH. f_equal. unfold demote_param.
  destruct (p_kind p) eqn:K; cbn; rewrite ?K; destruct kd; try reflexivity; congruence.
Qed.

Lemma n_positional_demote s : n_positional (demote s) = n_positional s.
Proof.
  unfold n_positional, demote. induction s as [|p r IH]; cbn [map filter]; auto.
  replace (is_positional (p_kind (demote_param p))) with (is_positional (p_kind p)).
  - destruct (is_positional (p_kind p)); cbn [List.length]; now rewrite IH.
  - unfold demote_param. now destruct (p_kind p) eqn:K; cbn [p_kind]; rewrite ?K.
Qed.

Lemma kw_target_demote s k : kw_target (demote s) k = kw_target s k || posonly_name s k.
Proof.
  unfold kw_target, posonly_name, demote. induction s as [|p r IH]; cbn [map existsb]; auto.
  rewrite IH. unfold demote_param.
  destruct (p_kind p) eqn:K; cbn [p_kind p_name by_keyword kind_eqb andb]; rewrite ?K;
    cbn [by_keyword kind_eqb andb orb];
    destruct (Pos.eqb (p_name p) k); cbn [orb andb];
    destruct (existsb _ r); destruct (existsb _ r); auto.
Qed.

Lemma posonly_name_In s p : In p s -> p_kind p = KPosOnly -> posonly_name s (p_name p) = true.
Proof.
  intros H K. unfold posonly_name. apply existsb_exists. exists p. split; auto.
  rewrite K. cbn. apply Pos.eqb_refl.
Qed.

Lemma demote_param_other p : p_kind p <> KPosOnly -> demote_param p = p.
Proof. unfold demote_param. destruct (p_kind p); auto. congruence. Qed.

Lemma bind_params_demote_same sg kw ps pos :
  (forall k, In k (keys kw) -> posonly_name sg k = false) ->
  (forall p, In p ps -> p_kind p = KPosOnly -> ~ In (p_name p) (keys kw)) ->
  bind_params (demote sg) (demote ps) pos kw = bind_params sg ps pos kw.
Proof.
  intros Hk. revert pos. induction ps as [|p r IH]; intros pos Hp; [reflexivity|].
  assert (IH' : forall pos, bind_params (demote sg) (demote r) pos kw = bind_params sg r pos kw).
  { intros pos'. apply IH. intros q Hq. apply Hp. now right. }
  assert (F : filter (fun kv : name * value => negb (kw_target (demote sg) (fst kv))) kw =
              filter (fun kv => negb (kw_target sg (fst kv))) kw).
  { apply filter_ext_in. intros [k v] Hin. cbn [fst]. rewrite kw_target_demote.
    rewrite (Hk k), orb_false_r; auto. change (In k (map fst kw)). apply in_map_iff. now exists (k, v). }
  change (demote (p :: r)) with (demote_param p :: demote r).
  destruct (p_kind p) eqn:K.
  - (* positional-only in sg, ordinary in demote sg *)
    assert (Hn : ~ In (p_name p) (keys kw)) by (apply Hp; [now left|auto]).
    unfold demote_param at 1. rewrite K. cbn [bind_params p_kind p_name p_default]. rewrite K.
    destruct pos as [|v pos'].
    + apply lookup_None in Hn. rewrite Hn. unfold or_default. cbn [p_default]. now rewrite IH'.
    + apply memb_false in Hn. rewrite Hn. now rewrite IH'.
  - rewrite (demote_param_other p) by congruence. cbn [bind_params]. rewrite K.
    destruct pos as [|v pos']; [|destruct (memb _ _); now rewrite ?IH'].
    destruct (lookup _ _); unfold or_default; now rewrite IH'.
  - rewrite (demote_param_other p) by congruence. cbn [bind_params]. rewrite K. now rewrite IH'.
  - rewrite (demote_param_other p) by congruence. cbn [bind_params]. rewrite K.
    destruct (lookup _ _); unfold or_default; now rewrite IH'.
  - rewrite (demote_param_other p) by congruence. cbn [bind_params]. rewrite K. now rewrite IH', F.
Qed.

Lemma bind_demote_same s c : no_posonly_kw s c -> bind (demote s) c = bind s c.
Proof.
  intros H. unfold bind.
  rewrite !has_kind_demote by discriminate. rewrite n_positional_demote.
  replace (forallb (fun kv : name * value => kw_target (demote s) (fst kv)) (c_kw c))
    with (forallb (fun kv : name * value => kw_target s (fst kv)) (c_kw c)).
  2:{ unfold no_posonly_kw in H. induction (c_kw c) as [|[k v] r IH]; cbn [forallb fst]; auto.
      rewrite IH.
      - rewrite kw_target_demote, (H k), orb_false_r; auto. now left.
      - intros k' Hk'. apply H. now right. }
  - rewrite bind_params_demote_same; auto.
    intros p Hp K Hin. apply H in Hin. rewrite (posonly_name_In s p) in Hin; auto. discriminate.
Qed.
