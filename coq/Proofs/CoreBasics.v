(* First-layer facts about Model/Core.v: positions, finish, fan-out, serialization. *)
From Coq Require Import List PArith NArith ZArith Bool Arith Lia.
Require Import Eliot.Base.Level Eliot.Model.Core.
Import ListNotations.

(* ---- positions ------------------------------------------------------------- *)
Lemma next_level_spec a :
  snd (next_level a) = a_level a ++ [Pos.of_nat (S (a_last a))] /\
  a_last (fst (next_level a)) = S (a_last a) /\
  a_level (fst (next_level a)) = a_level a /\
  a_uuid (fst (next_level a)) = a_uuid a /\
  a_finished (fst (next_level a)) = a_finished a.
Proof. unfold next_level; cbn; auto. Qed.

(* two successive requests never return the same position *)
Lemma next_level_twice_distinct a :
  snd (next_level a) <> snd (next_level (fst (next_level a))).
Proof.
  destruct (next_level_spec a) as (E1 & L1 & V1 & _).
  destruct (next_level_spec (fst (next_level a))) as (E2 & _).
  rewrite E1, E2, L1, V1. intros H. apply app_inv_head in H.
  assert (H' : Pos.of_nat (S (a_last a)) = Pos.of_nat (S (S (a_last a)))) by congruence.
  apply Nat2Pos.inj in H'; lia.
Qed.

(* ---- fan-out --------------------------------------------------------------- *)
Definition offered (m : msg) (d d' : dest) : Prop :=
  d_id d' = d_id d /\ d_behave d' = d_behave d /\ d_calls d' = S (d_calls d) /\ d_log d' = d_log d ++ [m].

Definition failure_of (m : msg) (d : dest) : list exn :=
  match d_behave d (d_calls d) m with Some e => [e] | None => [] end.

Lemma fanout_spec m ds :
  Forall2 (offered m) ds (fst (fanout m ds)) /\
  snd (fanout m ds) = flat_map (failure_of m) ds.
Proof.
  induction ds as [|d r IH]; cbn [fanout]; [split; [constructor | reflexivity]|].
  destruct (fanout m r) as [r' errs] eqn:E. cbn [fst snd] in *. destruct IH as [IH1 IH2].
  split.
  - constructor; [unfold offered; cbn; auto | exact IH1].
  - cbn [flat_map]. unfold failure_of at 1. rewrite IH2.
    destruct (d_behave d (d_calls d) m); reflexivity.
Qed.

Lemma fanout_logs m ds : map d_log (fst (fanout m ds)) = map (fun l => l ++ [m]) (map d_log ds).
Proof.
  induction ds as [|d r IH]; cbn [fanout]; [reflexivity|].
  destruct (fanout m r) as [r' e1]. cbn [fst map] in *. now rewrite IH.
Qed.

(* a destination's failure never changes what any other destination is offered:
   the logs after the fan-out depend only on the logs before it, not on behaviours *)
Lemma fanout_independent m ds ds2 :
  map d_log ds = map d_log ds2 ->
  map d_log (fst (fanout m ds)) = map d_log (fst (fanout m ds2)).
Proof. intros H. now rewrite !fanout_logs, H. Qed.

Lemma fanout_length m ds : length (fst (fanout m ds)) = length ds.
Proof.
  pose proof (f_equal (@length _) (fanout_logs m ds)) as H. now rewrite !map_length in H.
Qed.

(* ---- finish ---------------------------------------------------------------- *)
Section Cfg.
Variable cfg : config.

Lemma finish_idempotent c s h a exc :
  alookup h (heap s) = Some a -> a_finished a = true -> finish cfg c s h exc = s.
Proof. intros H F. unfold finish. now rewrite H, F. Qed.

End Cfg.

(* ---- serialization --------------------------------------------------------- *)
Lemma fget_fset_same k v m : fget k (fset k v m) = Some v.
Proof.
  induction m as [|[k' v'] r IH]; cbn [fset fget].
  - now rewrite Pos.eqb_refl.
  - destruct (Pos.compare_spec k k') as [->|Hlt|Hgt]; cbn [fget].
    + now rewrite Pos.eqb_refl.
    + now rewrite Pos.eqb_refl.
    + destruct (Pos.eqb_spec k k'); [lia | exact IH].
Qed.

Lemma fget_fset_other k k' v m : k <> k' -> fget k' (fset k v m) = fget k' m.
Proof.
  intros Hne. induction m as [|[k2 v2] r IH]; cbn [fset fget].
  - destruct (Pos.eqb_spec k' k); [congruence | reflexivity].
  - destruct (Pos.compare_spec k k2) as [->|Hlt|Hgt]; cbn [fget].
    + destruct (Pos.eqb_spec k' k2); [congruence | reflexivity].
    + destruct (Pos.eqb_spec k' k); [congruence | reflexivity].
    + destruct (Pos.eqb_spec k' k2); [reflexivity | exact IH].
Qed.

(* ---- association lists ------------------------------------------------------- *)
Lemma alookup_aset_same {A} k (v : A) l : alookup k (aset k v l) = Some v.
Proof.
  induction l as [|[k' v'] r IH]; cbn [aset alookup].
  - now rewrite Nat.eqb_refl.
  - destruct (Nat.eqb_spec k k') as [->|Hne]; cbn [alookup].
    + now rewrite Nat.eqb_refl.
    + destruct (Nat.eqb_spec k k'); [congruence | exact IH].
Qed.

Lemma alookup_aset_other {A} k k' (v : A) l : k <> k' -> alookup k' (aset k v l) = alookup k' l.
Proof.
  intros Hne. induction l as [|[k2 v2] r IH]; cbn [aset alookup].
  - destruct (Nat.eqb_spec k' k); [congruence | reflexivity].
  - destruct (Nat.eqb_spec k k2) as [->|Hne2]; cbn [alookup].
    + destruct (Nat.eqb_spec k' k2); [congruence | reflexivity].
    + destruct (Nat.eqb_spec k' k2); [reflexivity | exact IH].
Qed.

Lemma cur_set_ctx_same s c v : cur (set_ctx s c v) c = v.
Proof. unfold cur, set_ctx; cbn. now rewrite alookup_aset_same. Qed.

Lemma cur_set_ctx_other s c c' v : c <> c' -> cur (set_ctx s c v) c' = cur s c'.
Proof. intros H. unfold cur, set_ctx; cbn. now rewrite alookup_aset_other. Qed.

(* serialization stops at the first missing or failing declared field *)
Lemma serialize_missing k f r m : fget k m = None -> serialize ((k, f) :: r) m = Err (key_error k).
Proof. intros H. cbn [serialize]. now rewrite H. Qed.

Lemma serialize_field_fails k f r m v e :
  fget k m = Some v -> f v = Err e -> serialize ((k, f) :: r) m = Err e.
Proof. intros H F. cbn [serialize]. now rewrite H, F. Qed.

Lemma serialize_step k f r m v v' :
  fget k m = Some v -> f v = Ok v' -> serialize ((k, f) :: r) m = serialize r (fset k v' m).
Proof. intros H F. cbn [serialize]. now rewrite H, F. Qed.
