(* C04 (current action scoped to its block, restored on exit) and C03 (one truthful end,
   the same exception keeps propagating) on compiled logging programs.

   1. State-level facts about OEnter/OExit and OCtxEnter/OCtxExit; pair-restore lemmas.
   2. [stmt_ind']: induction principle for the nested inductive [stmt]; unfolding of [compile].
   3. [wf_prog], [C04_restore]: every well-formed program restores the current action and the
      token stack of the context it runs in, whatever is raised inside; refutations showing
      that each clause of [wf_prog] is needed.
   4. [C04_inside], [C04_probe_after_stmt].
   5. C03: [finish_message], [finish_unfold], [finish_marks_finished], [C03_finish_twice],
      [C03_status_truthful], [C03_same_exception], [compile_outcome]. *)
From Coq Require Import List PArith NArith ZArith Bool Arith Lia.
Require Import Eliot.Base.Level Eliot.Model.Core Eliot.Model.Prog Eliot.Proofs.CoreBasics
               Eliot.Proofs.CtxFrame.
Import ListNotations.

(* ====================================================================================== *)
(* 1. the four scoping calls on the state                                                 *)
(* ====================================================================================== *)
Section Cfg.
Variable cfg : config.

(* ---- B.1: the two pairs restore ---------------------------------------------------------- *)
(* with a: ... -- the block may do anything except overwrite a's saved token *)
Lemma enter_exit_restore c h a s mid exc :
  alookup h (heap s) = Some a ->
  tokof (run cfg mid (api cfg c s (OEnter h))) h = tokof (api cfg c s (OEnter h)) h ->
  cur (api cfg c (run cfg mid (api cfg c s (OEnter h))) (OExit h exc)) c = cur s c.
Proof.
  intros E T. destruct (enter_spec cfg c s h a E) as (_ & T1 & _). rewrite T1 in T.
  now destruct (exit_spec cfg c _ h exc _ T) as (-> & _).
Qed.

(* with a.context(): ... / a.run(f) -- the block may do anything that leaves the token stack of
   c as it found it (the block need not restore the current action itself) *)
Lemma ctxenter_ctxexit_restore c h s mid :
  tstack (run cfg mid (api cfg c s (OCtxEnter h))) c = tstack (api cfg c s (OCtxEnter h)) c ->
  cur (api cfg c (run cfg mid (api cfg c s (OCtxEnter h))) OCtxExit) c = cur s c /\
  tstack (api cfg c (run cfg mid (api cfg c s (OCtxEnter h))) OCtxExit) c = tstack s c.
Proof.
  intros T. destruct (ctxenter_spec cfg c s h) as (_ & T1). rewrite T1 in T.
  apply (ctxexit_spec cfg c _ _ _ T).
Qed.

(* ---- op lists that give context c back as they found it ----------------------------------- *)
Definition restores (c : nat) (ops : list (nat * op)) : Prop :=
  forall s, cur (run cfg ops s) c = cur s c /\ tstack (run cfg ops s) c = tstack s c.

Lemma run_one c o s : run cfg [(c, o)] s = api cfg c s o.
Proof. reflexivity. Qed.

Lemma restores_nil c : restores c [].
Proof. intros s. auto. Qed.

Lemma restores_app c a b : restores c a -> restores c b -> restores c (a ++ b).
Proof.
  intros Ha Hb s. rewrite run_app. destruct (Hb (run cfg a s)) as [-> ->]. apply Ha.
Qed.

Lemma restores_one c c2 o : scoping o = false -> restores c [(c2, o)].
Proof.
  intros Sc s. cbn. split; [now apply api_keeps_cur | now apply api_keeps_tstack].
Qed.

Lemma restores_spawn c c2 c' : c' <> c -> restores c [(c2, OSpawn c')].
Proof.
  intros N s. rewrite run_one. cbn [api]. split; [now apply cur_set_ctx_other | reflexivity].
Qed.

Lemma restores_probe c c2 : restores c (probe c2).
Proof. now apply restores_one. Qed.

Lemma restores_foreign c ops : Forall (foreign c) ops -> restores c ops.
Proof. intros F s. now apply run_frame. Qed.

Lemma with_pair_restores c h mid exc :
  restores c mid -> Forall (tok_foreign h) mid ->
  restores c ((c, OEnter h) :: mid ++ [(c, OExit h exc)]).
Proof.
  intros R F s. rewrite run_cons, run_app, run_one. cbn [fst snd].
  destruct (alookup h (heap s)) as [a|] eqn:E.
  - destruct (enter_spec cfg c s h a E) as (_ & T1 & S1).
    pose proof (run_tokof_frame cfg h mid (api cfg c s (OEnter h)) F) as T. rewrite T1 in T.
    destruct (exit_spec cfg c _ h exc _ T) as (-> & -> & _).
    split; [reflexivity|]. destruct (R (api cfg c s (OEnter h))) as [_ ->]. exact S1.
  - rewrite (enter_noop cfg c s h E).
    assert (T : tokof (run cfg mid s) h = None).
    { rewrite (run_tokof_frame cfg h mid s F). unfold tokof. now rewrite E. }
    rewrite (exit_noop cfg c _ h exc T). apply R.
Qed.

Lemma ctx_pair_restores c h mid :
  restores c mid -> restores c ((c, OCtxEnter h) :: mid ++ [(c, OCtxExit)]).
Proof.
  intros R s. rewrite run_cons, run_app, run_one. cbn [fst snd].
  apply ctxenter_ctxexit_restore. apply R.
Qed.

End Cfg.

(* ====================================================================================== *)
(* 2. induction over programs; unfolding compile                                          *)
(* ====================================================================================== *)
Section StmtInd.
Variable P : stmt -> Prop.
Variable Q : list stmt -> Prop.
Hypothesis Hmsg : forall mt fs ser, P (SMsg mt fs ser).
Hypothesis Hactlog : forall h mt fs, P (SActLog h mt fs).
Hypothesis Hact : forall h style task ty fs sers succ body, Q body -> P (SAct h style task ty fs sers succ body).
Hypothesis Hraise : forall e, P (SRaise e).
Hypothesis Htry : forall body, Q body -> P (STry body).
Hypothesis Htb : forall e, P (STraceback e).
Hypothesis Hhandoff : forall h slot h' c' body, Q body -> P (SHandoff h slot h' c' body).
Hypothesis Hreenter : forall h body, Q body -> P (SReenter h body).
Hypothesis Hfinishagain : forall h exc, P (SFinishAgain h exc).
Hypothesis Hrawwrite : forall m ser, P (SRawWrite m ser).
Hypothesis Hspawn : forall c' body, Q body -> P (SSpawn c' body).
Hypothesis Hnil : Q [].
Hypothesis Hcons : forall st rest, P st -> Q rest -> Q (st :: rest).

Fixpoint stmt_ind' (st : stmt) : P st :=
  let go := fix go (p : list stmt) : Q p :=
    match p with
    | [] => Hnil
    | x :: r => Hcons x r (stmt_ind' x) (go r)
    end in
  match st with
  | SMsg mt fs ser => Hmsg mt fs ser
  | SActLog h mt fs => Hactlog h mt fs
  | SAct h style task ty fs sers succ body => Hact h style task ty fs sers succ body (go body)
  | SRaise e => Hraise e
  | STry body => Htry body (go body)
  | STraceback e => Htb e
  | SHandoff h slot h' c' body => Hhandoff h slot h' c' body (go body)
  | SReenter h body => Hreenter h body (go body)
  | SFinishAgain h exc => Hfinishagain h exc
  | SRawWrite m ser => Hrawwrite m ser
  | SSpawn c' body => Hspawn c' body (go body)
  end.

Fixpoint prog_ind' (p : list stmt) : Q p :=
  match p with
  | [] => Hnil
  | x :: r => Hcons x r (stmt_ind' x) (prog_ind' r)
  end.
End StmtInd.

Lemma compile_nil c : compile c [] = ([], None).
Proof. reflexivity. Qed.

Lemma compile_cons c st rest :
  compile c (st :: rest) =
    let '(ops, out) := compile_stmt c st in
    match out with
    | Some e => (ops ++ probe c, Some e)
    | None => let '(rops, rout) := compile c rest in (ops ++ probe c ++ rops, rout)
    end.
Proof. reflexivity. Qed.

Lemma compile_stmt_act c h style task ty fs sers succ body :
  compile_stmt c (SAct h style task ty fs sers succ body) =
    let '(bops, bout) := compile c body in
    let succ_ops := match bout with None => [(c, OAddSuccess h succ)] | Some _ => [] end in
    match style with
    | WithBlock =>
        ([(c, OStart h task ty fs sers); (c, OEnter h)] ++ probe c ++ bops ++ succ_ops
           ++ [(c, OExit h bout)], bout)
    | _ =>
        ([(c, OStart h task ty fs sers); (c, OCtxEnter h)] ++ probe c ++ bops ++ succ_ops
           ++ [(c, OCtxExit)] ++ probe c ++ [(c, OFinish h bout)], bout)
    end.
Proof. reflexivity. Qed.

Lemma compile_stmt_try c body : compile_stmt c (STry body) = (fst (compile c body), None).
Proof. reflexivity. Qed.

Lemma compile_stmt_handoff c h slot h' c' body :
  compile_stmt c (SHandoff h slot h' c' body) =
    let '(bops, bout) := compile c' body in
    ([(c, OSerializeId h slot); (c', OProbe); (c', OContinue h' slot []); (c', OEnter h')]
       ++ probe c' ++ bops ++ [(c', OExit h' bout)] ++ probe c', None).
Proof. reflexivity. Qed.

Lemma compile_stmt_reenter c h body :
  compile_stmt c (SReenter h body) =
    let '(bops, bout) := compile c body in
    ([(c, OCtxEnter h)] ++ probe c ++ bops ++ [(c, OCtxExit)], bout).
Proof. reflexivity. Qed.

Lemma compile_stmt_spawn c c' body :
  compile_stmt c (SSpawn c' body) =
    let '(bops, bout) := compile c' body in
    ([(c, OSpawn c')] ++ probe c' ++ bops ++ probe c', None).
Proof. reflexivity. Qed.

(* ====================================================================================== *)
(* 3. well-formed programs restore their context                                          *)
(* ====================================================================================== *)
(* handles of the actions a statement creates (anywhere inside it) *)
Fixpoint intro_handles (st : stmt) : list nat :=
  match st with
  | SAct h _ _ _ _ _ _ body => h :: flat_map intro_handles body
  | STry body => flat_map intro_handles body
  | SHandoff _ _ h' _ body => h' :: flat_map intro_handles body
  | SReenter _ body => flat_map intro_handles body
  | SSpawn _ body => flat_map intro_handles body
  | _ => []
  end.

(* execution contexts a statement starts (threads of hand-offs, asyncio tasks), anywhere inside it *)
Fixpoint ctxs_of (st : stmt) : list nat :=
  match st with
  | SAct _ _ _ _ _ _ _ body => flat_map ctxs_of body
  | STry body => flat_map ctxs_of body
  | SHandoff _ _ _ c' body => c' :: flat_map ctxs_of body
  | SReenter _ body => flat_map ctxs_of body
  | SSpawn c' body => c' :: flat_map ctxs_of body
  | _ => []
  end.

Definition nmem (x : nat) (l : list nat) : bool := existsb (Nat.eqb x) l.

(* well-formed for running in context c:
   - a `with`-block action is not created a second time inside its own block (entering the same
     `with action:` twice overwrites its _parent_token -- the exclusion stated in DESIGN C04);
   - the threads / tasks started (at any depth) are other contexts than c.
   Nothing is asked of context()/run() blocks, of handles referred to by SActLog / SReenter /
   SFinishAgain / SHandoff, of the state, or of the bodies of hand-offs and spawns beyond the
   two clauses above. *)
Fixpoint wf_stmt (c : nat) (st : stmt) : bool :=
  match st with
  | SAct h style _ _ _ _ _ body =>
      (match style with
       | WithBlock => negb (nmem h (flat_map intro_handles body))
       | _ => true
       end) && forallb (wf_stmt c) body
  | STry body => forallb (wf_stmt c) body
  | SReenter _ body => forallb (wf_stmt c) body
  | SHandoff _ _ _ c' body => negb (nmem c (c' :: flat_map ctxs_of body))
  | SSpawn c' body => negb (nmem c (c' :: flat_map ctxs_of body))
  | _ => true
  end.

Definition wf_prog (c : nat) (p : list stmt) : Prop := forallb (wf_stmt c) p = true.

Lemma nmem_false x l : negb (nmem x l) = true -> ~ In x l.
Proof.
  unfold nmem. intros H Hin. apply negb_true_iff in H.
  assert (existsb (Nat.eqb x) l = true); [|congruence].
  apply existsb_exists. exists x. split; [exact Hin | apply Nat.eqb_refl].
Qed.

(* ---- where compiled calls run and which tokens they write -------------------------------- *)
Ltac forall_split :=
  unfold probe; cbn [app];
  repeat first [apply Forall_nil | apply Forall_cons | apply Forall_app; split].

Lemma compile_foreign_both :
  (forall st c' c, c <> c' -> ~ In c (ctxs_of st) -> Forall (foreign c) (fst (compile_stmt c' st))).
Proof.
  apply (stmt_ind'
    (fun st => forall c' c, c <> c' -> ~ In c (ctxs_of st) -> Forall (foreign c) (fst (compile_stmt c' st)))
    (fun p => forall c' c, c <> c' -> ~ In c (flat_map ctxs_of p) -> Forall (foreign c) (fst (compile c' p))));
    intros.
  - cbn. forall_split. split; cbn; congruence.
  - cbn. forall_split. split; cbn; congruence.
  - rewrite compile_stmt_act. cbn [ctxs_of] in H1. specialize (H c' c H0 H1).
    destruct (compile c' body) as [bops bout]. cbn [fst] in H.
    assert (Forall (foreign c) (match bout with None => [(c', OAddSuccess h succ)] | Some _ => [] end)).
    { destruct bout; forall_split. split; cbn; congruence. }
    destruct style; cbn [fst]; forall_split; auto; split; cbn; congruence.
  - cbn. constructor.
  - rewrite compile_stmt_try. cbn [fst]. apply H; auto.
  - cbn. forall_split. split; cbn; congruence.
  - rewrite compile_stmt_handoff. cbn [ctxs_of] in H1.
    assert (c <> c' /\ ~ In c (flat_map ctxs_of body)) as [N1 N2] by (cbn in H1; intuition).
    specialize (H c' c N1 N2). destruct (compile c' body) as [bops bout]. cbn [fst] in *.
    forall_split; auto; split; cbn; congruence.
  - rewrite compile_stmt_reenter. cbn [ctxs_of] in H1. specialize (H c' c H0 H1).
    destruct (compile c' body) as [bops bout]. cbn [fst] in *.
    forall_split; auto; split; cbn; congruence.
  - cbn. forall_split. split; cbn; congruence.
  - cbn. forall_split. split; cbn; congruence.
  - rewrite compile_stmt_spawn. cbn [ctxs_of] in H1.
    assert (c <> c' /\ ~ In c (flat_map ctxs_of body)) as [N1 N2] by (cbn in H1; intuition).
    specialize (H c' c N1 N2). destruct (compile c' body) as [bops bout]. cbn [fst] in *.
    forall_split; auto; split; cbn; congruence.
  - cbn. constructor.
  - rewrite compile_cons. cbn [flat_map] in H2. rewrite in_app_iff in H2.
    assert (N1 : ~ In c (ctxs_of st)) by tauto.
    assert (N2 : ~ In c (flat_map ctxs_of rest)) by tauto.
    specialize (H c' c H1 N1). specialize (H0 c' c H1 N2).
    destruct (compile_stmt c' st) as [ops [e|]]; cbn [fst] in *.
    + forall_split; auto. split; cbn; congruence.
    + destruct (compile c' rest) as [rops rout]. cbn [fst] in *.
      forall_split; auto. split; cbn; congruence.
Qed.

Lemma compile_foreign p c' c :
  c <> c' -> ~ In c (flat_map ctxs_of p) -> Forall (foreign c) (fst (compile c' p)).
Proof.
  revert c' c. induction p as [|st rest IH]; intros c' c Hc Hn; [constructor|].
  rewrite compile_cons. cbn [flat_map] in Hn. rewrite in_app_iff in Hn.
  pose proof (compile_foreign_both st c' c Hc ltac:(tauto)) as H.
  specialize (IH c' c Hc ltac:(tauto)).
  destruct (compile_stmt c' st) as [ops [e|]]; cbn [fst] in *.
  - forall_split; auto. split; cbn; congruence.
  - destruct (compile c' rest) as [rops rout]. cbn [fst] in *.
    forall_split; auto. split; cbn; congruence.
Qed.

Lemma compile_tok_foreign_stmt :
  forall st c h0, ~ In h0 (intro_handles st) -> Forall (tok_foreign h0) (fst (compile_stmt c st)).
Proof.
  apply (stmt_ind'
    (fun st => forall c h0, ~ In h0 (intro_handles st) -> Forall (tok_foreign h0) (fst (compile_stmt c st)))
    (fun p => forall c h0, ~ In h0 (flat_map intro_handles p) -> Forall (tok_foreign h0) (fst (compile c p))));
    intros; unfold tok_foreign in *.
  - cbn. forall_split. cbn; congruence.
  - cbn. forall_split. cbn; congruence.
  - rewrite compile_stmt_act. cbn [intro_handles] in H0.
    assert (h0 <> h /\ ~ In h0 (flat_map intro_handles body)) as [N1 N2] by (cbn in H0; intuition).
    specialize (H c h0 N2). destruct (compile c body) as [bops bout]. cbn [fst] in H.
    assert (Forall (fun co => writes_tok (snd co) <> Some h0)
              (match bout with None => [(c, OAddSuccess h succ)] | Some _ => [] end)).
    { destruct bout; forall_split. cbn; congruence. }
    destruct style; cbn [fst]; forall_split; auto; cbn; congruence.
  - cbn. constructor.
  - rewrite compile_stmt_try. cbn [fst]. apply H; auto.
  - cbn. forall_split. cbn; congruence.
  - rewrite compile_stmt_handoff. cbn [intro_handles] in H0.
    assert (h0 <> h' /\ ~ In h0 (flat_map intro_handles body)) as [N1 N2] by (cbn in H0; intuition).
    specialize (H c' h0 N2). destruct (compile c' body) as [bops bout]. cbn [fst] in *.
    forall_split; auto; cbn; congruence.
  - rewrite compile_stmt_reenter. cbn [intro_handles] in H0. specialize (H c h0 H0).
    destruct (compile c body) as [bops bout]. cbn [fst] in *.
    forall_split; auto; cbn; congruence.
  - cbn. forall_split. cbn; congruence.
  - cbn. forall_split. cbn; congruence.
  - rewrite compile_stmt_spawn. cbn [intro_handles] in H0. specialize (H c' h0 H0).
    destruct (compile c' body) as [bops bout]. cbn [fst] in *.
    forall_split; auto; cbn; congruence.
  - cbn. constructor.
  - rewrite compile_cons. cbn [flat_map] in H1. rewrite in_app_iff in H1.
    specialize (H c h0 ltac:(tauto)). specialize (H0 c h0 ltac:(tauto)).
    destruct (compile_stmt c st) as [ops [e|]]; cbn [fst] in *.
    + forall_split; auto. cbn; congruence.
    + destruct (compile c rest) as [rops rout]. cbn [fst] in *.
      forall_split; auto. cbn; congruence.
Qed.

Lemma compile_tok_foreign p c h0 :
  ~ In h0 (flat_map intro_handles p) -> Forall (tok_foreign h0) (fst (compile c p)).
Proof.
  revert c. induction p as [|st rest IH]; intros c Hn; [constructor|].
  rewrite compile_cons. cbn [flat_map] in Hn. rewrite in_app_iff in Hn.
  pose proof (compile_tok_foreign_stmt st c h0 ltac:(tauto)) as H.
  specialize (IH c ltac:(tauto)).
  destruct (compile_stmt c st) as [ops [e|]]; cbn [fst] in *.
  - forall_split; auto. unfold tok_foreign; cbn; congruence.
  - destruct (compile c rest) as [rops rout]. cbn [fst] in *.
    forall_split; auto. unfold tok_foreign; cbn; congruence.
Qed.

(* ---- the main theorem ---------------------------------------------------------------------- *)
Section Restore.
Variable cfg : config.

Lemma restores_stmt :
  forall st c, wf_stmt c st = true -> restores cfg c (fst (compile_stmt c st)).
Proof.
  apply (stmt_ind'
    (fun st => forall c, wf_stmt c st = true -> restores cfg c (fst (compile_stmt c st)))
    (fun p => forall c, forallb (wf_stmt c) p = true -> restores cfg c (fst (compile c p))));
    intros.
  - now apply restores_one.
  - now apply restores_one.
  - (* SAct *)
    rewrite compile_stmt_act. cbn [wf_stmt] in H0. apply andb_true_iff in H0. destruct H0 as [Wh Wb].
    specialize (H c Wb).
    pose proof (fun N => compile_tok_foreign body c h N) as TF.
    destruct (compile c body) as [bops bout]. cbn [fst] in H, TF.
    assert (RS : restores cfg c (match bout with None => [(c, OAddSuccess h succ)] | Some _ => [] end)).
    { destruct bout; [apply restores_nil | now apply restores_one]. }
    assert (TS : Forall (tok_foreign h) (match bout with None => [(c, OAddSuccess h succ)] | Some _ => [] end)).
    { destruct bout; repeat constructor. unfold tok_foreign; cbn; congruence. }
    set (succ_ops := match bout with None => [(c, OAddSuccess h succ)] | Some _ => [] end) in *.
    destruct style; cbn [fst].
    + (* with-block *)
      apply nmem_false in Wh. specialize (TF Wh).
      replace ([(c, OStart h task ty fs sers); (c, OEnter h)] ++ probe c ++ bops ++ succ_ops ++ [(c, OExit h bout)])
        with ([(c, OStart h task ty fs sers)] ++ ((c, OEnter h) :: (probe c ++ bops ++ succ_ops) ++ [(c, OExit h bout)]))
        by (cbn [app]; now rewrite <- !app_assoc).
      apply restores_app; [now apply restores_one|].
      apply with_pair_restores.
      * repeat apply restores_app; auto. apply restores_probe.
      * repeat (apply Forall_app; split); auto. repeat constructor. unfold tok_foreign; cbn; congruence.
    + replace ([(c, OStart h task ty fs sers); (c, OCtxEnter h)] ++ probe c ++ bops ++ succ_ops
                 ++ [(c, OCtxExit)] ++ probe c ++ [(c, OFinish h bout)])
        with ([(c, OStart h task ty fs sers)] ++ ((c, OCtxEnter h) :: (probe c ++ bops ++ succ_ops) ++ [(c, OCtxExit)])
                ++ probe c ++ [(c, OFinish h bout)])
        by (cbn [app]; now rewrite <- !app_assoc).
      repeat apply restores_app; try (now apply restores_one); try apply restores_probe.
      apply ctx_pair_restores. repeat apply restores_app; auto. apply restores_probe.
    + replace ([(c, OStart h task ty fs sers); (c, OCtxEnter h)] ++ probe c ++ bops ++ succ_ops
                 ++ [(c, OCtxExit)] ++ probe c ++ [(c, OFinish h bout)])
        with ([(c, OStart h task ty fs sers)] ++ ((c, OCtxEnter h) :: (probe c ++ bops ++ succ_ops) ++ [(c, OCtxExit)])
                ++ probe c ++ [(c, OFinish h bout)])
        by (cbn [app]; now rewrite <- !app_assoc).
      repeat apply restores_app; try (now apply restores_one); try apply restores_probe.
      apply ctx_pair_restores. repeat apply restores_app; auto. apply restores_probe.
  - apply restores_nil.
  - rewrite compile_stmt_try. cbn [fst]. apply H. exact H0.
  - now apply restores_one.
  - (* SHandoff: everything but the first call runs in c' *)
    cbn [wf_stmt] in H0. apply nmem_false in H0.
    assert (c <> c' /\ ~ In c (flat_map ctxs_of body)) as [N1 N2] by (cbn in H0; intuition).
    rewrite compile_stmt_handoff. pose proof (compile_foreign body c' c N1 N2) as F.
    destruct (compile c' body) as [bops bout]. cbn [fst] in *.
    change ([(c, OSerializeId h slot); (c', OProbe); (c', OContinue h' slot []); (c', OEnter h')]
              ++ probe c' ++ bops ++ [(c', OExit h' bout)] ++ probe c')
      with ([(c, OSerializeId h slot)] ++ ([(c', OProbe); (c', OContinue h' slot []); (c', OEnter h')]
              ++ probe c' ++ bops ++ [(c', OExit h' bout)] ++ probe c')).
    apply restores_app; [now apply restores_one|]. apply restores_foreign.
    unfold probe; cbn [app];
      repeat first [apply Forall_nil | apply Forall_cons | apply Forall_app; split]; auto;
      split; cbn; congruence.
  - (* SReenter *)
    rewrite compile_stmt_reenter. cbn [wf_stmt] in H0. specialize (H c H0).
    destruct (compile c body) as [bops bout]. cbn [fst] in *.
    replace ([(c, OCtxEnter h)] ++ probe c ++ bops ++ [(c, OCtxExit)])
      with ((c, OCtxEnter h) :: (probe c ++ bops) ++ [(c, OCtxExit)])
      by (cbn [app]; now rewrite <- !app_assoc).
    apply ctx_pair_restores. apply restores_app; auto. apply restores_probe.
  - now apply restores_one.
  - now apply restores_one.
  - (* SSpawn *)
    cbn [wf_stmt] in H0. apply nmem_false in H0.
    assert (c <> c' /\ ~ In c (flat_map ctxs_of body)) as [N1 N2] by (cbn in H0; intuition).
    rewrite compile_stmt_spawn. pose proof (compile_foreign body c' c N1 N2) as F.
    destruct (compile c' body) as [bops bout]. cbn [fst] in *.
    apply restores_app; [apply restores_spawn; congruence|]. apply restores_foreign.
    unfold probe; cbn [app];
      repeat first [apply Forall_nil | apply Forall_cons | apply Forall_app; split]; auto;
      split; cbn; congruence.
  - apply restores_nil.
  - rewrite compile_cons. cbn [forallb] in H1. apply andb_true_iff in H1. destruct H1 as [W1 W2].
    specialize (H c W1). specialize (H0 c W2).
    destruct (compile_stmt c st) as [ops [e|]]; cbn [fst] in *.
    + apply restores_app; auto. apply restores_probe.
    + destruct (compile c rest) as [rops rout]. cbn [fst] in *.
      repeat apply restores_app; auto. apply restores_probe.
Qed.

Lemma restores_prog p c : wf_prog c p -> restores cfg c (fst (compile c p)).
Proof.
  unfold wf_prog. revert c. induction p as [|st rest IH]; intros c W; [apply restores_nil|].
  rewrite compile_cons. cbn [forallb] in W. apply andb_true_iff in W. destruct W as [W1 W2].
  pose proof (restores_stmt st c W1) as H. specialize (IH c W2).
  destruct (compile_stmt c st) as [ops [e|]]; cbn [fst] in *.
  - apply restores_app; auto. apply restores_probe.
  - destruct (compile c rest) as [rops rout]. cbn [fst] in *.
    repeat apply restores_app; auto. apply restores_probe.
Qed.

(* C04: whatever a well-formed program does and raises, when it is over the current action of
   the context it ran in is exactly what it was before *)
Theorem C04_restore p c s :
  wf_prog c p -> cur (run cfg (fst (compile c p)) s) c = cur s c.
Proof. intros W. apply (restores_prog p c W s). Qed.

(* ... and so is the stack of tokens of its context()/run() blocks *)
Theorem C04_restore_tokens p c s :
  wf_prog c p -> tstack (run cfg (fst (compile c p)) s) c = tstack s c.
Proof. intros W. apply (restores_prog p c W s). Qed.

(* every statement of a well-formed program restores: the probe that follows it records the
   action that was current before it *)
Theorem C04_probe_after_stmt st rest c s :
  wf_prog c (st :: rest) ->
  (exists tl, fst (compile c (st :: rest)) = fst (compile_stmt c st) ++ probe c ++ tl) /\
  probes (run cfg (fst (compile_stmt c st) ++ probe c) s) =
    probes (run cfg (fst (compile_stmt c st)) s) ++ [(c, cur s c)].
Proof.
  unfold wf_prog. cbn [forallb]. intros W. apply andb_true_iff in W. destruct W as [W1 _]. split.
  - rewrite compile_cons. destruct (compile_stmt c st) as [ops [e|]]; cbn [fst].
    + exists []. now rewrite app_nil_r.
    + destruct (compile c rest) as [rops rout]. cbn [fst]. eauto.
  - rewrite run_app. cbn [probe run fold_left fst snd]. rewrite api_probes. cbn [is_probe].
    now destruct (restores_stmt st c W1 s) as [-> _].
Qed.

(* ---- C04_inside ------------------------------------------------------------------------------ *)
Lemma enter_probe c s h a :
  alookup h (heap s) = Some a ->
  probes (run cfg [(c, OEnter h); (c, OProbe)] s) = probes s ++ [(c, Some h)].
Proof.
  intros E. cbn [run fold_left fst snd]. rewrite !api_probes. cbn [is_probe].
  destruct (enter_spec cfg c s h a E) as [-> _]. now rewrite app_nil_r.
Qed.

Lemma ctxenter_probe c s h :
  probes (run cfg [(c, OCtxEnter h); (c, OProbe)] s) = probes s ++ [(c, Some h)].
Proof.
  cbn [run fold_left fst snd]. rewrite !api_probes. cbn [is_probe].
  destruct (ctxenter_spec cfg c s h) as [-> _]. now rewrite app_nil_r.
Qed.

(* the first thing observed inside an action block is that action: for a.context()/a.run()
   unconditionally; for `with start_action(...)` whenever start_action can find its parent
   (always true of states reached by real programs: the current action is a live object) *)
Theorem C04_inside c s h style task ty fs sers succ body :
  style <> WithBlock \/ task = true \/ parent_live s c ->
  exists rest,
    probes (run cfg (fst (compile c [SAct h style task ty fs sers succ body])) s)
      = probes s ++ (c, Some h) :: rest.
Proof.
  intros Hyp.
  assert (Hshape : exists enter tl,
            fst (compile c [SAct h style task ty fs sers succ body]) =
              (c, OStart h task ty fs sers) :: ([(c, enter); (c, OProbe)] ++ tl) /\
            (enter = OCtxEnter h \/ (enter = OEnter h /\ style = WithBlock))).
  { rewrite compile_cons, compile_stmt_act. destruct (compile c body) as [bops bout].
    destruct style; destruct bout; cbn [fst app probe compile_nil]; rewrite ?compile_nil;
      unfold probe; cbn [app fst]; eexists; eexists; (split; [reflexivity|]); auto. }
  destruct Hshape as (enter & tl & -> & He).
  rewrite run_cons, run_app. cbn [fst snd].
  set (s1 := api cfg c s (OStart h task ty fs sers)).
  assert (P1 : probes s1 = probes s).
  { unfold s1. rewrite api_probes. cbn. now rewrite app_nil_r. }
  destruct (run_probes_prefix cfg tl (run cfg [(c, enter); (c, OProbe)] s1)) as (l & ->).
  destruct He as [->|[-> ->]].
  - rewrite ctxenter_probe, P1, <- app_assoc. exists l. reflexivity.
  - assert (exists a, alookup h (heap s1) = Some a) as (a & Ea).
    { destruct (start_action_creates cfg c s h task ty fs sers) as (a & Ea & _); [|eauto].
      destruct Hyp as [N|[T|L]]; [congruence | auto | auto]. }
    rewrite (enter_probe c s1 h a Ea), P1, <- app_assoc. exists l. reflexivity.
Qed.

End Restore.

(* ====================================================================================== *)
(* 4. C03: one truthful end                                                               *)
(* ====================================================================================== *)
Definition mark_finished (a : action) : action :=
  mkAction (a_uuid a) (a_level a) (a_last a) true (a_succ a) (a_type a) (a_sers a) (a_token a).

(* the fields of the end message before the bookkeeping keys: success fields, or
   status/reason/exception over the extractor's fields *)
Definition finish_fields (a : action) (exc : option exn) (xf : fields) : fields :=
  match exc with
  | None => fset K_status (VStatus Succeeded) (a_succ a)
  | Some e => fset K_status (VStatus Failed)
                (fset K_reason (safe_str e)
                (fset K_exception (VClassName (e_cls e)) xf))
  end.

(* the dictionary Action.finish hands to Logger.write *)
Definition finish_message (a : action) (l : level) (exc : option exn) (xf : fields) : msg :=
  fset K_level (VLevel l)
    (fset K_atype (a_type a)
    (fset K_uuid (VUuid (a_uuid a))
    (fset K_ts VTime (finish_fields a exc xf)))).

Definition finish_ser (a : action) (exc : option exn) : option mser :=
  opt_ser (a_sers a) (match exc with None => s_success | Some _ => s_failure end).

(* the extractor's contribution: fields registered for the nearest class in the MRO *)
Definition extracted (cfg : config) (exc : option exn) : fields :=
  match exc with
  | None => []
  | Some e => match first_registered (registry cfg) (mro_of cfg (e_cls e)) with
              | Some (XFields fs) => mkfields fs
              | _ => []
              end
  end.

Definition extract (cfg : config) (c : nat) (s : state) (exc : option exn) : state * fields :=
  match exc with
  | None => (s, [])
  | Some e => fields_for_exception cfg c s e
  end.

Section Finish.
Variable cfg : config.

Lemma extract_fields c s exc : snd (extract cfg c s exc) = extracted cfg exc.
Proof.
  destruct exc as [e|]; [|reflexivity]. cbn. unfold fields_for_exception.
  destruct (first_registered _ _) as [[fs|e']|]; reflexivity.
Qed.

(* finish = mark finished, run the extractor, take the next position, Logger.write(finish_message) *)
Lemma finish_unfold c s h a exc :
  alookup h (heap s) = Some a -> a_finished a = false ->
  finish cfg c s h exc =
    let '(s1, xf) := extract cfg c (set_heap s h (mark_finished a)) exc in
    let '(s2, l) := take_level s1 h in
    logger_write cfg c s2 (finish_message a l exc xf) (finish_ser a exc).
Proof.
  intros E F. unfold finish. rewrite E, F. unfold mark_finished. destruct exc as [e|]; cbn [extract].
  - destruct (fields_for_exception cfg c _ e) as [s1 xf]. reflexivity.
  - reflexivity.
Qed.

(* with the extractor's fields made explicit: the end message is [finish_message] over the
   fields registered for the nearest class in the exception's MRO *)
Lemma finish_unfold_extracted c s h a exc :
  alookup h (heap s) = Some a -> a_finished a = false ->
  exists s2 l,
    finish cfg c s h exc =
      logger_write cfg c s2 (finish_message a l exc (extracted cfg exc)) (finish_ser a exc).
Proof.
  intros E F. rewrite (finish_unfold c s h a exc E F).
  pose proof (extract_fields c (set_heap s h (mark_finished a)) exc) as X.
  destruct (extract cfg c _ exc) as [s1 xf]. cbn [snd] in X. subst xf.
  destruct (take_level s1 h) as [s2 l]. eauto.
Qed.

(* C03: after finish the action is marked finished (and keeps its identity) *)
Theorem finish_marks_finished c s h a exc :
  alookup h (heap s) = Some a ->
  exists a', alookup h (heap (finish cfg c s h exc)) = Some a' /\ a_finished a' = true /\
             a_uuid a' = a_uuid a /\ a_level a' = a_level a /\ a_token a' = a_token a.
Proof.
  intros E. destruct (finish_rel cfg c s h exc) as (_ & _ & Hh & _).
  destruct (Hh a E) as (a' & E' & R). exists a'. unfold fin_rel in R. intuition.
Qed.

(* ... so finishing again, with whatever outcome and from whatever context, emits nothing
   and changes nothing: at most one end message per action *)
Theorem C03_finish_twice c c' s h exc exc' :
  finish cfg c' (finish cfg c s h exc) h exc' = finish cfg c s h exc.
Proof.
  destruct (alookup h (heap s)) as [a|] eqn:E.
  - destruct (finish_marks_finished c s h a exc E) as (a' & E' & F & _).
    now apply finish_idempotent with a'.
  - destruct (finish_rel cfg c s h exc) as (_ & _ & _ & Hn). rewrite (Hn E).
    destruct (finish_rel cfg c' s h exc') as (_ & _ & _ & Hn'). now apply Hn'.
Qed.

(* C03: the end message says failed exactly when an exception escaped the body, whatever its
   class; it then carries the class name and the (safe) text; the bookkeeping keys are the action's *)
Theorem C03_status_truthful a l exc xf :
  (fget K_status (finish_message a l exc xf) = Some (VStatus Failed) <-> exc <> None) /\
  (fget K_status (finish_message a l exc xf) = Some (VStatus Succeeded) <-> exc = None) /\
  (forall e, exc = Some e ->
     fget K_exception (finish_message a l exc xf) = Some (VClassName (e_cls e)) /\
     fget K_reason (finish_message a l exc xf) = Some (safe_str e)) /\
  fget K_uuid (finish_message a l exc xf) = Some (VUuid (a_uuid a)) /\
  fget K_level (finish_message a l exc xf) = Some (VLevel l) /\
  fget K_atype (finish_message a l exc xf) = Some (a_type a).
Proof.
  unfold finish_message, finish_fields.
  assert (S : fget K_status (fset K_level (VLevel l) (fset K_atype (a_type a) (fset K_uuid (VUuid (a_uuid a))
                (fset K_ts VTime (match exc with
                   | None => fset K_status (VStatus Succeeded) (a_succ a)
                   | Some e => fset K_status (VStatus Failed) (fset K_reason (safe_str e)
                                 (fset K_exception (VClassName (e_cls e)) xf)) end)))))
              = Some (VStatus (match exc with None => Succeeded | Some _ => Failed end))).
  { rewrite !(fget_fset_other _ K_status) by discriminate. destruct exc; apply fget_fset_same. }
  repeat split.
  - rewrite S. destruct exc; congruence.
  - rewrite S. destruct exc; congruence.
  - rewrite S. destruct exc; congruence.
  - rewrite S. destruct exc; congruence.
  - subst exc. rewrite !(fget_fset_other _ K_exception) by discriminate. apply fget_fset_same.
  - subst exc. rewrite !(fget_fset_other _ K_reason) by discriminate. apply fget_fset_same.
  - rewrite !(fget_fset_other _ K_uuid) by discriminate. apply fget_fset_same.
  - apply fget_fset_same.
  - rewrite !(fget_fset_other _ K_atype) by discriminate. apply fget_fset_same.
Qed.

(* every other field of a failed end message is the extractor's; of a succeeded one, a success field *)
Theorem C03_other_fields a l exc xf k :
  ~ In k [K_uuid; K_level; K_ts; K_atype; K_status; K_exception; K_reason] ->
  fget k (finish_message a l exc xf) = match exc with None => fget k (a_succ a) | Some _ => fget k xf end.
Proof.
  intros N. unfold finish_message, finish_fields. cbn [In] in N.
  destruct exc; rewrite !(fget_fset_other _ k) by intuition; reflexivity.
Qed.

End Finish.

(* ---- the outcome of a program is decided by the program alone ------------------------------ *)
Definition first_raise (f : stmt -> option exn) : list stmt -> option exn :=
  fix go (p : list stmt) : option exn :=
    match p with
    | [] => None
    | x :: r => match f x with Some e => Some e | None => go r end
    end.

(* the exception escaping a statement, read off the program text *)
Fixpoint outcome_stmt (st : stmt) : option exn :=
  match st with
  | SAct _ _ _ _ _ _ _ body => first_raise outcome_stmt body
  | SReenter _ body => first_raise outcome_stmt body
  | SRaise e => Some e
  | _ => None
  end.

Definition outcome (p : list stmt) : option exn := first_raise outcome_stmt p.

Lemma compile_outcome_stmt : forall st c, snd (compile_stmt c st) = outcome_stmt st.
Proof.
  apply (stmt_ind'
    (fun st => forall c, snd (compile_stmt c st) = outcome_stmt st)
    (fun p => forall c, snd (compile c p) = outcome p)); intros; try reflexivity.
  - rewrite compile_stmt_act. specialize (H c). destruct (compile c body) as [bops bout].
    destruct style; exact H.
  - rewrite compile_stmt_handoff. destruct (compile c' body). reflexivity.
  - rewrite compile_stmt_reenter. specialize (H c). destruct (compile c body). exact H.
  - rewrite compile_stmt_spawn. destruct (compile c' body). reflexivity.
  - rewrite compile_cons. specialize (H c). specialize (H0 c). unfold outcome in *. cbn [first_raise].
    rewrite <- H. destruct (compile_stmt c st) as [ops [e|]]; cbn [snd]; [reflexivity|].
    destruct (compile c rest). exact H0.
Qed.

Theorem compile_outcome p c : snd (compile c p) = outcome p.
Proof.
  revert c. induction p as [|st rest IH]; intros c; [reflexivity|].
  rewrite compile_cons. pose proof (compile_outcome_stmt st c) as H. specialize (IH c).
  unfold outcome in *. cbn [first_raise]. rewrite <- H.
  destruct (compile_stmt c st) as [ops [e|]]; cbn [snd]; [reflexivity|].
  destruct (compile c rest). exact IH.
Qed.

(* C03: an action block lets exactly the exception of its body through (same object: [exn]
   carries the identity e_id), whatever the style, fields, serializers *)
Theorem C03_same_exception c h style task ty fs sers succ body :
  snd (compile_stmt c (SAct h style task ty fs sers succ body)) = snd (compile c body).
Proof. now rewrite compile_outcome_stmt, compile_outcome. Qed.

(* C03/C07: what escapes a program does not depend on the logging configuration, registry,
   destinations, what ran before, or the context it runs in *)
Theorem C03_outcome_independent cfg cfg' pre pre' p c :
  snd (run_prog cfg pre p) = outcome p /\
  snd (run_prog cfg' pre' p) = snd (run_prog cfg pre p) /\
  snd (compile c p) = snd (run_prog cfg pre p).
Proof.
  assert (R : forall cf pr, snd (run_prog cf pr p) = outcome p).
  { intros cf pr. unfold run_prog. rewrite <- (compile_outcome p 0). now destruct (compile 0 p). }
  rewrite !R. auto using compile_outcome.
Qed.

(* ====================================================================================== *)
(* Examples and refutations                                                               *)
(* ====================================================================================== *)
Module CtxRestoreExamples.
Import CtxFrameExamples.

(* context 1 (inside action2.context()) has just created action 3 *)
Definition ex_s3 : state := api ex_cfg 1 ex_s (OStart 3 false ex_ty [] None).

(* a block that logs, lets another context leave its own action, and even leaves a context()
   block open: it does not restore cur _ 1 itself, but never writes action 3's token *)
Definition ex_mid : list (nat * op) :=
  [(1, OLog ex_ty [] None); (0, OExit 1 (Some ex_e)); (1, OCtxEnter 2); (1, OProbe); (1, OFinish 3 None)].

Example enter_exit_restore_example :
  (exists a, alookup 3 (heap ex_s3) = Some a) /\
  tokof (run ex_cfg ex_mid (api ex_cfg 1 ex_s3 (OEnter 3))) 3 = tokof (api ex_cfg 1 ex_s3 (OEnter 3)) 3 /\
  cur ex_s3 1 = Some 2 /\
  cur (run ex_cfg ex_mid (api ex_cfg 1 ex_s3 (OEnter 3))) 1 = Some 2 /\
  cur (api ex_cfg 1 ex_s3 (OEnter 3)) 1 = Some 3 /\
  cur (api ex_cfg 1 (run ex_cfg ex_mid (api ex_cfg 1 ex_s3 (OEnter 3))) (OExit 3 (Some ex_e))) 1 = Some 2.
Proof. vm_compute. repeat split; eauto. Qed.

Example ctxenter_ctxexit_restore_example :
  let mid := [(1, OLog ex_ty [] None); (1, OStart 4 false ex_ty [] None); (1, OEnter 4); (0, OExit 1 None)] in
  tstack (run ex_cfg mid (api ex_cfg 1 ex_s3 (OCtxEnter 3))) 1 = tstack (api ex_cfg 1 ex_s3 (OCtxEnter 3)) 1 /\
  cur (run ex_cfg mid (api ex_cfg 1 ex_s3 (OCtxEnter 3))) 1 = Some 4 /\
  cur (api ex_cfg 1 (run ex_cfg mid (api ex_cfg 1 ex_s3 (OCtxEnter 3))) OCtxExit) 1 = cur ex_s3 1 /\
  tstack ex_s3 1 = [None].
Proof. vm_compute. auto. Qed.

(* a program using every statement form: three block styles, exceptions caught and escaping,
   re-entering context() of the enclosing action twice, finishing it early, a hand-off to
   thread 3 and an asyncio task 4, each with their own with-blocks *)
Definition ex_prog : list stmt :=
  [SAct 11 WithBlock false ex_ty [] None []
     [SMsg ex_ty [] None;
      STry [SAct 12 CtxFinish false ex_ty [] None [] [SActLog 11 ex_ty []; SRaise ex_e]];
      SAct 13 RunFinish true ex_ty [] None []
        [SReenter 11 [SMsg ex_ty [] None; SReenter 11 []]; SFinishAgain 11 None; STraceback ex_e];
      SHandoff 11 0 14 3 [SAct 15 WithBlock false ex_ty [] None [] [SRaise ex_e]];
      SSpawn 4 [SMsg ex_ty [] None; SAct 16 WithBlock false ex_ty [] None [] []];
      SAct 17 WithBlock false ex_ty [] None [] [SRaise ex_e];
      SMsg ex_ty [] None];
   SMsg ex_ty [] None].

Example wf_example : wf_prog 0 ex_prog.
Proof. vm_compute. reflexivity. Qed.

Example C04_restore_example :
  cur ex_s 0 = Some 1 /\
  cur (run ex_cfg (fst (compile 0 ex_prog)) ex_s) 0 = cur ex_s 0 /\
  tstack (run ex_cfg (fst (compile 0 ex_prog)) ex_s) 0 = tstack ex_s 0 /\
  length (fst (compile 0 ex_prog)) = 72 /\
  (* in between it was not constant *)
  map snd (filter (fun p => Nat.eqb (fst p) 0) (probes (run ex_cfg (fst (compile 0 ex_prog)) ex_s))) =
    [Some 11; Some 11; Some 12; Some 12; Some 12; Some 11; Some 11; Some 11; Some 13; Some 11;
     Some 11; Some 11; Some 11; Some 13; Some 13; Some 13; Some 11; Some 11; Some 11; Some 11;
     Some 17; Some 17; Some 11; Some 1].
Proof.
  split; [reflexivity|]. split; [apply C04_restore, wf_example|].
  split; [apply C04_restore_tokens, wf_example|]. vm_compute. auto.
Qed.

(* wf_prog clause 1 is needed: `with a:` entered again inside its own block overwrites
   a._parent_token, and the outer exit "restores" to None instead of action 1 *)
Example C04_restore_rewith_refuted :
  exists cfg p c s, cur (run cfg (fst (compile c p)) s) c <> cur s c.
Proof.
  exists ex_cfg, [SAct 11 WithBlock true ex_ty [] None [] [SAct 11 WithBlock true ex_ty [] None [] []]], 0, ex_s.
  vm_compute. discriminate.
Qed.

(* ... also when the second creation is a continue_task in another thread *)
Example C04_restore_rehandle_refuted :
  exists cfg p c s, cur (run cfg (fst (compile c p)) s) c <> cur s c.
Proof.
  exists ex_cfg, [SAct 11 WithBlock true ex_ty [] None [] [SHandoff 11 0 11 3 []]], 0, ex_s.
  vm_compute. discriminate.
Qed.

(* wf_prog clause 2 is needed: a thread that creates an "asyncio task" named like the running
   context overwrites that context's current action *)
Example C04_restore_spawn_refuted :
  exists cfg p c s, cur (run cfg (fst (compile c p)) s) c <> cur s c.
Proof.
  exists ex_cfg, [SHandoff 1 0 14 3 [SSpawn 0 []]], 0, ex_s.
  vm_compute. discriminate.
Qed.

Example C04_probe_after_stmt_example :
  let st := SAct 12 CtxFinish false ex_ty [] None [] [SActLog 1 ex_ty []; SRaise ex_e] in
  wf_prog 0 [st; SMsg ex_ty [] None] /\
  probes (run ex_cfg (fst (compile_stmt 0 st) ++ probe 0) ex_s) =
    [(0, Some 12); (0, Some 12); (0, Some 12); (0, Some 1); (0, Some 1)].
Proof. vm_compute. auto. Qed.

Example C04_inside_example :
  parent_live ex_s 0 /\
  exists rest, probes (run ex_cfg (fst (compile 0 ex_prog)) ex_s) = probes ex_s ++ (0, Some 11) :: rest.
Proof.
  split; [unfold parent_live; vm_compute; discriminate|].
  vm_compute. eexists. reflexivity.
Qed.

(* the hypothesis of C04_inside for `with start_action(...)` is needed in the model: if the
   current action is a handle of nothing, start_action is a no-op and so is entering it *)
Example C04_inside_dangling_refuted :
  exists cfg c s h,
    forall rest, probes (run cfg (fst (compile c [SAct h WithBlock false ex_ty [] None [] []])) s)
                 <> probes s ++ (c, Some h) :: rest.
Proof.
  exists ex_cfg, 0, (api ex_cfg 0 init_state (OCtxEnter 99)), 11. intros rest. vm_compute. discriminate.
Qed.

(* C03: finishing action 1 (current in context 0, a failing destination, a raising extractor) *)
Example finish_example :
  (exists a, alookup 1 (heap ex_s) = Some a /\ a_finished a = false) /\
  (exists a', alookup 1 (heap (finish ex_cfg 0 ex_s 1 (Some ex_e))) = Some a' /\ a_finished a' = true) /\
  length (trace_of ex_s 1) = 4 /\
  length (trace_of (finish ex_cfg 0 ex_s 1 (Some ex_e)) 1) = 8 /\
  length (trace_of (finish ex_cfg 1 (finish ex_cfg 0 ex_s 1 (Some ex_e)) 1 None) 1) = 8.
Proof. vm_compute. repeat split; eauto. Qed.

(* an extractor for Exception returning a field; the exception's str() raises *)
Definition ex_cfg2 : config :=
  mk_config [(8%positive, [8%positive; 2%positive; 1%positive])]
            [(1%positive, XFields [(40%positive, VInt 1)]); (2%positive, XFields [(41%positive, VInt 2)])].
Definition ex_e2 : exn := mkExn 2 8%positive 30%positive true.

Example C03_status_truthful_example :
  exists a, alookup 1 (heap ex_s) = Some a /\
    extracted ex_cfg2 (Some ex_e2) = [(41%positive, VInt 2)] /\
    finish_message a [3%positive] (Some ex_e2) (extracted ex_cfg2 (Some ex_e2)) =
      [(K_uuid, VUuid 0); (K_level, VLevel [3%positive]); (K_ts, VTime); (K_atype, ex_ty);
       (K_status, VStatus Failed); (K_exception, VClassName 8%positive); (K_reason, VSafeFail);
       (41%positive, VInt 2)] /\
    fget K_status (finish_message a [3%positive] None []) = Some (VStatus Succeeded).
Proof. vm_compute. eexists. repeat split. Qed.

Example outcome_example :
  outcome ex_prog = Some ex_e /\ snd (compile 0 ex_prog) = Some ex_e /\
  outcome [STry ex_prog; SHandoff 1 0 14 3 [SRaise ex_e]; SSpawn 4 [SRaise ex_e]] = None.
Proof. vm_compute. auto. Qed.
End CtxRestoreExamples.

Print Assumptions enter_exit_restore.
Print Assumptions ctxenter_ctxexit_restore.
Print Assumptions C04_restore.
Print Assumptions C04_restore_tokens.
Print Assumptions C04_probe_after_stmt.
Print Assumptions C04_inside.
Print Assumptions finish_unfold.
Print Assumptions finish_unfold_extracted.
Print Assumptions finish_marks_finished.
Print Assumptions C03_finish_twice.
Print Assumptions C03_status_truthful.
Print Assumptions C03_other_fields.
Print Assumptions C03_same_exception.
Print Assumptions compile_outcome.
Print Assumptions C03_outcome_independent.
