(* C19 — the threaded writer passes every message to its destination in order, off-thread.
   Statements only; proofs are in Proofs/WriterProofs.v, the model in Model/Writer.v.
   Every theorem quantifies over all failure masks [fails], all producers (lists of messages), any
   number of start/stop cycles and all schedules (lists of thread ids).  Relative to
   queue.SimpleQueue being a linearizable unbounded FIFO and to Thread.join's semantics. *)
From Coq Require Import List Arith Bool.
Require Import Eliot.Model.Writer Eliot.Proofs.WriterProofs.
Import ListNotations.

(* The messages in the order their puts took effect = the destination's calls (each on the reader
   thread of its cycle), then the message in the reader's hands, then the queue: nothing invented,
   duplicated or reordered.  The log is the calls minus exactly those on which the destination raised;
   every write is made by a reader thread (never by the controller or a producer); each producer's
   messages are put in its own order; distinct messages are written at most once. *)
Theorem C19_fifo : forall fails producers cycles sched,
  let st := run fails producers cycles sched in
  let tr := trace st in
  msgs (puts tr) = map fst (calls tr) ++ map fst (held st) ++ msgs (queue st)
  /\ log st = map tag (filter (okf fails) (calls tr))
  /\ (forall m t, In (m, t) (log st) -> (exists c, t = Reader c) /\ t <> Ctl /\ forall i, t <> Prod i)
  /\ (forall i, put_by i tr ++ nth i (prods st) [] = nth i producers [])
  /\ (NoDup (concat producers) -> NoDup (map fst (calls tr)) /\ NoDup (map fst (log st))).
Proof. exact writer_fifo. Qed.
Print Assumptions C19_fifo.

(* join completed => the sentinels were all consumed (the reader returned) and every message put before
   a sentinel that precedes the join had been passed to the destination before the join *)
Theorem C19_stop_waits : forall fails producers cycles sched t1 t2 c,
  trace (run fails producers cycles sched) = t1 ++ EJoin c :: t2 ->
  count_stop (puts t1) = S c /\ count_stop (taken t1) = S c
  /\ (forall p q t, t1 = p ++ EPut t Stop :: q ->
        forall t' m, In (EPut t' (Msg m)) p -> In m (map fst (calls t1))).
Proof. exact writer_stop_waits. Qed.
Print Assumptions C19_stop_waits.

(* ... and the join does become enabled: after _STOP was put, two reader steps per queue entry make the
   reader return, whatever the destination's failures *)
Theorem C19_stop_completes : forall fails producers cycles sched,
  let st := run fails producers cycles sched in
  phase_ st = PJoining ->
  let st' := run_from fails st (flat_map (twice (cycle st)) (queue st)) in
  reader st' = RDone /\ enabled st' Ctl = true.
Proof. exact writer_stop_completes. Qed.
Print Assumptions C19_stop_completes.

(* a failing destination changes nothing but the log, from which exactly the failed messages are missing;
   the reader goes on as in the failure-free run *)
Theorem C19_fault_local : forall fails producers cycles sched,
  let st := run fails producers cycles sched in
  let st0 := run (fun _ => false) producers cycles sched in
  queue st = queue st0 /\ reader st = reader st0 /\ phase_ st = phase_ st0 /\ cycle st = cycle st0 /\
  todo st = todo st0 /\ prods st = prods st0
  /\ calls (trace st) = calls (trace st0) /\ puts (trace st) = puts (trace st0) /\ taken (trace st) = taken (trace st0)
  /\ log st0 = map tag (calls (trace st0))
  /\ log st = filter (fun x => negb (fails (fst x))) (log st0).
Proof. exact writer_fault_local. Qed.
Print Assumptions C19_fault_local.

(* per cycle: a message is handed to the reader of the cycle given by the number of _STOPs put before it;
   what a racing producer puts after a _STOP stays queued and is delivered first in the next cycle;
   between cycles nothing is held and no sentinel is queued; running/registered exactly between
   startService and stopService *)
Theorem C19_cycles : forall fails producers cycles sched,
  let st := run fails producers cycles sched in
  let tr := trace st in
  attrib (puts tr) 0 = calls tr ++ held st ++ attrib (queue st) (count_stop (taken tr))
  /\ (phase_ st = PIdle ->
        count_stop (puts tr) = cycle st /\ count_stop (taken tr) = cycle st /\ count_stop (queue st) = 0 /\
        held st = [] /\ attrib (puts tr) 0 = calls tr ++ map (fun m => (m, cycle st)) (msgs (queue st)))
  /\ running st = (match phase_ st with PStarted => true | _ => false end)
  /\ registered st = (match phase_ st with PStarted => true | _ => false end)
  /\ cycle st + todo st + (match phase_ st with PIdle => 0 | _ => 1 end) = cycles.
Proof. exact writer_cycles. Qed.
Print Assumptions C19_cycles.

(* a producer step is enabled in every state (also while the reader is inside the destination) and only
   appends to the queue *)
Theorem C19_nonblocking : forall fails st i m rest,
  nth_error (prods st) i = Some (m :: rest) ->
  enabled st (Prod i) = true /\
  let st' := step fails st (Prod i) in
  queue st' = queue st ++ [Msg m] /\ nth_error (prods st') i = Some rest /\
  reader st' = reader st /\ log st' = log st /\ phase_ st' = phase_ st /\
  trace st' = trace st ++ [EPut (Prod i) (Msg m)].
Proof. exact writer_nonblocking. Qed.
Print Assumptions C19_nonblocking.

(* the reader loop that exits as soon as the service is marked stopped loses a queued message *)
Theorem C19_exit_on_stopped_refuted :
  exists producers cycles sched t1 t2 c p q m,
    let st := run_mut (fun _ => false) producers cycles sched in
    trace st = t1 ++ EJoin c :: t2 /\ t1 = p ++ EPut Ctl Stop :: q /\ In (EPut (Prod 0) (Msg m)) p /\
    ~ In m (map fst (calls (trace st))) /\ log st = [] /\ finished st = true.
Proof. exact writer_exit_on_stopped_refuted. Qed.
Print Assumptions C19_exit_on_stopped_refuted.
