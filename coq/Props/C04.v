(* C04 — the current action is scoped to its block and always restored on exit. *)
From Coq Require Import List.
Require Import Eliot.Base.Level Eliot.Model.Core Eliot.Proofs.CoreBasics.
Import ListNotations.

(* setting the context variable in one execution context is visible there ... *)
Theorem C04_set_visible : forall s c v, cur (set_ctx s c v) c = v.
Proof. exact cur_set_ctx_same. Qed.
Print Assumptions C04_set_visible.

(* ... and nowhere else *)
Theorem C04_set_local : forall s c c' v, c <> c' -> cur (set_ctx s c v) c' = cur s c'.
Proof. exact cur_set_ctx_other. Qed.
Print Assumptions C04_set_local.
