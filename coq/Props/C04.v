(* C04 — the current action is scoped to its block and always restored on exit. *)
From Coq Require Import List PArith.
Require Import Eliot.Base.Level Eliot.Model.Core Eliot.Model.Prog Eliot.Proofs.CoreBasics Eliot.Proofs.CtxFrame Eliot.Proofs.CtxRestore.
Import ListNotations.

(* setting the context variable in one execution context is visible there ... *)
Theorem C04_set_visible : forall s c v, cur (set_ctx s c v) c = v.
Proof. exact cur_set_ctx_same. Qed.
Print Assumptions C04_set_visible.

(* ... and nowhere else *)
Theorem C04_set_local : forall s c c' v, c <> c' -> cur (set_ctx s c v) c' = cur s c'.
Proof. exact cur_set_ctx_other. Qed.
Print Assumptions C04_set_local.

(* `with a:` restores: whatever the block does short of overwriting a's saved token *)
Theorem C04_enter_exit_restore :
  forall cfg c h a s mid exc, alookup h (heap s) = Some a ->
    tokof (run cfg mid (api cfg c s (OEnter h))) h = tokof (api cfg c s (OEnter h)) h ->
    cur (api cfg c (run cfg mid (api cfg c s (OEnter h))) (OExit h exc)) c = cur s c.
Proof. exact enter_exit_restore. Qed.
Print Assumptions C04_enter_exit_restore.

(* `with a.context():` / `a.run(f)` restore: whatever the block does that leaves the token stack balanced *)
Theorem C04_ctxenter_ctxexit_restore :
  forall cfg c h s mid,
    tstack (run cfg mid (api cfg c s (OCtxEnter h))) c = tstack (api cfg c s (OCtxEnter h)) c ->
    cur (api cfg c (run cfg mid (api cfg c s (OCtxEnter h))) OCtxExit) c = cur s c /\
    tstack (api cfg c (run cfg mid (api cfg c s (OCtxEnter h))) OCtxExit) c = tstack s c.
Proof. exact ctxenter_ctxexit_restore. Qed.
Print Assumptions C04_ctxenter_ctxexit_restore.

(* every well-formed program, from every state, whatever is raised inside, gives the current action of its context back *)
Theorem C04_restore :
  forall cfg p c s, wf_prog c p -> cur (run cfg (fst (compile c p)) s) c = cur s c.
Proof. exact CtxRestore.C04_restore. Qed.
Print Assumptions C04_restore.

Theorem C04_restore_tokens :
  forall cfg p c s, wf_prog c p -> tstack (run cfg (fst (compile c p)) s) c = tstack s c.
Proof. exact CtxRestore.C04_restore_tokens. Qed.
Print Assumptions C04_restore_tokens.

(* the probe after each statement records what was current before the statement *)
Theorem C04_probe_after_stmt :
  forall cfg st rest c s, wf_prog c (st :: rest) ->
    (exists tl, fst (compile c (st :: rest)) = fst (compile_stmt c st) ++ probe c ++ tl) /\
    probes (run cfg (fst (compile_stmt c st) ++ probe c) s) =
      probes (run cfg (fst (compile_stmt c st)) s) ++ [(c, cur s c)].
Proof. exact CtxRestore.C04_probe_after_stmt. Qed.
Print Assumptions C04_probe_after_stmt.

(* the first observation inside an action block is that action *)
Theorem C04_inside :
  forall cfg c s h style task ty fs sers succ body,
    style <> WithBlock \/ task = true \/ parent_live s c ->
    exists rest, probes (run cfg (fst (compile c [SAct h style task ty fs sers succ body])) s)
                 = probes s ++ (c, Some h) :: rest.
Proof. exact CtxRestore.C04_inside. Qed.
Print Assumptions C04_inside.

(* the stated exclusion: re-entering the same `with action:` inside its own block does not restore *)
Theorem C04_restore_rewith_refuted :
  exists cfg p c s, cur (run cfg (fst (compile c p)) s) c <> cur s c.
Proof. exact CtxRestoreExamples.C04_restore_rewith_refuted. Qed.
Print Assumptions C04_restore_rewith_refuted.

(* ---- where things attach (Proofs/Attribution.v) ---- *)
Require Import Eliot.Proofs.Attribution.

(* start_task always begins a new tree whatever the context: fresh uuid, root level *)
Theorem C04_task_fresh :
  forall cfg c s h ty fs sers,
    start_action cfg c s h true ty fs sers =
    start_message cfg c (set_heap (fst (fresh_uuid s)) h (mkAction (next_uuid s) [] 0 false [] ty sers None)) h fs.
Proof. exact start_task_ignores_context. Qed.
Print Assumptions C04_task_fresh.

(* a message logged with no current action forms its own one-message task *)
Theorem C04_orphan_message :
  forall s c mt fs, cur s c = None ->
    snd (stamp_here s c mt fs) = stamp (next_uuid s) [1%positive] mt fs /\
    next_uuid (fst (stamp_here s c mt fs)) = S (next_uuid s).
Proof. exact orphan_message_stamp. Qed.
Print Assumptions C04_orphan_message.

(* actions started inside a block become children of the current action: next position, same uuid *)
Theorem C04_child_position :
  forall cfg c s h p pa ty fs sers,
    cur s c = Some p -> alookup p (heap s) = Some pa ->
    start_action cfg c s h false ty fs sers =
    start_message cfg c
      (set_heap (fst (take_level s p)) h
         (mkAction (a_uuid pa) (a_level pa ++ [Pos.of_nat (S (a_last pa))]) 0 false [] ty sers None)) h fs.
Proof. exact child_action_position. Qed.
Print Assumptions C04_child_position.
