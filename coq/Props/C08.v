(* C08 — every destination gets each message once, in order; faults isolated and reported. *)
From Coq Require Import List.
Require Import Eliot.Base.Level Eliot.Model.Core Eliot.Proofs.CoreBasics.
Import ListNotations.

(* the fan-out loop offers the message exactly once to every registered destination, in
   registration order, whatever any of them does, and collects exactly the failures *)
Theorem C08_fanout_once_each :
  forall (m : msg) (ds : list dest),
    Forall2 (offered m) ds (fst (fanout m ds)) /\
    snd (fanout m ds) = flat_map (failure_of m) ds.
Proof. exact fanout_spec. Qed.
Print Assumptions C08_fanout_once_each.

(* what the destinations have been offered after a fan-out does not depend on which of them fail *)
Theorem C08_fanout_fault_independent :
  forall m ds ds2, map d_log ds = map d_log ds2 ->
    map d_log (fst (fanout m ds)) = map d_log (fst (fanout m ds2)).
Proof. exact fanout_independent. Qed.
Print Assumptions C08_fanout_fault_independent.
