(* C08 — every destination gets each message once, in order; faults isolated and reported. *)
From Coq Require Import List.
Require Import Eliot.Base.Level Eliot.Model.Core Eliot.Proofs.CoreBasics.
Import ListNotations.

(* the fan-out loop offers the message exactly once to every registered destination, in
   registration order, whatever any of them does, and collects exactly the failures *)
Theorem C08_fanout_once_each :
  forall (m : msg) (ds : list dest),
    Forall2 (offered m) ds (fst (fanout m ds)) /\
    snd (fanout m ds) = flat_map (failure_of m) ds.
Proof. exact fanout_spec. Qed.
Print Assumptions C08_fanout_once_each.

(* what the destinations have been offered after a fan-out does not depend on which of them fail *)
Theorem C08_fanout_fault_independent :
  forall m ds ds2, map d_log ds = map d_log ds2 ->
    map d_log (fst (fanout m ds)) = map d_log (fst (fanout m ds2)).
Proof. exact fanout_independent. Qed.
Print Assumptions C08_fanout_fault_independent.

(* ---- Destinations.send and everything above it (Proofs/OutputProofs.v) ---- *)
Require Import Eliot.Model.Prog Eliot.Proofs.OutputProofs.

(* with destinations registered, one send offers every one of them the same list: the
   message (with the global fields) followed by the failure reports *)
Theorem C08_send_uniform :
  forall c s m, any_added s = true ->
  exists reports,
    map d_log (dests (send c s m)) =
      map (fun x => x ++ fupdate m (globals s) :: reports) (map d_log (dests s)) /\
    map d_id (dests (send c s m)) = map d_id (dests s) /\
    map d_behave (dests (send c s m)) = map d_behave (dests s).
Proof. exact send_uniform. Qed.
Print Assumptions C08_send_uniform.

(* exactly one report per destination failing on a message that was not logged as a report,
   offered after the message itself, whatever the global fields; the destinations can
   recognise them as reports unless a global field named message_type overwrites their type *)
Theorem C08_report_count :
  forall c s m,
  any_added s = true -> is_report m = false ->
  exists reports,
    ext (fupdate m (globals s) :: reports) s (send c s m) /\
    length (fupdate m (globals s) :: reports) =
      1 + length (flat_map (failure_of (fupdate m (globals s))) (dests s)) /\
    (fget K_mtype (globals s) = None -> Forall (fun r => is_report r = true) reports).
Proof. exact OutputProofs.C08_report_count. Qed.
Print Assumptions C08_report_count.

(* one report per failure, in the order of the failing destinations, each carrying the
   exception's class name, its safeunicode text and the rendering of the message *)
Theorem C08_report_content :
  forall c s m,
  any_added s = true -> is_report m = false ->
  exists reports,
    ext (fupdate m (globals s) :: reports) s (send c s m) /\
    Forall2 (is_report_of (globals s) (fupdate m (globals s)))
            (flat_map (failure_of (fupdate m (globals s))) (dests s)) reports.
Proof. exact OutputProofs.C08_report_content. Qed.
Print Assumptions C08_report_content.

Theorem C08_report_fields :
  forall g about e r,
  fget K_mtype g = None -> fget K_exception g = None -> fget K_reason g = None ->
  fget K_message g = None ->
  is_report_of g about e r ->
  fget K_mtype r = Some (VTypeName T_destination_failure) /\
  fget K_exception r = Some (VClassName (e_cls e)) /\
  fget K_reason r = Some (safe_str e) /\
  fget K_message r = Some (render_of about).
Proof. exact is_report_of_content. Qed.
Print Assumptions C08_report_fields.

(* failures while delivering a message logged as a report are not reported, whatever the
   global fields are (the guard is evaluated before they are merged in) *)
Theorem C08_reports_not_reported :
  forall c s m,
  any_added s = true -> is_report m = true ->
  ext [fupdate m (globals s)] s (send c s m).
Proof. exact OutputProofs.C08_reports_not_reported. Qed.
Print Assumptions C08_reports_not_reported.

(* every destination, failing or not, is called once for every message of the list *)
Theorem C08_later_deliveries :
  forall c s m, any_added s = true ->
  exists l, ext l s (send c s m) /\
    map d_calls (dests (send c s m)) = map (fun n => n + length l) (map d_calls (dests s)) /\
    1 <= length l <= 1 + length (dests s).
Proof. exact OutputProofs.C08_later_deliveries. Qed.
Print Assumptions C08_later_deliveries.

(* every operation other than adding/removing destinations offers all registered
   destinations the same messages *)
Theorem C08_api_uniform :
  forall cfg c s o, dest_op o = false -> uniform s (api cfg c s o).
Proof. exact api_uniform. Qed.
Print Assumptions C08_api_uniform.

(* over any stretch of operations without add/remove all registered destinations are
   offered the same sequence l (originals and reports), in the same order *)
Theorem C08_same_stream :
  forall cfg ops s,
  forallb (fun co => negb (dest_op (snd co))) ops = true ->
  exists l,
    map d_id (dests (run cfg ops s)) = map d_id (dests s) /\
    gone (run cfg ops s) = gone s /\
    forall i d, nth_error (dests s) i = Some d ->
      exists d', nth_error (dests (run cfg ops s)) i = Some d' /\
                 d_id d' = d_id d /\ d_behave d' = d_behave d /\
                 d_log d' = d_log d ++ l /\ d_calls d' = d_calls d + length l.
Proof. exact OutputProofs.C08_same_stream. Qed.
Print Assumptions C08_same_stream.

(* the first add replays the buffered messages to all new destinations alike *)
Theorem C08_first_add_uniform :
  forall cfg c s ds,
  any_added s = false ->
  uniform (set_out s true [] ds (gone s)) (api cfg c s (OAddDests ds)) /\
  map d_id (dests (api cfg c s (OAddDests ds))) = map d_id ds.
Proof. exact OutputProofs.C08_first_add_uniform. Qed.
Print Assumptions C08_first_add_uniform.
