(* C06 — a serialized task id continues the same tree elsewhere.
   Statements only; proofs are in Proofs/. *)
From Coq Require Import List PArith Ascii String.
Require Import Eliot.Base.Level Eliot.Proofs.LevelProofs.
Import ListNotations.

(* TaskLevel.fromString (TaskLevel.toString l) = l, for every level *)
Theorem C06_level_string_roundtrip : forall l : level, from_string (to_string l) = Some l.
Proof. exact level_string_roundtrip. Qed.
Print Assumptions C06_level_string_roundtrip.

(* continue_task decodes exactly the (uuid, level) serialize_task_id encoded *)
Theorem C06_task_id_roundtrip :
  forall (u : str) (l : level), no_char at_sign u -> parse_id (make_id u l) = Some (u, l).
Proof. exact task_id_roundtrip. Qed.
Print Assumptions C06_task_id_roundtrip.

(* distinct (uuid, position) pairs give distinct ids *)
Theorem C06_task_id_injective :
  forall u l u' l', no_char at_sign u -> no_char at_sign u' ->
  make_id u l = make_id u' l' -> u = u' /\ l = l'.
Proof. exact task_id_injective. Qed.
Print Assumptions C06_task_id_injective.

(* ---- single use of the preserve_context callable (Model/SingleUse.v) ---- *)
Require Import Eliot.Model.SingleUse Eliot.Proofs.SingleUseProofs.

(* for every schedule and any number of concurrently invoking threads, f runs at most once *)
Theorem C06_once :
  forall sched seen flag, List.length (ran (invoke sched flag seen)) <= 1.
Proof. exact single_use_at_most_once. Qed.
Print Assumptions C06_once.

(* the first invocation to reach the guard runs f; no later one does *)
Theorem C06_first_wins :
  forall t r, invoke (t :: r) false [] = (t, Ran) :: invoke r true [t] /\ ran (invoke r true [t]) = [].
Proof. exact single_use_first_wins. Qed.
Print Assumptions C06_first_wins.

(* every invoking thread gets an answer: it ran f or it raised TooManyCalls *)
Theorem C06_every_call_answered :
  forall sched flag seen t, In t sched -> ~ In t seen -> exists res, In (t, res) (invoke sched flag seen).
Proof. exact invoke_results_complete. Qed.
Print Assumptions C06_every_call_answered.

(* a check-then-set flag instead of the lock lets two invocations run f *)
Theorem C06_check_then_set_refuted :
  exists sched, List.length (ran (invoke_check_then_set sched false [] [])) = 2.
Proof. exact check_then_set_refuted. Qed.
Print Assumptions C06_check_then_set_refuted.

(* ---- hand-offs end to end (Model/ExpectedHandoff.v, Proofs/C06Handoff.v) ---- *)
From Coq Require Import Permutation.
Require Import Eliot.Model.Core Eliot.Model.Prog Eliot.Model.Parser Eliot.Model.Forest
  Eliot.Model.Roundtrip Eliot.Model.Expected Eliot.Model.ExpectedHandoff.
Require Import Eliot.Proofs.C01Roundtrip Eliot.Proofs.C06Handoff.

(* what the destination received from a program with hand-offs (any hop depth, each in a
   fresh thread), numbered in emission order, is the linearisation of the forest it means:
   each remote sub-tree in place, same task uuid, levels extending the reserved position *)
Theorem C06_handoff_emission :
  forall cfg d e p, simple_h p = true -> reg_ok_h cfg p = true ->
  number_from 0 (trace_of (fst (run_prog cfg (one_dest d e) p)) d) = lin (expected_h p).
Proof. exact C06_emission. Qed.
Print Assumptions C06_handoff_emission.

(* both sides' messages merged and delivered in ANY order parse to exactly the tasks of
   expected_h p, all complete, each root the whole expected tree (remote actions in place) *)
Theorem C06_handoff_roundtrip :
  forall cfg d e p order, simple_h p = true -> reg_ok_h cfg p = true ->
  Permutation order (seq 0 (List.length (lin (expected_h p)))) ->
  exists done us,
    roundtrip cfg (one_dest d e) p d order = POk (done, []) /\
    Permutation us (seq 0 (List.length (expected_h p))) /\
    Forall2 (parsed_as (expected_h p)) us done.
Proof. exact C06_roundtrip. Qed.
Print Assumptions C06_handoff_roundtrip.

(* the serialized ids after the run: one per executed hand-off, the (uuid, level) of the
   action that continued it; pairwise distinct; the (uuid, level) of no emitted message and
   of no other action object *)
Theorem C06_handoff_ids_unique :
  forall cfg d e p, simple_h p = true -> reg_ok_h cfg p = true ->
  let s := fst (run_prog cfg (one_dest d e) p) in
  (forall slot h', In (slot, h') (handoffs p) ->
     exists a', alookup h' (heap s) = Some a' /\ alookup slot (ids s) = Some (a_uuid a', a_level a')) /\
  (forall slot, ~ In slot (map fst (handoffs p)) -> alookup slot (ids s) = None) /\
  (forall slot1 slot2 id,
     alookup slot1 (ids s) = Some id -> alookup slot2 (ids s) = Some id -> slot1 = slot2) /\
  (forall slot u l, alookup slot (ids s) = Some (u, l) ->
     (forall m, In m (trace_of s d) -> (fget K_uuid m, fget K_level m) <> (Some (VUuid u), Some (VLevel l))) /\
     (forall pm, In pm (lin (expected_h p)) -> (pm_uuid pm, pm_level pm) <> (u, l))) /\
  (forall slot h' u l, In (slot, h') (handoffs p) -> alookup slot (ids s) = Some (u, l) ->
     forall h2 a2, alookup h2 (heap s) = Some a2 -> a_uuid a2 = u -> a_level a2 = l -> h2 = h').
Proof. exact C06_ids_unique. Qed.
Print Assumptions C06_handoff_ids_unique.

(* the stream handed to the parser contains, for every executed hand-off, the start message of
   an eliot:remote_task action whose uuid and own prefix are exactly the serialized id *)
Theorem C06_handoff_remote_in_place :
  forall cfg d e p, simple_h p = true -> reg_ok_h cfg p = true ->
  let s := fst (run_prog cfg (one_dest d e) p) in
  forall slot h', In (slot, h') (handoffs p) ->
    exists u l i,
      alookup slot (ids s) = Some (u, l) /\
      In (mkPmsg u (l ++ [1%positive]) (Some T_remote_task) (Some PStarted) i) (lin (expected_h p)).
Proof. exact C06_remote_in_place. Qed.
Print Assumptions C06_handoff_remote_in_place.
