(* C06 — a serialized task id continues the same tree elsewhere.
   Statements only; proofs are in Proofs/. *)
From Coq Require Import List PArith Ascii String.
Require Import Eliot.Base.Level Eliot.Proofs.LevelProofs.
Import ListNotations.

(* TaskLevel.fromString (TaskLevel.toString l) = l, for every level *)
Theorem C06_level_string_roundtrip : forall l : level, from_string (to_string l) = Some l.
Proof. exact level_string_roundtrip. Qed.
Print Assumptions C06_level_string_roundtrip.

(* continue_task decodes exactly the (uuid, level) serialize_task_id encoded *)
Theorem C06_task_id_roundtrip :
  forall (u : str) (l : level), no_char at_sign u -> parse_id (make_id u l) = Some (u, l).
Proof. exact task_id_roundtrip. Qed.
Print Assumptions C06_task_id_roundtrip.

(* distinct (uuid, position) pairs give distinct ids *)
Theorem C06_task_id_injective :
  forall u l u' l', no_char at_sign u -> no_char at_sign u' ->
  make_id u l = make_id u' l' -> u = u' /\ l = l'.
Proof. exact task_id_injective. Qed.
Print Assumptions C06_task_id_injective.

(* ---- single use of the preserve_context callable (Model/SingleUse.v) ---- *)
Require Import Eliot.Model.SingleUse Eliot.Proofs.SingleUseProofs.

(* for every schedule and any number of concurrently invoking threads, f runs at most once *)
Theorem C06_once :
  forall sched seen flag, List.length (ran (invoke sched flag seen)) <= 1.
Proof. exact single_use_at_most_once. Qed.
Print Assumptions C06_once.

(* the first invocation to reach the guard runs f; no later one does *)
Theorem C06_first_wins :
  forall t r, invoke (t :: r) false [] = (t, Ran) :: invoke r true [t] /\ ran (invoke r true [t]) = [].
Proof. exact single_use_first_wins. Qed.
Print Assumptions C06_first_wins.

(* every invoking thread gets an answer: it ran f or it raised TooManyCalls *)
Theorem C06_every_call_answered :
  forall sched flag seen t, In t sched -> ~ In t seen -> exists res, In (t, res) (invoke sched flag seen).
Proof. exact invoke_results_complete. Qed.
Print Assumptions C06_every_call_answered.

(* a check-then-set flag instead of the lock lets two invocations run f *)
Theorem C06_check_then_set_refuted :
  exists sched, List.length (ran (invoke_check_then_set sched false [] [])) = 2.
Proof. exact check_then_set_refuted. Qed.
Print Assumptions C06_check_then_set_refuted.
