(* C06 — a serialized task id continues the same tree elsewhere.
   Statements only; proofs are in Proofs/. *)
From Coq Require Import List PArith Ascii String.
Require Import Eliot.Base.Level Eliot.Proofs.LevelProofs.
Import ListNotations.

(* TaskLevel.fromString (TaskLevel.toString l) = l, for every level *)
Theorem C06_level_string_roundtrip : forall l : level, from_string (to_string l) = Some l.
Proof. exact level_string_roundtrip. Qed.
Print Assumptions C06_level_string_roundtrip.

(* continue_task decodes exactly the (uuid, level) serialize_task_id encoded *)
Theorem C06_task_id_roundtrip :
  forall (u : str) (l : level), no_char at_sign u -> parse_id (make_id u l) = Some (u, l).
Proof. exact task_id_roundtrip. Qed.
Print Assumptions C06_task_id_roundtrip.

(* distinct (uuid, position) pairs give distinct ids *)
Theorem C06_task_id_injective :
  forall u l u' l', no_char at_sign u -> no_char at_sign u' ->
  make_id u l = make_id u' l' -> u = u' /\ l = l'.
Proof. exact task_id_injective. Qed.
Print Assumptions C06_task_id_injective.
