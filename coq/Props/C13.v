(* C13 — typed fields are serialized exactly once; serializer failures are contained. *)
From Coq Require Import List.
Require Import Eliot.Base.Level Eliot.Model.Core Eliot.Proofs.CoreBasics.
Import ListNotations.

Theorem C13_missing_field_fails :
  forall k f r m, fget k m = None -> serialize ((k, f) :: r) m = Err (key_error k).
Proof. exact serialize_missing. Qed.
Print Assumptions C13_missing_field_fails.

Theorem C13_failing_serializer_fails :
  forall k f r m v e, fget k m = Some v -> f v = Err e -> serialize ((k, f) :: r) m = Err e.
Proof. exact serialize_field_fails. Qed.
Print Assumptions C13_failing_serializer_fails.

Theorem C13_serializer_applied :
  forall k f r m v v', fget k m = Some v -> f v = Ok v' ->
    serialize ((k, f) :: r) m = serialize r (fset k v' m).
Proof. exact serialize_step. Qed.
Print Assumptions C13_serializer_applied.

(* ---- serialize / Logger.write as a whole (Proofs/OutputSerialize.v) ---- *)
Require Import Eliot.Model.Prog Eliot.Proofs.OutputProofs Eliot.Proofs.OutputSerialize.

(* distinct declared keys: serialization succeeds iff every declared field is present and
   its serializer accepts the logged value; the result maps each declared key to its
   serializer applied ONCE to the logged value and agrees with the message elsewhere *)
Theorem C13_serialize_spec :
  forall sr m,
  NoDup (map fst sr) ->
  ((exists m', serialize sr m = Ok m') <-> all_fields_ok sr m) /\
  (forall m', serialize sr m = Ok m' -> serialized_once sr m m').
Proof. exact serialize_spec. Qed.
Print Assumptions C13_serialize_spec.

Theorem C13_serialize_err_spec :
  forall sr m e,
  NoDup (map fst sr) -> serialize sr m = Err e ->
  exists pre k f suf,
    sr = pre ++ (k, f) :: suf /\ all_fields_ok pre m /\
    ((fget k m = None /\ e = key_error k) \/ (exists v, fget k m = Some v /\ f v = Err e)).
Proof. exact serialize_err_spec. Qed.
Print Assumptions C13_serialize_err_spec.

Theorem C13_delivered_once :
  forall cfg c s m sr m1,
  NoDup (map fst sr) -> serialize sr m = Ok m1 -> any_added s = true ->
  logger_write cfg c s m (Some sr) = send c s m1 /\
  serialized_once sr m m1 /\
  exists reports,
    ext (fupdate m1 (globals s) :: reports) s (logger_write cfg c s m (Some sr)) /\
    (forall k, fget k (globals s) = None -> fget k (fupdate m1 (globals s)) = fget k m1).
Proof. exact OutputSerialize.C13_delivered_once. Qed.
Print Assumptions C13_delivered_once.

Theorem C13_logger_write_failure_contained :
  forall cfg c s m sr e,
  serialize sr m = Err e ->
  logger_write cfg c s m (Some sr) =
    (let s1 := write_traceback cfg c s e in
     let '(s3, fm) := stamp_here s1 c (VTypeName T_serialization_failure)
                        (fset K_message (render_of m) []) in
     send c s3 fm).
Proof. exact logger_write_failure_contained. Qed.
Print Assumptions C13_logger_write_failure_contained.

(* on failure the destinations are offered tracebacks, the serialization failure and
   reports only -- never the message -- and the non-reports are, in order: (the traceback
   of a raising exception extractor, if one is registered for the exception,) one
   eliot:traceback, one eliot:serialization_failure *)
Theorem C13_failure_contained_types :
  forall cfg c s m sr e,
  serialize sr m = Err e -> any_added s = true -> fget K_mtype (globals s) = None ->
  exists l,
    ext l s (logger_write cfg c s m (Some sr)) /\
    Forall (fun x => fget K_mtype x = Some (VTypeName T_traceback) \/
                     fget K_mtype x = Some (VTypeName T_serialization_failure) \/
                     fget K_mtype x = Some (VTypeName T_destination_failure)) l /\
    map (fget K_mtype) (nonreports l) =
      extractor_tb cfg e ++ [Some (VTypeName T_traceback); Some (VTypeName T_serialization_failure)].
Proof. exact OutputSerialize.C13_failure_contained_types. Qed.
Print Assumptions C13_failure_contained_types.

(* the eliot:serialization_failure message carries the rendering of the failed message *)
Theorem C13_failure_message :
  forall cfg c s m sr e,
  serialize sr m = Err e -> any_added s = true -> fget K_mtype (globals s) = None ->
  exists l1 u lv rs,
    ext (l1 ++ fupdate (stamp u lv (VTypeName T_serialization_failure)
                          (fset K_message (render_of m) [])) (globals s) :: rs)
        s (logger_write cfg c s m (Some sr)) /\
    shape (extractor_tb cfg e ++ [Some (VTypeName T_traceback)]) l1 /\ Forall rep_msg rs.
Proof. exact OutputSerialize.C13_failure_message. Qed.
Print Assumptions C13_failure_message.

Theorem C13_failure_contained_exactly :
  forall cfg c s m sr e,
  serialize sr m = Err e -> any_added s = true -> fget K_mtype (globals s) = None ->
  (forall e', first_registered (registry cfg) (mro_of cfg (e_cls e)) <> Some (XRaise e')) ->
  exists l,
    ext l s (logger_write cfg c s m (Some sr)) /\
    map (fget K_mtype) (nonreports l) =
      [Some (VTypeName T_traceback); Some (VTypeName T_serialization_failure)].
Proof. exact OutputSerialize.C13_failure_contained_exactly. Qed.
Print Assumptions C13_failure_contained_exactly.

(* no serializer, no failing destination: the destinations get the caller's dictionary
   plus the global fields and nothing else changes *)
Theorem C13_logger_write_caller_untouched :
  forall cfg c s m,
  any_added s = true ->
  flat_map (failure_of (fupdate m (globals s))) (dests s) = [] ->
  let s' := logger_write cfg c s m None in
  ext [fupdate m (globals s)] s s' /\
  heap s' = heap s /\ ctx s' = ctx s /\ tokens s' = tokens s /\ next_uuid s' = next_uuid s /\
  buffer s' = buffer s /\ ids s' = ids s /\ probes s' = probes s.
Proof. exact logger_write_caller_untouched. Qed.
Print Assumptions C13_logger_write_caller_untouched.
