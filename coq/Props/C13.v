(* C13 — typed fields are serialized exactly once; serializer failures are contained. *)
From Coq Require Import List.
Require Import Eliot.Base.Level Eliot.Model.Core Eliot.Proofs.CoreBasics.
Import ListNotations.

Theorem C13_missing_field_fails :
  forall k f r m, fget k m = None -> serialize ((k, f) :: r) m = Err (key_error k).
Proof. exact serialize_missing. Qed.
Print Assumptions C13_missing_field_fails.

Theorem C13_failing_serializer_fails :
  forall k f r m v e, fget k m = Some v -> f v = Err e -> serialize ((k, f) :: r) m = Err e.
Proof. exact serialize_field_fails. Qed.
Print Assumptions C13_failing_serializer_fails.

Theorem C13_serializer_applied :
  forall k f r m v v', fget k m = Some v -> f v = Ok v' ->
    serialize ((k, f) :: r) m = serialize r (fset k v' m).
Proof. exact serialize_step. Qed.
Print Assumptions C13_serializer_applied.
