(* C12 — start-up buffering and (un)registration lose and duplicate no message. *)
From Coq Require Import List PArith NArith ZArith Bool Arith.
Require Import Eliot.Base.Level Eliot.Model.Core Eliot.Model.Prog Eliot.Model.Handover.
Require Eliot.Proofs.HandoverProofs.
Import ListNotations.

(* Histories.  For every history of log / add_destinations / remove_destination /
   add_global_fields calls (any length, more than 1000 buffered messages, several
   destinations per call; destination objects distinct, fresh, never raising) every
   destination has been offered exactly [spec_received] (Model/Handover.v): if it
   was registered by the first add, the most recent 1000 messages logged before,
   in order, stamped with the global fields of their log time and again with those
   of the add, then the messages logged until its removal; if registered later,
   only the messages logged after its registration; nothing after removal.  List
   equality: exactly once, in order, buffered ones ahead of later ones. *)
Theorem C12_history : forall cfg h id,
  wf_history h ->
  trace_of (run cfg (map hop_op h) init_state) id = spec_received id h.
Proof. exact Eliot.Proofs.HandoverProofs.C12_history. Qed.
Print Assumptions C12_history.

(* Retention: the buffer keeps exactly the most recent [buffer_cap] (= 1000)
   messages, in order, for any number of messages. *)
Theorem C12_buffer_cap : forall b l : list msg,
  length b <= buffer_cap ->
  fold_left buffer_add l b = lastn buffer_cap (b ++ l) /\
  length (fold_left buffer_add l b) = Nat.min (length b + length l) buffer_cap /\
  exists dropped, b ++ l = dropped ++ fold_left buffer_add l b.
Proof. exact Eliot.Proofs.HandoverProofs.C12_buffer_cap. Qed.
Print Assumptions C12_buffer_cap.

(* Global fields, for ALL destination behaviours: after any history h the next call
   x offers every registered destination the same list l (logged message, re-sent
   buffered messages, failure reports) and every message of l carries every global
   field set by h, with its latest value. *)
Theorem C12_global_fields : forall cfg h x,
  let s := run cfg (map hop_op h) init_state in
  let s' := run cfg (map hop_op (h ++ [x])) init_state in
  exists l, Forall (carries (globals_after [] h)) l /\
    map d_id (dests s') = map d_id (dests_after s x) /\
    map d_log (dests s') = map (fun d => d_log d ++ l) (dests_after s x).
Proof. exact Eliot.Proofs.HandoverProofs.C12_global_fields. Qed.
Print Assumptions C12_global_fields.

(* Hand-over (send in one thread, the first add in another; line-granular
   interleaving model of the code as it is now), for ALL schedules: *)
Theorem C12_handover_no_dup : forall pre m sched,
  NoDup (pre ++ [m]) -> NoDup (delivered (rrun sched (rinit pre m))).
Proof. exact Eliot.Proofs.HandoverProofs.C12_handover_no_dup. Qed.
Print Assumptions C12_handover_no_dup.

Theorem C12_handover_no_loss : forall pre m sched,
  finished (rrun sched (rinit pre m)) = true ->
  forall x, In x (pre ++ [m]) -> In x (delivered (rrun sched (rinit pre m))).
Proof. exact Eliot.Proofs.HandoverProofs.C12_handover_no_loss. Qed.
Print Assumptions C12_handover_no_loss.

Theorem C12_handover_order : forall pre m sched,
  (exists k, delivered (rrun sched (rinit pre m)) = firstn k (pre ++ [m])) /\
  (finished (rrun sched (rinit pre m)) = true ->
   delivered (rrun sched (rinit pre m)) = pre ++ [m]).
Proof. exact Eliot.Proofs.HandoverProofs.C12_handover_order. Qed.
Print Assumptions C12_handover_order.

Theorem C12_handover_no_deadlock : forall pre m sched,
  let st := rrun sched (rinit pre m) in
  finished st = false -> label st 0 <> 0 \/ label st 1 <> 0.
Proof. exact Eliot.Proofs.HandoverProofs.C12_handover_no_deadlock. Qed.
Print Assumptions C12_handover_no_deadlock.

(* The unsynchronised hand-over of the code before the repair violated the
   property: loss via the orphaned buffer, loss via the empty list, overtaking. *)
Theorem C12_handover_legacy_refuted :
  (exists sched, let st := Legacy.rrun sched (Legacy.rinit [1] 2) in
     Legacy.finished st = true /\ ~ In 2 (Legacy.delivered st) /\ buf (Legacy.sh st) = [1; 2]) /\
  (exists sched, let st := Legacy.rrun sched (Legacy.rinit [1] 2) in
     Legacy.finished st = true /\ ~ In 2 (Legacy.delivered st) /\ buf (Legacy.sh st) = [1]) /\
  (exists sched, let st := Legacy.rrun sched (Legacy.rinit [1] 2) in
     Legacy.finished st = true /\ Legacy.delivered st = [2; 1]).
Proof. exact Eliot.Proofs.HandoverProofs.C12_handover_legacy_refuted. Qed.
Print Assumptions C12_handover_legacy_refuted.
