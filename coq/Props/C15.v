(* C15 — decorated generators keep their own action context and stay transparent.
   Statements only; proofs are in Proofs/GeneratorsProofs.v, the model in Model/Generators.v. *)
From Coq Require Import List Arith Bool.
Require Import Eliot.Model.Generators Eliot.Proofs.GeneratorsProofs.
Import ListNotations.

(* For all generator bodies, all driver scripts (any length, any interleaving of
   several generators, nested resumptions) and every generator g: every context
   operation g executes sees (a copy of its resumer's context at g's first
   resumption) updated by g's own earlier operations -- whatever the driver's
   context is at later resumptions and whatever other generators do. *)
Theorem C15_own_context :
  forall (fuel : nat) (bodies : list body) (script : list dstep) (g : gid),
    chain g cinit (hist (run_wrapped fuel bodies script)).
Proof. exact own_context_wrapped. Qed.
Print Assumptions C15_own_context.

(* Each DResume leaves the driver in the thread's own context with unchanged content. *)
Theorem C15_driver_unchanged :
  forall (fuel : nat) (bodies : list body) (script : list dstep) (g : gid) (i : input),
    let w := run_wrapped fuel bodies script in
    let w' := run_dstep (resume false fuel) (DResume g i) w in
    w_stack w = [] /\ w_stack w' = [] /\ w_main w' = w_main w /\ cur_ctx w' = cur_ctx w.
Proof. exact driver_unchanged_script. Qed.
Print Assumptions C15_driver_unchanged.

(* The same for any caller in any world (a generator resuming another one). *)
Theorem C15_caller_unchanged :
  forall (legacy : bool) (fuel : nat) (g : gid) (i : input) (w : world),
    let w' := fst (resume legacy fuel g i w) in
    w_stack w' = w_stack w /\ w_main w' = w_main w /\ cur_ctx w' = cur_ctx w.
Proof. exact driver_unchanged. Qed.
Print Assumptions C15_caller_unchanged.

(* Driving the wrapper and driving the inner automaton directly give the same trace:
   every value returned by next/send/throw/close, StopIteration values, exceptions,
   all context observations. *)
Theorem C15_transparent :
  forall (fuel : nat) (bodies : list body) (script : list dstep),
    w_trace (run_wrapped fuel bodies script) = w_trace (run_direct fuel bodies script) /\
    w_main (run_wrapped fuel bodies script) = w_main (run_direct fuel bodies script).
Proof. exact transparent. Qed.
Print Assumptions C15_transparent.

(* The wrapper before commit 965c353 (`break` on StopIteration) is not transparent. *)
Theorem C15_transparent_legacy_refuted :
  exists fuel bodies script,
    w_trace (run_legacy fuel bodies script) <> w_trace (run_direct fuel bodies script).
Proof. exact transparent_legacy_refuted. Qed.
Print Assumptions C15_transparent_legacy_refuted.
