(* C03 — each action logs exactly one start and one truthful end; errors pass through. *)
From Coq Require Import List.
Require Import Eliot.Base.Level Eliot.Model.Core Eliot.Proofs.CoreBasics.
Import ListNotations.

(* finishing again emits nothing and changes nothing *)
Theorem C03_finish_idempotent :
  forall cfg c s h a exc, alookup h (heap s) = Some a -> a_finished a = true -> finish cfg c s h exc = s.
Proof. exact finish_idempotent. Qed.
Print Assumptions C03_finish_idempotent.
