(* C03 — each action logs exactly one start and one truthful end; errors pass through. *)
From Coq Require Import List.
Require Import Eliot.Base.Level Eliot.Model.Core Eliot.Model.Prog Eliot.Proofs.CoreBasics Eliot.Proofs.CtxFrame Eliot.Proofs.CtxRestore.
Import ListNotations.

(* finishing again emits nothing and changes nothing *)
Theorem C03_finish_idempotent :
  forall cfg c s h a exc, alookup h (heap s) = Some a -> a_finished a = true -> finish cfg c s h exc = s.
Proof. exact finish_idempotent. Qed.
Print Assumptions C03_finish_idempotent.

(* after finish the action is marked finished, keeping its identity and saved token *)
Theorem C03_finish_marks_finished :
  forall cfg c s h a exc, alookup h (heap s) = Some a ->
    exists a', alookup h (heap (finish cfg c s h exc)) = Some a' /\ a_finished a' = true /\
               a_uuid a' = a_uuid a /\ a_level a' = a_level a /\ a_token a' = a_token a.
Proof. exact finish_marks_finished. Qed.
Print Assumptions C03_finish_marks_finished.

(* at most one end message: a second finish (any outcome, any context, any handle) is the identity *)
Theorem C03_finish_twice :
  forall cfg c c' s h exc exc', finish cfg c' (finish cfg c s h exc) h exc' = finish cfg c s h exc.
Proof. exact CtxRestore.C03_finish_twice. Qed.
Print Assumptions C03_finish_twice.

(* the first finish is: mark finished, run the extractor, take the next position, Logger.write(finish_message) *)
Theorem C03_finish_unfold :
  forall cfg c s h a exc, alookup h (heap s) = Some a -> a_finished a = false ->
    finish cfg c s h exc =
      (let '(s1, xf) := extract cfg c (set_heap s h (mark_finished a)) exc in
       let '(s2, l) := take_level s1 h in
       logger_write cfg c s2 (finish_message a l exc xf) (finish_ser a exc)).
Proof. exact finish_unfold. Qed.
Print Assumptions C03_finish_unfold.

(* ... where the extra fields are those registered for the nearest class in the exception's MRO *)
Theorem C03_finish_unfold_extracted :
  forall cfg c s h a exc, alookup h (heap s) = Some a -> a_finished a = false ->
    exists s2 l, finish cfg c s h exc =
      logger_write cfg c s2 (finish_message a l exc (extracted cfg exc)) (finish_ser a exc).
Proof. exact finish_unfold_extracted. Qed.
Print Assumptions C03_finish_unfold_extracted.

(* the end message says failed exactly when an exception (of any class) escaped, and then names it *)
Theorem C03_status_truthful :
  forall a l exc xf,
    (fget K_status (finish_message a l exc xf) = Some (VStatus Failed) <-> exc <> None) /\
    (fget K_status (finish_message a l exc xf) = Some (VStatus Succeeded) <-> exc = None) /\
    (forall e, exc = Some e ->
       fget K_exception (finish_message a l exc xf) = Some (VClassName (e_cls e)) /\
       fget K_reason (finish_message a l exc xf) = Some (safe_str e)) /\
    fget K_uuid (finish_message a l exc xf) = Some (VUuid (a_uuid a)) /\
    fget K_level (finish_message a l exc xf) = Some (VLevel l) /\
    fget K_atype (finish_message a l exc xf) = Some (a_type a).
Proof. exact CtxRestore.C03_status_truthful. Qed.
Print Assumptions C03_status_truthful.

(* success fields only on a succeeded end, extractor fields only on a failed one *)
Theorem C03_other_fields :
  forall a l exc xf k,
    ~ In k [K_uuid; K_level; K_ts; K_atype; K_status; K_exception; K_reason] ->
    fget k (finish_message a l exc xf) = match exc with None => fget k (a_succ a) | Some _ => fget k xf end.
Proof. exact CtxRestore.C03_other_fields. Qed.
Print Assumptions C03_other_fields.

(* an action block lets exactly its body's exception (same object) through *)
Theorem C03_same_exception :
  forall c h style task ty fs sers succ body,
    snd (compile_stmt c (SAct h style task ty fs sers succ body)) = snd (compile c body).
Proof. exact CtxRestore.C03_same_exception. Qed.
Print Assumptions C03_same_exception.

(* what escapes a program is read off the program text: no state, registry, destination or serializer is consulted *)
Theorem C03_outcome_independent :
  forall cfg cfg' pre pre' p c,
    snd (run_prog cfg pre p) = outcome p /\
    snd (run_prog cfg' pre' p) = snd (run_prog cfg pre p) /\
    snd (compile c p) = snd (run_prog cfg pre p).
Proof. exact CtxRestore.C03_outcome_independent. Qed.
Print Assumptions C03_outcome_independent.
