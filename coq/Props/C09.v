(* C09 — parsing is order-independent and detects task completeness exactly.
   (first layer; the parser_spec development extends this file) *)
From Coq Require Import List PArith.
Require Import Eliot.Base.Level Eliot.Model.Parser Eliot.Proofs.ParserBasics.
Import ListNotations.

Theorem C09_lookup_after_insert :
  forall (A : Type) (k : level) (v : A) l, llookup k (linsert k v l) = Some v.
Proof. exact @llookup_linsert_same. Qed.
Print Assumptions C09_lookup_after_insert.
