(* C09 — parsing is order-independent and detects task completeness exactly.
   For ALL forests, ALL subsets and ALL arrival orders (no bound on size or depth). *)
From Coq Require Import List PArith Permutation.
Require Import Eliot.Base.Level Eliot.Model.Parser Eliot.Model.Forest.
Require Import Eliot.Proofs.ParserBasics Eliot.Proofs.ParserOrder Eliot.Proofs.ParserInterleave
  Eliot.Proofs.ParserTree Eliot.Proofs.ParserStep Eliot.Proofs.ParserRun Eliot.Proofs.ParserSpec Eliot.Proofs.ParserIds.
Import ListNotations.

Theorem C09_lookup_after_insert :
  forall (A : Type) (k : level) (v : A) l, llookup k (linsert k v l) = Some v.
Proof. exact @llookup_linsert_same. Qed.
Print Assumptions C09_lookup_after_insert.

(* any subset of the messages of any forest, in any order, parses without error *)
Theorem C09_no_error :
  forall (f : forest) (ms : list pmsg),
    NoDup ms -> incl ms (lin f) -> exists r, parse_loop [] ms [] = POk r.
Proof. exact parser_no_error. Qed.
Print Assumptions C09_no_error.

(* the result does not depend on the arrival order: same remaining parser map,
   same completed tasks up to their completion order *)
Theorem C09_order_independent :
  forall (f : forest) (ms ms' : list pmsg),
    NoDup ms -> incl ms (lin f) -> Permutation ms ms' ->
    exists d d' p,
      parse_loop [] ms [] = POk (d, p) /\ parse_loop [] ms' [] = POk (d', p) /\ Permutation d d'.
Proof. exact parser_order_independent. Qed.
Print Assumptions C09_order_independent.

(* for the messages of a single task the two results are equal *)
Theorem C09_order_independent_single :
  forall (f : forest) (ms ms' : list pmsg) (u : nat),
    NoDup ms -> incl ms (lin f) -> Permutation ms ms' -> (forall m, In m ms -> pm_uuid m = u) ->
    exists d p, parse_loop [] ms [] = POk (d, p) /\ parse_loop [] ms' [] = POk (d, p).
Proof. exact parser_order_independent_single. Qed.
Print Assumptions C09_order_independent_single.

(* a task is returned exactly at the step where the last of its messages arrives,
   once; what remains at the end are the tasks with some but not all messages, as
   the partial trees of the received subset *)
Theorem C09_complete_exact :
  forall (f : forest) (ms : list pmsg),
    NoDup ms -> incl ms (lin f) ->
    exists cs p,
      parse_trace [] ms = POk (cs, p) /\ parse_loop [] ms [] = POk (concat cs, p) /\
      length cs = length ms /\
      (forall i m, nth_error ms i = Some m ->
         exists c, nth_error cs i = Some c /\
           (all_received f (pm_uuid m) (firstn (S i) ms) ->
              exists t, c = [t] /\ final_task f (pm_uuid m) t /\ task_complete t = true) /\
           (~ all_received f (pm_uuid m) (firstn (S i) ms) -> c = [])) /\
      (forall i j m m', i < j -> nth_error ms i = Some m -> nth_error ms j = Some m' ->
         pm_uuid m = pm_uuid m' -> nth_error cs i = Some []) /\
      (forall u, ulookup u p <> None <-> some_received u ms /\ ~ all_received f u ms) /\
      (forall u t, ulookup u p = Some t ->
         exists T, nth_error f u = Some T /\ is_act T = true /\ task_complete t = false /\
                   task_root t = Some (node_of (lin_id f u) u (recv ms u) [] T)).
Proof. exact parser_complete_exact. Qed.
Print Assumptions C09_complete_exact.

(* the completed value of a task is unique and its root is the whole tree *)
Theorem C09_final_task_unique :
  forall (f : forest) (u : nat) (t t' : task), final_task f u t -> final_task f u t' -> t = t'.
Proof. exact final_task_unique. Qed.
Print Assumptions C09_final_task_unique.

Theorem C09_final_task_root :
  forall (f : forest) (u : nat) (t : task) (T : tree),
    final_task f u t -> nth_error f u = Some T -> is_act T = true ->
    task_root t = Some (node_of (lin_id f u) u (fun _ => true) [] T).
Proof. exact final_task_root. Qed.
Print Assumptions C09_final_task_root.

(* tasks with different uuids do not affect each other: what the parser returns at
   the messages of u, and the task left for u, are those of parsing u's messages alone *)
Theorem C09_interleaving :
  forall (f : forest) (ms : list pmsg) (u : nat),
    NoDup ms -> incl ms (lin f) ->
    exists cs p,
      parse_trace [] ms = POk (cs, p) /\
      parse_trace [] (only u ms) = POk (select u ms cs, restrict p u).
Proof. exact parser_interleaving. Qed.
Print Assumptions C09_interleaving.

(* ... for any two streams (not only forests) that parse and have the same u-subsequence *)
Theorem C09_interleaving_same_subsequence :
  forall (ms ms' : list pmsg) (cs cs' : list (list task)) (p p' : parser) (u : nat),
    only u ms = only u ms' ->
    parse_trace [] ms = POk (cs, p) -> parse_trace [] ms' = POk (cs', p') ->
    ulookup u p = ulookup u p' /\ select u ms cs = select u ms' cs'.
Proof. exact interleaving_same_subsequence. Qed.
Print Assumptions C09_interleaving_same_subsequence.

(* the state of one task is a function of the set of received messages: add_step *)
Theorem C09_task_add_step :
  forall (idf : level -> nat) (u : nat) (T : tree), is_act T = true ->
  forall (R : level -> bool) (t : task) (m : pmsg),
    Inv idf u T R t -> In m (lin_tree idf u [] T) -> R (pm_level m) = false ->
    exists t', task_add t m = POk t' /\ Inv idf u T (addl (pm_level m) R) t'.
Proof. exact task_add_step. Qed.
Print Assumptions C09_task_add_step.

(* the messages of a forest are distinct and numbered in emission order *)
Theorem C09_lin_nodup : forall f : forest, NoDup (lin f).
Proof. exact lin_nodup. Qed.
Print Assumptions C09_lin_nodup.

Theorem C09_lin_ids : forall f : forest, map pm_id (lin f) = seq 0 (length (lin f)).
Proof. exact lin_ids. Qed.
Print Assumptions C09_lin_ids.
