(* C17 — test helpers reconstruct the same action tree as the parser. (first layer) *)
From Coq Require Import List PArith.
Require Import Eliot.Base.Level Eliot.Model.Parser Eliot.Model.Testing Eliot.Proofs.TestingBasics.
Import ListNotations.

(* LoggedMessage.of_type returns exactly the messages of that type, in log order *)
Theorem C17_messages_of_type :
  forall all ty m, In m (messages_of_type all ty) <-> In m all /\ lm_mtype m = Some ty.
Proof. exact messages_of_type_spec. Qed.
Print Assumptions C17_messages_of_type.
