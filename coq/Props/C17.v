(* C17 — test helpers reconstruct the same action tree as the parser. (first layer) *)
From Coq Require Import List PArith.
Require Import Eliot.Base.Level Eliot.Model.Parser Eliot.Model.Forest Eliot.Model.Testing Eliot.Proofs.TestingBasics.
Require Import Eliot.Proofs.ParserTree Eliot.Proofs.ParserRun Eliot.Proofs.TestingLin Eliot.Proofs.TestingScan Eliot.Proofs.TestingSpec Eliot.Proofs.TestingTrunc.
Import ListNotations.

(* LoggedMessage.of_type returns exactly the messages of that type, in log order *)
Theorem C17_messages_of_type :
  forall all ty m, In m (messages_of_type all ty) <-> In m all /\ lm_mtype m = Some ty.
Proof. exact messages_of_type_spec. Qed.
Print Assumptions C17_messages_of_type.

(* ---- second layer: all forests (Proofs/Testing{Lin,Scan,Spec,Trunc}.v) ------------------- *)

Theorem C17_log : forall f : forest, map to_pmsg (llin f) = lin f.
Proof. exact llin_lin. Qed.
Print Assumptions C17_log.

Theorem C17_log_ids : forall f : forest, map lm_id (llin f) = seq 0 (length (llin f)).
Proof. exact llin_ids. Qed.
Print Assumptions C17_log_ids.

(* fromMessages rebuilds, for every action of every forest, exactly its own start and end
   message and its direct children (recursively) in emission order *)
Theorem C17_from_messages :
  forall (f : forest) (u : nat) (T : tree) (l : level) (a : tree),
    nth_error f u = Some T -> subtree_at T l = Some a -> is_act a = true ->
    from_messages (S (max_depth (llin f))) u (l ++ [1%positive]) (llin f)
    = TOk (logged_of (lin_id f u) u l a).
Proof. exact from_messages_spec. Qed.
Print Assumptions C17_from_messages.

Theorem C17_prefix_matching :
  forall (f : forest) (u : nat) (T : tree) (l : level) ty st ch (m : lmsg),
    nth_error f u = Some T -> subtree_at T l = Some (TAct ty st ch) -> In m (llin f) -> lm_uuid m = u ->
    (own l (lm_level m) = true <->
       m = lstart (lin_id f u) u l ty \/ m = lend (lin_id f u) u l ty st (endpos 2 ch) \/
       exists p ty', child_from 2 ch p = Some (TMsg ty') /\ m = lplain (lin_id f u) u (l ++ [p]) ty') /\
    (child_start l (lm_level m) = true <->
       exists p ty' st' ch', child_from 2 ch p = Some (TAct ty' st' ch') /\ m = lstart (lin_id f u) u (l ++ [p]) ty') /\
    (own l (lm_level m) = true -> child_start l (lm_level m) = false).
Proof. exact prefix_matching_llin. Qed.
Print Assumptions C17_prefix_matching.

(* of_type: one entry per action of that type, at every depth, in emission order *)
Theorem C17_of_type :
  forall (f : forest) (ty : positive),
    of_type (llin f) ty = TOk (map (logged_at f) (acts_of_type f ty)).
Proof. exact of_type_spec. Qed.
Print Assumptions C17_of_type.

Theorem C17_acts :
  forall (f : forest) (u : nat) (l : level) (a : tree),
    In (u, l, a) (acts f) <->
    exists T, nth_error f u = Some T /\ subtree_at T l = Some a /\ is_act a = true.
Proof. exact acts_In. Qed.
Print Assumptions C17_acts.

(* the helper's tree is the parser's tree for the same messages *)
Theorem C17_same_as_parser :
  forall (idf : level -> nat) (u : nat) (t : tree) (l : level),
    shape_of_logged (logged_of idf u l t) = shape_of_node (node_of idf u (fun _ => true) l t).
Proof. exact logged_node_shape. Qed.
Print Assumptions C17_same_as_parser.

Theorem C17_same_messages_as_parser :
  forall (idf : level -> nat) (u : nat) (t : tree) (l : level),
    mshape_of_logged (logged_of idf u l t) = mshape_of_node (node_of idf u (fun _ => true) l t).
Proof. exact logged_node_same. Qed.
Print Assumptions C17_same_messages_as_parser.

Theorem C17_same_as_parser_task :
  forall (f : forest) (u : nat) (T : tree) (l : level) (a : tree) (t : task),
    nth_error f u = Some T -> subtree_at T l = Some a -> is_act a = true -> final_task f u t ->
    exists root n,
      task_root t = Some root /\ node_at root l = Some n /\
      n = node_of (lin_id f u) u (fun _ => true) l a /\
      shape_of_logged (logged_of (lin_id f u) u l a) = shape_of_node n /\
      mshape_of_logged (logged_of (lin_id f u) u l a) = mshape_of_node n.
Proof. exact same_as_parser. Qed.
Print Assumptions C17_same_as_parser_task.

Theorem C17_descendants :
  forall (idf : level -> nat) (u : nat) (t : tree) (l : level),
    logged_of idf u l t :: descendants (logged_of idf u l t) = pre_tree idf u l t.
Proof. exact descendants_spec. Qed.
Print Assumptions C17_descendants.

Theorem C17_descendants_emission_order :
  forall (idf : level -> nat) (u : nat) (t : tree) (l : level),
    map first_msg (pre_tree idf u l t)
    = filter (fun m => negb (is_completed (lm_status m))) (llin_tree idf u l t).
Proof. exact pre_tree_emission. Qed.
Print Assumptions C17_descendants_emission_order.

Theorem C17_type_tree :
  forall (idf : level -> nat) (u : nat) (t : tree) (l : level),
    type_tree (logged_of idf u l t) = ttree_of t.
Proof. exact type_tree_spec. Qed.
Print Assumptions C17_type_tree.

Theorem C17_succeeded :
  forall (idf : level -> nat) (u : nat) (l : level) ty st ch,
    succeeded (logged_of idf u l (TAct ty st ch)) = true <-> end_status st = PSucceeded.
Proof. exact succeeded_iff. Qed.
Print Assumptions C17_succeeded.

(* truncated logs: of_type fails exactly when a started action of the type, or a started
   descendant action, lacks its end message *)
Theorem C17_of_type_truncated :
  forall (f : forest) (ty : positive) (j : nat),
    of_type (firstn j (llin f)) ty =
    if forallb (ended f j) (started_of_type f ty j)
    then TOk (map (logged_at f) (started_of_type f ty j))
    else TValueError.
Proof. exact of_type_truncated. Qed.
Print Assumptions C17_of_type_truncated.

Theorem C17_of_type_truncated_error :
  forall (f : forest) (ty : positive) (j : nat),
    of_type (firstn j (llin f)) ty = TValueError <->
    exists x rel y,
      In x (acts_of_type f ty) /\ In (start_at f x) (firstn j (llin f)) /\
      subtree_at (act_tree x) rel = Some y /\ is_act y = true /\
      In (start_at f (act_uuid x, act_level x ++ rel, y)) (firstn j (llin f)) /\
      ~ In (end_at f (act_uuid x, act_level x ++ rel, y)) (firstn j (llin f)).
Proof. exact of_type_truncated_error_desc. Qed.
Print Assumptions C17_of_type_truncated_error.
