(* C20 — bundled readers render every message completely and survive foreign input.
   Statements only; proofs are in Proofs/PrettyProofs.v.

   V is the type of field values; pformat, dumps, to_str, level_strs, render_ts stand for
   pprint.pformat(v, width=40), json.dumps(v, separators=(",", ":")), "%s" % v,
   list(map(str, v)) and _render_timestamp (None: the call raises).  Text is a list of
   Unicode code points; [u "..."] is an ASCII literal. *)
From Coq Require Import Ascii String NArith Bool List Sorting.Sorted Sorting.Permutation.
Require Import Eliot.Model.Pretty Eliot.Proofs.PrettyProofs.
Import ListNotations.

(* both formats accept every message whose header fields are present and well-typed, and begin
   with task_uuid, "/"-joined task_level and the rendered timestamp; the pretty form then consists
   of one "  name: value" block per entry of [ordered_fields], the compact form of their
   name=json parts joined by single spaces *)
Theorem C20_header :
  forall (V : Type) (pformat dumps to_str : V -> ustr) (level_strs : V -> option (list ustr))
         (render_ts : V -> option ustr) (m : message V) (uu l t : V) (ls : list ustr) (ts : ustr),
  lookup V K_task_uuid m = Some uu -> lookup V K_task_level m = Some l -> lookup V K_timestamp m = Some t ->
  level_strs l = Some ls -> render_ts t = Some ts ->
  pretty_format V pformat to_str level_strs render_ts m =
    Some (to_str uu ++ u " -> " ++ (slash :: join [slash] ls) ++ [nl] ++ ts ++ [nl]
          ++ concat (map (fun kv => add_field V pformat (fst kv) (snd kv)) (ordered_fields V m)))
  /\ compact_format V dumps to_str level_strs render_ts m =
    Some (to_str uu ++ (slash :: join [slash] ls) ++ [space] ++ ts ++ [space]
          ++ join [space] (map (fun kv => fst kv ++ u "=" ++ dumps (snd kv)) (ordered_fields V m))).
Proof. exact format_header. Qed.
Print Assumptions C20_header.

(* the fields shown after the header: every field of the message other than task_uuid, task_level,
   timestamp exactly once with its value and nothing else; action_type, message_type,
   action_status first in this order, the others sorted by name *)
Theorem C20_complete :
  forall (V : Type) (m : message V),
  NoDup (map fst m) ->
  (forall k v, In (k, v) m -> is_required k = false -> shown_once V k v (ordered_fields V m))
  /\ Permutation (ordered_fields V m) (filter (fun kv => negb (is_required (fst kv))) m)
  /\ exists rest,
       ordered_fields V m =
         present V K_action_type m ++ present V K_message_type m ++ present V K_action_status m ++ rest
       /\ StronglySorted (item_lt V) rest
       /\ Forall (fun kv => is_skipped (fst kv) = false) rest.
Proof. exact fields_complete. Qed.
Print Assumptions C20_complete.

(* the compact form is one line when the uuid, the level components, the timestamp text, the field
   names and the JSON encodings contain no newline; its parts are name=json of the shown fields *)
Theorem C20_compact_one_line :
  forall (V : Type) (dumps to_str : V -> ustr) (level_strs : V -> option (list ustr))
         (render_ts : V -> option ustr) (m : message V) (uu l t : V) (ls : list ustr) (ts : ustr),
  lookup V K_task_uuid m = Some uu -> lookup V K_task_level m = Some l -> lookup V K_timestamp m = Some t ->
  level_strs l = Some ls -> render_ts t = Some ts ->
  no_nl (to_str uu) -> Forall no_nl ls -> no_nl ts ->
  (forall k v, In (k, v) m -> is_required k = false -> no_nl k /\ no_nl (dumps v)) ->
  exists s, compact_format V dumps to_str level_strs render_ts m = Some s /\ no_nl s
    /\ s = to_str uu ++ (slash :: join [slash] ls) ++ [space] ++ ts ++ [space]
           ++ join [space] (map (fun kv => fst kv ++ u "=" ++ dumps (snd kv)) (ordered_fields V m)).
Proof. exact compact_one_line. Qed.
Print Assumptions C20_compact_one_line.

(* eliot-prettyprint reaches the end of every input and writes, line by line in order, "Not JSON",
   "Not an Eliot message" or the formatted message — provided accepted objects have well-typed
   required fields *)
Theorem C20_cli_total :
  forall (V : Type) (pformat dumps to_str : V -> ustr) (level_strs : V -> option (list ustr))
         (render_ts : V -> option ustr) (compact : bool) (ls : list (line V)),
  Forall (line_guard V level_strs render_ts) ls ->
  exists pieces,
    main V pformat dumps to_str level_strs render_ts compact ls = (pieces, true)
    /\ Forall2 (piece_of V pformat dumps to_str level_strs render_ts compact) ls pieces.
Proof. exact cli_total. Qed.
Print Assumptions C20_cli_total.

(* eliot.filter: one output line per input line whose value is not SKIP, in order, each the encoding
   of the expression's value *)
Theorem C20_filter_skip :
  forall (J R : Type) (expr : J -> fres R) (encode : R -> ustr) (js : list J),
  Forall (fun j => expr j <> FRaise) js ->
  filter_run J R expr encode (map Some js) =
    (flat_map (fun j => match expr j with FValue r => [encode r ++ [nl]] | _ => [] end) js, true).
Proof. exact filter_skip. Qed.
Print Assumptions C20_filter_skip.

(* the identity expression writes every message, and decoding what was written gives them back *)
Theorem C20_filter_identity :
  forall (J : Type) (encode : J -> ustr) (js : list J),
  filter_run J J (fun j => FValue j) encode (map Some js) = (map (fun j => encode j ++ [nl]) js, true)
  /\ forall decode : ustr -> option J,
       (forall j, decode (encode j) = Some j) ->
       map (fun o => decode (removelast o)) (fst (filter_run J J (fun j => FValue j) encode (map Some js)))
       = map Some js.
Proof. exact filter_identity. Qed.
Print Assumptions C20_filter_identity.
