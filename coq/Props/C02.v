(* C02 — every message is uniquely and contiguously placed by task_uuid/task_level. *)
From Coq Require Import List PArith.
Require Import Eliot.Base.Level Eliot.Model.Core Eliot.Proofs.CoreBasics.
Import ListNotations.

(* Action._nextTaskLevel hands out task_level ++ [k+1] after k earlier requests *)
Theorem C02_next_level :
  forall a, snd (next_level a) = a_level a ++ [Pos.of_nat (S (a_last a))] /\
            a_last (fst (next_level a)) = S (a_last a) /\
            a_level (fst (next_level a)) = a_level a /\
            a_uuid (fst (next_level a)) = a_uuid a /\
            a_finished (fst (next_level a)) = a_finished a.
Proof. exact next_level_spec. Qed.
Print Assumptions C02_next_level.

(* ---- placement invariant over arbitrary operation sequences (Proofs/C02Placement.v) ---- *)
Require Import Eliot.Model.Prog Eliot.Proofs.C02Placement.

(* for every interleaving (= every list of (context, operation)) satisfying the discipline:
   no two messages offered to the observed destination share (task_uuid, task_level) *)
Theorem C02_unique :
  forall (cfg : config) (i c0 : nat) (ds : list dest) (ops : list (nat * op)),
    observed i ds -> disciplined i cfg ops (registered ds) = true ->
    NoDup (map (fun m => (fget K_uuid m, fget K_level m)) (trace_of (final cfg c0 ds ops) i)).
Proof. exact C02Placement.C02_unique. Qed.
Print Assumptions C02_unique.

(* under one owner (same uuid, same level prefix) positions are emitted in increasing order *)
Theorem C02_emission_order :
  forall (cfg : config) (i c0 : nat) (ds : list dest) (ops : list (nat * op)),
    observed i ds -> disciplined i cfg ops (registered ds) = true ->
    forall t1 m1 t2 m2 t3 u p k1 k2,
      trace_of (final cfg c0 ds ops) i = t1 ++ m1 :: t2 ++ m2 :: t3 ->
      (fget K_uuid m1, fget K_level m1) = (Some (VUuid u), Some (VLevel (p ++ [k1]))) ->
      (fget K_uuid m2, fget K_level m2) = (Some (VUuid u), Some (VLevel (p ++ [k2]))) ->
      (k1 < k2)%positive.
Proof. exact C02Placement.C02_emission_order. Qed.
Print Assumptions C02_emission_order.

(* every message carries a uuid and a non-empty level handed out by the action object
   with that uuid and level prefix, or is message [1] of a uuid no action ever had *)
Theorem C02_placed :
  forall (cfg : config) (i c0 : nat) (ds : list dest) (ops : list (nat * op)),
    observed i ds -> disciplined i cfg ops (registered ds) = true ->
    forall m, In m (trace_of (final cfg c0 ds ops) i) ->
    exists u p k,
      fget K_uuid m = Some (VUuid u) /\ fget K_level m = Some (VLevel (p ++ [Pos.of_nat k])) /\
      ((exists h a, alookup h (heap (final cfg c0 ds ops)) = Some a /\ a_uuid a = u /\ a_level a = p /\
                    1 <= k <= a_last a) \/
       (p = [] /\ k = 1 /\ u < next_uuid (final cfg c0 ds ops) /\
        forall h a, alookup h (heap (final cfg c0 ds ops)) = Some a -> a_uuid a <> u)).
Proof. exact C02Placement.C02_placed. Qed.
Print Assumptions C02_placed.

(* each child's level extends its parent's; distinct action objects own distinct (uuid, level) *)
Theorem C02_child_extends :
  forall (cfg : config) (i c0 : nat) (ds : list dest) (ops : list (nat * op)),
    observed i ds -> disciplined i cfg ops (registered ds) = true ->
    forall h a, alookup h (heap (final cfg c0 ds ops)) = Some a ->
    a_level a = [] \/
    exists hp pa k, alookup hp (heap (final cfg c0 ds ops)) = Some pa /\ a_uuid pa = a_uuid a /\
                    a_level a = a_level pa ++ [Pos.of_nat k] /\ 1 <= k <= a_last pa.
Proof. exact C02Placement.C02_child_extends. Qed.
Print Assumptions C02_child_extends.

Theorem C02_distinct_owners :
  forall (cfg : config) (i c0 : nat) (ds : list dest) (ops : list (nat * op)),
    observed i ds -> disciplined i cfg ops (registered ds) = true ->
    forall h1 h2 a1 a2,
      alookup h1 (heap (final cfg c0 ds ops)) = Some a1 ->
      alookup h2 (heap (final cfg c0 ds ops)) = Some a2 ->
      a_uuid a1 = a_uuid a2 -> a_level a1 = a_level a2 -> h1 = h2.
Proof. exact C02Placement.C02_distinct_owners. Qed.
Print Assumptions C02_distinct_owners.

(* contiguity (stronger discipline: no serializers, no position requested from a finished action):
   positions used under an action are exactly 1.._last_child, start at 1, end at the last *)
Theorem C02_contiguous :
  forall (cfg : config) (i c0 : nat) (ds : list dest) (ops : list (nat * op)),
    observed i ds -> disciplined2 i cfg ops (registered ds) = true ->
    let s := final cfg c0 ds ops in
    forall h a, alookup h (heap s) = Some a ->
      (forall k, 1 <= k ->
         (used (heap s) (ids s) (trace_of s i) (a_uuid a) (a_level a ++ [Pos.of_nat k])
          <-> k <= a_last a)) /\
      (exists m, In m (trace_of s i) /\
         (fget K_uuid m, fget K_level m) =
           (Some (VUuid (a_uuid a)), Some (VLevel (a_level a ++ [1%positive]))) /\
         fget K_status m = Some (VStatus Started)) /\
      (a_finished a = true ->
       exists m, In m (trace_of s i) /\
         (fget K_uuid m, fget K_level m) =
           (Some (VUuid (a_uuid a)), Some (VLevel (a_level a ++ [Pos.of_nat (a_last a)]))) /\
         (fget K_status m = Some (VStatus Succeeded) \/ fget K_status m = Some (VStatus Failed))).
Proof. exact C02Placement.C02_contiguous. Qed.
Print Assumptions C02_contiguous.

(* the op list of a well-formed logging program is disciplined, whatever the destinations do *)
Theorem C02_compile_disciplined :
  forall (cfg : config) (i : nat) (ds : list dest) (c : nat) (p : list stmt),
    observed i ds -> wf_prog [] p = true -> NoDup (declared p) ->
    disciplined i cfg (fst (compile c p)) (registered ds) = true.
Proof. exact C02Placement.C02_compile_disciplined. Qed.
Print Assumptions C02_compile_disciplined.

Theorem C02_unique_program :
  forall (cfg : config) (i : nat) (ds : list dest) (c0 c : nat) (p : list stmt),
    observed i ds -> wf_prog [] p = true -> NoDup (declared p) ->
    NoDup (map (fun m => (fget K_uuid m, fget K_level m))
               (trace_of (final cfg c0 ds (fst (compile c p))) i)).
Proof. exact C02Placement.C02_unique_program. Qed.
Print Assumptions C02_unique_program.

(* a position carrying a message is neither an action object's own level nor a serialized task id *)
Theorem C02_exclusive :
  forall (cfg : config) (i c0 : nat) (ds : list dest) (ops : list (nat * op)),
    observed i ds -> disciplined i cfg ops (registered ds) = true ->
    (forall m h a, In m (trace_of (final cfg c0 ds ops) i) ->
       alookup h (heap (final cfg c0 ds ops)) = Some a ->
       (fget K_uuid m, fget K_level m) <> (Some (VUuid (a_uuid a)), Some (VLevel (a_level a)))) /\
    (forall m slot u l, In m (trace_of (final cfg c0 ds ops) i) ->
       alookup slot (ids (final cfg c0 ds ops)) = Some (u, l) ->
       (fget K_uuid m, fget K_level m) <> (Some (VUuid u), Some (VLevel l))).
Proof. exact C02Placement.C02_exclusive. Qed.
Print Assumptions C02_exclusive.

(* limits, by vm_compute witnesses: finish() while current + failing destination (DESIGN F6);
   messages buffered before the first add_destinations and replayed while a destination fails *)
Theorem C02_unscoped_refuted :
  wf_prog [] Refute.prog_f6 = true /\ NoDup (declared Refute.prog_f6) /\
  disciplined 0 Ex.cfg0 Refute.ops_f6p (registered Ex2.dests_f6) = true /\
  disciplined2 0 Ex.cfg0 Refute.ops_f6p (registered Ex2.dests_f6) = false /\
  exists a, alookup 1 (heap Refute.s_f6) = Some a /\ a_finished a = true /\
    ~ exists m, In m (trace_of Refute.s_f6 0) /\
        (fget K_uuid m, fget K_level m) =
          (Some (VUuid (a_uuid a)), Some (VLevel (a_level a ++ [Pos.of_nat (a_last a)]))) /\
        (fget K_status m = Some (VStatus Succeeded) \/ fget K_status m = Some (VStatus Failed)).
Proof. exact Refute.C02_unscoped_refuted. Qed.
Print Assumptions C02_unscoped_refuted.

Theorem C02_buffered_replay_refuted : ~ emission_ordered (trace_of Buffered.s_b 0).
Proof. exact Buffered.C02_buffered_replay_refuted. Qed.
Print Assumptions C02_buffered_replay_refuted.
