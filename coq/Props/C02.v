(* C02 — every message is uniquely and contiguously placed by task_uuid/task_level. *)
From Coq Require Import List PArith.
Require Import Eliot.Base.Level Eliot.Model.Core Eliot.Proofs.CoreBasics.
Import ListNotations.

(* Action._nextTaskLevel hands out task_level ++ [k+1] after k earlier requests *)
Theorem C02_next_level :
  forall a, snd (next_level a) = a_level a ++ [Pos.of_nat (S (a_last a))] /\
            a_last (fst (next_level a)) = S (a_last a) /\
            a_level (fst (next_level a)) = a_level a /\
            a_uuid (fst (next_level a)) = a_uuid a /\
            a_finished (fst (next_level a)) = a_finished a.
Proof. exact next_level_spec. Qed.
Print Assumptions C02_next_level.
