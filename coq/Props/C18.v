(* C18 — log_call is transparent: same result, same exceptions, faithful argument log.
   Statements only; proofs are in Proofs/LogCallProofs.v, the model in Model/LogCall.v.

   wrapper f o parent c   the decorated function (after commit cc84555): sig.bind + apply_defaults,
                          the logged action, the call of the real function with the caller's arguments
   call_fn f c            the undecorated function under Python's binding rule [bind]
   guard                  no_posonly_default_clash s c: inspect.Signature.bind's one deviation from
                          Python's rule (a keyword naming a positional-only parameter that no positional
                          argument filled) does not hit a call Python accepts.  No condition on the
                          signature or on parameter names is needed. *)
From Coq Require Import List PArith ZArith Bool String.
Require Import Eliot.Model.LogCall Eliot.Proofs.LogCallProofs.
Import ListNotations.

(* same returned value, same raised exception object, TypeError iff the undecorated call is a
   TypeError — for every signature, parameter naming, call, option set, body and enclosing action *)
Theorem C18_outcome : forall (f : fn) (o : opts) (parent : option (list positive)) (c : fcall),
  no_posonly_default_clash (f_sig f) c ->
  fst (wrapper f o parent c) = call_fn f c.
Proof. exact C18_outcome_thm. Qed.
Print Assumptions C18_outcome.

(* a valid call logs exactly one action; its start message holds Python's bindings without self,
   restricted to include_args, under the five keys Action._start assigns; its end message holds
   the result iff include_result, or the exception *)
Theorem C18_logged : forall (f : fn) (o : opts) (parent : option (list positive)) (c : fcall) (b : bindings),
  no_posonly_default_clash (f_sig f) c ->
  bind (f_sig f) c = Ok b ->
  let t := action_type_of f o in
  let lvl := match parent with Some l => l | None => [] end in
  exists start end_ : message,
    snd (wrapper f o parent c) = [start; end_] /\
    (forall k, lookup k start =
       if Pos.eqb k N_action_status then Some (FStatus Started)
       else if Pos.eqb k N_timestamp then Some FTime
       else if Pos.eqb k N_task_uuid then Some FUuid
       else if Pos.eqb k N_action_type then Some (FType t)
       else if Pos.eqb k N_task_level then Some (FLevel (lvl ++ [1%positive]))
       else if included o k && negb (Pos.eqb k N_self) then option_map FArg (lookup k b)
       else None) /\
    end_ = match f_body f b with
           | BReturned v =>
               (if o_include_result o then [(N_result, FResult v)] else []) ++
               tail_fields Succeeded t (lvl ++ [2%positive])
           | BRaised e =>
               [(N_exception, FExcName (RExn e)); (N_reason, FReason (RExn e))] ++
               tail_fields Failed t (lvl ++ [2%positive])
           end.
Proof. exact C18_logged_thm. Qed.
Print Assumptions C18_logged.

(* the action type defaults to module + "." + qualified name *)
Theorem C18_type_default : forall f o,
  o_action_type o = None -> action_type_of f o = (f_module f ++ "." ++ f_qualname f)%string.
Proof. exact C18_type_default_thm. Qed.
Print Assumptions C18_type_default.

(* an argument list the function rejects: TypeError, and nothing is logged (no guard) *)
Theorem C18_invalid_call : forall f o parent c,
  bind (f_sig f) c = TypeErr ->
  wrapper f o parent c = (Raised RTypeError, []).
Proof. exact C18_invalid_call_thm. Qed.
Print Assumptions C18_invalid_call.

(* decoration succeeds iff include_args names parameters only (ValueError otherwise) *)
Theorem C18_decoration : forall f o,
  decorate_ok f o = true <->
  match o_include_args o with None => True | Some inc => forall k, In k inc -> In k (names (f_sig f)) end.
Proof. exact C18_decoration_thm. Qed.
Print Assumptions C18_decoration.

(* the guard cannot be dropped: def f(x=101, /, **kwargs) called f(x=2) *)
Theorem C18_posonly_default_refuted :
  exists (f : fn) (o : opts) (c : fcall),
    wf_sig (f_sig f) = true /\
    bind (f_sig f) c = Ok [(nm_x, BVal 101%Z); (nm_kw, BDict [(nm_x, 2%Z)])] /\
    call_fn f c = Returned 500%Z /\
    wrapper f o None c = (Raised RTypeError, []).
Proof. exact C18_posonly_default_refuted_thm. Qed.
Print Assumptions C18_posonly_default_refuted.

(* for the record: the wrapper before cc84555 (boltons' wraps + getcallargs) failed on
   f(x, /, **kwargs) called f(1, x=2); h(x, /) called h(x=1); f(_call) called f(3) *)
Theorem C18_legacy_refuted :
  (exists f o c, wf_sig (f_sig f) = true /\ posonly_kw_clash (f_sig f) c = true /\
     call_fn f c = Returned 500%Z /\ wrapper_legacy f o None c = (Raised RTypeError, [])) /\
  (exists f o c, wf_sig (f_sig f) = true /\
     call_fn f c = Raised RTypeError /\ fst (wrapper_legacy f o None c) = Returned 1%Z) /\
  (exists f o c, wf_sig (f_sig f) = true /\
     call_fn f c = Returned 7%Z /\ wrapper_legacy f o None c = (Raised RTypeError, [])).
Proof. exact C18_legacy_refuted_thm. Qed.
Print Assumptions C18_legacy_refuted.
