(* C18 — log_call is transparent: same result, same exceptions, faithful argument log.
   Statements only; proofs are in Proofs/LogCallProofs.v, the model in Model/LogCall.v.

   wrapper f o parent c   the decorated function (boltons-generated outer function,
                          getcallargs, logged action, call of the real function)
   call_fn f c            the undecorated function under Python's binding rule [bind]
   guards                 wf_sig: what `def` accepts;  no_posonly_kw: no keyword argument
                          names a positional-only parameter (known findings F3b/F3c);
                          no_param_named_call: no parameter is called _call (F3e) *)
From Coq Require Import List PArith ZArith Bool String.
Require Import Eliot.Model.LogCall Eliot.Proofs.LogCallProofs.
Import ListNotations.

(* same returned value, same raised exception object, TypeError iff the undecorated call is a
   TypeError — for every signature, parameter naming, call, option set, body and enclosing action *)
Theorem C18_outcome : forall (f : fn) (o : opts) (parent : option (list positive)) (c : fcall),
  wf_sig (f_sig f) = true ->
  no_param_named_call (f_sig f) ->
  no_posonly_kw (f_sig f) c ->
  fst (wrapper f o parent c) = call_fn f c.
Proof. exact C18_outcome_thm. Qed.
Print Assumptions C18_outcome.

(* a valid call logs exactly one action; its start message holds Python's bindings without self,
   restricted to include_args, under the five keys Action._start assigns; its end message holds
   the result iff include_result, or the exception *)
Theorem C18_logged : forall (f : fn) (o : opts) (parent : option (list positive)) (c : fcall) (b : bindings),
  wf_sig (f_sig f) = true ->
  no_param_named_call (f_sig f) ->
  no_posonly_kw (f_sig f) c ->
  bind (f_sig f) c = Ok b ->
  let t := action_type_of f o in
  let lvl := match parent with Some l => l | None => [] end in
  exists start end_ : message,
    snd (wrapper f o parent c) = [start; end_] /\
    (forall k, lookup k start =
       if Pos.eqb k N_action_status then Some (FStatus Started)
       else if Pos.eqb k N_timestamp then Some FTime
       else if Pos.eqb k N_task_uuid then Some FUuid
       else if Pos.eqb k N_action_type then Some (FType t)
       else if Pos.eqb k N_task_level then Some (FLevel (lvl ++ [1%positive]))
       else if included o k && negb (Pos.eqb k N_self) then option_map FArg (lookup k b)
       else None) /\
    end_ = match f_body f b with
           | BReturned v =>
               (if o_include_result o then [(N_result, FResult v)] else []) ++
               tail_fields Succeeded t (lvl ++ [2%positive])
           | BRaised e =>
               [(N_exception, FExcName (RExn e)); (N_reason, FReason (RExn e))] ++
               tail_fields Failed t (lvl ++ [2%positive])
           end.
Proof. exact C18_logged_thm. Qed.
Print Assumptions C18_logged.

(* the action type defaults to module + "." + qualified name *)
Theorem C18_type_default : forall f o,
  o_action_type o = None -> action_type_of f o = (f_module f ++ "." ++ f_qualname f)%string.
Proof. exact C18_type_default_thm. Qed.
Print Assumptions C18_type_default.

(* an argument list the function rejects: TypeError, and nothing is logged *)
Theorem C18_invalid_call : forall f o parent c,
  no_posonly_kw (f_sig f) c ->
  bind (f_sig f) c = TypeErr ->
  wrapper f o parent c = (Raised RTypeError, []).
Proof. exact C18_invalid_call_thm. Qed.
Print Assumptions C18_invalid_call.

(* decoration succeeds iff include_args names parameters only (ValueError otherwise) *)
Theorem C18_decoration : forall f o,
  decorate_ok f o = true <->
  match o_include_args o with None => True | Some inc => forall k, In k inc -> In k (names (f_sig f)) end.
Proof. exact C18_decoration_thm. Qed.
Print Assumptions C18_decoration.

(* known finding F3b: def f(x, /, **kwargs) called f(1, x=2) *)
Theorem C18_posonly_refuted :
  exists (f : fn) (o : opts) (c : fcall),
    wf_sig (f_sig f) = true /\ no_param_named_call (f_sig f) /\
    posonly_kw_clash (f_sig f) c = true /\
    call_fn f c = Returned 500%Z /\
    wrapper f o None c = (Raised RTypeError, []).
Proof. exact C18_posonly_refuted_thm. Qed.
Print Assumptions C18_posonly_refuted.

(* known finding F3c: def h(x, /) called h(x=1) *)
Theorem C18_posonly_accepted_refuted :
  exists (f : fn) (o : opts) (c : fcall),
    wf_sig (f_sig f) = true /\ no_param_named_call (f_sig f) /\
    call_fn f c = Raised RTypeError /\
    fst (wrapper f o None c) = Returned 1%Z /\
    List.length (snd (wrapper f o None c)) = 2.
Proof. exact C18_posonly_accepted_refuted_thm. Qed.
Print Assumptions C18_posonly_accepted_refuted.

(* known finding F3e: def f(_call) called f(3) *)
Theorem C18_param_call_refuted :
  exists (f : fn) (o : opts) (c : fcall),
    wf_sig (f_sig f) = true /\ no_posonly_kw (f_sig f) c /\
    call_fn f c = Returned 7%Z /\
    wrapper f o None c = (Raised RTypeError, []).
Proof. exact C18_param_call_refuted_thm. Qed.
Print Assumptions C18_param_call_refuted.
