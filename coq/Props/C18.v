Require Import Eliot.Model.LogCall.
Theorem C18_stub : True. Proof. exact I. Qed.
Print Assumptions C18_stub.
