(* C05 — concurrent threads and coroutines never leak action context into each other. *)
From Coq Require Import List PArith.
Require Import Eliot.Base.Level Eliot.Model.Core Eliot.Model.Prog Eliot.Proofs.CoreBasics Eliot.Proofs.CtxFrame.
Import ListNotations.

(* entering, leaving or finishing actions (or any other call) in context c never changes
   current_action() in another context c' -- creating the asyncio task c' excepted *)
Theorem C05_api_frame :
  forall cfg c c' s o, c' <> c -> spawn_target o <> Some c' -> cur (api cfg c s o) c' = cur s c'.
Proof. exact api_frame. Qed.
Print Assumptions C05_api_frame.

(* ... nor its stack of context()/run() tokens *)
Theorem C05_api_frame_tokens :
  forall cfg c c' s o, c' <> c -> spawn_target o <> Some c' -> tstack (api cfg c s o) c' = tstack s c'.
Proof. exact api_frame_tstack. Qed.
Print Assumptions C05_api_frame_tokens.

(* any number of calls of other contexts, in any order *)
Theorem C05_run_frame :
  forall cfg c' ops s, Forall (foreign c') ops ->
    cur (run cfg ops s) c' = cur s c' /\ tstack (run cfg ops s) c' = tstack s c'.
Proof. exact run_frame. Qed.
Print Assumptions C05_run_frame.

(* an asyncio task inherits the current action of its creator; a new thread has none *)
Theorem C05_spawn_inherits :
  forall cfg c c' s, cur (api cfg c s (OSpawn c')) c' = cur s c.
Proof. exact spawn_inherits. Qed.
Print Assumptions C05_spawn_inherits.

Theorem C05_new_context_none : forall s c, alookup c (ctx s) = None -> cur s c = None.
Proof. exact new_context_none. Qed.
Print Assumptions C05_new_context_none.

(* an action's saved parent token is written only by calls on that very action *)
Theorem C05_token_frame :
  forall cfg h0 ops s, Forall (tok_foreign h0) ops -> tokof (run cfg ops s) h0 = tokof s h0.
Proof. exact run_tokof_frame. Qed.
Print Assumptions C05_token_frame.

(* under any interleaving, a context observes the current_action() values it would observe if only its own calls were run *)
Theorem C05_noninterference :
  forall cfg c ops s, isolated c ops -> run_ok cfg c ops s -> run_ok cfg c (proj c ops) s ->
    probes_of c (run cfg ops s) = probes_of c (run cfg (proj c ops) s).
Proof. exact CtxFrame.C05_noninterference. Qed.
Print Assumptions C05_noninterference.

Theorem C05_schedule_independent_probes :
  forall cfg c ops ops' s, proj c ops = proj c ops' -> isolated c ops -> isolated c ops' ->
    run_ok cfg c ops s -> run_ok cfg c ops' s -> run_ok cfg c (proj c ops) s ->
    probes_of c (run cfg ops s) = probes_of c (run cfg ops' s).
Proof. exact CtxFrame.C05_schedule_independent_probes. Qed.
Print Assumptions C05_schedule_independent_probes.

(* sharing one action between threads does leak (outside the quantifier: "actions should only be used from a single thread") *)
Theorem C05_shared_action_refuted :
  exists cfg c ops s, run_ok cfg c ops s /\ run_ok cfg c (proj c ops) s /\
    probes_of c (run cfg ops s) <> probes_of c (run cfg (proj c ops) s).
Proof. exact CtxFrameExamples.C05_shared_action_refuted. Qed.
Print Assumptions C05_shared_action_refuted.

(* ---- attribution (Proofs/Attribution.v) ---- *)
Require Import Eliot.Proofs.Attribution.

(* every message is attributed to the action current in the context that logged it:
   that action's uuid and its next position *)
Theorem C05_attribution :
  forall s c h a, cur s c = Some h -> alookup h (heap s) = Some a ->
    msg_position s c =
      (set_heap s h (fst (next_level a)), a_uuid a, a_level a ++ [Pos.of_nat (S (a_last a))]).
Proof. exact attributed_message_position. Qed.
Print Assumptions C05_attribution.
