(* C11 — a crash loses no acknowledged message and leaves a parseable log. *)
From Coq Require Import List Arith NArith.
Require Import Eliot.Model.Crash Eliot.Proofs.CrashProofs.
Import ListNotations.

(* For every list of newline-free lines and EVERY crash point (event index k: before/inside a
   write, between write and flush, after the flush, after the call returned; byte cut c of an
   interrupted write): the complete lines on disk are exactly the first j lines, j is at least
   the number of logging calls that had returned, and the trailing fragment is empty or a
   prefix of line j+1. *)
Theorem C11_durable :
  forall lines, Forall no_nl lines -> forall k c,
  exists j,
    complete_lines (crash_disk lines k c) = firstn j lines /\
    acked lines k <= j /\ j <= length lines /\
    (fragment (crash_disk lines k c) = [] \/
     exists line, nth_error lines j = Some line /\ is_prefix_of (fragment (crash_disk lines k c)) line).
Proof. exact crash_durable. Qed.
Print Assumptions C11_durable.

(* ---- parser half (corollaries of the C09 theorems, Proofs/CrashParse.v) ---- *)
Require Import Eliot.Base.Level Eliot.Model.Parser Eliot.Model.Forest Eliot.Proofs.ParserSpec Eliot.Proofs.CrashParse.

(* every prefix of the emitted messages of any forest (what C11_durable leaves on disk) parses without error *)
Theorem C11_prefix_parses :
  forall (f : forest) (j : nat), exists r, parse_loop [] (firstn j (lin f)) [] = POk r.
Proof. exact prefix_parses. Qed.
Print Assumptions C11_prefix_parses.

(* ... and no task is reported complete while one of its messages is missing; what remains is incomplete *)
Theorem C11_no_false_complete :
  forall (f : forest) (j : nat),
  exists cs p,
    parse_trace [] (firstn j (lin f)) = POk (cs, p) /\
    (forall i m c, nth_error (firstn j (lin f)) i = Some m -> nth_error cs i = Some c ->
       ~ all_received f (pm_uuid m) (firstn (S i) (firstn j (lin f))) -> c = []) /\
    (forall u t, ulookup u p = Some t -> task_complete t = false).
Proof. exact prefix_no_false_complete. Qed.
Print Assumptions C11_no_false_complete.
