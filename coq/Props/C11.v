(* C11 — a crash loses no acknowledged message and leaves a parseable log. *)
From Coq Require Import List Arith NArith.
Require Import Eliot.Model.Crash Eliot.Proofs.CrashProofs.
Import ListNotations.

(* For every list of newline-free lines and EVERY crash point (event index k: before/inside a
   write, between write and flush, after the flush, after the call returned; byte cut c of an
   interrupted write): the complete lines on disk are exactly the first j lines, j is at least
   the number of logging calls that had returned, and the trailing fragment is empty or a
   prefix of line j+1. *)
Theorem C11_durable :
  forall lines, Forall no_nl lines -> forall k c,
  exists j,
    complete_lines (crash_disk lines k c) = firstn j lines /\
    acked lines k <= j /\ j <= length lines /\
    (fragment (crash_disk lines k c) = [] \/
     exists line, nth_error lines j = Some line /\ is_prefix_of (fragment (crash_disk lines k c)) line).
Proof. exact crash_durable. Qed.
Print Assumptions C11_durable.
