(* C01 — emitted logs parse back to exactly the action tree the program executed.
   (first layer; composed end-to-end statements are added as C02/C09 developments land) *)
From Coq Require Import List PArith.
Require Import Eliot.Base.Level Eliot.Model.Parser Eliot.Proofs.ParserBasics.
Import ListNotations.

(* a message logged outside any action is its own complete one-message task *)
Theorem C01_contextless_message_is_a_task :
  forall u st i,
    parser_add [] (mkPmsg u [1%positive] None st i)
    = POk ([mkTask [([], NMsg (mkPmsg u [1%positive] None st i))] [[]]], []).
Proof. exact contextless_message_task. Qed.
Print Assumptions C01_contextless_message_is_a_task.
