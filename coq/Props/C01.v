(* C01 — emitted logs parse back to exactly the action tree the program executed. *)
From Coq Require Import List PArith Permutation.
Require Import Eliot.Base.Level Eliot.Model.Core Eliot.Model.Prog Eliot.Model.Parser Eliot.Model.Forest
  Eliot.Model.Roundtrip Eliot.Model.Expected.
Require Import Eliot.Proofs.ParserBasics Eliot.Proofs.ParserTree Eliot.Proofs.ParserRun Eliot.Proofs.ParserSpec
  Eliot.Proofs.C01Basics Eliot.Proofs.C01Emission Eliot.Proofs.C01Roundtrip.
Import ListNotations.

(* a message logged outside any action is its own complete one-message task *)
Theorem C01_contextless_message_is_a_task :
  forall u st i,
    parser_add [] (mkPmsg u [1%positive] None st i)
    = POk ([mkTask [([], NMsg (mkPmsg u [1%positive] None st i))] [[]]], []).
Proof. exact contextless_message_task. Qed.
Print Assumptions C01_contextless_message_is_a_task.

(* what a program of the fragment [simple] emits is exactly the level-assignment of the tree it
   means ([expected p] never mentions levels, contexts or tokens): same uuids, levels, action
   types, statuses, in the same order *)
Theorem C01_emission_exact :
  forall (cfg : config) (d : nat) (e : exn) (p : list stmt),
    simple p = true -> reg_ok cfg p = true ->
    number_from 0 (trace_of (fst (run_prog cfg (one_dest d e) p)) d) = lin (expected p).
Proof. exact C01_emission. Qed.
Print Assumptions C01_emission_exact.

(* ... and parsing those messages in ANY arrival order yields exactly one complete task per
   top-level action/message whose tree is the executed tree: nothing lost, duplicated,
   re-parented or re-ordered *)
Theorem C01_roundtrip_any_order :
  forall (cfg : config) (d : nat) (e : exn) (p : list stmt) (order : list nat),
    simple p = true -> reg_ok cfg p = true ->
    Permutation order (seq 0 (length (lin (expected p)))) ->
    exists done us,
      roundtrip cfg (one_dest d e) p d order = POk (done, []) /\
      Permutation us (seq 0 (length (expected p))) /\
      Forall2 (fun u t =>
                 final_task (expected p) u t /\ task_complete t = true /\
                 exists T, nth_error (expected p) u = Some T /\
                   task_root t = Some (node_of (lin_id (expected p) u) u (fun _ => true) (root_level T) T))
              us done.
Proof. exact C01_roundtrip. Qed.
Print Assumptions C01_roundtrip_any_order.

(* the induction over program syntax behind it, from any state, inside or outside an action *)
Theorem C01_master_lemma :
  forall (cfg : config) (d : nat) (e : exn) (c : nat), reg_fields cfg = true ->
  forall (p : list stmt) (s : state),
    Good d e s -> NoDup (handles p) -> (has_tb p = true -> reg_plain cfg = true) ->
    (forall h a, cur s c = Some h -> alookup h (heap s) = Some a -> ~ In h (handles p) ->
       forallb (simple_stmt (Some h)) p = true ->
       InSpec d e c h a (kids p) (handles p) s (Core.run cfg (fst (compile c p)) s)) /\
    (cur s c = None -> forallb (simple_stmt None) p = true ->
       TopSpec d e c (kids p) (handles p) s (Core.run cfg (fst (compile c p)) s)).
Proof. exact eval_spec. Qed.
Print Assumptions C01_master_lemma.
