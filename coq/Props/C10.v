(* C10 — the JSON log file holds one valid, faithful line per message.
   Statements only; proofs are in Proofs/JsonProofs.v, the model is Model/Json.v. *)
From Coq Require Import List NArith ZArith Bool.
Require Import Eliot.Model.Json Eliot.Proofs.JsonProofs.
Import ListNotations.
Local Open Scope N_scope.

(* a successful encoding contains no newline ... *)
Theorem C10_encode_no_newline : forall v b, encode v = Some b -> ~ In 10 b.
Proof. exact encode_no_newline. Qed.
Print Assumptions C10_encode_no_newline.

(* ... and no other raw control byte *)
Theorem C10_encode_no_control : forall v b, encode v = Some b -> Forall (fun x => 32 <= x) b.
Proof. exact encode_no_control. Qed.
Print Assumptions C10_encode_no_control.

(* For any messages and any file (binary or text), the events the destination
   adds are the concatenation, per message, of msg_events: exactly
   [Write line; Flush] or nothing; a message that cannot be encoded raises and
   leaves the file as it was; in binary mode the line is encoding + newline. *)
Theorem C10_events : forall md ms f,
  run md ms f = f ++ flat_map (msg_events md) ms
  /\ (forall m, encode m = None -> dest_call md m f = (f, true))
  /\ (forall m b, encode m = Some b ->
        msg_events Binary m = [Write (DBytes (b ++ [10])); Flush]).
Proof. exact C10_events_lemma. Qed.
Print Assumptions C10_events.

Theorem C10_events_binary : forall ms f,
  run Binary ms f =
  f ++ flat_map (fun m => match encode m with
                          | Some b => [Write (DBytes (b ++ [10])); Flush]
                          | None => []
                          end) ms.
Proof. exact C10_events_binary_lemma. Qed.
Print Assumptions C10_events_binary.

(* one call: either it raises and the file is untouched, or it returns having
   appended exactly one write and one flush (no partial output) *)
Theorem C10_call_atomic : forall md m f,
  (snd (dest_call md m f) = true /\ fst (dest_call md m f) = f) \/
  (snd (dest_call md m f) = false /\ exists d, fst (dest_call md m f) = f ++ [Write d; Flush]).
Proof. exact dest_call_atomic. Qed.
Print Assumptions C10_call_atomic.

(* at every call boundary (after the first k messages) of a binary or text
   destination, what a reader sees is empty or ends with a newline, and
   splitting it on newlines gives exactly the encodings of the encodable
   messages, in order, followed by the empty remainder *)
Theorem C10_lines : forall md ms k,
  let c := content (run md (firstn k ms) (dest_open md [])) in
  (c = [] \/ exists p, c = p ++ [10])
  /\ split_lines c = encodings (firstn k ms) ++ [[]]
  /\ complete_lines c = encodings (firstn k ms).
Proof. exact C10_lines_lemma. Qed.
Print Assumptions C10_lines.

(* every encoding is valid UTF-8: it is the UTF-8 form of a text of Unicode
   scalar values, and strict decoding gives that text back *)
Theorem C10_encode_valid_utf8 : forall v b, encode v = Some b ->
  exists t, Forall (fun c => is_scalar c = true) t /\ utf8_all t = b /\ utf8_decode b = Some t.
Proof. exact encode_valid_utf8_lemma. Qed.
Print Assumptions C10_encode_valid_utf8.

(* binary-mode and text-mode files receive the same content, write for write,
   and a message fails in one mode iff it fails in the other *)
Theorem C10_text_mode_same_content : forall ms,
  map event_bytes (run Text ms []) = map event_bytes (run Binary ms [])
  /\ content (run Text ms (dest_open Text [])) = content (run Binary ms (dest_open Binary []))
  /\ (forall m, dumps_line Text m = None <-> dumps_line Binary m = None).
Proof. exact text_mode_same_content_lemma. Qed.
Print Assumptions C10_text_mode_same_content.

(* decoding a line gives back the message: float-free JSON-native values *)
Theorem C10_decode_encode : forall v b,
  float_free v = true -> encode v = Some b -> decode b = Some v.
Proof. exact decode_encode_lemma. Qed.
Print Assumptions C10_decode_encode.
