(* C16 — loggers are safe to write to from many threads at once.
   Statements only; proofs are in Proofs/InterleaveProofs.v. *)
From Coq Require Import List Arith Bool NArith Permutation.
Require Import Eliot.Base.Interleave Eliot.Model.Crash Eliot.Model.MemLogger Eliot.Proofs.InterleaveProofs.
Import ListNotations.

(* For ALL call interpretations, ALL thread programs whose calls take the one lock, and ALL schedules:
   the configuration reached has the serial view of its lock-acquisition log (serial_view, InterleaveProofs.v):
   per thread the logged calls are exactly the calls made so far in program order (none twice, none skipped);
   with the lock free, the shared state is the state after running the logged calls atomically one after the
   other and every call's return value is its return value in that serial run; with the lock held, the same
   for the earlier calls plus the executed prefix of the holder's body. *)
Theorem C16_serializable :
  forall (St L C : Type) (locked : C -> bool) (init : C -> L) (body : C -> list (step St L))
         (progs : list (list C)) (s0 : St) (sched : list nat),
  Forall (Forall (fun c => locked c = true)) progs ->
  serial_view init body progs s0 (run_sched locked init body sched (init_config progs s0)).
Proof. exact serializable. Qed.
Print Assumptions C16_serializable.

(* MemoryLogger: every method is @exclusively, so this holds for every program and schedule *)
Theorem C16_memlogger_serializable :
  forall (progs : list (list mcall)) (sched : list nat),
  serial_view mem_init mem_body progs mem_empty (mem_run progs sched).
Proof. exact mem_serializable. Qed.
Print Assumptions C16_memlogger_serializable.

(* whenever no call is inside its critical section, and whenever validate()/serialize() are inside theirs:
   messages and serializers have the same length and zip(messages, serializers) is exactly the list of
   (message, serializer) pairs passed to the completed write calls since the last reset, in acquisition order *)
Theorem C16_paired :
  forall (progs : list (list mcall)) (sched : list nat),
  let cfg := mem_run progs sched in
  observing cfg ->
  length (messages (shared cfg)) = length (serializers (shared cfg)) /\
  combine (messages (shared cfg)) (serializers (shared cfg)) = live_writes (map snd (completed cfg)).
Proof. exact paired. Qed.
Print Assumptions C16_paired.

(* tracebackMessages is, in write order, a sub-list of the messages written with the traceback serializer since
   the last reset, and together with the messages returned by the flushTracebacks calls since then it is
   exactly those messages (a permutation: each exactly once) *)
Theorem C16_tracebacks :
  forall (progs : list (list mcall)) (sched : list nat),
  let cfg := mem_run progs sched in
  observing cfg ->
  let cs := map snd (completed cfg) in
  let returned := map snd (snd (mem_serial (completed cfg))) in
  sublist (tracebacks (shared cfg)) (tb_writes cs) /\
  Permutation (tracebacks (shared cfg) ++ flushed_since_reset returned) (tb_writes cs).
Proof. exact tracebacks_consistent. Qed.
Print Assumptions C16_tracebacks.

(* every completed write is recorded exactly once, at its place, unless a reset is serialised after it *)
Theorem C16_once :
  forall (progs : list (list mcall)) (sched : list nat),
  let cfg := mem_run progs sched in
  observing cfg ->
  forall pre t m z post, completed cfg = pre ++ (t, MWrite m z) :: post ->
  combine (messages (shared cfg)) (serializers (shared cfg)) =
    if existsb is_reset (map snd post) then live_writes (map snd post)
    else live_writes (map snd pre) ++ (m, z) :: writes_of (map snd post).
Proof. exact once. Qed.
Print Assumptions C16_once.

(* the same method bodies without the lock: some schedule leaves a message next to a serializer that no
   write call passed with it *)
Theorem C16_unlocked_refuted :
  exists (progs : list (list mcall)) (sched : list nat),
    let cfg := mem_run_unlocked progs sched in
    finished cfg /\
    exists i m z, nth_error (combine (messages (shared cfg)) (serializers (shared cfg))) i = Some (m, z) /\
                  ~ In (MWrite m z) (concat progs).
Proof. exact unlocked_refuted. Qed.
Print Assumptions C16_unlocked_refuted.

(* FileDestination, no lock, each Write event one whole newline-terminated newline-free line: for ALL programs
   and schedules the file ends at a line boundary, its lines plus the lines not yet written are a permutation of
   the programs' lines, and once all threads are done its lines are a permutation of all lines written *)
Theorem C16_file_lines :
  forall (progs : list (list (list byte))) (sched : list nat),
  Forall (Forall no_nl) progs ->
  let cfg := file_run progs sched in
  let disk := disk_of (shared cfg) in
  fragment disk = [] /\
  Permutation (complete_lines disk ++ file_pending cfg) (concat progs) /\
  (finished cfg -> Permutation (complete_lines disk) (concat progs)).
Proof. exact file_lines. Qed.
Print Assumptions C16_file_lines.

(* payload and line break in two write calls (not the code): lines merge under some schedule *)
Theorem C16_file_split_refuted :
  exists progs sched,
    Forall (Forall no_nl) progs /\
    let cfg := file_run_split progs sched in
    finished cfg /\ ~ Permutation (complete_lines (disk_of (shared cfg))) (concat progs).
Proof. exact file_split_refuted. Qed.
Print Assumptions C16_file_split_refuted.
