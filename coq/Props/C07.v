(* C07 — logging never raises into, or alters, the application. *)
From Coq Require Import List.
Require Import Eliot.Base.Level Eliot.Model.Core Eliot.Proofs.CoreBasics.
Import ListNotations.

(* the fan-out loop completes for every pattern of failing destinations: each one is
   still called, and the failures come back as data instead of propagating *)
Theorem C07_fanout_total :
  forall (m : msg) (ds : list dest),
    length (fst (fanout m ds)) = length ds.
Proof. exact fanout_length. Qed.
Print Assumptions C07_fanout_total.

(* ---- bounded report path, application view (Proofs/OutputProofs.v, Proofs/OutputView.v) ---- *)
Require Import Eliot.Model.Prog Eliot.Proofs.OutputProofs Eliot.Proofs.OutputView.

(* one send calls each destination at least once and at most 1 + #destinations times,
   however many of them are permanently broken *)
Theorem C07_report_path_bounded :
  forall c s m i d d',
  any_added s = true ->
  nth_error (dests s) i = Some d -> nth_error (dests (send c s m)) i = Some d' ->
  d_id d' = d_id d /\ d_calls d < d_calls d' <= d_calls d + 1 + length (dests s).
Proof. exact OutputProofs.C07_report_path_bounded. Qed.
Print Assumptions C07_report_path_bounded.

(* what the application can observe of the logging state evolves by vapi, a function in
   which destinations, global fields, serializers, extractors, field values and the
   configuration do not occur *)
Theorem C07_api_view :
  forall cfg c s o, view_of (api cfg c s o) = vapi c (view_of s) o.
Proof. exact api_view. Qed.
Print Assumptions C07_api_view.

Theorem C07_app_state_fault_independent :
  forall cfg1 cfg2 ops s1 s2,
  view_of s1 = view_of s2 ->
  ctx (run cfg1 ops s1) = ctx (run cfg2 ops s2) /\
  tokens (run cfg1 ops s1) = tokens (run cfg2 ops s2) /\
  probes (run cfg1 ops s1) = probes (run cfg2 ops s2) /\
  view_of (run cfg1 ops s1) = view_of (run cfg2 ops s2).
Proof. exact OutputView.C07_app_state_fault_independent. Qed.
Print Assumptions C07_app_state_fault_independent.

Theorem C07_destinations_irrelevant :
  forall cfg1 cfg2 ops s aa b ds gn g,
  ctx (run cfg1 ops s) = ctx (run cfg2 ops (with_out s aa b ds gn g)) /\
  tokens (run cfg1 ops s) = tokens (run cfg2 ops (with_out s aa b ds gn g)) /\
  probes (run cfg1 ops s) = probes (run cfg2 ops (with_out s aa b ds gn g)).
Proof. exact OutputView.C07_destinations_irrelevant. Qed.
Print Assumptions C07_destinations_irrelevant.

(* the exception leaving a program is fixed by the program text alone *)
Theorem C07_outcome_static :
  forall cfg pre p, snd (run_prog cfg pre p) = snd (compile 0 p).
Proof. exact OutputView.C07_outcome_static. Qed.
Print Assumptions C07_outcome_static.

(* finish marks the action finished and writes exactly one end message; again: nothing *)
Theorem C07_finish_marks_and_writes_once :
  forall cfg c s h a exc,
  alookup h (heap s) = Some a -> a_finished a = false ->
  (exists s2 m,
     finish cfg c s h exc =
       logger_write cfg c s2 m
         (opt_ser (a_sers a) (match exc with None => s_success | Some _ => s_failure end)) /\
     fget K_status m = Some (VStatus (match exc with None => Succeeded | Some _ => Failed end)) /\
     fget K_atype m = Some (a_type a) /\ fget K_uuid m = Some (VUuid (a_uuid a))) /\
  (exists a', alookup h (heap (finish cfg c s h exc)) = Some a' /\ a_finished a' = true /\
              a_token a' = a_token a) /\
  (forall c' exc', finish cfg c' (finish cfg c s h exc) h exc' = finish cfg c s h exc).
Proof. exact finish_marks_and_writes_once. Qed.
Print Assumptions C07_finish_marks_and_writes_once.
