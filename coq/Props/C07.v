(* C07 — logging never raises into, or alters, the application. *)
From Coq Require Import List.
Require Import Eliot.Base.Level Eliot.Model.Core Eliot.Proofs.CoreBasics.
Import ListNotations.

(* the fan-out loop completes for every pattern of failing destinations: each one is
   still called, and the failures come back as data instead of propagating *)
Theorem C07_fanout_total :
  forall (m : msg) (ds : list dest),
    length (fst (fanout m ds)) = length ds.
Proof. exact fanout_length. Qed.
Print Assumptions C07_fanout_total.
