(* C14 — test-time validation accepts exactly the messages matching their declared types.
   Statements only; proofs are in Proofs/ValidationProofs.v, the model in Model/Validation.v.

   accepts F v       := (exists v', fser F v = Ok v') /\ fextra F v = true
   declared sz k     := exists F, In F (sfields sz) /\ k = K (fkey F)
   reserved k        := k is task_level, task_uuid or timestamp
   message_fails m s := typed validation fails \/ a key is neither str nor UTF-8 bytes
                        \/ a field serializer raises \/ the serialized message is not JSON *)
From Coq Require Import List ZArith Bool String.
Require Import Eliot.Model.Validation Eliot.Proofs.ValidationProofs.
Import ListNotations.
Local Open Scope string_scope.
Local Open Scope list_scope.

(* _MessageSerializer.validate *)
Theorem C14_validate_iff : forall sz m,
  validate sz m = Ok tt <->
  (forall F, In F (sfields sz) -> exists v, mget (K (fkey F)) m = Some v /\ accepts F v)
  /\ (allow_additional sz = true \/ forall k v, In (k, v) m -> declared sz k \/ reserved k).
Proof. exact validate_iff. Qed.
Print Assumptions C14_validate_iff.

(* Field.forValue / Field.forTypes *)
Theorem C14_for_value : forall k value x,
  accepts (for_value k value) x <-> py_eq x value = true.
Proof. exact for_value_accepts. Qed.
Print Assumptions C14_for_value.

Theorem C14_for_types : forall k classes extra v,
  accepts (for_types k classes extra) v <->
  (exists c, In c classes /\ inst v c = true) /\ extra v = true.
Proof. exact for_types_accepts. Qed.
Print Assumptions C14_for_types.

(* MemoryLogger.validate() *)
Theorem C14_memory_validate_iff : forall L,
  snd (logger_validate L) <> Ok tt <->
  exists m s, In (m, s) (combine (messages L) (serializers L)) /\ message_fails m s.
Proof. exact memory_validate_iff. Qed.
Print Assumptions C14_memory_validate_iff.

Theorem C14_memory_validate_class : forall L ms1 m ms2 ss1 s ss2 e,
  messages L = ms1 ++ m :: ms2 -> serializers L = ss1 ++ s :: ss2 ->
  List.length ms1 = List.length ss1 ->
  (forall m' s', In (m', s') (combine ms1 ss1) -> message_ok m' s') ->
  snd (validate_message m s) = Raise e ->
  snd (logger_validate L) = Raise e.
Proof. exact memory_validate_class. Qed.
Print Assumptions C14_memory_validate_class.

Theorem C14_written_validate_ok : forall ws,
  snd (logger_validate (written ws)) = Ok tt <-> forall m s, In (m, s) ws -> message_ok m s.
Proof. exact written_validate_ok. Qed.
Print Assumptions C14_written_validate_ok.

(* any single deviation is reported *)
Theorem C14_single_deviation : forall sz m,
  validate sz m = Ok tt ->
  (forall F, In F (sfields sz) -> validate sz (mdel (K (fkey F)) m) <> Ok tt)
  /\ (forall k v, allow_additional sz = false -> ~ declared sz k -> ~ reserved k ->
        validate sz (mset k v m) <> Ok tt)
  /\ (forall F v, In F (sfields sz) -> ~ accepts F v -> validate sz (mset (K (fkey F)) v m) <> Ok tt).
Proof. exact ValidationProofs.C14_single_deviation. Qed.
Print Assumptions C14_single_deviation.

Theorem C14_unencodable_deviation : forall m s k v,
  encodable v = false ->
  (s = None \/ (forall sz, s = Some sz -> ~ declared sz k)) ->
  snd (validate_message (mset k v m) s) <> Ok tt.
Proof. exact ValidationProofs.C14_unencodable_deviation. Qed.
Print Assumptions C14_unencodable_deviation.

Theorem C14_bad_key_deviation : forall m s k v,
  (forall t, k <> KStr t) -> snd (validate_message (mset k v m) s) <> Ok tt.
Proof. exact ValidationProofs.C14_bad_key_deviation. Qed.
Print Assumptions C14_bad_key_deviation.

(* messages produced by correct use of a declared type validate *)
Theorem C14_library_conforms :
  (forall id name sf uf a uuid level ts fields,
     action_type id name sf uf = Some a ->
     (forall F, In F sf -> exists v, mget (K (fkey F)) fields = Some v /\ accepts F v) ->
     (forall k v, In (k, v) fields -> exists F, In F sf /\ k = K (fkey F)) ->
     validate (s_start a) (start_message (JStr name) uuid level ts fields) = Ok tt)
  /\ (forall id name sf uf a uuid level ts success,
     action_type id name sf uf = Some a ->
     (forall F, In F uf -> exists v, mget (K (fkey F)) success = Some v /\ accepts F v) ->
     (forall k v, In (k, v) success -> exists F, In F uf /\ k = K (fkey F)) ->
     validate (s_success a) (success_message (JStr name) uuid level ts success) = Ok tt)
  /\ (forall id name sf uf a uuid level ts exc_name reason extracted,
     action_type id name sf uf = Some a ->
     validate (s_failure a) (failure_message (JStr name) uuid level ts exc_name reason extracted) = Ok tt)
  /\ (forall id name fs sz uuid level ts fields,
     message_type id name fs = Some sz ->
     (forall F, In F fs -> exists v, mget (K (fkey F)) fields = Some v /\ accepts F v) ->
     (forall k v, In (k, v) fields -> exists F, In F fs /\ k = K (fkey F)) ->
     validate sz (log_message (JStr name) uuid level ts fields) = Ok tt)
  /\ (forall uuid level ts exn tb c mro extracted,
     (forall v, ~ In (K REASON_FIELD, v) extracted) ->
     (forall v, ~ In (K TRACEBACK_FIELD, v) extracted) ->
     (forall v, ~ In (K EXCEPTION_FIELD, v) extracted) ->
     (forall v, ~ In (K MESSAGE_TYPE, v) extracted) ->
     validate TRACEBACK_SERIALIZER
              (traceback_message uuid level ts exn tb (JExnType (c :: mro)) extracted) = Ok tt).
Proof. exact ValidationProofs.C14_library_conforms. Qed.
Print Assumptions C14_library_conforms.

(* with distinct field names, a message that validates also serializes *)
Theorem C14_serialize_ok_of_validate : forall fs, nodup_str (field_keys fs) = true ->
  forall m, validate_fields fs m = Ok tt -> snd (serialize_fields fs m) = Ok tt.
Proof. exact serialize_ok_of_validate. Qed.
Print Assumptions C14_serialize_ok_of_validate.

(* check_for_errors: unflushed tracebacks first, nothing is validated *)
Theorem C14_tracebacks_first : forall L,
  tracebackMessages L <> [] -> check_for_errors L = (L, Raise EUnflushed).
Proof. exact ValidationProofs.C14_tracebacks_first. Qed.
Print Assumptions C14_tracebacks_first.

(* capture_logging restores the previous default logger whatever the test does *)
Theorem C14_restore : forall a body w,
  default_logger (fst (run_test (capture_logging a (lift body)) w)) = default_logger w.
Proof. exact ValidationProofs.C14_restore. Qed.
Print Assumptions C14_restore.

Theorem C14_assertion_unless_skipped : forall g body w,
  let '(w0, l) := new_memory_logger w in
  let '(w1, o) := body l (fst (swap_logger w0 l)) in
  assertion_calls (fst (run_test (capture_logging (Some g) (lift body)) w))
  = assertion_calls w1 + (if is_skip o then 0 else 1).
Proof. exact ValidationProofs.C14_assertion_unless_skipped. Qed.
Print Assumptions C14_assertion_unless_skipped.

Theorem C14_errors_surface : forall a body w e,
  let '(w0, l) := new_memory_logger w in
  let '(w1, o) := body l (fst (swap_logger w0 l)) in
  snd (check_for_errors (logger_of w1 l)) = Raise e -> e <> EAssertion ->
  In e (r_errors (snd (run_test (capture_logging a (lift body)) w))).
Proof. exact ValidationProofs.C14_errors_surface. Qed.
Print Assumptions C14_errors_surface.
