(* Core executable model of eliot's logging path.

   Mirrors (function by function):
     eliot/_action.py   Action.__init__/_nextTaskLevel/_start/finish/child/run/context/
                        __enter__/__exit__/log/addSuccessFields/serialize_task_id/continue_task,
                        start_action, startTask, log_message, current_action
     eliot/_output.py   BufferingDestination, Destinations.send/add/remove/addGlobalFields,
                        Logger.write, _safe_unicode_dictionary (as an opaque rendering)
     eliot/_errors.py   ErrorExtraction.get_fields_for_exception
     eliot/_traceback.py write_traceback/_writeTracebackMessage/TRACEBACK_MESSAGE
     eliot/_validation.py _MessageSerializer.serialize (field serializers as functions)
     eliot/_util.py     safeunicode (on exceptions)

   Definitions only; proofs live in Proofs/. *)
From Coq Require Import List PArith NArith ZArith Bool Arith.
Require Import Eliot.Base.Level.
Import ListNotations.

Definition atom := positive.
Definition key := positive.

(* reserved field names *)
Definition K_uuid : key := 1%positive.        (* task_uuid *)
Definition K_level : key := 2%positive.       (* task_level *)
Definition K_ts : key := 3%positive.          (* timestamp *)
Definition K_atype : key := 4%positive.       (* action_type *)
Definition K_mtype : key := 5%positive.       (* message_type *)
Definition K_status : key := 6%positive.      (* action_status *)
Definition K_exception : key := 7%positive.   (* exception *)
Definition K_reason : key := 8%positive.      (* reason *)
Definition K_traceback : key := 9%positive.   (* traceback *)
Definition K_message : key := 10%positive.    (* message (in failure reports) *)

Inductive status := Started | Succeeded | Failed.

(* An exception object: identity, class, text of str(e), whether str(e) raises *)
Record exn := mkExn { e_id : nat; e_cls : atom; e_text : atom; e_str_raises : bool }.

Inductive val :=
| VInt (z : Z)
| VAtom (a : atom)                  (* any other application value, interned by the harness *)
| VUuid (u : nat)                   (* task uuid, numbered by creation order *)
| VLevel (l : level)
| VTime                             (* time.time() *)
| VStatus (s : status)
| VClassName (c : atom)             (* "module.Class" of an exception class *)
| VSafeFail                         (* "eliot: unknown, str() raised exception" *)
| VTb                               (* formatted traceback text *)
| VRender (u : option nat) (l : option level)  (* _safe_unicode_dictionary(msg), identified by the msg's uuid/level *)
| VExnObj (e : exn)                 (* an exception object stored as a (not yet serialized) field *)
| VTypeName (a : atom).             (* well-known message/action type strings made by the library *)

(* library-made type names *)
Definition T_destination_failure : atom := 1%positive.  (* "eliot:destination_failure" *)
Definition T_traceback : atom := 2%positive.            (* "eliot:traceback" *)
Definition T_serialization_failure : atom := 3%positive. (* "eliot:serialization_failure" *)
Definition T_remote_task : atom := 4%positive.          (* "eliot:remote_task" *)
Definition T_empty : atom := 5%positive.                (* "" *)

Definition fields := list (key * val).

(* dict assignment d[k] = v on a key-sorted association list *)
Fixpoint fset (k : key) (v : val) (m : fields) : fields :=
  match m with
  | [] => [(k, v)]
  | (k', v') :: r =>
      match Pos.compare k k' with
      | Lt => (k, v) :: m
      | Eq => (k, v) :: r
      | Gt => (k', v') :: fset k v r
      end
  end.

Fixpoint fget (k : key) (m : fields) : option val :=
  match m with
  | [] => None
  | (k', v') :: r => if Pos.eqb k k' then Some v' else fget k r
  end.

(* d.update(upd) *)
Definition fupdate (m upd : fields) : fields :=
  fold_left (fun acc kv => fset (fst kv) (snd kv) acc) upd m.

Definition mkfields (l : fields) : fields := fupdate [] l.

Definition msg := fields.

Inductive result (A : Type) := Ok (a : A) | Err (e : exn).
Arguments Ok {A} a.
Arguments Err {A} e.

(* --- typed fields ------------------------------------------------------- *)
(* _MessageSerializer: declared fields in declaration order, each with its
   serializer function *)
Definition mser := list (key * (val -> result val)).
Record asers := mkAsers { s_start : mser; s_success : mser; s_failure : mser }.

(* KeyError raised by message[key] for a missing declared field *)
Definition C_BaseException : atom := 1%positive.
Definition C_Exception : atom := 2%positive.
Definition C_KeyError : atom := 3%positive.
(* KeyError(key): its text is determined by the missing key (text atoms 1000+k are
   reserved for it, apart from the atoms of application values) *)
Definition key_error (k : key) : exn := mkExn 0 C_KeyError (1000 + k)%positive false.

(* serializer.serialize(message): in place, field by field; stops at the first failure *)
Fixpoint serialize (s : mser) (m : msg) : result msg :=
  match s with
  | [] => Ok m
  | (k, f) :: r =>
      match fget k m with
      | None => Err (key_error k)
      | Some v => match f v with
                  | Ok v' => serialize r (fset k v' m)
                  | Err e => Err e
                  end
      end
  end.

(* --- exceptions, classes, extractors ----------------------------------- *)
Inductive extractor := XFields (fs : fields) | XRaise (e : exn).
Record config := mkConfig {
  mro_of : atom -> list atom;               (* class -> its MRO (itself first) *)
  registry : list (atom * extractor)        (* register_exception_extractor *)
}.

Fixpoint reg_lookup (c : atom) (r : list (atom * extractor)) : option extractor :=
  match r with
  | [] => None
  | (c', x) :: r' => if Pos.eqb c c' then Some x else reg_lookup c r'
  end.

Fixpoint first_registered (r : list (atom * extractor)) (mro : list atom) : option extractor :=
  match mro with
  | [] => None
  | c :: rest => match reg_lookup c r with Some x => Some x | None => first_registered r rest end
  end.

(* safeunicode(exception) *)
Definition safe_str (e : exn) : val := if e_str_raises e then VSafeFail else VAtom (e_text e).

(* --- state ---------------------------------------------------------------- *)
Record action := mkAction {
  a_uuid : nat;
  a_level : level;                 (* _task_level *)
  a_last : nat;                    (* _last_child: 0 = None, k = task_level ++ [k] *)
  a_finished : bool;
  a_succ : fields;                 (* _successFields *)
  a_type : val;
  a_sers : option asers;
  a_token : option (option nat)    (* _parent_token: the saved previous current action *)
}.

Record dest := mkDest {
  d_id : nat;
  d_behave : nat -> msg -> option exn;   (* call index, message -> raises? (Exception subclasses) *)
  d_calls : nat;
  d_log : list msg                       (* every message it was offered, oldest first *)
}.

Record state := mkState {
  heap : list (nat * action);            (* handle -> action *)
  ctx : list (nat * option nat);         (* execution context id -> current action handle *)
  tokens : list (nat * list (option nat)); (* per context: saved values of context()/run() blocks *)
  next_uuid : nat;
  any_added : bool;
  buffer : list msg;                     (* BufferingDestination.messages *)
  dests : list dest;                     (* registered, in registration order *)
  gone : list dest;                      (* removed destinations, kept for observation *)
  globals : fields;
  ids : list (nat * (nat * level));      (* slot -> serialized task id (uuid, level) *)
  probes : list (nat * option nat)       (* observations of current_action(): (context, handle) *)
}.

Definition init_state : state :=
  mkState [] [] [] 0 false [] [] [] [] [] [].

Fixpoint alookup {A} (k : nat) (l : list (nat * A)) : option A :=
  match l with
  | [] => None
  | (k', v) :: r => if Nat.eqb k k' then Some v else alookup k r
  end.

Fixpoint aset {A} (k : nat) (v : A) (l : list (nat * A)) : list (nat * A) :=
  match l with
  | [] => [(k, v)]
  | (k', v') :: r => if Nat.eqb k k' then (k, v) :: r else (k', v') :: aset k v r
  end.

Definition cur (s : state) (c : nat) : option nat :=
  match alookup c (ctx s) with Some v => v | None => None end.

Definition set_ctx (s : state) (c : nat) (v : option nat) : state :=
  mkState (heap s) (aset c v (ctx s)) (tokens s) (next_uuid s) (any_added s)
          (buffer s) (dests s) (gone s) (globals s) (ids s) (probes s).

Definition set_heap (s : state) (h : nat) (a : action) : state :=
  mkState (aset h a (heap s)) (ctx s) (tokens s) (next_uuid s) (any_added s)
          (buffer s) (dests s) (gone s) (globals s) (ids s) (probes s).

Definition set_tokens (s : state) (c : nat) (t : list (option nat)) : state :=
  mkState (heap s) (ctx s) (aset c t (tokens s)) (next_uuid s) (any_added s)
          (buffer s) (dests s) (gone s) (globals s) (ids s) (probes s).

Definition set_out (s : state) (aa : bool) (b : list msg) (ds gn : list dest) : state :=
  mkState (heap s) (ctx s) (tokens s) (next_uuid s) aa b ds gn (globals s) (ids s) (probes s).

Definition set_globals (s : state) (g : fields) : state :=
  mkState (heap s) (ctx s) (tokens s) (next_uuid s) (any_added s)
          (buffer s) (dests s) (gone s) g (ids s) (probes s).

Definition set_ids (s : state) (i : list (nat * (nat * level))) : state :=
  mkState (heap s) (ctx s) (tokens s) (next_uuid s) (any_added s)
          (buffer s) (dests s) (gone s) (globals s) i (probes s).

Definition add_probe (s : state) (c : nat) : state :=
  mkState (heap s) (ctx s) (tokens s) (next_uuid s) (any_added s)
          (buffer s) (dests s) (gone s) (globals s) (ids s) (probes s ++ [(c, cur s c)]).

Definition fresh_uuid (s : state) : state * nat :=
  (mkState (heap s) (ctx s) (tokens s) (S (next_uuid s)) (any_added s)
           (buffer s) (dests s) (gone s) (globals s) (ids s) (probes s), next_uuid s).

(* --- Action._nextTaskLevel ------------------------------------------------- *)
Definition next_level (a : action) : action * level :=
  let k := S (a_last a) in
  (mkAction (a_uuid a) (a_level a) k (a_finished a) (a_succ a) (a_type a) (a_sers a) (a_token a),
   a_level a ++ [Pos.of_nat k]).

(* take the next position of the action at handle h; a missing handle is a
   harness error and yields level [] (never happens for well-formed op lists) *)
Definition take_level (s : state) (h : nat) : state * level :=
  match alookup h (heap s) with
  | Some a => let '(a', l) := next_level a in (set_heap s h a', l)
  | None => (s, [])
  end.

(* --- Destinations.send ------------------------------------------------------- *)
Definition is_report (m : msg) : bool :=
  match fget K_mtype m with
  | Some (VTypeName t) => Pos.eqb t T_destination_failure
  | _ => false
  end.

(* the fan-out loop: every destination is called once, failures collected in order *)
Fixpoint fanout (m : msg) (ds : list dest) : list dest * list exn :=
  match ds with
  | [] => ([], [])
  | d :: r =>
      let res := d_behave d (d_calls d) m in
      let d' := mkDest (d_id d) (d_behave d) (S (d_calls d)) (d_log d ++ [m]) in
      let '(r', errs) := fanout m r in
      (d' :: r', match res with Some e => e :: errs | None => errs end)
  end.

Definition buffer_cap : nat := 1000.

(* BufferingDestination.__call__ *)
Definition buffer_add (b : list msg) (m : msg) : list msg :=
  let b' := b ++ [m] in
  skipn (length b' - buffer_cap) b'.

(* deliver to whatever self._destinations currently is; returns collected errors *)
Definition deliver (s : state) (m : msg) : state * list exn :=
  if any_added s then
    let '(ds, errs) := fanout m (dests s) in
    (set_out s true (buffer s) ds (gone s), errs)
  else
    (set_out s false (buffer_add (buffer s) m) (dests s) (gone s), []).

Definition render_of (m : msg) : val :=
  VRender (match fget K_uuid m with Some (VUuid u) => Some u | _ => None end)
          (match fget K_level m with Some (VLevel l) => Some l | _ => None end).

(* where a message logged now in context c goes: the next position of the
   current action, or position [1] of a throw-away Action with a fresh uuid
   (log_message with no current action) *)
Definition msg_position (s : state) (c : nat) : state * nat * level :=
  match cur s c with
  | Some h =>
      let '(s1, l) := take_level s h in
      (s1, match alookup h (heap s) with Some a => a_uuid a | None => 0 end, l)
  | None =>
      let '(s1, u) := fresh_uuid s in (s1, u, [1%positive])
  end.

(* Action.log's bookkeeping: timestamp, uuid, level, message_type *)
Definition stamp (u : nat) (l : level) (mt : val) (fs : fields) : msg :=
  fset K_mtype mt (fset K_level (VLevel l) (fset K_uuid (VUuid u) (fset K_ts VTime fs))).

(* log_message(message_type, **fields) up to the call of Logger.write *)
Definition stamp_here (s : state) (c : nat) (mt : val) (fs : fields) : state * msg :=
  let '(s1, u, l) := msg_position s c in (s1, stamp u l mt fs).

(* report messages: delivered like any message, but failures are not collected *)
Definition send_report (s : state) (m : msg) : state :=
  fst (deliver s (fupdate m (globals s))).

(* one eliot:destination_failure report, through log_message -> Action.log -> Logger.write -> send *)
Definition log_report (c : nat) (about : msg) (s : state) (e : exn) : state :=
  let fs := fset K_message (render_of about)
            (fset K_exception (VClassName (e_cls e))
            (fset K_reason (safe_str e) [])) in
  let '(s2, m) := stamp_here s c (VTypeName T_destination_failure) fs in
  send_report s2 m.

(* Destinations.send: whether the message is a failure report is decided on the
   message as logged, before the global fields are merged in (a global field
   named message_type must not disable the recursion guard) *)
Definition send (c : nat) (s : state) (m : msg) : state :=
  let m' := fupdate m (globals s) in
  let '(s1, errs) := deliver s m' in
  if is_report m then s1 else fold_left (log_report c m') errs s1.

(* --- tracebacks -------------------------------------------------------------- *)
(* TRACEBACK_MESSAGE's serializer: reason/traceback through safeunicode, exception type to its name;
   it cannot fail, so the nested Logger.write goes straight to send *)
(* (the message's own three fields win over extracted fields of the same name: repaired behaviour, fix F10) *)
Definition traceback_fields (e : exn) (extra : fields) : fields :=
  fupdate extra (fset K_reason (safe_str e)
          (fset K_traceback VTb
          (fset K_exception (VClassName (e_cls e)) []))).

(* get_fields_for_exception + write_traceback, mutually dependent in the code.
   [fuel] bounds the extractor-failure chain (see Proofs: for the repaired code
   one level suffices; the legacy code recursed without bound). *)
Section WithConfig.
Variable cfg : config.

(* repaired behaviour: an extractor failure is logged as a traceback *without*
   running extraction on the extractor's own exception *)
Definition log_traceback_plain (c : nat) (s : state) (e : exn) (extra : fields) : state :=
  let '(s2, m) := stamp_here s c (VTypeName T_traceback) (traceback_fields e extra) in
  send c s2 m.

Definition fields_for_exception (c : nat) (s : state) (e : exn) : state * fields :=
  match first_registered (registry cfg) (mro_of cfg (e_cls e)) with
  | None => (s, [])
  | Some (XFields fs) => (s, mkfields fs)
  | Some (XRaise e') => (log_traceback_plain c s e' [], [])
  end.

(* write_traceback(logger, exc_info of e) *)
Definition write_traceback (c : nat) (s : state) (e : exn) : state :=
  let '(s1, extra) := fields_for_exception c s e in
  log_traceback_plain c s1 e extra.

(* Logger.write(dictionary, serializer) in context c *)
Definition logger_write (c : nat) (s : state) (m : msg) (ser : option mser) : state :=
  match ser with
  | None => send c s m
  | Some sr =>
      match serialize sr m with
      | Ok m' => send c s m'
      | Err e =>
          let s1 := write_traceback c s e in
          let '(s3, fm) := stamp_here s1 c (VTypeName T_serialization_failure)
                             (fset K_message (render_of m) []) in
          send c s3 fm
      end
  end.

(* --- actions ------------------------------------------------------------------- *)
Definition opt_ser (sers : option asers) (pick : asers -> mser) : option mser :=
  match sers with Some x => Some (pick x) | None => None end.

(* Action._start(fields) for the action at handle h *)
Definition start_message (c : nat) (s : state) (h : nat) (fs : fields) : state :=
  match alookup h (heap s) with
  | None => s
  | Some a =>
      let '(s1, l) := take_level s h in
      let m := fset K_level (VLevel l)
               (fset K_atype (a_type a)
               (fset K_uuid (VUuid (a_uuid a))
               (fset K_ts VTime
               (fset K_status (VStatus Started) (mkfields fs))))) in
      logger_write c s1 m (opt_ser (a_sers a) s_start)
  end.

(* start_action / startTask *)
Definition start_action (c : nat) (s : state) (h : nat) (task : bool) (ty : val) (fs : fields)
           (sers : option asers) : state :=
  match (if task then None else cur s c) with
  | None =>
      let '(s1, u) := fresh_uuid s in
      let s2 := set_heap s1 h (mkAction u [] 0 false [] ty sers None) in
      start_message c s2 h fs
  | Some p =>
      match alookup p (heap s) with
      | None => s
      | Some pa =>
          let '(s1, l) := take_level s p in
          let s2 := set_heap s1 h (mkAction (a_uuid pa) l 0 false [] ty sers None) in
          start_message c s2 h fs
      end
  end.

(* Action.finish(exception) *)
Definition finish (c : nat) (s : state) (h : nat) (exc : option exn) : state :=
  match alookup h (heap s) with
  | None => s
  | Some a =>
      if a_finished a then s else
      let s0 := set_heap s h (mkAction (a_uuid a) (a_level a) (a_last a) true (a_succ a) (a_type a) (a_sers a) (a_token a)) in
      let '(s1, fs, ser) :=
        match exc with
        | None => (s0, fset K_status (VStatus Succeeded) (a_succ a), opt_ser (a_sers a) s_success)
        | Some e =>
            let '(s', xf) := fields_for_exception c s0 e in
            (s', fset K_status (VStatus Failed)
                 (fset K_reason (safe_str e)
                 (fset K_exception (VClassName (e_cls e)) xf)), opt_ser (a_sers a) s_failure)
        end in
      let '(s2, l) := take_level s1 h in
      let m := fset K_level (VLevel l)
               (fset K_atype (a_type a)
               (fset K_uuid (VUuid (a_uuid a))
               (fset K_ts VTime fs))) in
      logger_write c s2 m ser
  end.

(* --- operations ------------------------------------------------------------------ *)
Inductive op :=
| OStart (h : nat) (task : bool) (ty : val) (fs : fields) (sers : option asers)
| OEnter (h : nat)                        (* __enter__ *)
| OExit (h : nat) (exc : option exn)      (* __exit__ *)
| OCtxEnter (h : nat)                     (* with a.context(): / a.run(f): entry *)
| OCtxExit                                (* ... exit: reset(token) *)
| OFinish (h : nat) (exc : option exn)
| OAddSuccess (h : nat) (fs : fields)
| OLog (mt : val) (fs : fields) (ser : option mser)   (* log_message / Message.log / MessageType.log *)
| OActionLog (h : nat) (mt : val) (fs : fields)       (* action.log(message_type, **fields) *)
| OTraceback (e : exn)                                (* write_traceback() inside an except block *)
| OSerializeId (h : nat) (slot : nat)
| OContinue (h : nat) (slot : nat) (fs : fields)      (* Action.continue_task(task_id=...) *)
| OSpawn (c' : nat)                                   (* asyncio task created here: context copied *)
| OAddDests (ds : list dest)
| ORemoveDest (id : nat)
| OAddGlobals (fs : fields)
| OProbe                                              (* observe current_action() *)
| ORawWrite (m : fields) (ser : option mser).         (* Logger().write(dictionary, serializer) *)

Fixpoint resend (c : nat) (s : state) (ms : list msg) : state :=
  match ms with
  | [] => s
  | m :: r => resend c (send c s m) r
  end.

Fixpoint remove_dest (id : nat) (ds : list dest) : list dest * option dest :=
  match ds with
  | [] => ([], None)
  | d :: r => if Nat.eqb (d_id d) id then (r, Some d)
              else let '(r', x) := remove_dest id r in (d :: r', x)
  end.

Definition api (c : nat) (s : state) (o : op) : state :=
  match o with
  | OStart h task ty fs sers => start_action c s h task ty fs sers
  | OEnter h =>
      match alookup h (heap s) with
      | None => s
      | Some a =>
          let s1 := set_heap s h (mkAction (a_uuid a) (a_level a) (a_last a) (a_finished a) (a_succ a)
                                           (a_type a) (a_sers a) (Some (cur s c))) in
          set_ctx s1 c (Some h)
      end
  | OExit h exc =>
      match alookup h (heap s) with
      | None => s
      | Some a =>
          let s1 := set_ctx s c (match a_token a with Some t => t | None => None end) in
          let s2 := set_heap s1 h (mkAction (a_uuid a) (a_level a) (a_last a) (a_finished a) (a_succ a)
                                            (a_type a) (a_sers a) None) in
          finish c s2 h exc
      end
  | OCtxEnter h =>
      let st := match alookup c (tokens s) with Some t => t | None => [] end in
      set_ctx (set_tokens s c (cur s c :: st)) c (Some h)
  | OCtxExit =>
      match alookup c (tokens s) with
      | Some (t :: st) => set_ctx (set_tokens s c st) c t
      | _ => s
      end
  | OFinish h exc => finish c s h exc
  | OAddSuccess h fs =>
      match alookup h (heap s) with
      | None => s
      | Some a => set_heap s h (mkAction (a_uuid a) (a_level a) (a_last a) (a_finished a)
                                         (fupdate (a_succ a) fs) (a_type a) (a_sers a) (a_token a))
      end
  | OLog mt fs ser =>
      let '(s2, m) := stamp_here s c mt (mkfields fs) in
      logger_write c s2 m ser
  | OActionLog h mt fs =>
      match alookup h (heap s) with
      | None => s
      | Some a =>
          let '(s2, l) := take_level s h in
          logger_write c s2 (stamp (a_uuid a) l mt (mkfields fs)) None
      end
  | OTraceback e => write_traceback c s e
  | OSerializeId h slot =>
      match alookup h (heap s) with
      | None => s
      | Some a => let '(s1, l) := take_level s h in set_ids s1 (aset slot (a_uuid a, l) (ids s1))
      end
  | OContinue h slot fs =>
      match alookup slot (ids s) with
      | None => s
      | Some (u, l) =>
          let s1 := set_heap s h (mkAction u l 0 false [] (VTypeName T_remote_task) None None) in
          start_message c s1 h fs
      end
  | OSpawn c' => set_ctx s c' (cur s c)
  | OAddDests ds =>
      if any_added s then set_out s true (buffer s) (dests s ++ ds) (gone s)
      else
        let buffered := buffer s in
        resend c (set_out s true [] ds (gone s)) buffered
  | ORemoveDest id =>
      let '(ds, x) := remove_dest id (dests s) in
      match x with
      | Some d => set_out s (any_added s) (buffer s) ds (gone s ++ [d])
      | None => s
      end
  | OAddGlobals fs => set_globals s (fupdate (globals s) fs)
  | OProbe => add_probe s c
  | ORawWrite m ser => logger_write c s (mkfields m) ser
  end.

Definition run (ops : list (nat * op)) (s : state) : state :=
  fold_left (fun st co => api (fst co) st (snd co)) ops s.

End WithConfig.

(* what a destination observed *)
Definition all_dests (s : state) : list dest := dests s ++ gone s.
Definition trace_of (s : state) (id : nat) : list msg :=
  match find (fun d => Nat.eqb (d_id d) id) (all_dests s) with
  | Some d => d_log d
  | None => []
  end.
