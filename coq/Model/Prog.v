(* Logging programs: the AST the harness generates and runs against the real
   library, its flattening into API operations (control flow resolved
   statically: logging calls never raise, so which statements run is determined
   by the explicit raise/try statements alone), and the small libraries of
   destination behaviours and field serializers shared with the harness. *)
From Coq Require Import List PArith NArith ZArith Bool Arith.
Require Import Eliot.Base.Level Eliot.Model.Core.
Import ListNotations.

Inductive act_style :=
| WithBlock      (* with start_action(...) as a: body *)
| CtxFinish      (* a = start_action(...); try: with a.context(): body  ... finally-style finish(exc) *)
| RunFinish.     (* a = start_action(...); a.run(body) ... finish(exc) *)

Inductive stmt :=
| SMsg (mt : val) (fs : fields) (ser : option mser)
| SActLog (h : nat) (mt : val) (fs : fields)
| SAct (h : nat) (style : act_style) (task : bool) (ty : val) (fs : fields)
       (sers : option asers) (succ : fields) (body : list stmt)
| SRaise (e : exn)
| STry (body : list stmt)                (* try: body  except BaseException: pass *)
| STraceback (e : exn)                   (* try: raise e  except: write_traceback() *)
| SHandoff (h : nat) (slot : nat) (h' : nat) (c' : nat) (body : list stmt)
                                          (* id = h.serialize_task_id(); another thread (context c'):
                                             with Action.continue_task(task_id=id): body *)
| SReenter (h : nat) (body : list stmt)  (* with h.context(): body, h being an enclosing action *)
| SFinishAgain (h : nat) (exc : option exn)
| SRawWrite (m : fields) (ser : option mser)   (* Logger().write(dict, serializer) with a caller-held dict *)
| SSpawn (c' : nat) (body : list stmt).  (* child execution context inheriting the current action (asyncio task), run to completion *)

Definition probe (c : nat) : list (nat * op) := [(c, OProbe)].

(* sequencing: run statements until one lets an exception escape *)
Definition seq_with (cs : nat -> stmt -> list (nat * op) * option exn) :=
  fix go (c : nat) (p : list stmt) {struct p} : list (nat * op) * option exn :=
    match p with
    | [] => ([], None)
    | st :: rest =>
        let '(ops, out) := cs c st in
        match out with
        | Some e => (ops ++ probe c, Some e)
        | None => let '(rops, rout) := go c rest in (ops ++ probe c ++ rops, rout)
        end
    end.

(* compile_stmt c st = (operations, exception escaping st if any) *)
Fixpoint compile_stmt (c : nat) (st : stmt) {struct st} : list (nat * op) * option exn :=
  let compile :=
    fix go (c : nat) (p : list stmt) {struct p} : list (nat * op) * option exn :=
      match p with
      | [] => ([], None)
      | st :: rest =>
          let '(ops, out) := compile_stmt c st in
          match out with
          | Some e => (ops ++ probe c, Some e)
          | None => let '(rops, rout) := go c rest in (ops ++ probe c ++ rops, rout)
          end
      end in
  match st with
  | SMsg mt fs ser => ([(c, OLog mt fs ser)], None)
  | SActLog h mt fs => ([(c, OActionLog h mt fs)], None)
  | SAct h style task ty fs sers succ body =>
      let '(bops, bout) := compile c body in
      let succ_ops := match bout with None => [(c, OAddSuccess h succ)] | Some _ => [] end in
      match style with
      | WithBlock =>
          ([(c, OStart h task ty fs sers); (c, OEnter h)] ++ probe c ++ bops ++ succ_ops
             ++ [(c, OExit h bout)], bout)
      | _ =>
          ([(c, OStart h task ty fs sers); (c, OCtxEnter h)] ++ probe c ++ bops ++ succ_ops
             ++ [(c, OCtxExit)] ++ probe c ++ [(c, OFinish h bout)], bout)
      end
  | SRaise e => ([], Some e)
  | STry body => (fst (compile c body), None)
  | STraceback e => ([(c, OTraceback e)], None)
  | SHandoff h slot h' c' body =>
      let '(bops, bout) := compile c' body in
      ([(c, OSerializeId h slot); (c', OProbe); (c', OContinue h' slot []); (c', OEnter h')]
         ++ probe c' ++ bops ++ [(c', OExit h' bout)] ++ probe c', None)
  | SReenter h body =>
      let '(bops, bout) := compile c body in
      ([(c, OCtxEnter h)] ++ probe c ++ bops ++ [(c, OCtxExit)], bout)
  | SFinishAgain h exc => ([(c, OFinish h exc)], None)
  | SRawWrite m ser => ([(c, ORawWrite m ser)], None)
  | SSpawn c' body =>
      let '(bops, bout) := compile c' body in
      ([(c, OSpawn c')] ++ probe c' ++ bops ++ probe c', None)
  end.

Definition compile : nat -> list stmt -> list (nat * op) * option exn := seq_with compile_stmt.

(* --- destination behaviours --------------------------------------------------- *)
Inductive behave :=
| BNever
| BAlways
| BMask (l : list bool)              (* by call index; false beyond the list *)
| BCycle (l : list bool)             (* by call index modulo the length *)
| BOnEnd                             (* messages with status succeeded/failed *)
| BOnStart
| BOnReports                         (* eliot:destination_failure messages *)
| BNotReports
| BOnAtom (a : atom)                 (* messages holding the value VAtom a *)
| BOnAtoms (l : list atom)           (* messages holding one of these values *)
| BFile (l : list atom).             (* a FileDestination: fails on the not JSON-encodable values l and on
                                        integers outside orjson's range [-2^63, 2^64) *)

Definition has_status (m : msg) (f : status -> bool) : bool :=
  match fget K_status m with Some (VStatus st) => f st | _ => false end.

Definition has_atom (a : atom) (m : msg) : bool :=
  existsb (fun kv => match snd kv with VAtom b => Pos.eqb a b | _ => false end) m.

Definition int_out_of_range (m : msg) : bool :=
  existsb (fun kv => match snd kv with
                     | VInt z => orb (Z.ltb z (- 9223372036854775808)) (Z.leb 18446744073709551616 z)
                     | _ => false end) m.

Definition behave_fn (b : behave) (e : exn) : nat -> msg -> option exn :=
  fun n m =>
    let fails :=
      match b with
      | BNever => false
      | BAlways => true
      | BMask l => nth n l false
      | BCycle l => match l with [] => false | _ => nth (Nat.modulo n (length l)) l false end
      | BOnEnd => has_status m (fun st => match st with Started => false | _ => true end)
      | BOnStart => has_status m (fun st => match st with Started => true | _ => false end)
      | BOnReports => is_report m
      | BNotReports => negb (is_report m)
      | BOnAtom a => has_atom a m
      | BOnAtoms l => existsb (fun a => has_atom a m) l
      | BFile l => orb (existsb (fun a => has_atom a m) l) (int_out_of_range m)
      end in
    if fails then Some e else None.

Definition mk_dest (id : nat) (b : behave) (e : exn) : dest := mkDest id (behave_fn b e) 0 [].

(* --- field serializer library --------------------------------------------------- *)
Inductive serfn :=
| FId
| FSucc (e : exn)            (* int -> int+1; anything else raises e *)
| FDouble (e : exn)          (* int -> 2*int; anything else raises e *)
| FConst (z : Z)
| FFail (e : exn)            (* always raises *)
| FFailNeg (e : exn).        (* raises on negative ints, identity otherwise *)

Definition ser_fn (f : serfn) : val -> result val :=
  fun v =>
    match f with
    | FId => Ok v
    | FSucc e => match v with VInt z => Ok (VInt (z + 1)) | _ => Err e end
    | FDouble e => match v with VInt z => Ok (VInt (2 * z)) | _ => Err e end
    | FConst z => Ok (VInt z)
    | FFail e => Err e
    | FFailNeg e => match v with VInt z => if Z.ltb z 0 then Err e else Ok v | _ => Ok v end
    end.

Definition mk_ser (l : list (key * serfn)) : mser := map (fun kf => (fst kf, ser_fn (snd kf))) l.

(* MessageType(mt, fields): declared fields, then message_type through Field.forValue *)
Definition message_ser (mt : val) (l : list (key * serfn)) : mser :=
  mk_ser l ++ [(K_mtype, fun _ => Ok mt)].

(* ActionType(at, start, success): serializer triple as built in ActionType.__init__ *)
Definition action_sers (ty : val) (st su : list (key * serfn)) : asers :=
  mkAsers (mk_ser st ++ [(K_atype, fun _ => Ok ty); (K_status, fun _ => Ok (VStatus Started))])
          (mk_ser su ++ [(K_atype, fun _ => Ok ty); (K_status, fun _ => Ok (VStatus Succeeded))])
          ([(K_atype, fun _ => Ok ty); (K_status, fun _ => Ok (VStatus Failed));
            (K_reason, fun v => Ok v); (K_exception, fun v => Ok v)]).

(* --- configuration ------------------------------------------------------------------ *)
Fixpoint tbl_lookup (c : atom) (t : list (atom * list atom)) : list atom :=
  match t with
  | [] => [c]
  | (c', m) :: r => if Pos.eqb c c' then m else tbl_lookup c r
  end.

Definition mk_config (mros : list (atom * list atom)) (reg : list (atom * extractor)) : config :=
  mkConfig (fun c => tbl_lookup c mros) reg.

(* run a whole case: register destinations, then the program in context 0 *)
Definition run_prog (cfg : config) (pre : list (nat * op)) (p : list stmt) : state * option exn :=
  let '(ops, out) := compile 0 p in
  (run cfg (pre ++ ops) init_state, out).

(* observation: per destination, in id order, what it was offered; the probes *)
Definition observe (s : state) (ids : list nat) : list (nat * list msg) * list (nat * option nat) :=
  (map (fun i => (i, trace_of s i)) ids, probes s).
