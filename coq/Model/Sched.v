(* Interleaving of per-context operation lists by a schedule (list of thread indices):
   every schedule of threads that switch at logging-call boundaries is one such list. *)
From Coq Require Import List Arith.
Require Import Eliot.Base.Level Eliot.Model.Core Eliot.Model.Prog.
Import ListNotations.

Fixpoint replace_nth {A} (n : nat) (x : A) (l : list A) : list A :=
  match n, l with
  | _, [] => []
  | O, _ :: r => x :: r
  | S n', y :: r => y :: replace_nth n' x r
  end.

Fixpoint interleave {A} (sched : list nat) (ts : list (list A)) : list A :=
  match sched with
  | [] => []
  | t :: r =>
      match nth t ts [] with
      | [] => interleave r ts
      | o :: rest => o :: interleave r (replace_nth t rest ts)
      end
  end.

(* thread i runs program (nth i progs) in context i+1 *)
Definition thread_ops (progs : list (list stmt)) : list (list (nat * op)) :=
  map (fun ip => fst (compile (S (fst ip)) (snd ip))) (combine (seq 0 (length progs)) progs).

Definition run_threads (cfg : config) (pre : list (nat * op)) (progs : list (list stmt)) (sched : list nat) : state :=
  run cfg (pre ++ interleave sched (thread_ops progs)) init_state.
