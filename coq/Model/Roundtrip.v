(* C01 glue: the messages a destination received, read back by the parser model.
   JSON encoding/decoding between the two is the identity on this abstraction
   (property C10 is about the codec). *)
From Coq Require Import List PArith Bool Arith.
Require Import Eliot.Base.Level Eliot.Model.Core Eliot.Model.Prog Eliot.Model.Parser.
Import ListNotations.

Definition to_pmsg (i : nat) (m : msg) : option pmsg :=
  match fget K_uuid m, fget K_level m with
  | Some (VUuid u), Some (VLevel l) =>
      Some (mkPmsg u l
              (match fget K_atype m with Some (VTypeName t) => Some t | _ => None end)
              (match fget K_status m with
               | Some (VStatus Started) => Some PStarted
               | Some (VStatus Succeeded) => Some PSucceeded
               | Some (VStatus Failed) => Some PFailed
               | Some _ => Some POther
               | None => None
               end) i)
  | _, _ => None
  end.

Fixpoint number_from (i : nat) (ms : list msg) : list pmsg :=
  match ms with
  | [] => []
  | m :: r => match to_pmsg i m with
              | Some p => p :: number_from (S i) r
              | None => number_from (S i) r
              end
  end.

(* run a program, take what destination [d] received, parse it in the given order *)
Definition roundtrip (cfg : config) (pre : list (nat * op)) (p : list stmt) (d : nat) (order : list nat)
  : pres (list task * list task) :=
  let s := fst (run_prog cfg pre p) in
  let ms := number_from 0 (trace_of s d) in
  let dflt := mkPmsg 0 [] None None 0 in
  parse_stream (map (fun j => nth j ms dflt) order).
