(* Ground-truth task forests and the messages the library emits for them
   (the same rule as lib/forests.py [linearize]).

   tree   := TMsg ty                    a plain message
           | TAct ty st children        an action that ended with status st
   forest := list of tasks; the task at index u has task_uuid u and is a
             top-level [TAct] or a single context-less [TMsg].

   Levels: an action whose own prefix is [l] has its start message at l++[1],
   its i-th child (0-based) at position i+2 (a message child is the message at
   l++[i+2]; an action child has prefix l++[i+2]) and its end message at
   l++[k+2], k = number of children.  The root action of a task has prefix [];
   a context-less message task is the single message at [1] without action type.
   A remote sub-task is an ordinary [TAct] child (its start is at l++[i+2]++[1]).

   [pm_id] of a message is its index in emission order ([lin_ids] in
   Proofs/ParserIds.v), as in the Python harness.

   The end status of a well-formed action is PSucceeded or PFailed; so that every
   [tree] value denotes a well-formed task, [end_status] reads any other value
   as PSucceeded ([end_status st = st] on the two legal values).

   Definitions only. *)
From Coq Require Import List PArith Bool Arith.
Require Import Eliot.Base.Level Eliot.Model.Parser.
Import ListNotations.

Inductive tree :=
| TMsg (ty : positive)
| TAct (ty : positive) (st : pstatus) (children : list tree).

Definition forest := list tree.

Definition end_status (st : pstatus) : pstatus :=
  match st with PFailed => PFailed | _ => PSucceeded end.

Section LinTree.
  Variable idf : level -> nat.    (* identity of the message at a level *)
  Variable u : nat.               (* task uuid *)

  Definition mk_msg (l : level) (a : option positive) (s : option pstatus) : pmsg :=
    mkPmsg u l a s (idf l).

  (* [l] is the tree's own level: the level of the message for a [TMsg], the
     prefix of the action for a [TAct] *)
  Fixpoint lin_tree (l : level) (t : tree) : list pmsg :=
    match t with
    | TMsg _ => [mk_msg l None None]
    | TAct ty st ch =>
        mk_msg (l ++ [1%positive]) (Some ty) (Some PStarted) ::
        (fix go (pos : positive) (cs : list tree) : list pmsg :=
           match cs with
           | [] => [mk_msg (l ++ [pos]) (Some ty) (Some (end_status st))]
           | c :: r => lin_tree (l ++ [pos]) c ++ go (Pos.succ pos) r
           end) 2%positive ch
    end.

  Definition lin_task (t : tree) : list pmsg :=
    match t with
    | TMsg _ => lin_tree [1%positive] t
    | TAct _ _ _ => lin_tree [] t
    end.
End LinTree.

Fixpoint lin_from (idf : nat -> level -> nat) (u : nat) (f : forest) : list pmsg :=
  match f with
  | [] => []
  | t :: r => lin_task (idf u) u t ++ lin_from idf (S u) r
  end.

(* the messages without identities, then numbered by position *)
Definition lin0 (f : forest) : list pmsg := lin_from (fun _ _ => 0) 0 f.

Fixpoint index_of (u : nat) (l : level) (ms : list pmsg) : nat :=
  match ms with
  | [] => 0
  | m :: r => if Nat.eqb (pm_uuid m) u && level_eqb (pm_level m) l then 0 else S (index_of u l r)
  end.

Definition lin_id (f : forest) (u : nat) (l : level) : nat := index_of u l (lin0 f).

Definition lin (f : forest) : list pmsg := lin_from (lin_id f) 0 f.

(* the messages of task u *)
Definition task_msgs (f : forest) (u : nat) : list pmsg :=
  filter (fun m => Nat.eqb (pm_uuid m) u) (lin f).
