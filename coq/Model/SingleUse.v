(* preserve_context's single-use guard (eliot/_action.py restore_eliot_context):
   `if not called.acquire(False): raise TooManyCalls` — a non-blocking acquire of a fresh
   threading.Lock is one atomic test-and-set.  Threads invoking the callable concurrently:
   the first scheduled step of each thread is its test-and-set; only its winner runs f. *)
From Coq Require Import List Arith Bool.
Import ListNotations.

Inductive call_result := Ran | TooManyCalls.

(* [flag]: the lock is held; [seen]: threads that already performed their test-and-set *)
Fixpoint invoke (sched : list nat) (flag : bool) (seen : list nat) : list (nat * call_result) :=
  match sched with
  | [] => []
  | t :: r =>
      if existsb (Nat.eqb t) seen then invoke r flag seen       (* later steps of t: inside f or raising *)
      else (t, if flag then TooManyCalls else Ran) :: invoke r true (t :: seen)
  end.

Definition ran (l : list (nat * call_result)) : list nat :=
  map fst (filter (fun x => match snd x with Ran => true | _ => false end) l).

(* the broken variant: check and set are two separately scheduled steps *)
Fixpoint invoke_check_then_set (sched : list nat) (flag : bool) (checked : list nat) (seen : list nat)
  : list (nat * call_result) :=
  match sched with
  | [] => []
  | t :: r =>
      if existsb (Nat.eqb t) seen then invoke_check_then_set r flag checked seen
      else if existsb (Nat.eqb t) checked then
        (* second step: set the flag and run *)
        (t, Ran) :: invoke_check_then_set r true checked (t :: seen)
      else if flag then (t, TooManyCalls) :: invoke_check_then_set r flag checked (t :: seen)
      else invoke_check_then_set r flag (t :: checked) seen       (* passed the check *)
  end.
