(* C16: MemoryLogger and FileDestination as shared objects used by several threads
   (eliot/_output.py:234-245 exclusively, :249-422 MemoryLogger, :491-498 FileDestination.__call__).
   Definitions only; the interleaving semantics is Base/Interleave.v.

   Every MemoryLogger method is decorated with @exclusively: its body runs between
   Acquire and Release of the per-instance lock.  Bodies are listed at source-line
   granularity: every line that reads or writes an attribute of the logger is one step. *)
From Coq Require Import List Arith Bool NArith.
Require Import Eliot.Base.Interleave Eliot.Model.Crash.
Import ListNotations.

(* ---- data *)
(* the serializer argument of write(): None, TRACEBACK_MESSAGE._serializer, or that of MessageType k *)
Inductive ser := SNone | STraceback | SType (k : nat).

(* what _validate_message(dictionary.copy(), serializer) does for a message and the serializer it is
   written with: passes / raises ValidationError / raises TypeError *)
Inductive verdict := VOk | VValidation | VType.

(* a message dictionary: its identity, the class of message["reason"] (used by flushTracebacks'
   isinstance test; meaningful for traceback messages), and its validation verdict *)
Record msg := mkMsg { m_id : nat; m_reason : nat; m_verdict : verdict }.

Inductive err := EValidation | EType | EAttribute.

(* exception classes: 0 Exception, 1 LookupError, 2 KeyError (a LookupError), 3 ValueError, 4 ZeroDivisionError, ... *)
Definition isinst (r c : nat) : bool := (c =? 0) || (r =? c) || ((c =? 1) && (r =? 2)).

(* the logger's attributes.  [failed] = ids of the messages recorded in _failed_validations.
   [cooked] = ids of stored dictionaries that validate() has serialized IN PLACE
   (_validate_message(dictionary, serializer) on the stored dict, :385 -> :359): for a traceback
   message "reason" becomes a string (no longer an instance of any exception class) and
   "exception" a string on which the field serializer raises AttributeError the next time. *)
Record mstate := mkM { messages : list msg; serializers : list ser; tracebacks : list msg;
                       failed : list nat; cooked : list nat }.

Definition mem_empty : mstate := mkM [] [] [] [] [].

Inductive mcall :=
| MWrite (m : msg) (z : ser)
| MValidate
| MSerialize
| MFlush (cls : nat)
| MReset.

(* a call's private variables *)
Record locals := mkLoc { l_result : list msg; l_remaining : list msg; l_pairs : list (msg * ser);
                         l_err : option err }.
Definition no_locals : locals := mkLoc [] [] [] None.

Definition is_tb (z : ser) : bool := match z with STraceback => true | _ => false end.
Definition memb (n : nat) (l : list nat) : bool := existsb (Nat.eqb n) l.
Definition vok (v : verdict) : bool := match v with VOk => true | _ => false end.

(* ---- write (:310-332) *)
(* :316-328  validate a COPY; on failure append to _failed_validations *)
Definition w_validate (m : msg) (z : ser) : step mstate locals := fun l s =>
  (l, if vok (m_verdict m) then s
      else mkM (messages s) (serializers s) (tracebacks s) (failed s ++ [m_id m]) (cooked s)).
(* :329 self.messages.append(dictionary) *)
Definition w_messages (m : msg) : step mstate locals := fun l s =>
  (l, mkM (messages s ++ [m]) (serializers s) (tracebacks s) (failed s) (cooked s)).
(* :330 self.serializers.append(serializer) *)
Definition w_serializers (z : ser) : step mstate locals := fun l s =>
  (l, mkM (messages s) (serializers s ++ [z]) (tracebacks s) (failed s) (cooked s)).
(* :331-332 if serializer is TRACEBACK_MESSAGE._serializer: self.tracebackMessages.append(dictionary) *)
Definition w_tracebacks (m : msg) (z : ser) : step mstate locals := fun l s =>
  (l, if is_tb z then mkM (messages s) (serializers s) (tracebacks s ++ [m]) (failed s) (cooked s) else s).

(* ---- validate (:367-390) and serialize (:393-406): for ... in zip(self.messages, self.serializers) *)
(* reading both lists (zip stops at the shorter one) *)
Definition zip_snapshot : step mstate locals := fun l s =>
  (mkLoc (l_result l) (l_remaining l) (combine (messages s) (serializers s)) (l_err l), s).

(* the loop of validate over the STORED dictionaries: first failure ends it;
   a traceback message that passes is serialized in place (cooked) *)
Fixpoint validate_loop (ps : list (msg * ser)) (ck : list nat) : list nat * option err :=
  match ps with
  | [] => (ck, None)
  | (m, z) :: r =>
      match z with
      | STraceback =>
          if memb (m_id m) ck then (ck, Some EAttribute)          (* serializer.validate on cooked fields *)
          else match m_verdict m with
               | VValidation => (ck, Some EValidation)            (* :351, before :359 *)
               | VType => (m_id m :: ck, Some EType)              (* :362, after :359 *)
               | VOk => validate_loop r (m_id m :: ck)
               end
      | _ =>                                                       (* None / Field.for_types serializers: no change *)
          match m_verdict m with
          | VValidation => (ck, Some EValidation)
          | VType => (ck, Some EType)
          | VOk => validate_loop r ck
          end
      end
  end.

Definition v_loop : step mstate locals := fun l s =>
  let '(ck, e) := validate_loop (l_pairs l) (cooked s) in
  (mkLoc (l_result l) (l_remaining l) (l_pairs l) e,
   mkM (messages s) (serializers s) (tracebacks s) (failed s) ck).

(* the loop of serialize over COPIES: serializer None has no .serialize (AttributeError);
   a cooked traceback message cannot be serialized again (AttributeError) *)
Fixpoint serialize_loop (ps : list (msg * ser)) (ck : list nat) (acc : list msg) : list msg * option err :=
  match ps with
  | [] => (acc, None)
  | (m, z) :: r =>
      match z with
      | SNone => (acc, Some EAttribute)
      | STraceback => if memb (m_id m) ck then (acc, Some EAttribute) else serialize_loop r ck (acc ++ [m])
      | SType _ => serialize_loop r ck (acc ++ [m])
      end
  end.

Definition s_loop : step mstate locals := fun l s =>
  let '(res, e) := serialize_loop (l_pairs l) (cooked s) [] in
  (mkLoc res (l_remaining l) (l_pairs l) e, s).

(* ---- flushTracebacks (:285-304) *)
Definition flushes (ck : list nat) (cls : nat) (m : msg) : bool :=
  isinst (m_reason m) cls && negb (memb (m_id m) ck).
(* :296-302 the loop building result / remaining from self.tracebackMessages *)
Definition f_loop (cls : nat) : step mstate locals := fun l s =>
  (mkLoc (filter (flushes (cooked s) cls) (tracebacks s))
         (filter (fun m => negb (flushes (cooked s) cls m)) (tracebacks s)) (l_pairs l) (l_err l), s).
(* :303 self.tracebackMessages = remaining *)
Definition f_assign : step mstate locals := fun l s =>
  (l, mkM (messages s) (serializers s) (l_remaining l) (failed s) (cooked s)).

(* ---- reset (:419-422): four assignments *)
Definition r_messages : step mstate locals := fun l s => (l, mkM [] (serializers s) (tracebacks s) (failed s) (cooked s)).
Definition r_serializers : step mstate locals := fun l s => (l, mkM (messages s) [] (tracebacks s) (failed s) (cooked s)).
Definition r_tracebacks : step mstate locals := fun l s => (l, mkM (messages s) (serializers s) [] (failed s) (cooked s)).
Definition r_failed : step mstate locals := fun l s => (l, mkM (messages s) (serializers s) (tracebacks s) [] (cooked s)).

Definition mem_body (c : mcall) : list (step mstate locals) :=
  match c with
  | MWrite m z => [w_validate m z; w_messages m; w_serializers z; w_tracebacks m z]
  | MValidate => [zip_snapshot; v_loop]
  | MSerialize => [zip_snapshot; s_loop]
  | MFlush cls => [f_loop cls; f_assign]
  | MReset => [r_messages; r_serializers; r_tracebacks; r_failed]
  end.

Definition mem_init (c : mcall) : locals := no_locals.
Definition mem_locked (c : mcall) : bool := true.        (* the code: every method is @exclusively *)
Definition mem_unlocked (c : mcall) : bool := false.     (* the same bodies without the decorator *)

(* what the caller sees *)
Inductive ret := RUnit | RErr (e : err) | RIds (ids : list nat).
Definition ret_of (c : mcall) (l : locals) : ret :=
  match c with
  | MWrite _ _ | MReset => RUnit
  | MValidate => match l_err l with Some e => RErr e | None => RUnit end
  | MSerialize => match l_err l with Some e => RErr e | None => RIds (map m_id (l_result l)) end
  | MFlush _ => RIds (map m_id (l_result l))
  end.

Definition mem_config := config mstate locals mcall.
Definition mem_run (progs : list (list mcall)) (sched : list nat) : mem_config :=
  run_sched mem_locked mem_init mem_body sched (init_config progs mem_empty).
Definition mem_run_unlocked (progs : list (list mcall)) (sched : list nat) : mem_config :=
  run_sched mem_unlocked mem_init mem_body sched (init_config progs mem_empty).
Definition mem_serial (lg : list (nat * mcall)) : mstate * list (nat * (mcall * locals)) :=
  serial mem_init mem_body lg mem_empty.

(* ---- observation used by the correspondence: the calls of a linearisation log run atomically *)
Definition ser_code (z : ser) : nat := match z with SNone => 0 | STraceback => 1 | SType k => 2 + k end.
Definition observe_state (s : mstate) :=
  (map m_id (messages s), map ser_code (serializers s), map m_id (tracebacks s), failed s).
Definition observe_serial (lg : list (nat * mcall)) :=
  let '(s, rs) := mem_serial lg in
  (observe_state s, map (fun x => (fst x, ret_of (fst (snd x)) (snd (snd x)))) rs).
Definition observe_config (cfg : mem_config) :=
  (observe_state (shared cfg), map (fun ts => map (fun x => ret_of (fst x) (snd x)) (rets ts)) (thr cfg),
   map fst (acq cfg), finishedb cfg).

(* ---- specification vocabulary over a list of calls (a linearisation) *)
(* the (message, serializer) pairs written since the last reset, in order *)
Definition lw_step (w : list (msg * ser)) (c : mcall) : list (msg * ser) :=
  match c with MWrite m z => w ++ [(m, z)] | MReset => [] | _ => w end.
Definition live_writes (cs : list mcall) : list (msg * ser) := fold_left lw_step cs [].
(* all writes of a list of calls, in order *)
Definition writes_of (cs : list mcall) : list (msg * ser) :=
  flat_map (fun c => match c with MWrite m z => [(m, z)] | _ => [] end) cs.
Definition is_reset (c : mcall) : bool := match c with MReset => true | _ => false end.
(* the messages handed out by flushTracebacks calls since the last reset, from (call, return value) pairs *)
Definition fl_step (f : list msg) (x : mcall * locals) : list msg :=
  match fst x with MFlush _ => f ++ l_result (snd x) | MReset => [] | _ => f end.
Definition flushed_since_reset (rs : list (mcall * locals)) : list msg := fold_left fl_step rs [].

(* ---- FileDestination.__call__ (:495-498): self.file.write(dumps(message) + linebreak); self.file.flush()
   No lock.  The shared state is the list of events performed on the file object. *)
Definition file_body (line : list byte) : list (step (list ev) unit) :=
  [ (fun l evs => (l, evs ++ [Write (line ++ [nl])])); (fun l evs => (l, evs ++ [Flush])) ].
Definition file_config := config (list ev) unit (list byte).
Definition file_run (progs : list (list (list byte))) (sched : list nat) : file_config :=
  run_sched (fun _ => false) (fun _ => tt) file_body sched (init_config progs []).

(* lines whose Write has not happened yet *)
Definition file_pending_thread (ts : tstate (list ev) unit (list byte)) : list (list byte) :=
  match cur ts with
  | Some (c, _, rest) => if 2 <=? length rest then [c] else []
  | None => []
  end ++ todo ts.
Definition file_pending (cfg : file_config) : list (list byte) := flat_map file_pending_thread (thr cfg).

(* a variant that writes payload and line break in two calls (NOT the code; for the refutation) *)
Definition file_body_split (line : list byte) : list (step (list ev) unit) :=
  [ (fun l evs => (l, evs ++ [Write line])); (fun l evs => (l, evs ++ [Write [nl]]));
    (fun l evs => (l, evs ++ [Flush])) ].
Definition file_run_split (progs : list (list (list byte))) (sched : list nat) : file_config :=
  run_sched (fun _ => false) (fun _ => tt) file_body_split sched (init_config progs []).
