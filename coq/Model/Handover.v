(* C12: start-up buffering, (un)registration, and the hand-over race.

   Part (a): histories of log / add_destinations / remove_destination /
   add_global_fields calls, mapped onto the operations of Model/Core.v, and the
   DECLARATIVE statement [spec_received] of what a destination must have been
   offered after a history.  The specification does not mention the buffer, the
   [_any_added] flag or the re-send loop: it only speaks about positions in the
   history (which add registered the destination, which messages were logged
   before / after it, which global fields were in force when).

   Part (b): a two-thread interleaving model, at source-line granularity, of
   [Destinations.send] (logging thread) running concurrently with the FIRST
   [Destinations.add] (eliot/_output.py): the code as it is now (hand-over under
   self._lock, flag set after the hand-over) and, in [Module Legacy], the code
   before the repair (no lock, flag set before the swap).  Python list objects
   are modelled as objects: the old list [buffer], the new list created by
   [self._destinations = []], live iterators holding (list object, index).

   Definitions only; proofs are in Proofs/HandoverProofs.v. *)
From Coq Require Import List PArith NArith ZArith Bool Arith.
Require Import Eliot.Base.Level Eliot.Model.Core.
Import ListNotations.

(* ===================================================================== *)
(* (a) histories                                                         *)

Inductive hop :=
| HLog (mt : val) (fs : fields)     (* log_message(mt, **fs), no action in progress *)
| HAdd (ds : list dest)             (* add_destinations( *ds ) *)
| HRemove (id : nat)                (* remove_destination(d) *)
| HGlobals (fs : fields).           (* add_global_fields( **fs ) *)

(* every call is made by the main thread (context 0) outside any action *)
Definition hop_op (x : hop) : nat * op :=
  (0, match x with
      | HLog mt fs => OLog mt fs None
      | HAdd ds => OAddDests ds
      | HRemove id => ORemoveDest id
      | HGlobals fs => OAddGlobals fs
      end).

(* the n-th message logged by a history, as handed to Logger.write: with no
   action in progress log_message makes a one-message task (fresh uuid, level [1]) *)
Definition logged_msg (n : nat) (mt : val) (fs : fields) : msg :=
  stamp n [1%positive] mt (mkfields fs).

(* global fields in force after a stretch of history, starting from g *)
Fixpoint globals_after (g : fields) (h : list hop) : fields :=
  match h with
  | [] => g
  | HGlobals fs :: r => globals_after (fupdate g fs) r
  | _ :: r => globals_after g r
  end.

Fixpoint count_logs (h : list hop) : nat :=
  match h with
  | [] => 0
  | HLog _ _ :: r => S (count_logs r)
  | _ :: r => count_logs r
  end.

(* the messages logged in a stretch of history, each carrying the global fields
   in force at ITS OWN log time; g = fields in force at the start, n = number of
   messages logged before the stretch *)
Fixpoint stamped (g : fields) (n : nat) (h : list hop) : list msg :=
  match h with
  | [] => []
  | HLog mt fs :: r => fupdate (logged_msg n mt fs) g :: stamped g (S n) r
  | HGlobals fs :: r => stamped (fupdate g fs) n r
  | _ :: r => stamped g n r
  end.

Definition has_add (h : list hop) : bool :=
  existsb (fun x => match x with HAdd _ => true | _ => false end) h.

Definition adds_id (id : nat) (ds : list dest) : bool :=
  existsb (fun d => Nat.eqb (d_id d) id) ds.

(* h = pre ++ HAdd ds :: post with ds the first add that registers id *)
Fixpoint split_reg (id : nat) (h : list hop) : option (list hop * list hop) :=
  match h with
  | [] => None
  | x :: r =>
      if match x with HAdd ds => adds_id id ds | _ => false end then Some ([], r)
      else match split_reg id r with
           | Some (p, q) => Some (x :: p, q)
           | None => None
           end
  end.

(* the part of a stretch before the removal of id *)
Fixpoint until_removed (id : nat) (h : list hop) : list hop :=
  match h with
  | [] => []
  | HRemove id' :: r => if Nat.eqb id' id then [] else HRemove id' :: until_removed id r
  | x :: r => x :: until_removed id r
  end.

Definition lastn {A} (n : nat) (l : list A) : list A := skipn (length l - n) l.

(* What destination id must have been offered after history h:
   registered by the add at position i = |pre|:
     - if that add is the first add of the history: the most recent [buffer_cap]
       of the messages logged before i, in order, each as stamped at its own log
       time and stamped again with the fields in force at i;
     - then (in both cases) the messages logged after i and before id's removal,
       each stamped with the fields in force at its own log time;
   never registered: nothing. *)
Definition spec_received (id : nat) (h : list hop) : list msg :=
  match split_reg id h with
  | None => []
  | Some (pre, post) =>
      let g := globals_after [] pre in
      (if has_add pre then []
       else map (fun m => fupdate m g) (lastn buffer_cap (stamped [] 0 pre)))
      ++ stamped g (count_logs pre) (until_removed id post)
  end.

(* well-formed histories (for the specification theorem): destination objects are
   distinct and fresh, and none of them ever raises.  Removing an unregistered
   destination (ValueError in the library, no state change) is allowed. *)
Definition hist_dests (h : list hop) : list dest :=
  flat_map (fun x => match x with HAdd ds => ds | _ => [] end) h.

Definition never_fails (d : dest) : Prop := forall n m, d_behave d n m = None.

Definition wf_history (h : list hop) : Prop :=
  NoDup (map d_id (hist_dests h)) /\
  Forall (fun d => never_fails d /\ d_log d = []) (hist_dests h).

(* what a hop changes about the set of registered destinations, before anything
   is delivered *)
Definition dests_after (s : state) (x : hop) : list dest :=
  match x with
  | HAdd ds => if any_added s then dests s ++ ds else ds
  | HRemove id => fst (remove_dest id (dests s))
  | _ => dests s
  end.

(* m carries every field of (the dict denoted by) g, with g's value *)
Definition carries (g : fields) (m : msg) : Prop :=
  forall k v, fget k (mkfields g) = Some v -> fget k m = Some v.


(* ===================================================================== *)
(* (b) the hand-over: Destinations.send || first Destinations.add          *)

(* messages are numbers; the two list objects [self._destinations] may be bound to *)
Inductive lst := LOld | LNew.            (* [BufferingDestination()]  /  the list made by add *)
Inductive elem := EBuf | EDest.          (* the buffering destination / the real destination *)

Record shared := mkShared {
  dl : lst;                 (* which list object self._destinations is bound to *)
  newl : list elem;         (* contents of the new list object *)
  anyadd : bool;            (* self._any_added *)
  buf : list nat;           (* BufferingDestination.messages (one list object, appended in place) *)
  dlog : list nat;          (* what the real destination received *)
  lock : option nat         (* self._lock: the thread holding it (legacy code: never taken) *)
}.

(* contents of a list object; nobody mutates the old one *)
Definition items (s : shared) (l : lst) : list elem :=
  match l with LOld => [EBuf] | LNew => newl s end.

(* one activation of Destinations._send(message) (legacy: the body of send) *)
Inductive spc :=
| SFor                      (* at `for dest in self._destinations:` *)
| SCall (e : elem)          (* at `dest(message)` with dest = e *)
| SDone.

Record sendst := mkSend {
  sd_msg : nat;
  sd_it : option (lst * nat);   (* the live iterator: list object and next index *)
  sd_pc : spc
}.

Definition new_send (m : nat) : sendst := mkSend m None SFor.

(* one line of _send.  The `for` line creates the iterator over the list object
   self._destinations is bound to NOW (first time only) and advances it; the call
   line calls the element: the buffer appends to its messages list, the real
   destination records.  (The lines before the loop -- is_report,
   message.update(globals), errors = [] -- and `try:` touch no shared state
   relevant here and are not steps of the model.) *)
Definition send_step (s : shared) (sd : sendst) : shared * sendst :=
  match sd_pc sd with
  | SFor =>
      let it := match sd_it sd with Some it => it | None => (dl s, 0) end in
      match nth_error (items s (fst it)) (snd it) with
      | Some e => (s, mkSend (sd_msg sd) (Some (fst it, S (snd it))) (SCall e))
      | None => (s, mkSend (sd_msg sd) (Some it) SDone)
      end
  | SCall e =>
      (match e with
       | EBuf => mkShared (dl s) (newl s) (anyadd s) (buf s ++ [sd_msg sd]) (dlog s) (lock s)
       | EDest => mkShared (dl s) (newl s) (anyadd s) (buf s) (dlog s ++ [sd_msg sd]) (lock s)
       end, mkSend (sd_msg sd) (sd_it sd) SFor)
  | SDone => (s, sd)
  end.

Definition set_lock (s : shared) (l : option nat) : shared :=
  mkShared (dl s) (newl s) (anyadd s) (buf s) (dlog s) l.

(* ---- the code as it is now: hand-over under self._lock ------------------- *)

(* logging thread: Destinations.send(message) *)
Inductive apc :=
| ARead                     (* if self._any_added: *)
| AAcq                      (* with self._lock:  (blocks while the other thread holds it) *)
| ARun (locked : bool)      (* inside self._send(message), with / without the lock *)
| ARel                      (* leaving the with block *)
| ADone.

(* adding thread: Destinations.add(dest) *)
Inductive bpc :=
| BAcq                          (* with self._lock: *)
| BRead                         (* if not self._any_added: *)
| BGrab                         (* buffered_messages = self._destinations[0].messages *)
| BRebind                       (* self._destinations = [] *)
| BExtend                       (* self._destinations.extend(destinations) *)
| BTest                         (* if buffered_messages: *)
| BFor (i : nat)                (* for message in buffered_messages:  live iterator, next index i *)
| BSend (i : nat) (sd : sendst) (* self._send(message) *)
| BSet                          (* self._any_added = True *)
| BRel                          (* leaving the with block *)
| BDone.

Record rstate := mkR { sh : shared; ta : apc; sa : sendst; tb : bpc }.

(* thread t can take the lock (re-entrant; nested acquisition does not occur in this scenario) *)
Definition lock_free (s : shared) (t : nat) : bool :=
  match lock s with None => true | Some h => Nat.eqb h t end.

Definition a_step (st : rstate) : rstate :=
  let s := sh st in
  match ta st with
  | ARead => mkR s (if anyadd s then ARun false else AAcq) (sa st) (tb st)
  | AAcq => if lock_free s 0 then mkR (set_lock s (Some 0)) (ARun true) (sa st) (tb st) else st
  | ARun lk =>
      let '(s', sd') := send_step s (sa st) in
      mkR s' (match sd_pc sd' with SDone => if lk then ARel else ADone | _ => ARun lk end) sd' (tb st)
  | ARel => mkR (set_lock s None) ADone (sa st) (tb st)
  | ADone => st
  end.

(* [buffered_messages] is a reference to the buffer's own list object [buf]: what
   is appended to it later is seen by the test and by the live iterator. *)
Definition b_step (st : rstate) : rstate :=
  let s := sh st in
  let go := fun s' pc => mkR s' (ta st) (sa st) pc in
  match tb st with
  | BAcq => if lock_free s 1 then go (set_lock s (Some 1)) BRead else st
  | BRead => go s (if anyadd s then BDone else BGrab)   (* a later add is outside this scenario *)
  | BGrab => go s BRebind
  | BRebind => go (mkShared LNew [] (anyadd s) (buf s) (dlog s) (lock s)) BExtend
  | BExtend =>
      go (match dl s with
          | LNew => mkShared LNew (newl s ++ [EDest]) (anyadd s) (buf s) (dlog s) (lock s)
          | LOld => s
          end) BTest
  | BTest => go s (match buf s with [] => BSet | _ => BFor 0 end)
  | BFor i =>
      go s (match nth_error (buf s) i with
            | Some m => BSend (S i) (new_send m)
            | None => BSet
            end)
  | BSend i sd =>
      let '(s', sd') := send_step s sd in
      go s' (match sd_pc sd' with SDone => BFor i | _ => BSend i sd' end)
  | BSet => go (mkShared (dl s) (newl s) true (buf s) (dlog s) (lock s)) BRel
  | BRel => go (set_lock s None) BDone
  | BDone => st
  end.

(* thread ids: 0 = logging thread, 1 = adding thread; a step of a finished or
   blocked thread (or of an unknown id) is skipped, as the line scheduler does *)
Definition rstep (st : rstate) (t : nat) : rstate :=
  match t with
  | 0 => a_step st
  | 1 => b_step st
  | _ => st
  end.

Definition rrun (sched : list nat) (st : rstate) : rstate := fold_left rstep sched st.

(* pre = messages buffered before the race, m = the message the logging thread sends *)
Definition rinit (pre : list nat) (m : nat) : rstate :=
  mkR (mkShared LOld [] false pre [] None) ARead (new_send m) BAcq.

Definition a_done (st : rstate) : bool := match ta st with ADone => true | _ => false end.
Definition b_done (st : rstate) : bool := match tb st with BDone => true | _ => false end.
Definition finished (st : rstate) : bool := a_done st && b_done st.
Definition delivered (st : rstate) : list nat := dlog (sh st).

(* labels of the steps a schedule executes (for the correspondence with the real
   line steps): 1 for-line of _send, 2 destination call, 3 read flag, 4 set flag,
   5 grab buffer list, 6 rebind, 7 extend, 8 test, 9 for-line of add, 10 lock
   acquired, 11 lock released; 0 skipped (finished or blocked) *)
Definition send_label (sd : sendst) : nat :=
  match sd_pc sd with SFor => 1 | SCall _ => 2 | SDone => 0 end.

Definition label (st : rstate) (t : nat) : nat :=
  match t with
  | 0 => match ta st with
         | ARead => 3
         | AAcq => if lock_free (sh st) 0 then 10 else 0
         | ARun _ => send_label (sa st)
         | ARel => 11
         | ADone => 0
         end
  | 1 => match tb st with
         | BAcq => if lock_free (sh st) 1 then 10 else 0
         | BRead => 3 | BGrab => 5 | BRebind => 6 | BExtend => 7 | BTest => 8
         | BFor _ => 9 | BSend _ sd => send_label sd | BSet => 4 | BRel => 11 | BDone => 0
         end
  | _ => 0
  end.

Fixpoint labels (sched : list nat) (st : rstate) : list (nat * nat) :=
  match sched with
  | [] => []
  | t :: r => (t, label st t) :: labels r (rstep st t)
  end.

(* observation compared with the real run: what the destination received, what
   is left in the buffer list, whether both calls returned, the labels *)
Definition race_obs (pre : list nat) (m : nat) (sched : list nat) :=
  let st := rrun sched (rinit pre m) in
  (delivered st, buf (sh st), finished st, labels sched (rinit pre m)).

(* ---- the code before the repair: no lock, flag set before the swap ------- *)
Module Legacy.

Inductive bpc :=
| BRead                         (* if not self._any_added: *)
| BSet                          (* self._any_added = True *)
| BGrab | BRebind | BExtend | BTest
| BFor (i : nat)
| BSend (i : nat) (sd : sendst) (* self.send(message) *)
| BDone.

(* the logging thread runs the body of send directly: its state is the activation *)
Record rstate := mkR { sh : shared; ta : sendst; tb : bpc }.

Definition a_step (st : rstate) : rstate :=
  let '(s', a') := send_step (sh st) (ta st) in mkR s' a' (tb st).

Definition b_step (st : rstate) : rstate :=
  let s := sh st in
  match tb st with
  | BRead => mkR s (ta st) (if anyadd s then BDone else BSet)
  | BSet => mkR (mkShared (dl s) (newl s) true (buf s) (dlog s) (lock s)) (ta st) BGrab
  | BGrab => mkR s (ta st) BRebind
  | BRebind => mkR (mkShared LNew [] (anyadd s) (buf s) (dlog s) (lock s)) (ta st) BExtend
  | BExtend =>
      mkR (match dl s with
           | LNew => mkShared LNew (newl s ++ [EDest]) (anyadd s) (buf s) (dlog s) (lock s)
           | LOld => s
           end) (ta st) BTest
  | BTest => mkR s (ta st) (match buf s with [] => BDone | _ => BFor 0 end)
  | BFor i =>
      mkR s (ta st) (match nth_error (buf s) i with
                     | Some m => BSend (S i) (new_send m)
                     | None => BDone
                     end)
  | BSend i sd =>
      let '(s', sd') := send_step s sd in
      mkR s' (ta st) (match sd_pc sd' with SDone => BFor i | _ => BSend i sd' end)
  | BDone => st
  end.

Definition rstep (st : rstate) (t : nat) : rstate :=
  match t with 0 => a_step st | 1 => b_step st | _ => st end.

Definition rrun (sched : list nat) (st : rstate) : rstate := fold_left rstep sched st.

Definition rinit (pre : list nat) (m : nat) : rstate :=
  mkR (mkShared LOld [] false pre [] None) (new_send m) BRead.

Definition finished (st : rstate) : bool :=
  match sd_pc (ta st), tb st with SDone, BDone => true | _, _ => false end.

Definition delivered (st : rstate) : list nat := dlog (sh st).

End Legacy.
