(* Model of eliot/parse.py (Task, Parser) and of the parts of
   eliot/_action.py WrittenAction it uses (_start, _end, _add_child,
   _validate_message) — the tree-rebuilding parser over persistent maps.

   A parsed message is reduced to what the parser looks at: task_uuid,
   task_level, action_type (None for plain messages), action_status, plus an
   identity [pm_id] standing for the rest of the dictionary (two messages with
   equal dictionaries have equal ids).

   Definitions only; proofs are in Proofs/. *)
From Coq Require Import List PArith Bool Arith.
Require Import Eliot.Base.Level.
Import ListNotations.

Inductive pstatus := PStarted | PSucceeded | PFailed | POther.

Record pmsg := mkPmsg {
  pm_uuid : nat;
  pm_level : level;
  pm_atype : option positive;      (* message_dict.get("action_type") *)
  pm_status : option pstatus;      (* message_dict.get("action_status") *)
  pm_id : nat
}.

Definition pstatus_eqb (a b : pstatus) : bool :=
  match a, b with
  | PStarted, PStarted | PSucceeded, PSucceeded | PFailed, PFailed | POther, POther => true
  | _, _ => false
  end.

Definition opt_eqb {A} (eqb : A -> A -> bool) (a b : option A) : bool :=
  match a, b with
  | None, None => true
  | Some x, Some y => eqb x y
  | _, _ => false
  end.

Definition pmsg_eqb (a b : pmsg) : bool :=
  Nat.eqb (pm_uuid a) (pm_uuid b) && level_eqb (pm_level a) (pm_level b)
  && opt_eqb Pos.eqb (pm_atype a) (pm_atype b) && opt_eqb pstatus_eqb (pm_status a) (pm_status b)
  && Nat.eqb (pm_id a) (pm_id b).

(* WrittenAction / WrittenMessage.  [children] is the pmap _children keyed by
   the child's task level, kept sorted by key with unique keys. *)
Inductive node :=
| NMsg (m : pmsg)
| NAct (start end_ : option pmsg) (lvl : level) (uuid : nat) (children : list (level * node)).

Inductive perr :=
| EInvalidStart | EWrongActionType | EWrongTask | EWrongTaskLevel | EInvalidStatus
| ENotAnAction      (* the code would fail with AttributeError: a WrittenMessage where an action is expected *)
| EBadLevel.        (* empty task_level *)

Inductive pres (A : Type) := POk (a : A) | PErr (e : perr).
Arguments POk {A} a.
Arguments PErr {A} e.

(* sorted association lists keyed by level (lexicographic order = Python list order) *)
Fixpoint linsert {A} (k : level) (v : A) (l : list (level * A)) : list (level * A) :=
  match l with
  | [] => [(k, v)]
  | (k', v') :: r =>
      if level_eqb k k' then (k, v) :: r
      else if level_ltb k k' then (k, v) :: l
      else (k', v') :: linsert k v r
  end.

Fixpoint llookup {A} (k : level) (l : list (level * A)) : option A :=
  match l with
  | [] => None
  | (k', v') :: r => if level_eqb k k' then Some v' else llookup k r
  end.

Fixpoint set_add (k : level) (l : list level) : list level :=
  match l with
  | [] => [k]
  | k' :: r => if level_eqb k k' then l else if level_ltb k k' then k :: l else k' :: set_add k r
  end.

Definition set_mem (k : level) (l : list level) : bool := existsb (level_eqb k) l.

Definition node_level (n : node) : level :=
  match n with NMsg m => pm_level m | NAct _ _ l _ _ => l end.

Definition node_uuid (n : node) : nat :=
  match n with NMsg m => pm_uuid m | NAct _ _ _ u _ => u end.

Definition parent_level (l : level) : level := removelast l.

(* WrittenAction._validate_message + _add_child *)
Definition add_child (a : node) (c : node) : pres node :=
  match a with
  | NMsg _ => PErr ENotAnAction
  | NAct st en l u ch =>
      if negb (Nat.eqb (node_uuid c) u) then PErr EWrongTask
      else if negb (level_eqb (parent_level (node_level c)) l) then PErr EWrongTaskLevel
      else POk (NAct st en l u (linsert (node_level c) c ch))
  end.

Definition action_type_of (st en : option pmsg) : option positive :=
  match st with
  | Some m => pm_atype m
  | None => match en with Some m => pm_atype m | None => None end
  end.

(* WrittenAction._start *)
Definition start_action_node (a : node) (m : pmsg) : pres node :=
  match a with
  | NMsg _ => PErr ENotAnAction
  | NAct st en l u ch =>
      match pm_status m with
      | Some PStarted =>
          if Pos.eqb (last (pm_level m) 2%positive) 1 then POk (NAct (Some m) en l u ch)
          else PErr EInvalidStart
      | _ => PErr EInvalidStart
      end
  end.

(* WrittenAction._end *)
Definition end_action_node (a : node) (m : pmsg) : pres node :=
  match a with
  | NMsg _ => PErr ENotAnAction
  | NAct st en l u ch =>
      let ok_type := match action_type_of st en with
                     | None => true
                     | Some t => opt_eqb Pos.eqb (Some t) (pm_atype m)
                     end in
      if negb ok_type then PErr EWrongActionType
      else if negb (Nat.eqb (pm_uuid m) u) then PErr EWrongTask
      else if negb (level_eqb (parent_level (pm_level m)) l) then PErr EWrongTaskLevel
      else match pm_status m with
           | Some PSucceeded | Some PFailed => POk (NAct st (Some m) l u ch)
           | _ => PErr EInvalidStatus
           end
  end.

Record task := mkTask {
  t_nodes : list (level * node);
  t_completed : list level
}.

Definition empty_task : task := mkTask [] [].

Definition is_action_node (n : node) : bool := match n with NAct _ _ _ _ _ => true | NMsg _ => false end.

(* the completeness test of Task._insert_action, evaluated against [completed] *)
Definition node_complete (completed : list level) (n : node) : bool :=
  match n with
  | NAct (Some _) (Some e) _ _ ch =>
      Nat.eqb (length ch + 2) (Pos.to_nat (last (pm_level e) 1%positive))
      && forallb (fun kc => orb (negb (is_action_node (snd kc))) (set_mem (node_level (snd kc)) completed)) ch
  | _ => false
  end.

(* Task._insert_action / Task._ensure_node_parents: mutual recursion in the code,
   one structural recursion here on [n] = length of the node's level *)
Fixpoint insert_action (n : nat) (t : task) (nd : node) : pres task :=
  let completed := if node_complete (t_completed t) nd then set_add (node_level nd) (t_completed t)
                   else t_completed t in
  let t1 := mkTask (linsert (node_level nd) nd (t_nodes t)) completed in
  match n with
  | O => POk t1
  | S n' =>
      let pl := parent_level (node_level nd) in
      let parent := match llookup pl (t_nodes t1) with
                    | Some p => p
                    | None => NAct None None pl (node_uuid nd) []
                    end in
      match add_child parent nd with
      | PErr e => PErr e
      | POk parent' => insert_action n' t1 parent'
      end
  end.

(* Task._ensure_node_parents for a WrittenMessage child *)
Definition ensure_parents_msg (t : task) (m : pmsg) : pres task :=
  match pm_level m with
  | [] => POk t
  | _ =>
      let pl := parent_level (pm_level m) in
      let parent := match llookup pl (t_nodes t) with
                    | Some p => p
                    | None => NAct None None pl (pm_uuid m) []
                    end in
      match add_child parent (NMsg m) with
      | PErr e => PErr e
      | POk parent' => insert_action (length pl) t parent'
      end
  end.

(* Task.add *)
Definition task_add (t : task) (m : pmsg) : pres task :=
  match pm_level m with
  | [] => PErr EBadLevel
  | _ =>
    match pm_atype m with
    | Some _ =>
        let al := parent_level (pm_level m) in
        let action := match llookup al (t_nodes t) with
                      | Some a => a
                      | None => NAct None None al (pm_uuid m) []
                      end in
        let started := match pm_status m with Some PStarted => true | _ => false end in
        match (if started then start_action_node action m else end_action_node action m) with
        | PErr e => PErr e
        | POk action' => insert_action (length al) t action'
        end
    | None =>
        if level_eqb (pm_level m) [1%positive]
        then POk (mkTask (linsert [] (NMsg m) (t_nodes t)) (set_add [] (t_completed t)))
        else ensure_parents_msg t m
    end
  end.

Definition task_complete (t : task) : bool := set_mem [] (t_completed t).
Definition task_root (t : task) : option node := llookup [] (t_nodes t).

(* Parser: uuid -> Task, sorted by uuid *)
Fixpoint uinsert {A} (k : nat) (v : A) (l : list (nat * A)) : list (nat * A) :=
  match l with
  | [] => [(k, v)]
  | (k', v') :: r =>
      if Nat.eqb k k' then (k, v) :: r
      else if Nat.ltb k k' then (k, v) :: l
      else (k', v') :: uinsert k v r
  end.

Fixpoint ulookup {A} (k : nat) (l : list (nat * A)) : option A :=
  match l with
  | [] => None
  | (k', v') :: r => if Nat.eqb k k' then Some v' else ulookup k r
  end.

Fixpoint uremove {A} (k : nat) (l : list (nat * A)) : list (nat * A) :=
  match l with
  | [] => []
  | (k', v') :: r => if Nat.eqb k k' then r else (k', v') :: uremove k r
  end.

Definition parser := list (nat * task).

(* Parser.add: (completed tasks, new parser) *)
Definition parser_add (p : parser) (m : pmsg) : pres (list task * parser) :=
  let t := match ulookup (pm_uuid m) p with Some t => t | None => empty_task end in
  match task_add t m with
  | PErr e => PErr e
  | POk t' =>
      if task_complete t' then POk ([t'], uremove (pm_uuid m) p)
      else POk ([], uinsert (pm_uuid m) t' p)
  end.

(* Parser.parse_stream: completed tasks in completion order, then the incomplete ones *)
Fixpoint parse_loop (p : parser) (ms : list pmsg) (done : list task) : pres (list task * parser) :=
  match ms with
  | [] => POk (done, p)
  | m :: r =>
      match parser_add p m with
      | PErr e => PErr e
      | POk (c, p') => parse_loop p' r (done ++ c)
      end
  end.

Definition parse_stream (ms : list pmsg) : pres (list task * list task) :=
  match parse_loop [] ms [] with
  | PErr e => PErr e
  | POk (done, p) => POk (done, map snd p)
  end.

(* step-by-step trace for the correspondence: after each message, the uuids of
   the tasks reported complete by that call *)
Fixpoint parse_trace (p : parser) (ms : list pmsg) : pres (list (list task) * parser) :=
  match ms with
  | [] => POk ([], p)
  | m :: r =>
      match parser_add p m with
      | PErr e => PErr e
      | POk (c, p') =>
          match parse_trace p' r with
          | PErr e => PErr e
          | POk (cs, p'') => POk (c :: cs, p'')
          end
      end
  end.
