(* C11: what is on disk when the process dies.

   A FileDestination call performs exactly [Write (line ++ [nl]); Flush]
   (eliot/_output.py:489-496); the logging call that caused it returns
   afterwards ([Ack]).  A crash point is an index into the event list, the
   event at that index being possibly a Write cut to a byte prefix.  The disk
   holds the bytes of the completed writes plus the cut fragment. *)
From Coq Require Import List Arith Bool NArith.
Import ListNotations.

Definition byte := N.
Definition nl : byte := 10%N.

Inductive ev := Write (b : list byte) | Flush | Ack.

Definition msg_events (line : list byte) : list ev := [Write (line ++ [nl]); Flush; Ack].
Definition all_events (lines : list (list byte)) : list ev := flat_map msg_events lines.

Definition written (e : ev) : list byte := match e with Write b => b | _ => [] end.
Definition disk_of (evs : list ev) : list byte := flat_map written evs.

(* crash while performing event number k (0-based), having transferred c bytes of it if it is a write *)
Definition crash_disk (lines : list (list byte)) (k c : nat) : list byte :=
  let evs := all_events lines in
  disk_of (firstn k evs) ++ match nth_error evs k with Some (Write b) => firstn c b | _ => [] end.

(* logging calls that had returned before the crash *)
Definition acked (lines : list (list byte)) (k : nat) : nat :=
  length (filter (fun e => match e with Ack => true | _ => false end) (firstn k (all_events lines))).

(* reader: split at newlines; complete lines and the trailing fragment *)
Fixpoint split_nl (s : list byte) (cur : list byte) : list (list byte) * list byte :=
  match s with
  | [] => ([], cur)
  | c :: r => if N.eqb c nl then let '(ls, frag) := split_nl r [] in (cur :: ls, frag)
              else split_nl r (cur ++ [c])
  end.

Definition complete_lines (disk : list byte) : list (list byte) := fst (split_nl disk []).
Definition fragment (disk : list byte) : list byte := snd (split_nl disk []).

Definition no_nl (l : list byte) : Prop := forallb (fun c => negb (N.eqb c nl)) l = true.
