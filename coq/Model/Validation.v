(* Executable model of eliot's test-time validation (property C14).

   Mirrors, function by function:
     eliot/_validation.py  Field (validate/serialize), Field.forValue, Field.forTypes,
                           RESERVED_FIELDS, REASON/EXCEPTION, _MessageSerializer
                           (__init__ checks, serialize, validate), MessageType, ActionType
     eliot/_traceback.py   TRACEBACK_MESSAGE (allow_additional_fields = True),
                           _writeTracebackMessage (message construction)
     eliot/_action.py      Action._start / Action.finish / Action.log (message construction only)
     eliot/_output.py      MemoryLogger.write/_validate_message/validate/flushTracebacks/reset
     eliot/json.py         JSON-encodability with orjson + json_default, as a predicate on values
     eliot/testing.py      check_for_errors, swap_logger, validate_logging, capture_logging
     unittest              TestCase.run: body outcome, doCleanups (LIFO, every cleanup runs),
                           failure/error/skip classification

   Values are a small model of the Python values that can occur in a message.
   Strings are Coq strings (field names are the real ones).  Floats are
   quarter-integers [JFloat q] = q/4 (enough to have 1 == 1.0 == True).
   Only definitions here; proofs are in Proofs/ValidationProofs.v. *)
From Coq Require Import List ZArith Bool String Ascii Arith.
Import ListNotations.
Local Open Scope string_scope.
Local Open Scope list_scope.

(* --- exceptions (classes only) ------------------------------------------------ *)
Inductive ecls :=
| EValidation        (* eliot.ValidationError *)
| EType              (* TypeError *)
| EUnicodeDecode     (* UnicodeDecodeError (bytes key that is not UTF-8) *)
| EKeyError
| EAttribute         (* AttributeError *)
| EValue             (* ValueError (raised by a user serializer) *)
| EAssertion         (* AssertionError = TestCase.failureException *)
| ERuntime           (* RuntimeError (a test body "error" outcome) *)
| EUnflushed.        (* eliot.testing.UnflushedTracebacks *)

Inductive result (A : Type) := Ok (a : A) | Raise (e : ecls).
Arguments Ok {A} a.
Arguments Raise {A} e.

(* --- values --------------------------------------------------------------------- *)
Inductive jv :=
| JNone
| JBool (b : bool)
| JInt (z : Z)
| JFloat (q : Z)                      (* the float q/4 *)
| JStr (s : string)
| JBytes (s : string)
| JList (l : list jv)
| JDict (d : list (jv * jv))          (* a dict value: (key, value) pairs *)
| JObj (enc : bool) (id : nat)        (* any other object; enc = eliot's json_default converts it
                                         (Path, date, set, ...) ; object() has enc = false *)
| JExn (mro : list string) (text : string)   (* exception instance: FQPNs of its class's MRO, str(e) *)
| JExnType (mro : list string).              (* exception class *)

(* the classes Field.forTypes supports (_JSON_TYPES) *)
Inductive jtag := TNone | TInt | TFloat | TStr | TList | TDict | TBytes | TBool.

(* isinstance(v, cls); bool is a subclass of int *)
Definition inst (v : jv) (t : jtag) : bool :=
  match v, t with
  | JNone, TNone => true
  | JBool _, TBool => true
  | JBool _, TInt => true
  | JInt _, TInt => true
  | JFloat _, TFloat => true
  | JStr _, TStr => true
  | JBytes _, TBytes => true
  | JList _, TList => true
  | JDict _, TDict => true
  | _, _ => false
  end.

(* numbers as quarters, for == across bool/int/float *)
Definition num_of (v : jv) : option Z :=
  match v with
  | JBool b => Some (if b then 4 else 0)%Z
  | JInt z => Some (4 * z)%Z
  | JFloat q => Some q
  | _ => None
  end.

Fixpoint list_eqb (l l' : list string) : bool :=
  match l, l' with
  | [], [] => true
  | x :: r, y :: r' => String.eqb x y && list_eqb r r'
  | _, _ => false
  end.

(* Python's == on these values (objects and exception instances compare by
   identity in Python; the model identifies an object with its data) *)
Fixpoint py_eq (a b : jv) {struct a} : bool :=
  match a with
  | JNone => match b with JNone => true | _ => false end
  | JBool _ | JInt _ | JFloat _ =>
      match num_of a, num_of b with Some x, Some y => Z.eqb x y | _, _ => false end
  | JStr s => match b with JStr t => String.eqb s t | _ => false end
  | JBytes s => match b with JBytes t => String.eqb s t | _ => false end
  | JList l =>
      match b with
      | JList l' =>
          (fix go (l l' : list jv) {struct l} : bool :=
             match l, l' with
             | [], [] => true
             | x :: r, y :: r' => py_eq x y && go r r'
             | _, _ => false
             end) l l'
      | _ => false
      end
  | JDict d =>
      match b with
      | JDict d' =>
          Nat.eqb (List.length d) (List.length d') &&
          (fix go (d : list (jv * jv)) : bool :=
             match d with
             | [] => true
             | (k, v) :: r =>
                 existsb (fun kv' => match kv' with (k', v') => py_eq k k' && py_eq v v' end) d' && go r
             end) d
      | _ => false
      end
  | JObj e i => match b with JObj e' i' => Bool.eqb e e' && Nat.eqb i i' | _ => false end
  | JExn m t => match b with JExn m' t' => list_eqb m m' && String.eqb t t' | _ => false end
  | JExnType m => match b with JExnType m' => list_eqb m m' | _ => false end
  end.

(* orjson.dumps(v, default=eliot.json.json_default) succeeds:
   ints must fit 64 bits, dict keys must be str, bytes/arbitrary objects/exceptions do not encode *)
Definition min_i64 : Z := (- 9223372036854775808)%Z.
Definition max_u64 : Z := 18446744073709551615%Z.

Fixpoint encodable (v : jv) : bool :=
  match v with
  | JNone | JBool _ | JFloat _ | JStr _ => true
  | JInt z => Z.leb min_i64 z && Z.leb z max_u64
  | JBytes _ => false
  | JList l => forallb encodable l
  | JDict d => forallb (fun kv => match kv with
                                  | (JStr _, x) => encodable x
                                  | _ => false
                                  end) d
  | JObj enc _ => enc
  | JExn _ _ => false
  | JExnType _ => false
  end.

(* --- messages: Python dicts, insertion-ordered, keys unique ------------------------- *)
Inductive mkey :=
| KStr (s : string)
| KBytes (utf8 : bool) (s : string)   (* bytes key; utf8 = key.decode("utf-8") succeeds *)
| KOther (n : nat).                   (* any other hashable key (int, tuple, ...) *)

Definition mkey_eqb (a b : mkey) : bool :=
  match a, b with
  | KStr s, KStr t => String.eqb s t
  | KBytes u s, KBytes v t => Bool.eqb u v && String.eqb s t
  | KOther n, KOther m => Nat.eqb n m
  | _, _ => false
  end.

Definition msg := list (mkey * jv).

(* d.get(k) *)
Fixpoint mget (k : mkey) (m : msg) : option jv :=
  match m with
  | [] => None
  | (k', v) :: r => if mkey_eqb k k' then Some v else mget k r
  end.

(* d[k] = v : in place when present, appended otherwise *)
Fixpoint mset (k : mkey) (v : jv) (m : msg) : msg :=
  match m with
  | [] => [(k, v)]
  | (k', v') :: r => if mkey_eqb k k' then (k, v) :: r else (k', v') :: mset k v r
  end.

(* del d[k] (keys are unique in a dict; every binding of k goes) *)
Definition mdel (k : mkey) (m : msg) : msg :=
  filter (fun kv => negb (mkey_eqb k (fst kv))) m.

(* d.update(upd) *)
Definition mupdate (m upd : msg) : msg :=
  fold_left (fun acc kv => mset (fst kv) (snd kv) acc) upd m.

(* dict(pairs) / **kwargs *)
Definition mdict (l : msg) : msg := mupdate [] l.

Definition K (s : string) : mkey := KStr s.

Definition TASK_LEVEL := "task_level".
Definition TASK_UUID := "task_uuid".
Definition TIMESTAMP := "timestamp".
Definition MESSAGE_TYPE := "message_type".
Definition ACTION_TYPE := "action_type".
Definition ACTION_STATUS := "action_status".
Definition REASON_FIELD := "reason".
Definition EXCEPTION_FIELD := "exception".
Definition TRACEBACK_FIELD := "traceback".

(* RESERVED_FIELDS = (TASK_LEVEL_FIELD, TASK_UUID_FIELD, TIMESTAMP_FIELD) *)
Definition RESERVED_FIELDS : list string := [TASK_LEVEL; TASK_UUID; TIMESTAMP].

Fixpoint mem_str (s : string) (l : list string) : bool :=
  match l with
  | [] => false
  | x :: r => String.eqb s x || mem_str s r
  end.

Definition reserved_key (k : mkey) : bool :=
  match k with KStr s => mem_str s RESERVED_FIELDS | _ => false end.

(* --- Field ---------------------------------------------------------------------------- *)
(* extra = the extraValidator as accept/reject (it raises ValidationError to reject;
   "no extra validator" is [fun _ => true]) *)
Record Field := mkField {
  fkey : string;
  fser : jv -> result jv;
  fextra : jv -> bool
}.

(* Field.validate(input) *)
Definition field_validate (F : Field) (v : jv) : result unit :=
  match fser F v with
  | Raise e => Raise e
  | Ok _ => if fextra F v then Ok tt else Raise EValidation
  end.

(* Field.serialize(input) *)
Definition field_serialize (F : Field) (v : jv) : result jv := fser F v.

(* Field.forValue(key, value, description) *)
Definition for_value (k : string) (value : jv) : Field :=
  mkField k (fun _ => Ok value) (fun checked => py_eq checked value).

(* Field.forTypes(key, classes, description, extraValidator) *)
Definition for_types (k : string) (classes : list jtag) (extra : jv -> bool) : Field :=
  mkField k (fun v => Ok v) (fun v => existsb (inst v) classes && extra v).

Definition no_extra : jv -> bool := fun _ => true.

(* --- _MessageSerializer -------------------------------------------------------------- *)
(* sid: identity of the serializer object ("serializer is TRACEBACK_MESSAGE._serializer") *)
Record serializer := mkSer {
  sid : nat;
  sfields : list Field;             (* declaration order = dict order of self.fields *)
  allow_additional : bool
}.

Definition field_keys (fs : list Field) : list string := map fkey fs.

Fixpoint nodup_str (l : list string) : bool :=
  match l with
  | [] => true
  | x :: r => negb (mem_str x r) && nodup_str r
  end.

Definition starts_with_underscore (s : string) : bool :=
  match s with
  | String c _ => Ascii.eqb c "_"%char
  | EmptyString => false
  end.

(* the checks of _MessageSerializer.__init__ (ValueError otherwise) *)
Definition ctor_ok (fs : list Field) : bool :=
  let keys := field_keys fs in
  nodup_str keys
  && xorb (mem_str ACTION_TYPE keys) (mem_str MESSAGE_TYPE keys)
  && negb (existsb starts_with_underscore keys)
  && negb (existsb (fun r => mem_str r keys) RESERVED_FIELDS).

Definition mk_serializer (id : nat) (fs : list Field) (allow : bool) : option serializer :=
  if ctor_ok fs then Some (mkSer id fs allow) else None.

Definition declared_key (sz : serializer) (k : mkey) : bool :=
  match k with KStr s => mem_str s (field_keys (sfields sz)) | _ => false end.

(* the loop over self.fields of _MessageSerializer.validate *)
Fixpoint validate_fields (fs : list Field) (m : msg) : result unit :=
  match fs with
  | [] => Ok tt
  | F :: r =>
      match mget (K (fkey F)) m with
      | None => Raise EValidation                      (* "Field %r is missing" *)
      | Some v =>
          match field_validate F v with
          | Ok _ => validate_fields r m
          | Raise e => Raise e
          end
      end
  end.

(* _MessageSerializer.validate(message) *)
Definition validate (sz : serializer) (m : msg) : result unit :=
  match validate_fields (sfields sz) m with
  | Raise e => Raise e
  | Ok _ =>
      if allow_additional sz then Ok tt
      else if forallb (fun kv => declared_key sz (fst kv) || reserved_key (fst kv)) m
           then Ok tt
           else Raise EValidation                      (* "Unexpected field %r" *)
  end.

(* _MessageSerializer.serialize(message): in place; the dict as it is when the
   call returns or raises *)
Fixpoint serialize_fields (fs : list Field) (m : msg) : msg * result unit :=
  match fs with
  | [] => (m, Ok tt)
  | F :: r =>
      match mget (K (fkey F)) m with
      | None => (m, Raise EKeyError)
      | Some v =>
          match field_serialize F v with
          | Ok v' => serialize_fields r (mset (K (fkey F)) v' m)
          | Raise e => (m, Raise e)
          end
      end
  end.

Definition serialize (sz : serializer) (m : msg) : msg * result unit :=
  serialize_fields (sfields sz) m.

(* --- MessageType / ActionType ----------------------------------------------------------- *)
Definition STARTED := JStr "started".
Definition SUCCEEDED := JStr "succeeded".
Definition FAILED := JStr "failed".

(* REASON / EXCEPTION = Field.forTypes(.., [str], ..) *)
Definition REASON : Field := for_types REASON_FIELD [TStr] no_extra.
Definition EXCEPTION : Field := for_types EXCEPTION_FIELD [TStr] no_extra.

(* MessageType(message_type, fields)._serializer *)
Definition message_type (id : nat) (name : string) (fs : list Field) : option serializer :=
  mk_serializer id (fs ++ [for_value MESSAGE_TYPE (JStr name)]) false.

Record action_serializers := mkAS {
  s_start : serializer;
  s_success : serializer;
  s_failure : serializer
}.

(* ActionType(action_type, startFields, successFields)._serializers;
   the three serializer objects get identities id, id+1, id+2 *)
Definition action_type (id : nat) (name : string) (startFields successFields : list Field)
  : option action_serializers :=
  let atf := for_value ACTION_TYPE (JStr name) in
  let status v := for_value ACTION_STATUS v in
  match mk_serializer id (startFields ++ [atf; status STARTED]) false,
        mk_serializer (S id) (successFields ++ [atf; status SUCCEEDED]) false,
        mk_serializer (S (S id)) [atf; status FAILED; REASON; EXCEPTION] true with
  | Some a, Some b, Some c => Some (mkAS a b c)
  | _, _, _ => None
  end.

(* --- the serializer / validator library used by the correspondence ----------------------- *)
(* str(o) as far as the model needs it: exact on str, None, bool and exception
   instances; a placeholder elsewhere (what matters for validation is that
   safeunicode never raises and returns a str) *)
Definition py_str (v : jv) : string :=
  match v with
  | JStr s => s
  | JNone => "None"
  | JBool true => "True"
  | JBool false => "False"
  | JExn _ t => t
  | _ => "?"
  end.

Inductive sername :=
| SId                  (* lambda v: v *)
| SConst (c : jv)      (* lambda _: c *)
| SSucc                (* v + 1 for type(v) is int, else ValidationError *)
| SWrap                (* [v] *)
| SNonNeg              (* v for type(v) is int and v >= 0, else ValidationError *)
| SRaiseType           (* raise TypeError *)
| SRaiseValue          (* raise ValueError *)
| SSafeUnicode         (* eliot._util.safeunicode *)
| SExnName.            (* lambda typ: "%s.%s" % (typ.__module__, typ.__name__) *)

Definition ser_of (s : sername) (v : jv) : result jv :=
  match s with
  | SId => Ok v
  | SConst c => Ok c
  | SSucc => match v with JInt z => Ok (JInt (z + 1)) | _ => Raise EValidation end
  | SWrap => Ok (JList [v])
  | SNonNeg => match v with
               | JInt z => if Z.leb 0 z then Ok v else Raise EValidation
               | _ => Raise EValidation
               end
  | SRaiseType => Raise EType
  | SRaiseValue => Raise EValue
  | SSafeUnicode => Ok (JStr (py_str v))
  | SExnName => match v with
                | JExnType (c :: _) => Ok (JStr c)
                | _ => Raise EAttribute
                end
  end.

Inductive xname :=
| XNone                (* extraValidator=None *)
| XPositive            (* type(v) is int and v > 0 *)
| XEven                (* type(v) is int and v % 2 == 0 *)
| XNonEmptyStr         (* type(v) is str and v != "" *)
| XShortList           (* type(v) is list and len(v) <= 2 *)
| XRejectAll.

Definition extra_of (x : xname) (v : jv) : bool :=
  match x with
  | XNone => true
  | XPositive => match v with JInt z => Z.ltb 0 z | _ => false end
  | XEven => match v with JInt z => Z.even z | _ => false end
  | XNonEmptyStr => match v with JStr s => negb (String.eqb s "") | _ => false end
  | XShortList => match v with JList l => Nat.leb (List.length l) 2 | _ => false end
  | XRejectAll => false
  end.

Inductive fdesc :=
| FTypes (k : string) (classes : list jtag) (x : xname)   (* Field.for_types(k, classes, "", extraValidator=x) *)
| FValue (k : string) (v : jv)                            (* Field.for_value(k, v, "") *)
| FCustom (k : string) (s : sername) (x : xname).         (* Field(k, s, "", extraValidator=x) *)

Definition field_of (d : fdesc) : Field :=
  match d with
  | FTypes k cs x => for_types k cs (extra_of x)
  | FValue k v => for_value k v
  | FCustom k s x => mkField k (ser_of s) (extra_of x)
  end.

(* TRACEBACK_MESSAGE._serializer (identity 0), allow_additional_fields = True *)
Definition TB_SID : nat := 0.
Definition TRACEBACK_TYPE := "eliot:traceback".
Definition TRACEBACK_SERIALIZER : serializer :=
  mkSer TB_SID
        [ mkField REASON_FIELD (ser_of SSafeUnicode) no_extra;
          mkField TRACEBACK_FIELD (ser_of SSafeUnicode) no_extra;
          mkField EXCEPTION_FIELD (ser_of SExnName) no_extra;
          for_value MESSAGE_TYPE (JStr TRACEBACK_TYPE) ]
        true.

(* --- how the library builds messages ------------------------------------------------------ *)
(* uuid / level / ts: the values the framework supplies for the reserved fields;
   fields / success / extracted are dicts (keyword arguments, _successFields, the
   extractor's return value) *)

(* Action._start(fields): fields = the caller's keyword arguments *)
Definition start_message (atype : jv) (uuid level ts : jv) (fields : msg) : msg :=
  let f1 := mset (K ACTION_STATUS) STARTED fields in
  let f2 := mset (K TIMESTAMP) ts f1 in
  let f3 := mupdate f2 [(K TASK_UUID, uuid); (K ACTION_TYPE, atype)] in
  mset (K TASK_LEVEL) level f3.

(* Action.finish(None): success = what add_success_fields accumulated *)
Definition success_message (atype : jv) (uuid level ts : jv) (success : msg) : msg :=
  let f1 := mset (K ACTION_STATUS) SUCCEEDED success in
  let f2 := mset (K TIMESTAMP) ts f1 in
  let f3 := mupdate f2 [(K TASK_UUID, uuid); (K ACTION_TYPE, atype)] in
  mset (K TASK_LEVEL) level f3.

(* Action.finish(exception): extracted = get_fields_for_exception(...);
   exc_name / reason are the already-computed strings *)
Definition failure_message (atype : jv) (uuid level ts : jv) (exc_name reason : string)
           (extracted : msg) : msg :=
  let f0 := mset (K EXCEPTION_FIELD) (JStr exc_name) extracted in
  let f1 := mset (K REASON_FIELD) (JStr reason) f0 in
  let f2 := mset (K ACTION_STATUS) FAILED f1 in
  let f3 := mset (K TIMESTAMP) ts f2 in
  let f4 := mupdate f3 [(K TASK_UUID, uuid); (K ACTION_TYPE, atype)] in
  mset (K TASK_LEVEL) level f4.

(* Action.log(message_type, **fields) as used by MessageType.log / log_message *)
Definition log_message (mtype : jv) (uuid level ts : jv) (fields : msg) : msg :=
  let f1 := mset (K TIMESTAMP) ts fields in
  let f2 := mset (K TASK_UUID) uuid f1 in
  let f3 := mset (K TASK_LEVEL) level f2 in
  mset (K MESSAGE_TYPE) mtype f3.

(* _writeTracebackMessage: TRACEBACK_MESSAGE(reason=e, traceback=tb, exception=typ)
   .bind(extracted as keywords).write(logger) *)
Definition traceback_message (uuid level ts : jv) (exn tb typ : jv) (extracted : msg) : msg :=
  let c := mdict [(K REASON_FIELD, exn); (K TRACEBACK_FIELD, tb); (K EXCEPTION_FIELD, typ);
                  (K MESSAGE_TYPE, JStr TRACEBACK_TYPE)] in
  let c1 := mupdate c extracted in
  match mget (K MESSAGE_TYPE) c1 with
  | Some mt => log_message mt uuid level ts (mdel (K MESSAGE_TYPE) c1)
  | None => c1
  end.

(* --- MemoryLogger ---------------------------------------------------------------------------- *)
Record mlogger := mkLogger {
  messages : list msg;
  serializers : list (option serializer);
  tracebackMessages : list nat;       (* the same dict objects as in messages: by index *)
  failed_validations : list ecls      (* one entry per write whose validation raised *)
}.

(* MemoryLogger.reset() / a fresh MemoryLogger *)
Definition reset (L : mlogger) : mlogger := mkLogger [] [] [] [].
Definition new_logger : mlogger := mkLogger [] [] [] [].

(* the key loop of _validate_message *)
Fixpoint check_keys (m : msg) : result unit :=
  match m with
  | [] => Ok tt
  | (KStr _, _) :: r => check_keys r
  | (KBytes true _, _) :: r => check_keys r
  | (KBytes false _, _) :: r => Raise EUnicodeDecode
  | (KOther _, _) :: r => Raise EType
  end.

(* _dumps_unicode(dictionary, default=...) succeeds *)
Definition encodable_msg (m : msg) : bool :=
  forallb (fun kv => match fst kv with KStr _ => encodable (snd kv) | _ => false end) m.

(* MemoryLogger._validate_message(dictionary, serializer): the dictionary as
   left behind (serialized in place) and the outcome *)
Definition validate_message (d : msg) (s : option serializer) : msg * result unit :=
  match (match s with Some sz => validate sz d | None => Ok tt end) with
  | Raise e => (d, Raise e)
  | Ok _ =>
      match check_keys d with
      | Raise e => (d, Raise e)
      | Ok _ =>
          match (match s with Some sz => serialize sz d | None => (d, Ok tt) end) with
          | (d', Raise e) => (d', Raise e)
          | (d', Ok _) => if encodable_msg d' then (d', Ok tt) else (d', Raise EType)
          end
      end
  end.

Definition is_traceback_serializer (s : option serializer) : bool :=
  match s with Some sz => Nat.eqb (sid sz) TB_SID | None => false end.

(* MemoryLogger.write(dictionary, serializer): validates a copy, stores the original *)
Definition write (L : mlogger) (d : msg) (s : option serializer) : mlogger :=
  let failed := match snd (validate_message d s) with
                | Raise e => failed_validations L ++ [e]
                | Ok _ => failed_validations L
                end in
  mkLogger (messages L ++ [d]) (serializers L ++ [s])
           (if is_traceback_serializer s then tracebackMessages L ++ [List.length (messages L)]
            else tracebackMessages L)
           failed.

(* the loop of MemoryLogger.validate over zip(messages, serializers); messages are
   serialized in place up to and including the first failing one *)
Fixpoint validate_all (ms : list msg) (ss : list (option serializer)) : list msg * result unit :=
  match ms, ss with
  | m :: mr, s :: sr =>
      match validate_message m s with
      | (m', Raise e) => (m' :: mr, Raise e)       (* TypeError/ValidationError re-raised with the
                                                     same class; anything else propagates *)
      | (m', Ok _) => let '(mr', r) := validate_all mr sr in (m' :: mr', r)
      end
  | _, _ => (ms, Ok tt)
  end.

(* MemoryLogger.validate() *)
Definition logger_validate (L : mlogger) : mlogger * result unit :=
  let '(ms, r) := validate_all (messages L) (serializers L) in
  (mkLogger ms (serializers L) (tracebackMessages L) (failed_validations L), r).

(* isinstance(message["reason"], exceptionType) *)
Definition reason_isinstance (cls : string) (m : msg) : result bool :=
  match mget (K REASON_FIELD) m with
  | None => Raise EKeyError
  | Some (JExn mro _) => Ok (mem_str cls mro)
  | Some _ => Ok false
  end.

Fixpoint flush_loop (cls : string) (ms : list msg) (tbs : list nat) : result (list nat * list nat) :=
  match tbs with
  | [] => Ok ([], [])
  | i :: r =>
      match reason_isinstance cls (nth i ms []) with
      | Raise e => Raise e
      | Ok b =>
          match flush_loop cls ms r with
          | Raise e => Raise e
          | Ok (flushed, remaining) => if b then Ok (i :: flushed, remaining) else Ok (flushed, i :: remaining)
          end
      end
  end.

(* MemoryLogger.flushTracebacks(exceptionType): new logger and the (indices of the) flushed messages *)
Definition flush_tracebacks (L : mlogger) (cls : string) : mlogger * result (list nat) :=
  match flush_loop cls (messages L) (tracebackMessages L) with
  | Raise e => (L, Raise e)
  | Ok (flushed, remaining) =>
      (mkLogger (messages L) (serializers L) remaining (failed_validations L), Ok flushed)
  end.

(* eliot.testing.check_for_errors(logger) *)
Definition check_for_errors (L : mlogger) : mlogger * result unit :=
  match tracebackMessages L with
  | _ :: _ => (L, Raise EUnflushed)
  | [] => logger_validate L
  end.

(* --- unittest + validate_logging / capture_logging ----------------------------------------- *)
Inductive outcome := OPass | OFail | OError (e : ecls) | OSkip.

(* the part of the process state the decorators touch: _output._DEFAULT_LOGGER (by
   identity; 0 = the library's own Logger()), the MemoryLoggers created so far, and how
   often the assertion callback ran *)
Record world := mkWorld {
  default_logger : nat;
  next_logger : nat;
  mem : list (nat * mlogger);
  assertion_calls : nat
}.

Fixpoint lookup {A} (k : nat) (l : list (nat * A)) : option A :=
  match l with
  | [] => None
  | (k', v) :: r => if Nat.eqb k k' then Some v else lookup k r
  end.

Fixpoint store {A} (k : nat) (v : A) (l : list (nat * A)) : list (nat * A) :=
  match l with
  | [] => [(k, v)]
  | (k', v') :: r => if Nat.eqb k k' then (k, v) :: r else (k', v') :: store k v r
  end.

Definition logger_of (w : world) (l : nat) : mlogger :=
  match lookup l (mem w) with Some L => L | None => new_logger end.

Definition set_logger (w : world) (l : nat) (L : mlogger) : world :=
  mkWorld (default_logger w) (next_logger w) (store l L (mem w)) (assertion_calls w).

(* swap_logger(logger): returns the previous one *)
Definition swap_logger (w : world) (l : nat) : world * nat :=
  (mkWorld l (next_logger w) (mem w) (assertion_calls w), default_logger w).

(* MemoryLogger(): a new object *)
Definition new_memory_logger (w : world) : world * nat :=
  let id := S (next_logger w) in
  (mkWorld (default_logger w) id (store id new_logger (mem w)) (assertion_calls w), id).

(* assertion callback: looks at the logger, returns or raises *)
Definition assertion := mlogger -> option ecls.

Inductive cleanup :=
| CCheck (l : nat)                      (* addCleanup(check_for_errors, logger) *)
| CAssert (l : nat) (a : assertion)     (* addCleanup(lambda: skipped or assertion(self, logger, ...)) *)
| CRestore (prev : nat).                (* addCleanup(cleanup) of capture_logging: swap_logger(previous_logger) *)

(* test-case state while a test method runs: the world and TestCase._cleanups (top first) *)
Definition tstate := (world * list cleanup)%type.

(* a test function taking the logger keyword argument *)
Definition testfn := nat -> tstate -> tstate * outcome.

(* a user-written test body: does what it likes to the world, ends in an outcome *)
Definition lift (body : nat -> world -> world * outcome) : testfn :=
  fun l st => let '(w', o) := body l (fst st) in ((w', snd st), o).

(* validate_logging(assertion)(function): the wrapper, as a test method *)
Definition validate_logging (a : option assertion) (f : testfn) : tstate -> tstate * outcome :=
  fun st =>
    let '(w1, l) := new_memory_logger (fst st) in
    let cs1 := CCheck l :: snd st in
    let cs2 := match a with Some g => CAssert l g :: cs1 | None => cs1 end in
    f l (w1, cs2).

(* the inner wrapper of capture_logging *)
Definition capture_wrapper (f : testfn) : testfn :=
  fun l st =>
    let '(w1, prev) := swap_logger (fst st) l in
    f l (w1, CRestore prev :: snd st).

(* capture_logging(assertion)(function) *)
Definition capture_logging (a : option assertion) (f : testfn) : tstate -> tstate * outcome :=
  validate_logging a (capture_wrapper f).

(* what unittest records for one test *)
Record tresult := mkResult {
  r_failures : list ecls;
  r_errors : list ecls;
  r_skipped : nat;
  r_success : bool          (* outcome.success: addSuccess is called *)
}.

Definition record_exc (e : ecls) (r : tresult) : tresult :=
  match e with
  | EAssertion => mkResult (r_failures r ++ [e]) (r_errors r) (r_skipped r) false
  | _ => mkResult (r_failures r) (r_errors r ++ [e]) (r_skipped r) false
  end.

Definition record_outcome (o : outcome) (r : tresult) : tresult :=
  match o with
  | OPass => r
  | OFail => record_exc EAssertion r
  | OError e => record_exc e r
  | OSkip => mkResult (r_failures r) (r_errors r) (S (r_skipped r)) false
  end.

(* one cleanup; skipped = the wrapper's flag, set when the function raised SkipTest *)
Definition run_cleanup (skipped : bool) (c : cleanup) (w : world) : world * option ecls :=
  match c with
  | CCheck l =>
      let '(L', r) := check_for_errors (logger_of w l) in
      (set_logger w l L', match r with Ok _ => None | Raise e => Some e end)
  | CAssert l a =>
      if skipped then (w, None)
      else (mkWorld (default_logger w) (next_logger w) (mem w) (S (assertion_calls w)),
            a (logger_of w l))
  | CRestore prev => (fst (swap_logger w prev), None)
  end.

(* TestCase.doCleanups: pops and runs every cleanup, each in its own testPartExecutor *)
Fixpoint do_cleanups (skipped : bool) (cs : list cleanup) (w : world) (r : tresult) : world * tresult :=
  match cs with
  | [] => (w, r)
  | c :: rest =>
      let '(w', e) := run_cleanup skipped c w in
      do_cleanups skipped rest w' (match e with Some x => record_exc x r | None => r end)
  end.

Definition is_skip (o : outcome) : bool := match o with OSkip => true | _ => false end.

(* TestCase.run for a test method (no setUp/tearDown of interest) *)
Definition run_test (method : tstate -> tstate * outcome) (w : world) : world * tresult :=
  let '((w1, cs), o) := method (w, []) in
  do_cleanups (is_skip o) cs w1 (record_outcome o (mkResult [] [] 0 true)).

(* --- test bodies used by the correspondence ---------------------------------------------------- *)
Inductive step :=
| SWriteDefault (d : msg) (s : option serializer)     (* a logging call that uses the default logger *)
| SWriteLogger (d : msg) (s : option serializer)      (* ... that is given the logger argument *)
| SFlush (cls : string)                               (* logger.flush_tracebacks(cls) *)
| SClobber (l : nat).                                 (* _output._DEFAULT_LOGGER = <some other logger> *)

Definition write_to (w : world) (l : nat) (d : msg) (s : option serializer) : world :=
  match lookup l (mem w) with
  | Some L => set_logger w l (write L d s)
  | None => w                                          (* not a MemoryLogger: goes to the destinations *)
  end.

Definition run_step (l : nat) (w : world) (st : step) : world :=
  match st with
  | SWriteDefault d s => write_to w (default_logger w) d s
  | SWriteLogger d s => write_to w l d s
  | SFlush cls => set_logger w l (fst (flush_tracebacks (logger_of w l) cls))
  | SClobber l' => fst (swap_logger w l')
  end.

Definition body_of (steps : list step) (o : outcome) : nat -> world -> world * outcome :=
  fun l w => (fold_left (run_step l) steps w, o).

Definition init_world : world := mkWorld 0 0 [] 0.
