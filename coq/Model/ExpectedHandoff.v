(* C06: the DECLARATIVE reading of a logging program WITH HAND-OFFS -- the forest of tasks it
   is meant to produce -- extending Model/Expected.v ([kids], [simple], [reg_ok]) by

     SHandoff h slot h' c' body
        id = h.serialize_task_id()            (h: the innermost enclosing action)
        in another thread / process (execution context c'):
            with Action.continue_task(task_id=id): body

   Reading: the hand-off contributes ONE child to the enclosing action h, at the position
   that serialize_task_id reserved (the next position of h):

        TAct "eliot:remote_task" st (kids_h body)        st = PFailed iff body raises

   and lets no exception escape (the other thread swallows it; [raises_stmt] of Expected.v
   already reads SHandoff as "does not raise").  Hand-offs may be nested inside the bodies
   of hand-offs to any depth (multi-hop): the body's own hand-offs are children of the
   remote action, and so on.  As in Expected.v nothing here mentions task levels, uuids,
   contexts, tokens, slots or the order of API calls.

   The fragment [simple_h] = the statement forms of [simple] plus SHandoff on the innermost
   enclosing action, with
     - action handles (of SAct and of continue_task) pairwise distinct,
     - slots (the variables holding the serialized ids) pairwise distinct: each id is made
       once and used once,
     - the execution contexts of the hand-offs pairwise distinct and distinct from the
       context 0 in which the program itself runs: every hand-off goes to a FRESH thread.

   Definitions only. *)
From Coq Require Import List PArith Bool Arith.
Require Import Eliot.Base.Level Eliot.Model.Core Eliot.Model.Prog Eliot.Model.Parser
  Eliot.Model.Forest Eliot.Model.Expected.
Import ListNotations.

(* ---- what a statement contributes ----------------------------------------------------- *)
Fixpoint kids_h_stmt (st : stmt) : list tree :=
  let kids :=
    fix go (p : list stmt) : list tree :=
      match p with
      | [] => []
      | x :: r => kids_h_stmt x ++ (if raises_stmt x then [] else go r)
      end in
  match st with
  | SMsg mt _ _ => [TMsg (ty_of mt)]
  | SActLog _ mt _ => [TMsg (ty_of mt)]
  | STraceback _ => [TMsg T_traceback]
  | SAct _ _ _ ty _ _ _ body => [TAct (ty_of ty) (status_of (raises body)) (kids body)]
  | STry body => kids body
  | SReenter _ body => kids body
  | SHandoff _ _ _ _ body => [TAct T_remote_task (status_of (raises body)) (kids body)]
  | _ => []
  end.

Definition kids_h : list stmt -> list tree :=
  fix go (p : list stmt) : list tree :=
    match p with
    | [] => []
    | x :: r => kids_h_stmt x ++ (if raises_stmt x then [] else go r)
    end.

(* the forest a program with hand-offs is meant to produce: task u is the u-th tree *)
Definition expected_h (p : list stmt) : forest := kids_h p.

(* ---- the hand-offs a program EXECUTES: (slot, handle of the continuing action) ---------- *)
(* (statements after an escaping raise are not executed) *)
Fixpoint handoffs_stmt (st : stmt) : list (nat * nat) :=
  let handoffs :=
    fix go (p : list stmt) : list (nat * nat) :=
      match p with
      | [] => []
      | x :: r => handoffs_stmt x ++ (if raises_stmt x then [] else go r)
      end in
  match st with
  | SAct _ _ _ _ _ _ _ body => handoffs body
  | STry body => handoffs body
  | SReenter _ body => handoffs body
  | SHandoff _ slot h' _ body => (slot, h') :: handoffs body
  | _ => []
  end.

Definition handoffs : list stmt -> list (nat * nat) :=
  fix go (p : list stmt) : list (nat * nat) :=
    match p with
    | [] => []
    | x :: r => handoffs_stmt x ++ (if raises_stmt x then [] else go r)
    end.

(* ---- the fragment ---------------------------------------------------------------------- *)
(* [enc]: the innermost enclosing action of the statement ([None]: top level); inside the
   body of a hand-off that is the continuing action h'.
   - the forms of [simple_stmt], unchanged
   - SHandoff h slot h' c' body: h the innermost enclosing action (so never at top level:
     serialize_task_id needs an action); the body is read with h' as enclosing action
   - no SFinishAgain, SRawWrite, SSpawn *)
Fixpoint simple_h_stmt (enc : option nat) (st : stmt) : bool :=
  match st with
  | SMsg _ fs ser => is_none ser && plain fs
  | SActLog h _ fs => is_handle enc h && plain fs
  | SAct h _ task ty _ sers _ body =>
      (is_none enc || negb task) && is_tyname ty && is_none sers
      && forallb (simple_h_stmt (Some h)) body
  | SRaise _ => true
  | STry body => forallb (simple_h_stmt enc) body
  | STraceback _ => true
  | SReenter h body => is_handle enc h && forallb (simple_h_stmt enc) body
  | SHandoff h _ h' _ body => is_handle enc h && forallb (simple_h_stmt (Some h')) body
  | _ => false
  end.

(* handles of the action objects a statement creates (start_action and continue_task),
   slots it stores serialized ids in, execution contexts it starts -- anywhere inside it *)
Fixpoint handles_h_stmt (st : stmt) : list nat :=
  match st with
  | SAct h _ _ _ _ _ _ body => h :: flat_map handles_h_stmt body
  | STry body => flat_map handles_h_stmt body
  | SHandoff _ _ h' _ body => h' :: flat_map handles_h_stmt body
  | SReenter _ body => flat_map handles_h_stmt body
  | SSpawn _ body => flat_map handles_h_stmt body
  | _ => []
  end.
Definition handles_h (p : list stmt) : list nat := flat_map handles_h_stmt p.

Fixpoint slots_h_stmt (st : stmt) : list nat :=
  match st with
  | SAct _ _ _ _ _ _ _ body => flat_map slots_h_stmt body
  | STry body => flat_map slots_h_stmt body
  | SHandoff _ slot _ _ body => slot :: flat_map slots_h_stmt body
  | SReenter _ body => flat_map slots_h_stmt body
  | SSpawn _ body => flat_map slots_h_stmt body
  | _ => []
  end.
Definition slots_h (p : list stmt) : list nat := flat_map slots_h_stmt p.

Fixpoint ctxs_h_stmt (st : stmt) : list nat :=
  match st with
  | SAct _ _ _ _ _ _ _ body => flat_map ctxs_h_stmt body
  | STry body => flat_map ctxs_h_stmt body
  | SHandoff _ _ _ c' body => c' :: flat_map ctxs_h_stmt body
  | SReenter _ body => flat_map ctxs_h_stmt body
  | SSpawn c' body => c' :: flat_map ctxs_h_stmt body
  | _ => []
  end.
Definition ctxs_h (p : list stmt) : list nat := flat_map ctxs_h_stmt p.

(* the programs of the C06 theorems ([run_prog] runs the program in context 0) *)
Definition simple_h (p : list stmt) : bool :=
  forallb (simple_h_stmt None) p && nodupb (handles_h p) && nodupb (slots_h p)
  && nodupb (0 :: ctxs_h p).

(* ---- the configuration ------------------------------------------------------------------- *)
Fixpoint has_tb_h_stmt (st : stmt) : bool :=
  match st with
  | STraceback _ => true
  | SAct _ _ _ _ _ _ _ body => existsb has_tb_h_stmt body
  | STry body => existsb has_tb_h_stmt body
  | SReenter _ body => existsb has_tb_h_stmt body
  | SHandoff _ _ _ _ body => existsb has_tb_h_stmt body
  | _ => false
  end.
Definition has_tb_h (p : list stmt) : bool := existsb has_tb_h_stmt p.

(* as [reg_ok]: exception extractors return fields, plain ones where a traceback is written *)
Definition reg_ok_h (cfg : config) (p : list stmt) : bool :=
  if has_tb_h p then reg_plain cfg else reg_fields cfg.
