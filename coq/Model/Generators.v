(* Model of eliot/_generators.py (eliot_friendly_generator_function) together
   with the part of the contextvars / generator protocols it relies on.

   Self-contained: an action context is the value of the single context
   variable _ACTION_CONTEXT (the handle of the current action, or None) plus
   the reset tokens created in that Context object (Action.__enter__ keeps the
   token of its ContextVar.set; a token is only usable in the Context it was
   created in, so tokens live with the context and are NOT inherited by
   copy_context()).

   Contexts are first class: the thread has a *current context* (the context
   of the innermost running Context.run, else the thread's main context); every
   context operation reads / writes the current context, whatever it is.
   The wrapper owns one Context object per decorated generator (the closure
   variable `context`), created by copy_context() when the wrapper generator is
   first resumed, and runs every gen.send / gen.throw inside context.run.

   Definitions only (no proofs here); everything is executable. *)
From Coq Require Import List Arith Bool.
Import ListNotations.

Definition handle := nat.      (* an Action object *)
Definition gid := nat.         (* a decorated generator object *)
Definition val := option nat.  (* Python value; None = None *)

Inductive exn :=
| GeneratorExit
| UserExn (n : nat)            (* an exception object, identified by n *)
| TypeErrorNonNone             (* can't send non-None value to a just-started generator *)
| AlreadyExecuting             (* ValueError: generator already executing *)
| IgnoredExit                  (* RuntimeError: generator ignored GeneratorExit *)
| TokenError                   (* ContextVar.reset refused the token (other Context / no token) *)
| NoSuchGen                    (* totalisation only *)
| OutOfFuel.                   (* totalisation only: nesting deeper than the fuel *)

(* what a driver does to a generator object *)
Inductive input := Next | Send (v : val) | Throw (e : exn) | Close.
(* what reaches a generator body at its suspension point *)
Inductive binput := BSend (v : val) | BThrow (e : exn).
(* what the caller of next/send/throw/close observes *)
Inductive outcome :=
| ORet (v : val)               (* the call returned v (a yielded value; None for close()) *)
| OStop (v : val)              (* StopIteration(v) *)
| ORaise (e : exn).

(* ------------------------------------------------------------------ bodies *)
(* One resumption of a generator body runs one segment: context-affecting
   steps, resumptions of other decorated generators (the continuation may
   depend on what came back), ending in yield / return / raise. *)
Inductive seg :=
| SEnter (h : handle) (k : seg)                       (* h.__enter__() *)
| SExit (h : handle) (k : seg)                        (* h.__exit__(...); ends the segment with TokenError if refused *)
| SProbe (k : seg)                                    (* current_action() / log a message *)
| SResume (g : gid) (i : input) (k : outcome -> seg)  (* resume another decorated generator from inside *)
| SYield (v : val) (s' : nat)
| SReturn (v : val)
| SRaise (e : exn).

(* body s i: the code between suspension point s (0 = the beginning of the
   function) and the next suspension point, given what was sent / thrown in *)
Definition body := nat -> binput -> seg.

(* ---------------------------------------------------------------- contexts *)
Record ctx := mkctx { cur : option handle; saved : list (handle * option handle) }.
Definition empty_ctx := mkctx None [].
Definition copy_ctx (c : ctx) := mkctx (cur c) [].     (* copy_context(): values, not tokens *)

Inductive op := OpEnter (h : handle) | OpExit (h : handle) | OpProbe.

Fixpoint find_tok (h : handle) (l : list (handle * option handle)) : option (option handle) :=
  match l with
  | [] => None
  | (h', o) :: r => if Nat.eqb h h' then Some o else find_tok h r
  end.
Fixpoint del_tok (h : handle) (l : list (handle * option handle)) :=
  match l with
  | [] => []
  | (h', o) :: r => if Nat.eqb h h' then r else (h', o) :: del_tok h r
  end.

(* Action.__enter__: token = var.set(self); Action.__exit__: var.reset(token) *)
Definition apply_op (o : op) (c : ctx) : option ctx :=
  match o with
  | OpEnter h => Some (mkctx (Some h) ((h, cur c) :: saved c))
  | OpExit h => match find_tok h (saved c) with
                | Some old => Some (mkctx old (del_tok h (saved c)))
                | None => None
                end
  | OpProbe => Some c
  end.
Definition apply_total (o : op) (c : ctx) : ctx :=
  match apply_op o c with Some c' => c' | None => c end.
Definition is_some {A} (x : option A) := match x with Some _ => true | None => false end.

(* ------------------------------------------------------------------- world *)
Inductive pstate := PUnstarted | PSuspended (s : nat) | PFinished.   (* a generator object *)
Inductive wstate := WUnstarted | WSuspended | WFinished.             (* the wrapper generator object *)

Record gen := mkgen {
  g_body : body;
  g_ctx : option ctx;    (* the wrapper's closure variable `context`; None before copy_context() ran *)
  g_w : wstate;          (* wrapper generator: not started / suspended at `value_in = yield value_out` / finished *)
  g_i : pstate           (* the inner generator `gen` *)
}.

Inductive event :=
| ECall (who : option gid) (g : gid) (i : input) (c : ctx)
      (* who (None = driver) calls next/send/throw/close on g; c = content of who's current context *)
| EOp (who : option gid) (o : op) (ok : bool) (before after : ctx)
      (* who executes o; content of the *current* context before and after *)
| ERet (who : option gid) (g : gid) (r : outcome) (c : ctx).
      (* the call returns to who with r; c = content of who's current context now *)

Record world := mkworld {
  w_main : ctx;            (* the thread's own context *)
  w_gens : list gen;
  w_stack : list gid;      (* generators whose context.run is active, innermost first *)
  w_trace : list event     (* newest first *)
}.

Fixpoint upd_nth {A} (n : nat) (f : A -> A) (l : list A) : list A :=
  match l, n with
  | [], _ => []
  | x :: r, 0 => f x :: r
  | x :: r, S n' => x :: upd_nth n' f r
  end.

Definition get (g : gid) (w : world) := nth_error (w_gens w) g.
Definition upd_gen (g : gid) (f : gen -> gen) (w : world) :=
  mkworld (w_main w) (upd_nth g f (w_gens w)) (w_stack w) (w_trace w).
Definition set_ctx g (c : option ctx) := upd_gen g (fun x => mkgen (g_body x) c (g_w x) (g_i x)).
Definition set_w g (s : wstate) := upd_gen g (fun x => mkgen (g_body x) (g_ctx x) s (g_i x)).
Definition set_i g (s : pstate) := upd_gen g (fun x => mkgen (g_body x) (g_ctx x) (g_w x) s).
Definition emit (e : event) (w : world) := mkworld (w_main w) (w_gens w) (w_stack w) (e :: w_trace w).
Definition push (g : gid) (w : world) := mkworld (w_main w) (w_gens w) (g :: w_stack w) (w_trace w).
Definition pop (w : world) := mkworld (w_main w) (w_gens w) (tl (w_stack w)) (w_trace w).

Definition who (w : world) : option gid := hd_error (w_stack w).

(* content of the current context *)
Definition cur_ctx (w : world) : ctx :=
  match w_stack w with
  | [] => w_main w
  | g :: _ => match get g w with
              | Some x => match g_ctx x with Some c => c | None => empty_ctx end
              | None => empty_ctx
              end
  end.
Definition set_cur_ctx (c : ctx) (w : world) : world :=
  match w_stack w with
  | [] => mkworld c (w_gens w) (w_stack w) (w_trace w)
  | g :: _ => set_ctx g (Some c) w
  end.

(* a context operation acts on the current context, whichever it is *)
Definition do_op (o : op) (w : world) : world * bool :=
  let b := cur_ctx w in
  match apply_op o b with
  | Some a => let w1 := set_cur_ctx a w in (emit (EOp (who w) o true b (cur_ctx w1)) w1, true)
  | None => (emit (EOp (who w) o false b (cur_ctx w)) w, false)
  end.

(* --------------------------------------------------------- running a body *)
Inductive segres := RYield (v : val) (s : nat) | RReturn (v : val) | RRaise (e : exn).

Definition resumer := gid -> input -> world -> world * outcome.

Fixpoint run_seg (res : resumer) (sg : seg) (w : world) : world * segres :=
  match sg with
  | SEnter h k => run_seg res k (fst (do_op (OpEnter h) w))
  | SExit h k => let (w1, ok) := do_op (OpExit h) w in
                 if ok then run_seg res k w1 else (w1, RRaise TokenError)
  | SProbe k => run_seg res k (fst (do_op OpProbe w))
  | SResume g i k => let (w1, o) := res g i w in run_seg res (k o) w1
  | SYield v s => (w, RYield v s)
  | SReturn v => (w, RReturn v)
  | SRaise e => (w, RRaise e)
  end.

(* gen.send(v) / gen.throw(e) on the inner generator object, in the current
   context (the generator protocol itself does not touch contexts) *)
(* the body stopped: the generator object records where / that it finished *)
Definition seg_outcome (g : gid) (p : world * segres) : world * outcome :=
  match snd p with
  | RYield v s' => (set_i g (PSuspended s') (fst p), ORet v)
  | RReturn v => (set_i g PFinished (fst p), OStop v)
  | RRaise e => (set_i g PFinished (fst p), ORaise e)
  end.

Definition inner_resume (res : resumer) (g : gid) (bi : binput) (w : world) : world * outcome :=
  match get g w with
  | None => (w, ORaise NoSuchGen)
  | Some x =>
      let run s := seg_outcome g (run_seg res (g_body x s bi) w) in
      match g_i x, bi with
      | PUnstarted, BSend None => run 0
      | PUnstarted, BSend (Some _) => (w, ORaise TypeErrorNonNone)
      | PUnstarted, BThrow e => (set_i g PFinished w, ORaise e)
      | PSuspended s, _ => run s
      | PFinished, BSend _ => (w, OStop None)
      | PFinished, BThrow e => (w, ORaise e)
      end
  end.

(* generator.close(): what becomes of the result of throwing GeneratorExit *)
Definition close_post (o : outcome) : outcome :=
  match o with
  | ORet _ => ORaise IgnoredExit
  | OStop _ => ORet None
  | ORaise GeneratorExit => ORet None
  | ORaise e => ORaise e
  end.

(* context.run(f) for the context owned by g *)
Definition ctx_run (g : gid) (f : world -> world * outcome) (w : world) : world * outcome :=
  let (w1, o) := f (push g w) in (pop w1, o).

(* ------------------------------------------------------------- the wrapper *)
(* one turn of `while True:`   value_out = context.run(go)  + the handlers.
   legacy = the code before the fix (`break`, i.e. return None). *)
Definition tramp (legacy : bool) (res : resumer) (g : gid) (bi : binput) (w : world) : world * outcome :=
  let (w1, o) := ctx_run g (inner_resume res g bi) w in
  match o with
  | ORet v => (set_w g WSuspended w1, ORet v)                                  (* value_in = yield value_out *)
  | OStop v => (set_w g WFinished w1, OStop (if legacy then None else v))     (* return e.value *)
  | ORaise e => (set_w g WFinished w1, ORaise e)                              (* propagates *)
  end.

(* the generator protocol applied to the wrapper generator *)
Definition wrapper_resume (legacy : bool) (res : resumer) (g : gid) (i : input) (w : world) : world * outcome :=
  match get g w with
  | None => (w, ORaise NoSuchGen)
  | Some x =>
      match g_w x with
      | WUnstarted =>
          let start := (* gen = original(); context = copy_context(); ok, value_in = True, None *)
            tramp legacy res g (BSend None)
                  (set_w g WSuspended (set_ctx g (Some (copy_ctx (cur_ctx w))) w)) in
          match i with
          | Next => start
          | Send None => start
          | Send (Some _) => (w, ORaise TypeErrorNonNone)
          | Throw e => (set_w g WFinished w, ORaise e)
          | Close => (set_w g WFinished w, ORet None)
          end
      | WSuspended =>
          match i with
          | Next => tramp legacy res g (BSend None) w                 (* ok = True *)
          | Send v => tramp legacy res g (BSend v) w
          | Throw e => tramp legacy res g (BThrow e) w                (* except: ok = False; value_in = exc_info() *)
          | Close => let (w1, o) := tramp legacy res g (BThrow GeneratorExit) w in (w1, close_post o)
          end
      | WFinished =>
          match i with
          | Next => (w, OStop None)
          | Send _ => (w, OStop None)
          | Throw e => (w, ORaise e)
          | Close => (w, ORet None)
          end
      end
  end.

Definition mem (g : gid) (l : list gid) := existsb (Nat.eqb g) l.

Fixpoint resume (legacy : bool) (fuel : nat) (g : gid) (i : input) (w : world) : world * outcome :=
  match fuel with
  | 0 => (w, ORaise OutOfFuel)
  | S f =>
      let w0 := emit (ECall (who w) g i (cur_ctx w)) w in
      let (w1, o) :=
        if mem g (w_stack w0) then (w0, ORaise AlreadyExecuting)
        else wrapper_resume legacy (resume legacy f) g i w0 in
      (emit (ERet (who w1) g o (cur_ctx w1)) w1, o)
  end.

(* ------------------------------------------ reference: no wrapper at all *)
(* The inner automaton driven directly through the generator protocol, each
   body segment executed in the generator's own context by definition (the
   specification of "own context": a copy of the caller's taken when the body
   starts to run). *)
Definition direct_resume (res : resumer) (g : gid) (i : input) (w : world) : world * outcome :=
  match get g w with
  | None => (w, ORaise NoSuchGen)
  | Some x =>
      match g_i x with
      | PUnstarted =>
          let start := ctx_run g (inner_resume res g (BSend None))
                               (set_ctx g (Some (copy_ctx (cur_ctx w))) w) in
          match i with
          | Next => start
          | Send None => start
          | Send (Some _) => (w, ORaise TypeErrorNonNone)
          | Throw e => (set_i g PFinished w, ORaise e)
          | Close => (set_i g PFinished w, ORet None)
          end
      | PSuspended _ =>
          match i with
          | Next => ctx_run g (inner_resume res g (BSend None)) w
          | Send v => ctx_run g (inner_resume res g (BSend v)) w
          | Throw e => ctx_run g (inner_resume res g (BThrow e)) w
          | Close => let (w1, o) := ctx_run g (inner_resume res g (BThrow GeneratorExit)) w in
                     (w1, close_post o)
          end
      | PFinished =>
          match i with
          | Next => (w, OStop None)
          | Send _ => (w, OStop None)
          | Throw e => (w, ORaise e)
          | Close => (w, ORet None)
          end
      end
  end.

Fixpoint dresume (fuel : nat) (g : gid) (i : input) (w : world) : world * outcome :=
  match fuel with
  | 0 => (w, ORaise OutOfFuel)
  | S f =>
      let w0 := emit (ECall (who w) g i (cur_ctx w)) w in
      let (w1, o) :=
        if mem g (w_stack w0) then (w0, ORaise AlreadyExecuting)
        else direct_resume (dresume f) g i w0 in
      (emit (ERet (who w1) g o (cur_ctx w1)) w1, o)
  end.

(* ------------------------------------------------------------------ driver *)
Inductive dstep :=
| DEnter (h : handle) | DExit (h : handle) | DProbe
| DResume (g : gid) (i : input)
| DCreate (g : gid).   (* calling the decorated function: no generator code runs, nothing is copied *)

Definition run_dstep (res : resumer) (st : dstep) (w : world) : world :=
  match st with
  | DEnter h => fst (do_op (OpEnter h) w)
  | DExit h => fst (do_op (OpExit h) w)
  | DProbe => fst (do_op OpProbe w)
  | DResume g i => fst (res g i w)
  | DCreate _ => w
  end.
Definition run_script (res : resumer) (script : list dstep) (w : world) : world :=
  fold_left (fun w st => run_dstep res st w) script w.

Definition init_world (bodies : list body) : world :=
  mkworld empty_ctx (map (fun b => mkgen b None WUnstarted PUnstarted) bodies) [] [].

Definition run_wrapped (fuel : nat) bodies script := run_script (resume false fuel) script (init_world bodies).
Definition run_legacy (fuel : nat) bodies script := run_script (resume true fuel) script (init_world bodies).
Definition run_direct (fuel : nat) bodies script := run_script (dresume fuel) script (init_world bodies).

(* ------------------------------------------------ table-driven bodies *)
(* The family the harness generates: every suspension point s has three
   handlers (value sent / exception thrown / GeneratorExit thrown); entry 0's
   first handler is the beginning of the function. *)
Inductive tval := VConst (v : val) | VInput.        (* VInput: the value just sent in *)
Inductive texn := XNew (n : nat) | XInput.          (* XInput: re-raise what was thrown in *)
Inductive tstep := TEnter (h : handle) | TExit (h : handle) | TProbe | TResume (g : gid) (i : input).
Inductive tend := TYield (v : tval) (s' : nat) | TReturn (v : tval) | TRaise (e : texn).
Definition tseg := (list tstep * tend)%type.
Definition table := list (tseg * tseg * tseg).

Definition eval_tval (v : tval) (bi : binput) : val :=
  match v with
  | VConst c => c
  | VInput => match bi with BSend x => x | BThrow _ => None end
  end.
Definition eval_texn (e : texn) (bi : binput) : exn :=
  match e with
  | XNew n => UserExn n
  | XInput => match bi with BThrow x => x | BSend _ => UserExn 0 end
  end.
Fixpoint compile_steps (l : list tstep) (k : seg) : seg :=
  match l with
  | [] => k
  | TEnter h :: r => SEnter h (compile_steps r k)
  | TExit h :: r => SExit h (compile_steps r k)
  | TProbe :: r => SProbe (compile_steps r k)
  | TResume g i :: r => SResume g i (fun _ => compile_steps r k)
  end.
Definition compile_tseg (t : tseg) (bi : binput) : seg :=
  compile_steps (fst t)
    match snd t with
    | TYield v s' => SYield (eval_tval v bi) s'
    | TReturn v => SReturn (eval_tval v bi)
    | TRaise e => SRaise (eval_texn e bi)
    end.
Definition table_body (t : table) : body := fun s bi =>
  match nth_error t s with
  | None => SRaise (UserExn 0)
  | Some (on_send, on_throw, on_close) =>
      match bi with
      | BSend _ => compile_tseg on_send bi
      | BThrow GeneratorExit => compile_tseg on_close bi
      | BThrow _ => compile_tseg on_throw bi
      end
  end.

(* what the harness compares: trace, oldest first, contexts projected to the
   value of the variable (tokens are not observable) *)
Inductive obs :=
| BCall (who : option gid) (g : gid) (i : input) (c : option handle)
| BOp (who : option gid) (o : op) (ok : bool) (before after : option handle)
| BRet (who : option gid) (g : gid) (r : outcome) (c : option handle).
Definition obs_of (e : event) : obs :=
  match e with
  | ECall a g i c => BCall a g i (cur c)
  | EOp a o ok b c => BOp a o ok (cur b) (cur c)
  | ERet a g r c => BRet a g r (cur c)
  end.
Definition observe (w : world) : list obs * option handle :=
  (rev (map obs_of (w_trace w)), cur (w_main w)).

Definition run_tables (legacy : bool) (fuel : nat) (ts : list table) (script : list dstep) :=
  observe (run_script (resume legacy fuel) script (init_world (map table_body ts))).
Definition run_tables_direct (fuel : nat) (ts : list table) (script : list dstep) :=
  observe (run_script (dresume fuel) script (init_world (map table_body ts))).
