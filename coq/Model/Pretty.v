(* Executable model of eliot's bundled readers.

   Mirrors (function by function):
     eliot/prettyprint.py   _skip_fields, _first_fields, REQUIRED_FIELDS,
                            pretty_format (incl. add_field's re-indentation),
                            compact_format, _main (the per-line loop)
     eliot/filter.py        EliotFilter.run / _evaluate, main

   Text is [ustr] = list of Unicode code points (N): Python compares and sorts
   strings code point by code point, and [len(key)] counts code points, so the
   field order and the indentation are exact for every field name.

   A message is a Python dict whose keys are strings: an association list in
   dict order, keys pairwise distinct (hypothesis [NoDup (map fst m)] of the
   theorems).  Field values are an abstract type [V]; everything the readers do
   with a value goes through a function of the standard library (or, for the
   time stamp, through datetime), and those are the arguments of the section:

     pformat v     pprint.pformat(v, width=40)
     dumps v       json.dumps(v, separators=(",", ":"))
     to_str v      "%s" % v                 (task_uuid in the header)
     level_strs v  list(map(str, v))        (None: v is not iterable -> TypeError)
     render_ts v   _render_timestamp(m, tz) (None: datetime refuses v)

   The harness instantiates V with a record carrying the real outputs of those
   functions ([dval] at the end), so model and library are compared on the
   structure: header, field order, completeness, re-indentation, line handling.

   Definitions only; proofs are in Proofs/PrettyProofs.v. *)
From Coq Require Import Ascii String NArith Bool List.
Import ListNotations.

Definition ustr := list N.

(* an ASCII literal as code points *)
Definition u (s : string) : ustr := map N_of_ascii (list_ascii_of_string s).

Definition nl : N := 10%N.        (* "\n" *)
Definition tab : N := 9%N.        (* "\t" *)
Definition space : N := 32%N.
Definition slash : N := 47%N.
Definition backslash : N := 92%N.
Definition ch_n : N := 110%N.     (* "n" *)
Definition ch_t : N := 116%N.     (* "t" *)

(* Python's comparison of two str: lexicographic on code points *)
Fixpoint ustr_compare (a b : ustr) : comparison :=
  match a, b with
  | [], [] => Eq
  | [], _ :: _ => Lt
  | _ :: _, [] => Gt
  | x :: a', y :: b' =>
      match N.compare x y with
      | Eq => ustr_compare a' b'
      | c => c
      end
  end.

Definition ustr_eqb (a b : ustr) : bool :=
  match ustr_compare a b with Eq => true | _ => false end.
Definition ustr_leb (a b : ustr) : bool :=
  match ustr_compare a b with Gt => false | _ => true end.
Definition ustr_ltb (a b : ustr) : bool :=
  match ustr_compare a b with Lt => true | _ => false end.

Definition mem (k : ustr) (l : list ustr) : bool := existsb (ustr_eqb k) l.

(* sep.join(parts) *)
Fixpoint join (sep : ustr) (l : list ustr) : ustr :=
  match l with
  | [] => []
  | [x] => x
  | x :: r => x ++ sep ++ join sep r
  end.

(* s.split(sep) for a one-character separator: at least one segment *)
Fixpoint split_on (sep : N) (s : ustr) (cur : ustr) : list ustr :=
  match s with
  | [] => [cur]
  | c :: r => if N.eqb c sep then cur :: split_on sep r [] else split_on sep r (cur ++ [c])
  end.
Definition split (sep : N) (s : ustr) : list ustr := split_on sep s [].

(* s.replace(a + b, rep) for a two-character pattern: leftmost, non-overlapping *)
Fixpoint replace2 (a b : N) (rep : ustr) (s : ustr) : ustr :=
  match s with
  | [] => []
  | c :: r =>
      match r with
      | d :: r' => if N.eqb c a && N.eqb d b then rep ++ replace2 a b rep r'
                   else c :: replace2 a b rep r
      | [] => [c]
      end
  end.

(* --- field names -------------------------------------------------------- *)
Definition K_task_uuid : ustr := u "task_uuid".
Definition K_task_level : ustr := u "task_level".
Definition K_timestamp : ustr := u "timestamp".
Definition K_action_type : ustr := u "action_type".
Definition K_message_type : ustr := u "message_type".
Definition K_action_status : ustr := u "action_status".

(* REQUIRED_FIELDS: also exactly the fields shown in the header *)
Definition required_fields : list ustr := [K_task_level; K_task_uuid; K_timestamp].
(* _skip_fields *)
Definition skip_fields : list ustr :=
  [K_timestamp; K_task_uuid; K_task_level; K_message_type; K_action_type; K_action_status].
(* _first_fields *)
Definition first_fields : list ustr := [K_action_type; K_message_type; K_action_status].

Definition is_required (k : ustr) : bool := mem k required_fields.
Definition is_skipped (k : ustr) : bool := mem k skip_fields.

Section Format.
  Variable V : Type.
  Variable pformat : V -> ustr.
  Variable dumps : V -> ustr.
  Variable to_str : V -> ustr.
  Variable level_strs : V -> option (list ustr).
  Variable render_ts : V -> option ustr.

  Definition message := list (ustr * V).

  (* message[k] / k in message *)
  Fixpoint lookup (k : ustr) (m : message) : option V :=
    match m with
    | [] => None
    | (k', v) :: r => if ustr_eqb k k' then Some v else lookup k r
    end.

  (* sorted(message.items()): keys are distinct, so the order is the order of
     the keys; insertion sort *)
  Fixpoint insert_item (kv : ustr * V) (l : message) : message :=
    match l with
    | [] => [kv]
    | h :: t => if ustr_leb (fst kv) (fst h) then kv :: l else h :: insert_item kv t
    end.
  Definition sort_items (m : message) : message := fold_right insert_item [] m.

  (* [(f, message[f])] if f in message *)
  Definition present (k : ustr) (m : message) : message :=
    match lookup k m with Some v => [(k, v)] | None => [] end.

  (* for field in _first_fields: if field in message: ... *)
  Definition first_items (m : message) : message := flat_map (fun k => present k m) first_fields.
  (* for key, value in sorted(message.items()): if key not in _skip_fields: ... *)
  Definition rest_items (m : message) : message :=
    filter (fun kv => negb (is_skipped (fst kv))) (sort_items m).

  (* the fields both formats show after the header, in the order shown *)
  Definition ordered_fields (m : message) : message := first_items m ++ rest_items m.

  (* pretty_format.add_field *)
  Definition post_pformat (s : ustr) : ustr :=
    replace2 backslash ch_t [tab] (replace2 backslash ch_n [nl; space] s).
  Definition indent_of (key : ustr) : ustr := repeat space (2 + List.length key) ++ u "| ".
  Definition reindent (key : ustr) (s : ustr) : ustr :=
    match split nl s with
    | [] => []
    | first :: rest => join [nl] (first :: map (fun l => indent_of key ++ l) rest)
    end.
  Definition add_field (key : ustr) (v : V) : ustr :=
    u "  " ++ key ++ u ": " ++ reindent key (post_pformat (pformat v)) ++ [nl].

  Definition remaining (m : message) : ustr :=
    concat (map (fun kv => add_field (fst kv) (snd kv)) (ordered_fields m)).

  (* "/" + "/".join(map(str, message["task_level"])) *)
  Definition level_text (ls : list ustr) : ustr := slash :: join [slash] ls.

  (* the three header values; None when a lookup raises KeyError or a value has
     the wrong type *)
  Definition header_parts (m : message) : option (ustr * ustr * ustr) :=
    match lookup K_task_uuid m, lookup K_task_level m, lookup K_timestamp m with
    | Some uu, Some l, Some t =>
        match level_strs l, render_ts t with
        | Some ls, Some ts => Some (to_str uu, level_text ls, ts)
        | _, _ => None
        end
    | _, _, _ => None
    end.

  Definition pretty_format (m : message) : option ustr :=
    match header_parts m with
    | Some (uu, lv, ts) => Some (uu ++ u " -> " ++ lv ++ [nl] ++ ts ++ [nl] ++ remaining m)
    | None => None
    end.

  (* "{}={}".format(key, dumps(value, separators=(",", ":"))) *)
  Definition compact_part (kv : ustr * V) : ustr := fst kv ++ u "=" ++ dumps (snd kv).
  Definition rendered (m : message) : ustr := join [space] (map compact_part (ordered_fields m)).

  Definition compact_format (m : message) : option ustr :=
    match header_parts m with
    | Some (uu, lv, ts) => Some (uu ++ lv ++ [space] ++ ts ++ [space] ++ rendered m)
    | None => None
    end.

  (* --- _main ------------------------------------------------------------ *)
  (* what json.loads made of one input line *)
  Inductive jdoc := JObj (m : message) | JOther.
  Inductive decoded := NotJson | Json (d : jdoc).
  (* l_repr = "{}".format(line.rstrip(b"\n")), the b'...' text of the raw line *)
  Record line := mkLine { l_repr : ustr; l_dec : decoded }.

  (* not (REQUIRED_FIELDS - set(message.keys())) *)
  Definition has_required (m : message) : bool :=
    forallb (fun k => match lookup k m with Some _ => true | None => false end) required_fields.

  Definition not_json_piece (r : ustr) : ustr := u "Not JSON: " ++ r ++ [nl; nl].
  Definition not_eliot_piece (r : ustr) : ustr := u "Not an Eliot message: " ++ r ++ [nl; nl].

  (* what one iteration of the loop writes; None = an exception leaves the loop *)
  Definition line_piece (fmt : message -> option ustr) (l : line) : option ustr :=
    match l_dec l with
    | NotJson => Some (not_json_piece (l_repr l))
    | Json JOther => Some (not_eliot_piece (l_repr l))
    | Json (JObj m) =>
        if has_required m then
          match fmt m with Some s => Some (s ++ [nl]) | None => None end
        else Some (not_eliot_piece (l_repr l))
    end.

  (* pieces written to stdout in order, and whether the loop reached the end of
     the input *)
  Fixpoint main_loop (fmt : message -> option ustr) (ls : list line) : list ustr * bool :=
    match ls with
    | [] => ([], true)
    | l :: r =>
        match line_piece fmt l with
        | Some p => let (ps, ok) := main_loop fmt r in (p :: ps, ok)
        | None => ([], false)
        end
    end.

  Definition formatter (compact : bool) : message -> option ustr :=
    if compact then compact_format else pretty_format.

  Definition main (compact : bool) (ls : list line) : list ustr * bool :=
    main_loop (formatter compact) ls.

  (* the loop before the repair "eliot-prettyprint aborted on JSON lines that
     are not objects": message.keys() on a non-dict raised AttributeError *)
  Definition line_piece_legacy (fmt : message -> option ustr) (l : line) : option ustr :=
    match l_dec l with
    | Json JOther => None
    | _ => line_piece fmt l
    end.
  Fixpoint main_loop_legacy (fmt : message -> option ustr) (ls : list line) : list ustr * bool :=
    match ls with
    | [] => ([], true)
    | l :: r =>
        match line_piece_legacy fmt l with
        | Some p => let (ps, ok) := main_loop_legacy fmt r in (p :: ps, ok)
        | None => ([], false)
        end
    end.
End Format.

Arguments JObj {V} m.
Arguments JOther {V}.
Arguments NotJson {V}.
Arguments Json {V} d.
Arguments mkLine {V} l_repr l_dec.
Arguments l_repr {V} l.
Arguments l_dec {V} l.

(* --- eliot.filter --------------------------------------------------------- *)
Section Filter.
  Variable J : Type.      (* a decoded input line *)
  Variable R : Type.      (* values of the expression *)

  (* eval(code, ..., {"J": message, "SKIP": _SKIP, ...}) *)
  Inductive fres := FValue (r : R) | FSkip | FRaise.

  Variable expr : J -> fres.
  Variable encode : R -> ustr.      (* dumps(result, cls=_DatetimeJSONEncoder) *)

  (* EliotFilter.run over the incoming lines; None = loads(line) raises.
     Result: what was written, in order, and whether the loop finished. *)
  Fixpoint filter_run (ls : list (option J)) : list ustr * bool :=
    match ls with
    | [] => ([], true)
    | None :: _ => ([], false)
    | Some j :: r =>
        match expr j with
        | FRaise => ([], false)
        | FSkip => filter_run r
        | FValue v => let (o, ok) := filter_run r in ((encode v ++ [nl]) :: o, ok)
        end
    end.

  (* main(sys): exit status and output; usage error unless exactly one argument *)
  Definition filter_main (argc : nat) (ls : list (option J)) : N * (list ustr * bool) :=
    if Nat.eqb argc 2 then (0%N, filter_run ls) else (1%N, ([], true)).
End Filter.

Arguments FValue {R} r.
Arguments FSkip {R}.
Arguments FRaise {R}.

(* --- instance fed by the harness ----------------------------------------- *)
(* Text crosses the Python/Coq boundary as an ASCII [string]: printable ASCII
   other than the double quote and "~" stands for itself, any other code point
   is "~" followed by six hexadecimal digits. *)
Definition hexval (a : ascii) : N :=
  let n := N_of_ascii a in if N.ltb n 58 then (n - 48)%N else (n - 87)%N.
Definition dec_step (st : list N * (nat * N)) (a : ascii) : list N * (nat * N) :=
  let '(acc, (k, v)) := st in
  match k with
  | O => if Ascii.eqb a "~"%char then (acc, (6, 0%N)) else (N_of_ascii a :: acc, (0, 0%N))
  | S O => ((v * 16 + hexval a)%N :: acc, (0, 0%N))
  | S k' => (acc, (k', (v * 16 + hexval a)%N))
  end.
Definition D (s : string) : ustr :=
  rev (fst (fold_left dec_step (list_ascii_of_string s) ([], (0, 0%N)))).

Definition hexdigit (n : N) : ascii := ascii_of_N (if N.ltb n 10 then 48 + n else 87 + n)%N.
Definition enc_char (c : N) : list ascii :=
  if (N.leb 32 c && N.ltb c 127 && negb (N.eqb c 34) && negb (N.eqb c 126))%bool then [ascii_of_N c]
  else "~"%char :: map (fun i => hexdigit (N.modulo (N.shiftr c (4 * i)) 16)) [5; 4; 3; 2; 1; 0]%N.
Definition E (s : ustr) : string := string_of_list_ascii (flat_map enc_char s).

(* a value together with what the external functions returned for it *)
Record dval := mkD {
  d_pf : ustr;                   (* pprint.pformat(v, width=40) *)
  d_js : ustr;                   (* json.dumps(v, separators=(",", ":")) *)
  d_str : ustr;                  (* str(v) *)
  d_lv : option (list ustr);     (* [str(x) for x in v] *)
  d_ts : option ustr             (* utcfromtimestamp(v).isoformat() + "Z" *)
}.

Definition d_pretty : message dval -> option ustr := pretty_format dval d_pf d_str d_lv d_ts.
Definition d_compact : message dval -> option ustr := compact_format dval d_js d_str d_lv d_ts.
Definition d_format (m : message dval) : option string * option string :=
  (option_map E (d_pretty m), option_map E (d_compact m)).
Definition d_main (compact : bool) (ls : list (line dval)) : string * bool :=
  let (ps, ok) := main dval d_pf d_js d_str d_lv d_ts compact ls in (E (concat ps), ok).
(* the harness evaluates the expression and the encoder itself: J = the result *)
Definition d_filter (ls : list (option (fres ustr))) : string * bool :=
  let (ps, ok) := filter_run (fres ustr) ustr (fun j => j) (fun r => r) ls in (E (concat ps), ok).
Definition d_filter_main (argc : nat) (ls : list (option (fres ustr))) : N * (string * bool) :=
  let '(rc, (ps, ok)) := filter_main (fres ustr) ustr (fun j => j) (fun r => r) argc ls in (rc, (E (concat ps), ok)).
