(* C01: the DECLARATIVE reading of a logging program -- the forest of tasks it is
   meant to produce -- written without any reference to task levels, contexts,
   tokens, handles-in-the-heap or the order of API calls.

     kids_stmt st   the trees statement [st] contributes to the enclosing action
                    (or, at top level, to the forest of tasks)
     raises_stmt st whether [st] lets an exception escape
     kids p         contributions of a statement list: those of its statements in
                    order, up to and including the first one that raises
     expected p     = kids p : one tree per top-level action / context-less message

   Reading of the statement forms (fragment [simple] below):
     SMsg mt ..            a message                 -> [TMsg mt]
     SActLog h mt ..       h.log(...) on the innermost enclosing action h
                                                     -> [TMsg mt]
     STraceback e          write_traceback()          -> [TMsg "eliot:traceback"]
     SAct h style task ty .. body
                           an action of type ty whose children are the body's
                           contributions; it ended FAILED iff the body lets an
                           exception escape (and then lets it escape itself)
                                                     -> [TAct ty st (kids body)]
     SRaise e              contributes nothing, raises
     STry body             the body's contributions; raises nothing
     SReenter h body       (with h.context(): body, h the innermost enclosing action)
                           the body's contributions; raises iff the body does
   Statements after an escaping raise are not executed and contribute nothing.

   [Forest.tree] carries types as [positive]: [ty_of] reads the [VTypeName t]
   values of the model (any other value is read as 1; [simple] requires action
   types to be [VTypeName _]; message types are not looked at by the parser).

   Definitions only. *)
From Coq Require Import List PArith Bool Arith.
Require Import Eliot.Base.Level Eliot.Model.Core Eliot.Model.Prog Eliot.Model.Parser Eliot.Model.Forest.
Import ListNotations.

Definition ty_of (v : val) : positive :=
  match v with VTypeName t => t | _ => 1%positive end.

(* ---- does a statement let an exception escape --------------------------------------- *)
Fixpoint raises_stmt (st : stmt) : bool :=
  let raises :=
    fix go (p : list stmt) : bool :=
      match p with
      | [] => false
      | x :: r => raises_stmt x || go r
      end in
  match st with
  | SRaise _ => true
  | SAct _ _ _ _ _ _ _ body => raises body
  | SReenter _ body => raises body
  | _ => false
  end.

Definition raises : list stmt -> bool :=
  fix go (p : list stmt) : bool :=
    match p with
    | [] => false
    | x :: r => raises_stmt x || go r
    end.

Definition status_of (failed : bool) : pstatus := if failed then PFailed else PSucceeded.

(* ---- what a statement contributes ----------------------------------------------------- *)
Fixpoint kids_stmt (st : stmt) : list tree :=
  let kids :=
    fix go (p : list stmt) : list tree :=
      match p with
      | [] => []
      | x :: r => kids_stmt x ++ (if raises_stmt x then [] else go r)
      end in
  match st with
  | SMsg mt _ _ => [TMsg (ty_of mt)]
  | SActLog _ mt _ => [TMsg (ty_of mt)]
  | STraceback _ => [TMsg T_traceback]
  | SAct _ _ _ ty _ _ _ body => [TAct (ty_of ty) (status_of (raises body)) (kids body)]
  | STry body => kids body
  | SReenter _ body => kids body
  | _ => []
  end.

Definition kids : list stmt -> list tree :=
  fix go (p : list stmt) : list tree :=
    match p with
    | [] => []
    | x :: r => kids_stmt x ++ (if raises_stmt x then [] else go r)
    end.

(* the forest a program is meant to produce: task u is the u-th tree *)
Definition expected (p : list stmt) : forest := kids p.

(* ---- the fragment ---------------------------------------------------------------------- *)
(* fields of a plain message must not claim to be an action message: the parser tells
   the two apart by the presence of action_type (eliot/parse.py Task.add) *)
Definition plain_key (k : key) : bool := negb (Pos.eqb k K_atype) && negb (Pos.eqb k K_status).
Definition plain (fs : fields) : bool := forallb (fun kv => plain_key (fst kv)) fs.

Definition is_tyname (v : val) : bool := match v with VTypeName _ => true | _ => false end.
Definition is_none {A} (o : option A) : bool := match o with None => true | Some _ => false end.
Definition is_handle (enc : option nat) (h : nat) : bool :=
  match enc with Some h' => Nat.eqb h h' | None => false end.

(* [enc]: the innermost enclosing action of the statement ([None]: top level).
   - SMsg without serializer, plain fields
   - SAct of any style, without serializers, its type a [VTypeName]; [task = true]
     (start_task) only at top level: a start_task nested inside another action is a new
     task emitted in the middle of the enclosing task's messages, which [Forest.lin]
     (task after task) does not describe -- excluded
   - SRaise, STry
   - SActLog h / SReenter h only for h the innermost enclosing action
   - STraceback
   - no SHandoff, SFinishAgain, SRawWrite, SSpawn *)
Fixpoint simple_stmt (enc : option nat) (st : stmt) : bool :=
  match st with
  | SMsg _ fs ser => is_none ser && plain fs
  | SActLog h _ fs => is_handle enc h && plain fs
  | SAct h _ task ty _ sers _ body =>
      (is_none enc || negb task) && is_tyname ty && is_none sers
      && forallb (simple_stmt (Some h)) body
  | SRaise _ => true
  | STry body => forallb (simple_stmt enc) body
  | STraceback _ => true
  | SReenter h body => is_handle enc h && forallb (simple_stmt enc) body
  | _ => false
  end.

(* handles of the actions a statement creates, anywhere inside it *)
Fixpoint handles_stmt (st : stmt) : list nat :=
  match st with
  | SAct h _ _ _ _ _ _ body => h :: flat_map handles_stmt body
  | STry body => flat_map handles_stmt body
  | SReenter _ body => flat_map handles_stmt body
  | _ => []
  end.
Definition handles (p : list stmt) : list nat := flat_map handles_stmt p.

Fixpoint nodupb (l : list nat) : bool :=
  match l with
  | [] => true
  | x :: r => negb (existsb (Nat.eqb x) r) && nodupb r
  end.

(* the programs of the theorem: the statement forms above, action handles pairwise distinct *)
Definition simple (p : list stmt) : bool :=
  forallb (simple_stmt None) p && nodupb (handles p).

(* ---- the configuration ------------------------------------------------------------------- *)
Fixpoint has_tb_stmt (st : stmt) : bool :=
  match st with
  | STraceback _ => true
  | SAct _ _ _ _ _ _ _ body => existsb has_tb_stmt body
  | STry body => existsb has_tb_stmt body
  | SReenter _ body => existsb has_tb_stmt body
  | _ => false
  end.
Definition has_tb (p : list stmt) : bool := existsb has_tb_stmt p.

(* exception extractors return fields (they do not raise) ... *)
Definition reg_fields (cfg : config) : bool :=
  forallb (fun cx => match snd cx with XFields _ => true | XRaise _ => false end) (registry cfg).
(* ... and, where they end up in a traceback *message*, plain ones.  (In the end message of a
   failed action any extractor field is fine: action_type / action_status are set last.) *)
Definition reg_plain (cfg : config) : bool :=
  forallb (fun cx => match snd cx with XFields fs => plain fs | XRaise _ => false end) (registry cfg).

Definition reg_ok (cfg : config) (p : list stmt) : bool :=
  if has_tb p then reg_plain cfg else reg_fields cfg.

(* one destination that never fails, registered before the program runs; no global fields *)
Definition one_dest (d : nat) (e : exn) : list (nat * op) := [(0, OAddDests [mk_dest d BNever e])].

(* the parser's messages renumbered i, i+1, ... *)
Fixpoint renumber (i : nat) (ms : list pmsg) : list pmsg :=
  match ms with
  | [] => []
  | m :: r => mkPmsg (pm_uuid m) (pm_level m) (pm_atype m) (pm_status m) i :: renumber (S i) r
  end.
