(* Model of eliot/testing.py: LoggedAction.fromMessages / of_type / descendants /
   type_tree / succeeded, LoggedMessage.of_type, assertHasAction / assertHasMessage
   (as boolean functions).  Definitions only. *)
From Coq Require Import List PArith Bool Arith.
Require Import Eliot.Base.Level Eliot.Model.Parser.
Import ListNotations.

(* a captured message, reduced to what the helpers look at *)
Record lmsg := mkLmsg {
  lm_uuid : nat;
  lm_level : level;
  lm_atype : option positive;
  lm_mtype : option positive;
  lm_status : option pstatus;
  lm_id : nat
}.

Inductive logged :=
| LMessage (m : lmsg)
| LAction (start end_ : lmsg) (children : list logged).

Inductive tres (A : Type) := TOk (a : A) | TValueError | TFuel.
Arguments TOk {A} a.
Arguments TValueError {A}.
Arguments TFuel {A}.

Definition prefix_of (l : level) : level := removelast l.

Definition is_completed (s : option pstatus) : bool :=
  match s with Some PSucceeded | Some PFailed => true | _ => false end.
Definition is_started (s : option pstatus) : bool :=
  match s with Some PStarted => true | _ => false end.

(* messageLevel is the start of a direct child action of the action with prefix p:
   len = len p + 2, messageLevel[:-2] = p, last = 1 *)
Definition child_start (p l : level) : bool :=
  Nat.eqb (length l) (length p + 2) && level_eqb (removelast (removelast l)) p
  && Pos.eqb (last l 2%positive) 1.

(* LoggedAction.fromMessages(uuid, level, messages); [fuel] bounds the nesting depth *)
Fixpoint from_messages (fuel : nat) (uuid : nat) (lvl : level) (all : list lmsg) : tres logged :=
  match fuel with
  | O => TFuel
  | S fuel' =>
      let p := prefix_of lvl in
      let scan :=
        fix scan (ms : list lmsg) (st en : option lmsg) (ch : list logged) : tres logged :=
          match ms with
          | [] =>
              match st, en with
              | Some s, Some e => TOk (LAction s e ch)
              | _, _ => TValueError
              end
          | m :: r =>
              if negb (Nat.eqb (lm_uuid m) uuid) then scan r st en ch
              else if level_eqb (prefix_of (lm_level m)) p && negb (match lm_level m with [] => true | _ => false end) then
                if is_started (lm_status m) then scan r (Some m) en ch
                else if is_completed (lm_status m) then scan r st (Some m) ch
                else scan r st en (ch ++ [LMessage m])
              else if child_start p (lm_level m) then
                match from_messages fuel' uuid (lm_level m) all with
                | TOk c => scan r st en (ch ++ [c])
                | TValueError => TValueError
                | TFuel => TFuel
                end
              else scan r st en ch
          end in
      scan all None None []
  end.

Definition max_depth (all : list lmsg) : nat :=
  fold_left (fun acc m => Nat.max acc (length (lm_level m))) all 0.

Fixpoint collect {A} (l : list (tres A)) : tres (list A) :=
  match l with
  | [] => TOk []
  | TOk a :: r => match collect r with TOk r' => TOk (a :: r') | TValueError => TValueError | TFuel => TFuel end
  | TValueError :: _ => TValueError
  | TFuel :: _ => TFuel
  end.

(* LoggedAction.of_type(messages, actionType) *)
Definition of_type (all : list lmsg) (ty : positive) : tres (list logged) :=
  collect (map (fun m => from_messages (S (max_depth all)) (lm_uuid m) (lm_level m) all)
               (filter (fun m => opt_eqb Pos.eqb (lm_atype m) (Some ty) && is_started (lm_status m)) all)).

(* LoggedMessage.of_type *)
Definition messages_of_type (all : list lmsg) (ty : positive) : list lmsg :=
  filter (fun m => opt_eqb Pos.eqb (lm_mtype m) (Some ty)) all.

(* LoggedAction.descendants(): pre-order *)
Fixpoint descendants (a : logged) : list logged :=
  match a with
  | LMessage _ => []
  | LAction _ _ ch =>
      (fix go (l : list logged) : list logged :=
         match l with
         | [] => []
         | c :: r => c :: descendants c ++ go r
         end) ch
  end.

Definition succeeded (a : logged) : bool :=
  match a with
  | LAction _ e _ => match lm_status e with Some PSucceeded => true | _ => false end
  | LMessage _ => false
  end.

(* type_tree as a tree of type atoms *)
Inductive ttree := TTMsg (ty : option positive) | TTAct (ty : option positive) (ch : list ttree).
Fixpoint type_tree (a : logged) : ttree :=
  match a with
  | LMessage m => TTMsg (lm_mtype m)
  | LAction s _ ch => TTAct (lm_atype s) (map type_tree ch)
  end.
