(* JSON lines as written by eliot's FileDestination
   (eliot/_output.py:439-496 FileDestination, :499-513 to_file;
    eliot/json.py:135-147 _dumps_bytes = orjson.dumps, _dumps_unicode = bytes.decode(utf-8)).

   jv                 the JSON-native value domain of a message
                        JNull | JBool | JInt z | JFloat f | JStr code-points | JArr | JObj
                      text is a list of code points (N), so astral characters are one
                      element and a lone surrogate (0xD800..0xDFFF) is representable
                      (Python str can hold one; orjson refuses it).
                      Dict keys: [KStr text] or [KOther] (any non-str key: orjson refuses).
                      Floats: NaN / +-Inf are explicit ([FNaN], [FInf]) and are written as
                      `null` (orjson's documented behaviour, the property's documented
                      exception); a finite float carries its text as an opaque token over
                      the alphabet 0-9 . e + - which the harness supplies (shortest
                      round-trip digits in orjson's layout); the model never looks inside.
   encode             orjson.dumps on that domain, producing UTF-8 bytes (list N):
                        compact separators, keys in dict order;
                        strings: quote and backslash escaped, \b \t \n \f \r, \u00xx (lower-case hex)
                        for the other C0 controls, everything else raw UTF-8 (U+007F,
                        U+2028, astral included); lone surrogate -> error;
                        ints in decimal, outside [-2^63, 2^64) -> error;
                        non-str key -> error;
                        more than 254 nested containers -> error (measured on orjson 3.12:
                        254 nested lists/dicts around a scalar are accepted, 255 are not;
                        an empty container counts as one level).
   FileDestination    file = chronological list of events [Write data | Flush];
                      [dest_open] is the mode probe file.write of empty bytes of __new__;
                      [dest_call] is __call__: dumps (may raise -> no event) then exactly
                      one write of line + linebreak and one flush.
   decode             a strict decoder for compact JSON (no whitespace, no floats), used
                      for the round-trip theorem.

   Only definitions here; proofs are in Proofs/JsonProofs.v. *)
From Coq Require Import List NArith ZArith Bool Decimal.
Import ListNotations.
Local Open Scope N_scope.

Definition bytes := list N.
Definition text := list N.   (* code points *)

(* ------------------------------------------------------------------ values *)

Inductive fch := F0 | F1 | F2 | F3 | F4 | F5 | F6 | F7 | F8 | F9 | FDot | FE | FPlus | FMinus.

Inductive jfloat :=
| FNaN
| FInf (negative : bool)
| FFin (tok : list fch).

Inductive jkey :=
| KStr (s : text)
| KOther.

Inductive jv :=
| JNull
| JBool (b : bool)
| JInt (z : Z)
| JFloat (f : jfloat)
| JStr (s : text)
| JArr (l : list jv)
| JObj (l : list (jkey * jv)).

(* ------------------------------------------------------------------ UTF-8 *)

Definition is_surrogate (c : N) : bool := (55296 <=? c) && (c <? 57344).
Definition is_scalar (c : N) : bool := (c <? 1114112) && negb (is_surrogate c).

(* UTF-8 of one code point (meaningful for scalar values) *)
Definition utf8 (c : N) : bytes :=
  if c <? 128 then [c]
  else
    let q1 := c / 64 in
    if c <? 2048 then [192 + q1; 128 + c mod 64]
    else
      let q2 := q1 / 64 in
      if c <? 65536 then [224 + q2; 128 + q1 mod 64; 128 + c mod 64]
      else
        let q3 := q2 / 64 in
        [240 + q3; 128 + q2 mod 64; 128 + q1 mod 64; 128 + c mod 64].

Definition utf8_all (t : text) : bytes := flat_map utf8 t.

Definition is_cont (b : N) : bool := (128 <=? b) && (b <? 192).

(* strict UTF-8 decoding of the first code point: no overlong forms, no
   surrogates, nothing above U+10FFFF *)
Definition utf8_dec1 (s : bytes) : option (N * bytes) :=
  match s with
  | [] => None
  | b0 :: r =>
      if b0 <? 128 then Some (b0, r)
      else if b0 <? 194 then None
      else if b0 <? 224 then
        match r with
        | b1 :: r' =>
            if is_cont b1 then Some ((b0 - 192) * 64 + (b1 - 128), r') else None
        | _ => None
        end
      else if b0 <? 240 then
        match r with
        | b1 :: b2 :: r' =>
            if is_cont b1 && is_cont b2 then
              let c := (b0 - 224) * 4096 + (b1 - 128) * 64 + (b2 - 128) in
              if (c <? 2048) || is_surrogate c then None else Some (c, r')
            else None
        | _ => None
        end
      else if b0 <? 245 then
        match r with
        | b1 :: b2 :: b3 :: r' =>
            if is_cont b1 && is_cont b2 && is_cont b3 then
              let c := (b0 - 240) * 262144 + (b1 - 128) * 4096 + (b2 - 128) * 64 + (b3 - 128) in
              if (c <? 65536) || (1114112 <=? c) then None else Some (c, r')
            else None
        | _ => None
        end
      else None
  end.

(* bytes.decode(utf-8): every step consumes at least one byte, so
   [length s] is enough fuel *)
Fixpoint utf8_decode_fuel (fuel : nat) (s : bytes) : option text :=
  match s with
  | [] => Some []
  | _ =>
      match fuel with
      | O => None
      | S f =>
          match utf8_dec1 s with
          | Some (c, r) =>
              match utf8_decode_fuel f r with
              | Some t => Some (c :: t)
              | None => None
              end
          | None => None
          end
      end
  end.

Definition utf8_decode (s : bytes) : option text := utf8_decode_fuel (length s) s.

(* ---------------------------------------------------------------- encoder *)

Fixpoint sequence {A} (l : list (option A)) : option (list A) :=
  match l with
  | [] => Some []
  | None :: _ => None
  | Some x :: r => match sequence r with Some r' => Some (x :: r') | None => None end
  end.

Fixpoint join_comma (l : list bytes) : bytes :=
  match l with
  | [] => []
  | [x] => x
  | x :: r => x ++ 44 :: join_comma r
  end.

Definition lit_null : bytes := [110; 117; 108; 108].
Definition lit_true : bytes := [116; 114; 117; 101].
Definition lit_false : bytes := [102; 97; 108; 115; 101].

Definition fch_byte (c : fch) : N :=
  match c with
  | F0 => 48 | F1 => 49 | F2 => 50 | F3 => 51 | F4 => 52
  | F5 => 53 | F6 => 54 | F7 => 55 | F8 => 56 | F9 => 57
  | FDot => 46 | FE => 101 | FPlus => 43 | FMinus => 45
  end.

Definition enc_float (f : jfloat) : bytes :=
  match f with
  | FNaN => lit_null
  | FInf _ => lit_null
  | FFin tok => map fch_byte tok
  end.

Fixpoint uint_bytes (d : uint) : bytes :=
  match d with
  | Nil => []
  | D0 d => 48 :: uint_bytes d
  | D1 d => 49 :: uint_bytes d
  | D2 d => 50 :: uint_bytes d
  | D3 d => 51 :: uint_bytes d
  | D4 d => 52 :: uint_bytes d
  | D5 d => 53 :: uint_bytes d
  | D6 d => 54 :: uint_bytes d
  | D7 d => 55 :: uint_bytes d
  | D8 d => 56 :: uint_bytes d
  | D9 d => 57 :: uint_bytes d
  end.

Definition int_min : Z := (-9223372036854775808)%Z.   (* -2^63 *)
Definition int_lim : Z := 18446744073709551616%Z.     (* 2^64 *)

Definition enc_int (z : Z) : option bytes :=
  if ((int_min <=? z) && (z <? int_lim))%Z
  then Some ((if (z <? 0)%Z then [45] else []) ++ uint_bytes (N.to_uint (Z.abs_N z)))
  else None.

Definition hexdigit (d : N) : N := if d <? 10 then 48 + d else 87 + d.

(* code point -> letter of its two-character escape *)
Definition short_escape (c : N) : option N :=
  if c =? 8 then Some 98
  else if c =? 9 then Some 116
  else if c =? 10 then Some 110
  else if c =? 12 then Some 102
  else if c =? 13 then Some 114
  else None.

Definition enc_char (c : N) : option bytes :=
  if c =? 34 then Some [92; 34]
  else if c =? 92 then Some [92; 92]
  else if c <? 32 then
    Some (match short_escape c with
          | Some e => [92; e]
          | None => [92; 117; 48; 48; hexdigit (c / 16); hexdigit (c mod 16)]
          end)
  else if is_scalar c then Some (utf8 c)
  else None.

Definition enc_str (s : text) : option bytes :=
  match sequence (map enc_char s) with
  | Some parts => Some (34 :: concat parts ++ [34])
  | None => None
  end.

Definition enc_member (enc : jv -> option bytes) (kv : jkey * jv) : option bytes :=
  let '(k, x) := kv in
  match k with
  | KStr s =>
      match enc_str s, enc x with
      | Some a, Some b => Some (a ++ 58 :: b)
      | _, _ => None
      end
  | KOther => None
  end.

Fixpoint enc (v : jv) : option bytes :=
  match v with
  | JNull => Some lit_null
  | JBool b => Some (if b then lit_true else lit_false)
  | JInt z => enc_int z
  | JFloat f => Some (enc_float f)
  | JStr s => enc_str s
  | JArr l =>
      match sequence (map enc l) with
      | Some parts => Some (91 :: join_comma parts ++ [93])
      | None => None
      end
  | JObj l =>
      match sequence (map (enc_member enc) l) with
      | Some parts => Some (123 :: join_comma parts ++ [125])
      | None => None
      end
  end.

(* number of nested containers *)
Fixpoint depth (v : jv) : nat :=
  match v with
  | JArr l => S (fold_right (fun x m => Nat.max (depth x) m) O l)
  | JObj l => S (fold_right (fun (kv : jkey * jv) m => let '(_, x) := kv in Nat.max (depth x) m) O l)
  | _ => O
  end.

Definition max_depth : nat := 254.

(* orjson.dumps(v): [None] is "raises TypeError" *)
Definition encode (v : jv) : option bytes :=
  if Nat.leb (depth v) max_depth then enc v else None.

(* -------------------------------------------------------- FileDestination *)

Inductive mode := Binary | Text.

Inductive data :=
| DBytes (b : bytes)     (* file.write(bytes) *)
| DText (t : text).      (* file.write(str)  *)

Inductive event :=
| Write (d : data)
| Flush.

Definition file := list event.   (* chronological *)

(* FileDestination.__new__: file.write of empty bytes decides the mode; a text file
   raises TypeError and nothing reaches it *)
Definition dest_open (md : mode) (f : file) : file :=
  match md with
  | Binary => f ++ [Write (DBytes [])]
  | Text => f
  end.

(* self._dumps(message, default=...) + self._linebreak *)
Definition dumps_line (md : mode) (m : jv) : option data :=
  match encode m with
  | None => None
  | Some b =>
      match md with
      | Binary => Some (DBytes (b ++ [10]))
      | Text =>
          match utf8_decode b with
          | Some t => Some (DText (t ++ [10]))
          | None => None
          end
      end
  end.

(* FileDestination.__call__: (file afterwards, raised?) *)
Definition dest_call (md : mode) (m : jv) (f : file) : file * bool :=
  match dumps_line md m with
  | None => (f, true)
  | Some d =>
      let f1 := f ++ [Write d] in      (* self.file.write(...) *)
      let f2 := f1 ++ [Flush] in       (* self.file.flush()    *)
      (f2, false)
  end.

Definition run (md : mode) (ms : list jv) (f : file) : file :=
  fold_left (fun f m => fst (dest_call md m f)) ms f.

(* what a reader of the file sees: the concatenation of everything written,
   a text file encoding its characters as UTF-8 *)
Definition data_bytes (d : data) : bytes :=
  match d with
  | DBytes b => b
  | DText t => utf8_all t
  end.

Fixpoint content (f : file) : bytes :=
  match f with
  | [] => []
  | Write d :: r => data_bytes d ++ content r
  | Flush :: r => content r
  end.

(* pieces of [s] separated by byte [sep] (like bytes.split): always at least
   one piece; the last piece is what follows the final separator *)
Fixpoint split_on (sep : N) (s : bytes) (cur : bytes) : list bytes :=
  match s with
  | [] => [cur]
  | b :: r => if b =? sep then cur :: split_on sep r [] else split_on sep r (cur ++ [b])
  end.

Definition split_lines (s : bytes) : list bytes := split_on 10 s [].

(* the complete lines of a file content: everything before the last newline *)
Definition complete_lines (s : bytes) : list bytes := removelast (split_lines s).

Fixpoint encodings (ms : list jv) : list bytes :=
  match ms with
  | [] => []
  | m :: r => match encode m with Some b => b :: encodings r | None => encodings r end
  end.

(* ---------------------------------------------------------------- decoder *)

Definition hexval (b : N) : option N :=
  if (48 <=? b) && (b <=? 57) then Some (b - 48)
  else if (97 <=? b) && (b <=? 102) then Some (b - 87)
  else if (65 <=? b) && (b <=? 70) then Some (b - 55)
  else None.

(* letter of a two-character escape -> code point *)
Definition unescape (e : N) : option N :=
  if e =? 34 then Some 34
  else if e =? 92 then Some 92
  else if e =? 47 then Some 47
  else if e =? 98 then Some 8
  else if e =? 102 then Some 12
  else if e =? 110 then Some 10
  else if e =? 114 then Some 13
  else if e =? 116 then Some 9
  else None.

Definition cons_res (c : N) (r : option (text * bytes)) : option (text * bytes) :=
  match r with
  | Some (t, rest) => Some (c :: t, rest)
  | None => None
  end.

(* the characters of a string up to and including the closing quote *)
Fixpoint parse_str (fuel : nat) (s : bytes) : option (text * bytes) :=
  match fuel with
  | O => None
  | S f =>
      match s with
      | [] => None
      | b :: r =>
          if b =? 34 then Some ([], r)
          else if b =? 92 then
            match r with
            | [] => None
            | e :: r1 =>
                if e =? 117 then
                  match r1 with
                  | h1 :: h2 :: h3 :: h4 :: r2 =>
                      match hexval h1, hexval h2, hexval h3, hexval h4 with
                      | Some a, Some b', Some c', Some d =>
                          let c := ((a * 16 + b') * 16 + c') * 16 + d in
                          if is_surrogate c then None else cons_res c (parse_str f r2)
                      | _, _, _, _ => None
                      end
                  | _ => None
                  end
                else
                  match unescape e with
                  | Some c => cons_res c (parse_str f r1)
                  | None => None
                  end
            end
          else if b <? 32 then None
          else
            match utf8_dec1 s with
            | Some (c, r') => cons_res c (parse_str f r')
            | None => None
            end
      end
  end.

Definition is_digit (b : N) : bool := (48 <=? b) && (b <=? 57).

Fixpoint span_digits (s : bytes) : bytes * bytes :=
  match s with
  | [] => ([], [])
  | b :: r =>
      if is_digit b then let '(d, r') := span_digits r in (b :: d, r')
      else ([], s)
  end.

Definition digit_ctor (b : N) : uint -> uint :=
  if b =? 48 then D0 else if b =? 49 then D1 else if b =? 50 then D2
  else if b =? 51 then D3 else if b =? 52 then D4 else if b =? 53 then D5
  else if b =? 54 then D6 else if b =? 55 then D7 else if b =? 56 then D8
  else D9.

Fixpoint uint_of_bytes (l : bytes) : uint :=
  match l with
  | [] => Nil
  | b :: r => digit_ctor b (uint_of_bytes r)
  end.

Definition parse_int (s : bytes) : option (jv * bytes) :=
  let '(neg, s') := match s with
                    | b :: r => if b =? 45 then (true, r) else (false, s)
                    | [] => (false, s)
                    end in
  let '(ds, rest) := span_digits s' in
  match ds with
  | [] => None
  | _ =>
      let n := Z.of_N (N.of_uint (uint_of_bytes ds)) in
      Some (JInt (if neg then (- n)%Z else n), rest)
  end.

Fixpoint strip_prefix (p s : bytes) : option bytes :=
  match p, s with
  | [], _ => Some s
  | a :: p', b :: s' => if a =? b then strip_prefix p' s' else None
  | _ :: _, [] => None
  end.

Fixpoint parse (fuel : nat) (s : bytes) {struct fuel} : option (jv * bytes) :=
  match fuel with
  | O => None
  | S f =>
      match s with
      | [] => None
      | b :: r =>
          if b =? 110 then
            match strip_prefix lit_null s with Some r' => Some (JNull, r') | None => None end
          else if b =? 116 then
            match strip_prefix lit_true s with Some r' => Some (JBool true, r') | None => None end
          else if b =? 102 then
            match strip_prefix lit_false s with Some r' => Some (JBool false, r') | None => None end
          else if b =? 34 then
            match parse_str (length r) r with
            | Some (t, r') => Some (JStr t, r')
            | None => None
            end
          else if b =? 91 then
            match r with
            | [] => None
            | c :: r' =>
                if c =? 93 then Some (JArr [], r')
                else match parse_elems f r with
                     | Some (xs, r'') => Some (JArr xs, r'')
                     | None => None
                     end
            end
          else if b =? 123 then
            match r with
            | [] => None
            | c :: r' =>
                if c =? 125 then Some (JObj [], r')
                else match parse_members f r with
                     | Some (kvs, r'') => Some (JObj kvs, r'')
                     | None => None
                     end
            end
          else parse_int s
      end
  end

(* one or more values separated by commas, up to and including the closing bracket *)
with parse_elems (fuel : nat) (s : bytes) {struct fuel} : option (list jv * bytes) :=
  match fuel with
  | O => None
  | S f =>
      match parse f s with
      | Some (x, c :: r) =>
          if c =? 44 then
            match parse_elems f r with
            | Some (xs, r') => Some (x :: xs, r')
            | None => None
            end
          else if c =? 93 then Some ([x], r)
          else None
      | _ => None
      end
  end

(* one or more key:value separated by commas, up to and including the closing brace *)
with parse_members (fuel : nat) (s : bytes) {struct fuel} : option (list (jkey * jv) * bytes) :=
  match fuel with
  | O => None
  | S f =>
      match s with
      | q :: s1 =>
          if q =? 34 then
            match parse_str (length s1) s1 with
            | Some (k, colon :: s2) =>
                if colon =? 58 then
                  match parse f s2 with
                  | Some (x, c :: r) =>
                      if c =? 44 then
                        match parse_members f r with
                        | Some (kvs, r') => Some ((KStr k, x) :: kvs, r')
                        | None => None
                        end
                      else if c =? 125 then Some ([(KStr k, x)], r)
                      else None
                  | _ => None
                  end
                else None
            | _ => None
            end
          else None
      | [] => None
      end
  end.

Definition decode (s : bytes) : option jv :=
  match parse (S (length s)) s with
  | Some (v, []) => Some v
  | _ => None
  end.
