(* Executable model of eliot.log_call (eliot/_action.py, after commit cc84555) and
   of what it is compared with: Python's own argument binding.

   Mirrors
     CPython call semantics (function objects)  -> bind      (reference semantics of the UNDECORATED call)
     inspect.Signature.bind + apply_defaults    -> sigbind   (= bind, except that CPython 3.12's Signature._bind
                                                   rejects a keyword naming a positional-only parameter that no
                                                   positional argument filled, even when **kw would take it;
                                                   confirmed on 150000 random signature/call pairs)
     log_call / logging_wrapper                 -> decorate_ok, wrapper
     _start_action_with_fields, Action._start   -> start_message
     Action.finish, add_success_fields          -> end_success, end_failed
   and, kept for the record under "Legacy", the wrapper as it was before cc84555
     boltons.funcutils.wraps (FunctionBuilder)  -> demote, forward
     inspect.getcallargs                        -> bind (demote s)
     -> wrapper_legacy

   A function is a signature, its module and qualified name, and a body: a
   function from the bound arguments to "returned v" or "raised e".

   Values are opaque identities (Z): the harness numbers the objects it passes.
   Names are interned as positives (the first ten are fixed below).
   Definitions only; proofs are in Proofs/LogCallProofs.v. *)
From Coq Require Import List PArith ZArith Bool String.
Import ListNotations.

Definition name := positive.
Definition value := Z.

(* fixed names *)
Definition N_self : name := 1%positive.
Definition N_action_status : name := 2%positive.
Definition N_timestamp : name := 3%positive.
Definition N_task_uuid : name := 4%positive.
Definition N_action_type : name := 5%positive.
Definition N_task_level : name := 6%positive.
Definition N_result : name := 7%positive.
Definition N_exception : name := 8%positive.
Definition N_reason : name := 9%positive.
Definition N_underscore_call : name := 10%positive.   (* "_call": the global the boltons-generated function calls *)

(* ------------------------------------------------------------------ *)
(* Signatures and calls *)

Inductive kind := KPosOnly | KNormal | KVarArgs | KKwOnly | KVarKw.

Record param := mkParam { p_name : name; p_kind : kind; p_default : option value }.

Definition fsig := list param.

Record fcall := mkCall { c_pos : list value; c_kw : list (name * value) }.

(* what a parameter is bound to: a plain argument, the *args tuple, the **kw dict *)
Inductive bval :=
| BVal (v : value)
| BTuple (vs : list value)
| BDict (kv : list (name * value)).

Definition bindings := list (name * bval).

Inductive bres (A : Type) := Ok (a : A) | TypeErr.
Arguments Ok {A} a.
Arguments TypeErr {A}.

Definition kind_eqb (a b : kind) : bool :=
  match a, b with
  | KPosOnly, KPosOnly | KNormal, KNormal | KVarArgs, KVarArgs | KKwOnly, KKwOnly | KVarKw, KVarKw => true
  | _, _ => false
  end.

Definition is_positional (k : kind) : bool :=
  match k with KPosOnly | KNormal => true | _ => false end.

(* parameters that a keyword argument can name *)
Definition by_keyword (k : kind) : bool :=
  match k with KNormal | KKwOnly => true | _ => false end.

Definition has_default (p : param) : bool :=
  match p_default p with Some _ => true | None => false end.

Definition names (s : fsig) : list name := map p_name s.

Definition has_kind (kd : kind) (s : fsig) : bool :=
  existsb (fun p => kind_eqb (p_kind p) kd) s.

Definition kw_target (s : fsig) (k : name) : bool :=
  existsb (fun p => by_keyword (p_kind p) && Pos.eqb (p_name p) k) s.

Definition posonly_name (s : fsig) (k : name) : bool :=
  existsb (fun p => kind_eqb (p_kind p) KPosOnly && Pos.eqb (p_name p) k) s.

Definition memb (k : name) (l : list name) : bool := existsb (Pos.eqb k) l.

Fixpoint nodupb (l : list name) : bool :=
  match l with
  | [] => true
  | x :: r => negb (memb x r) && nodupb r
  end.

Fixpoint lookup {A : Type} (k : name) (m : list (name * A)) : option A :=
  match m with
  | [] => None
  | (k', v) :: r => if Pos.eqb k k' then Some v else lookup k r
  end.

Definition keys {A : Type} (m : list (name * A)) : list name := map fst m.

(* ------------------------------------------------------------------ *)
(* Python's syntax rules for a parameter list (what `def` accepts):
   positional-only, then ordinary, then at most one *args, then keyword-only,
   then at most one **kw; no parameter without default after a positional one
   with default; all names distinct.  [may_follow p q]: q may appear later
   than p. *)

Definition may_follow (p q : param) : bool :=
  match p_kind p with
  | KPosOnly => if has_default p then negb (is_positional (p_kind q)) || has_default q else true
  | KNormal =>
      negb (kind_eqb (p_kind q) KPosOnly) &&
      (if has_default p then negb (is_positional (p_kind q)) || has_default q else true)
  | KVarArgs | KKwOnly =>
      match p_kind q with KKwOnly | KVarKw => true | _ => false end
  | KVarKw => false
  end.

Fixpoint order_ok (s : fsig) : bool :=
  match s with
  | [] => true
  | p :: r => forallb (may_follow p) r && order_ok r
  end.

Definition wf_sig (s : fsig) : bool := order_ok s && nodupb (names s).

(* ------------------------------------------------------------------ *)
(* Python's argument binding.  [bind_params sg ps pos kw] walks the parameter
   list [ps] (a suffix of the whole signature [sg]) with the positional
   arguments not yet consumed. *)

Definition rcons (x : name * bval) (r : bres bindings) : bres bindings :=
  match r with Ok b => Ok (x :: b) | TypeErr => TypeErr end.

Definition or_default (n : name) (p : param) (rest : bres bindings) : bres bindings :=
  match p_default p with
  | Some d => rcons (n, BVal d) rest
  | None => TypeErr                     (* missing required argument *)
  end.

Fixpoint bind_params (sg : fsig) (ps : list param) (pos : list value) (kw : list (name * value))
  : bres bindings :=
  match ps with
  | [] => Ok []
  | p :: r =>
      let n := p_name p in
      match p_kind p with
      | KPosOnly =>
          match pos with
          | v :: pos' => rcons (n, BVal v) (bind_params sg r pos' kw)
          | [] => or_default n p (bind_params sg r [] kw)
          end
      | KNormal =>
          match pos with
          | v :: pos' =>
              if memb n (keys kw) then TypeErr       (* multiple values for argument n *)
              else rcons (n, BVal v) (bind_params sg r pos' kw)
          | [] =>
              match lookup n kw with
              | Some v => rcons (n, BVal v) (bind_params sg r [] kw)
              | None => or_default n p (bind_params sg r [] kw)
              end
          end
      | KVarArgs => rcons (n, BTuple pos) (bind_params sg r [] kw)
      | KKwOnly =>
          match lookup n kw with
          | Some v => rcons (n, BVal v) (bind_params sg r pos kw)
          | None => or_default n p (bind_params sg r pos kw)
          end
      | KVarKw =>
          rcons (n, BDict (filter (fun kv => negb (kw_target sg (fst kv))) kw)) (bind_params sg r pos kw)
      end
  end.

Definition n_positional (s : fsig) : nat :=
  List.length (filter (fun p => is_positional (p_kind p)) s).

Definition bind (s : fsig) (c : fcall) : bres bindings :=
  if negb (nodupb (keys (c_kw c))) then TypeErr
       (* a keyword given twice through two dict unpackings: rejected at the call site *)
  else if negb (has_kind KVarArgs s) && Nat.ltb (n_positional s) (List.length (c_pos c)) then TypeErr
       (* too many positional arguments *)
  else if negb (has_kind KVarKw s) && negb (forallb (fun kv => kw_target s (fst kv)) (c_kw c)) then TypeErr
       (* unexpected keyword argument / positional-only argument passed as keyword *)
  else bind_params s s (c_pos c) (c_kw c).

(* ------------------------------------------------------------------ *)
(* inspect.Signature.bind followed by apply_defaults: Python's rule, except that
   Signature._bind (CPython 3.12) raises TypeError for every keyword whose name is
   a positional-only parameter left unfilled by the positional arguments - also
   when that parameter has a default and a **kw parameter would receive the keyword. *)

Definition sigbind_quirk (s : fsig) (c : fcall) : bool :=
  existsb (fun p => kind_eqb (p_kind p) KPosOnly && memb (p_name p) (keys (c_kw c)))
          (skipn (List.length (c_pos c)) (filter (fun p => is_positional (p_kind p)) s)).

Definition sigbind (s : fsig) (c : fcall) : bres bindings :=
  if sigbind_quirk s c then TypeErr else bind s c.

(* ------------------------------------------------------------------ *)
(* Functions, outcomes, decorator options *)

Record exn := mkExn { x_id : Z; x_cls : positive }.

Inductive body_result := BReturned (v : value) | BRaised (e : exn).

Record fn := mkFn {
  f_sig : fsig;
  f_module : string;
  f_qualname : string;
  f_body : bindings -> body_result
}.

Inductive raised :=
| RExn (e : exn)            (* the application's exception object *)
| RTypeError.               (* TypeError made by the interpreter for an invalid argument list *)

Inductive outcome := Returned (v : value) | Raised (r : raised).

(* the undecorated call *)
Definition call_fn (f : fn) (c : fcall) : outcome :=
  match bind (f_sig f) c with
  | TypeErr => Raised RTypeError
  | Ok b => match f_body f b with
            | BReturned v => Returned v
            | BRaised e => Raised (RExn e)
            end
  end.

Record opts := mkOpts {
  o_action_type : option string;
  o_include_args : option (list name);
  o_include_result : bool
}.

(* log_call raises ValueError at decoration time when include_args names
   something that is not a parameter *)
Definition decorate_ok (f : fn) (o : opts) : bool :=
  match o_include_args o with
  | None => true
  | Some inc => forallb (fun k => memb k (names (f_sig f))) inc
  end.

Definition action_type_of (f : fn) (o : opts) : string :=
  match o_action_type o with
  | Some t => t
  | None => (f_module f ++ "." ++ f_qualname f)%string
  end.

(* ------------------------------------------------------------------ *)
(* Messages *)

Inductive status := Started | Succeeded | Failed.

Inductive fval :=
| FArg (b : bval)               (* a bound argument *)
| FResult (v : value)
| FStatus (s : status)
| FTime                         (* time.time() *)
| FUuid                         (* the task's uuid *)
| FType (t : string)
| FLevel (l : list positive)
| FExcName (r : raised)         (* "module.Class" of the exception *)
| FReason (r : raised).         (* safeunicode(exception) *)

Definition message := list (name * fval).

(* d[k] = v keeping insertion order *)
Fixpoint dset {A : Type} (k : name) (v : A) (m : list (name * A)) : list (name * A) :=
  match m with
  | [] => [(k, v)]
  | (k', v') :: r => if Pos.eqb k k' then (k, v) :: r else (k', v') :: dset k v r
  end.

Fixpoint remove_key {A : Type} (k : name) (m : list (name * A)) : list (name * A) :=
  match m with
  | [] => []
  | (k', v) :: r => if Pos.eqb k k' then remove_key k r else (k', v) :: remove_key k r
  end.

(* {k: callargs[k] for k in include_args if k in callargs} *)
Fixpoint select (inc : list name) (m : bindings) (acc : bindings) : bindings :=
  match inc with
  | [] => acc
  | k :: r => match lookup k m with
              | Some v => select r m (dset k v acc)
              | None => select r m acc
              end
  end.

Definition logged_args (o : opts) (callargs : bindings) : bindings :=
  let ca := remove_key N_self callargs in
  match o_include_args o with
  | None => ca
  | Some inc => select inc ca []
  end.

(* Action._start: the five reserved keys are assigned after the caller's fields *)
Definition identify (t : string) (l : list positive) (m : message) : message :=
  dset N_task_level (FLevel l) (dset N_action_type (FType t) (dset N_task_uuid FUuid m)).

Definition start_message (t : string) (lvl : list positive) (fields : bindings) : message :=
  identify t (lvl ++ [1%positive])
    (dset N_timestamp FTime (dset N_action_status (FStatus Started)
       (map (fun kv => (fst kv, FArg (snd kv))) fields))).

(* Action.finish(None): the success fields, then status, timestamp, identification, level *)
Definition end_success (t : string) (lvl : list positive) (success_fields : message) : message :=
  identify t (lvl ++ [2%positive])
    (dset N_timestamp FTime (dset N_action_status (FStatus Succeeded) success_fields)).

(* Action.finish(exception) with an empty extractor registry *)
Definition end_failed (t : string) (lvl : list positive) (r : raised) : message :=
  identify t (lvl ++ [2%positive])
    (dset N_timestamp FTime (dset N_action_status (FStatus Failed)
       (dset N_reason (FReason r) (dset N_exception (FExcName r) [])))).

(* ------------------------------------------------------------------ *)
(* The decorated function: functools.wraps(logging_wrapper), called with the
   caller's own args/kwargs.  [parent] is the level the enclosing action hands
   to its next child (None: no current action, a new task is started). *)

Definition wrapper (f : fn) (o : opts) (parent : option (list positive)) (c : fcall)
  : outcome * list message :=
  match sigbind (f_sig f) c with                      (* sig.bind( *args, **kwargs ); apply_defaults() *)
  | TypeErr => (Raised RTypeError, [])                (* raised before any action is started *)
  | Ok callargs =>
      let fields := logged_args o callargs in         (* pop self; include_args *)
      let t := action_type_of f o in
      let lvl := match parent with Some l => l | None => [] end in
      let start := start_message t lvl fields in
      match call_fn f c with                          (* wrapped_function( *args, **kwargs ) *)
      | Returned v =>
          (Returned v,
           [start; end_success t lvl (if o_include_result o then [(N_result, FResult v)] else [])])
      | Raised r => (Raised r, [start; end_failed t lvl r])
      end
  end.

(* the guard of the transparency theorems: the exact complement of the remaining
   defect (Signature.bind rejects, Python accepts) *)
Definition no_posonly_default_clash (s : fsig) (c : fcall) : Prop :=
  sigbind_quirk s c = true -> bind s c = TypeErr.

Definition included (o : opts) (k : name) : bool :=
  match o_include_args o with
  | None => true
  | Some inc => memb k inc
  end.

Definition reserved (k : name) : bool :=
  memb k [N_action_status; N_timestamp; N_task_uuid; N_action_type; N_task_level].

(* ================================================================== *)
(* Legacy: log_call before commit cc84555 (boltons' wraps + getcallargs).
   Not the code in /repo any more; kept so that the three repaired defects
   (F3b, F3c, F3e) stay machine-checked witnesses against this wrapper. *)

(* ------------------------------------------------------------------ *)
(* The function produced by boltons.funcutils.wraps: FunctionBuilder.from_func
   reads the parameters with inspect.getfullargspec, which merges
   positional-only parameters into the ordinary ones, and get_sig_str writes
   no '/'.  inspect.getcallargs is built on getfullargspec too. *)

Definition demote_param (p : param) : param :=
  match p_kind p with
  | KPosOnly => mkParam (p_name p) KNormal (p_default p)
  | _ => p
  end.

Definition demote (s : fsig) : fsig := map demote_param s.

(* FunctionBuilder.get_invocation_str: a parameter with a default is forwarded
   as keyword unless it is positional-only or a *args exists; keyword-only
   parameters as keywords; then *args and **kw. *)
Definition fwd_by_keyword (va : bool) (p : param) : bool :=
  match p_kind p with
  | KNormal => has_default p && negb va
  | KKwOnly => true
  | _ => false
  end.

Fixpoint fwd_pos (va : bool) (ps : list param) (b : bindings) : list value :=
  match ps, b with
  | p :: ps', (_, bv) :: b' =>
      (match p_kind p, bv with
       | KPosOnly, BVal v => [v]
       | KNormal, BVal v => if fwd_by_keyword va p then [] else [v]
       | KVarArgs, BTuple vs => vs
       | _, _ => []
       end) ++ fwd_pos va ps' b'
  | _, _ => []
  end.

Fixpoint fwd_kw (va : bool) (ps : list param) (b : bindings) : list (name * value) :=
  match ps, b with
  | p :: ps', (_, bv) :: b' =>
      (match p_kind p, bv with
       | KNormal, BVal v => if fwd_by_keyword va p then [(p_name p, v)] else []
       | KKwOnly, BVal v => [(p_name p, v)]
       | KVarKw, BDict kv => kv
       | _, _ => []
       end) ++ fwd_kw va ps' b'
  | _, _ => []
  end.

Definition forward (s : fsig) (b : bindings) : fcall :=
  let va := has_kind KVarArgs s in
  mkCall (fwd_pos va s b) (fwd_kw va s b).

(* ------------------------------------------------------------------ *)
(* The decorated function as it was. *)

Definition wrapper_legacy (f : fn) (o : opts) (parent : option (list positive)) (c : fcall)
  : outcome * list message :=
  let s := f_sig f in
  (* layer 1: the function generated by boltons' wraps binds the call ... *)
  match bind (demote s) c with
  | TypeErr => (Raised RTypeError, [])
  | Ok b1 =>
      (* ... and forwards its local variables with `return _call(...)`; `_call` is a global of
         the generated function, so a parameter of that name shadows it and the
         argument (an object, the *args tuple or the **kw dict) is called instead *)
      if memb N_underscore_call (names s) then (Raised RTypeError, []) else
      let c' := forward s b1 in
      (* layer 2: logging_wrapper *)
      match bind (demote s) c' with                   (* getcallargs(wrapped_function, *args, **kwargs) *)
      | TypeErr => (Raised RTypeError, [])
      | Ok callargs =>
          let fields := logged_args o callargs in     (* pop self; include_args *)
          let t := action_type_of f o in
          let lvl := match parent with Some l => l | None => [] end in
          let start := start_message t lvl fields in
          match call_fn f c' with                     (* wrapped_function( *args, **kwargs ) *)
          | Returned v =>
              (Returned v,
               [start; end_success t lvl (if o_include_result o then [(N_result, FResult v)] else [])])
          | Raised r => (Raised r, [start; end_failed t lvl r])
          end
      end
  end.

(* the guards the legacy transparency theorem needed *)
Definition no_posonly_kw (s : fsig) (c : fcall) : Prop :=
  forall k, In k (keys (c_kw c)) -> posonly_name s k = false.

(* the narrower situation named in the design: the name clash needs **kw *)
Definition posonly_kw_clash (s : fsig) (c : fcall) : bool :=
  has_kind KVarKw s && existsb (fun k => posonly_name s k) (keys (c_kw c)).

Definition no_param_named_call (s : fsig) : Prop := ~ In N_underscore_call (names s).

