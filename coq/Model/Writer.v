(* eliot/logwriter.py — ThreadedWriter: an unbounded FIFO queue between any number of calling
   threads and one reader thread per start/stop cycle.

       startService : Service.startService (running := 1); _thread := Thread(_reader); start; addDestination
       stopService  : Service.stopService (running := 0); removeDestination; _queue.put(_STOP);
                      return deferToThreadPool(..., _thread.join)
       __call__     : _queue.put(data)
       _reader      : while True: msg := _queue.get(); if msg is _STOP: return
                                  try: _destination(msg) except Exception: pass

   Interleaving model.  Threads: the controller (runs [cycles] times start; stop; wait for the
   handle), producers (each offers its list of messages, one [put] per step), and the reader of
   the current cycle.  A schedule is a list of thread ids; a step of a thread that is disabled
   (reader on an empty queue, join before the reader finished, a thread with nothing left to do)
   leaves the state unchanged.  Relative to: queue.SimpleQueue is a linearizable unbounded FIFO
   ([put] never blocks, [get] blocks exactly when empty), Thread.join returns exactly when the
   thread's target has returned. *)
From Coq Require Import List Arith Bool.
Import ListNotations.

Inductive item := Msg (m : nat) | Stop.                       (* queue entries; Stop = the _STOP sentinel *)
Inductive tid := Ctl | Prod (i : nat) | Reader (c : nat).     (* Reader c: the thread created by the c-th startService *)

(* reader thread: not created / at [_queue.get()] / holding m, about to be (or being) written by the
   wrapped destination — a slow destination is a reader that stays here / returned *)
Inductive rstate := RNone | RIdle | RHold (m : nat) | RDone.

(* controller: PIdle -startService-> PStarted -Service.stopService;removeDestination-> PStopping
               -put _STOP-> PJoining -join (enabled only when the reader returned)-> PIdle *)
Inductive phase := PIdle | PStarted | PStopping | PJoining.

(* ghost: every step that took effect, oldest first *)
Inductive event :=
| EStart (c : nat)
| EUnreg (c : nat)
| EPut (t : tid) (x : item)
| EGet (c : nat) (x : item)
| ECall (c : nat) (m : nat) (ok : bool)      (* the destination was called with m on thread Reader c; ok = it did not raise *)
| EExit (c : nat)                            (* only the mutant reader: left the loop without having seen _STOP *)
| EJoin (c : nat).

Record state := mkState {
  queue : list item;                 (* _queue, head first *)
  running : bool;                    (* Service.running *)
  registered : bool;                 (* self in Logger._destinations *)
  reader : rstate;
  phase_ : phase;
  cycle : nat;                       (* completed start/stop cycles *)
  todo : nat;                        (* cycles not yet started *)
  prods : list (list nat);           (* messages each producer has still to offer *)
  log : list (nat * tid);            (* what the wrapped destination has written, with the writing thread; oldest first *)
  trace : list event
}.

Fixpoint set_nth {A} (n : nat) (x : A) (l : list A) : list A :=
  match n, l with
  | _, [] => []
  | O, _ :: r => x :: r
  | S n', y :: r => y :: set_nth n' x r
  end.

(* [exit_on_stopped = false] is eliot's reader loop; [true] is the mutant `while self.running:` *)
Definition step_gen (exit_on_stopped : bool) (fails : nat -> bool) (st : state) (t : tid) : state :=
  match t with
  | Prod i =>
      match nth_error (prods st) i with
      | Some (m :: rest) =>
          mkState (queue st ++ [Msg m]) (running st) (registered st) (reader st) (phase_ st) (cycle st) (todo st)
                  (set_nth i rest (prods st)) (log st) (trace st ++ [EPut (Prod i) (Msg m)])
      | _ => st
      end
  | Ctl =>
      match phase_ st with
      | PIdle =>
          match todo st with
          | O => st
          | S n => mkState (queue st) true true RIdle PStarted (cycle st) n (prods st) (log st)
                           (trace st ++ [EStart (cycle st)])
          end
      | PStarted =>
          mkState (queue st) false false (reader st) PStopping (cycle st) (todo st) (prods st) (log st)
                  (trace st ++ [EUnreg (cycle st)])
      | PStopping =>
          mkState (queue st ++ [Stop]) (running st) (registered st) (reader st) PJoining (cycle st) (todo st)
                  (prods st) (log st) (trace st ++ [EPut Ctl Stop])
      | PJoining =>
          match reader st with
          | RDone => mkState (queue st) (running st) (registered st) RDone PIdle (S (cycle st)) (todo st)
                             (prods st) (log st) (trace st ++ [EJoin (cycle st)])
          | _ => st
          end
      end
  | Reader c =>
      if Nat.eqb c (cycle st) then
        match reader st with
        | RIdle =>
            if exit_on_stopped && negb (running st) then
              mkState (queue st) (running st) (registered st) RDone (phase_ st) (cycle st) (todo st)
                      (prods st) (log st) (trace st ++ [EExit c])
            else
              match queue st with
              | [] => st
              | Msg m :: q =>
                  mkState q (running st) (registered st) (RHold m) (phase_ st) (cycle st) (todo st)
                          (prods st) (log st) (trace st ++ [EGet c (Msg m)])
              | Stop :: q =>
                  mkState q (running st) (registered st) RDone (phase_ st) (cycle st) (todo st)
                          (prods st) (log st) (trace st ++ [EGet c Stop])
              end
        | RHold m =>
            mkState (queue st) (running st) (registered st) RIdle (phase_ st) (cycle st) (todo st) (prods st)
                    (if fails m then log st else log st ++ [(m, Reader c)])
                    (trace st ++ [ECall c m (negb (fails m))])
        | _ => st
        end
      else st
  end.

Definition step := step_gen false.
Definition step_mut := step_gen true.

(* a thread is enabled when its next step takes effect *)
Definition enabled (st : state) (t : tid) : bool :=
  match t with
  | Prod i => match nth_error (prods st) i with Some (_ :: _) => true | _ => false end
  | Ctl =>
      match phase_ st with
      | PIdle => match todo st with O => false | _ => true end
      | PStarted | PStopping => true
      | PJoining => match reader st with RDone => true | _ => false end
      end
  | Reader c =>
      Nat.eqb c (cycle st) &&
      match reader st with
      | RIdle => match queue st with [] => false | _ => true end
      | RHold _ => true
      | _ => false
      end
  end.

Definition init (producers : list (list nat)) (cycles : nat) : state :=
  mkState [] false false RNone PIdle 0 cycles producers [] [].

Definition run_from (fails : nat -> bool) (st : state) (sched : list tid) : state :=
  fold_left (step fails) sched st.

Definition run (fails : nat -> bool) (producers : list (list nat)) (cycles : nat) (sched : list tid) : state :=
  run_from fails (init producers cycles) sched.

Definition run_mut (fails : nat -> bool) (producers : list (list nat)) (cycles : nat) (sched : list tid) : state :=
  fold_left (step_mut fails) sched (init producers cycles).

(* everything has been done: all cycles completed, every producer has offered all its messages *)
Definition finished (st : state) : bool :=
  match phase_ st, todo st with
  | PIdle, O => forallb (fun l => match l with [] => true | _ => false end) (prods st)
  | _, _ => false
  end.

(* ---- projections of the trace *)
Definition puts (tr : list event) : list item :=
  flat_map (fun e => match e with EPut _ x => [x] | _ => [] end) tr.
Definition put_by (i : nat) (tr : list event) : list nat :=
  flat_map (fun e => match e with EPut (Prod j) (Msg m) => if Nat.eqb i j then [m] else [] | _ => [] end) tr.
Definition taken (tr : list event) : list item :=
  flat_map (fun e => match e with EGet _ x => [x] | _ => [] end) tr.
(* calls of the wrapped destination: (message, cycle of the calling reader) *)
Definition calls (tr : list event) : list (nat * nat) :=
  flat_map (fun e => match e with ECall c m _ => [(m, c)] | _ => [] end) tr.

Definition msgs (l : list item) : list nat :=
  flat_map (fun x => match x with Msg m => [m] | Stop => [] end) l.
Fixpoint count_stop (l : list item) : nat :=
  match l with [] => 0 | Stop :: r => S (count_stop r) | Msg _ :: r => count_stop r end.

(* which cycle's reader receives each message of a put sequence: the n-th _STOP ends cycle n *)
Fixpoint attrib (l : list item) (n : nat) : list (nat * nat) :=
  match l with
  | [] => []
  | Msg m :: r => (m, n) :: attrib r n
  | Stop :: r => attrib r (S n)
  end.

(* the message the reader holds, with its cycle *)
Definition held (st : state) : list (nat * nat) :=
  match reader st with RHold m => [(m, cycle st)] | _ => [] end.

Definition mask (l : list nat) : nat -> bool := fun m => existsb (Nat.eqb m) l.

(* what the harness compares with the real run *)
Definition observe (st : state) :=
  (trace st, log st, queue st, (running st, registered st), reader st, (phase_ st, cycle st, todo st), prods st).
