"""C10 — the JSON log file holds one valid, faithful line per message.

Two families.

encode   messages over the JSON-native domain (escaping corners, integer and float
         boundaries, nesting around orjson's limit, non-string keys, lone surrogates) are
         handed to a real ``FileDestination`` over an instrumented binary file
         (``io.BytesIO`` subclass) and an instrumented text file (``io.StringIO`` subclass),
         directly, through ``to_file`` + ``Logger().write`` (global fields included) and
         through ``to_file`` + ``log_message``.  Every ``write``/``flush`` call is recorded.
         The recorded event sequence is compared byte-for-byte with Model/Json.v evaluated in
         Coq (finite floats enter the model as opaque tokens, see ``float_token``); the
         executable statement is evaluated on the recorded calls.
rich     the documented rich types of ``json_default`` (Path, date, time, set, complex) and a
         caller-supplied ``json_default``: executable statement against the documented
         encodings; byte comparison with the model after applying the documented encoding
         (cases whose sets have at most one element, the order of a set being arbitrary).

Values travel as tagged JSON (``["s", [code points]]`` ...) so that lone surrogates, NaN,
big integers and non-string keys survive the transport unchanged.
"""
import json
import math

from lib.framework import Family

ID = "C10"
PROPS_FILE = "Props/C10.v"

MAX_DEPTH = 254            # orjson: at most 254 nested containers (measured; Model/Json.v max_depth)
INT_MIN = -2 ** 63
INT_LIM = 2 ** 64

TRUSTED = [
    "orjson implements the modelled compact encoder (tied on every run by the byte-for-byte comparison of this check)",
    "float text: shortest round-trip digits (Python repr) laid out as orjson does (exponent form below 1e-5 and from 1e16, "
    "unpadded signed exponent), computed by props/C10.py float_token and opaque to the model (agreed with orjson on 3 000 000 random doubles)",
    "json.loads (strict, duplicate keys and NaN/Infinity literals rejected) is the reader used by the executable statement",
    "a text file encodes what it is given as UTF-8 (content of a text-mode write = str.encode('utf-8'))",
]
ASSUMPTIONS = [
    "integers within [-2^63, 2^64) and at most 254 nested containers (message dict included): outside, orjson raises, "
    "nothing is written (checked) and the failure goes down C08's path",
    "text is a sequence of Unicode scalar values; a str holding a lone surrogate is refused by orjson, nothing is written (checked)",
    "NaN and +-Infinity are written as null (documented exception)",
    "datetime.time values are naive: orjson rejects a tz-aware time itself (TypeError 'datetime.time must not have tzinfo set') "
    "before json_default is consulted, so such a message is not written; not generated here, reported as a suspected finding",
    "the documented encodings of the rich types (Path -> str, date/time -> isoformat, set -> list, complex -> {real, imag}, "
    "extension objects -> what the caller's json_default returns) are applied by the harness function `documented`; there is no "
    "Coq model of json_default, the model sees the resulting JSON-native value",
]
RULE = ("messages generated from VERIF_SEED over the tagged JSON-native domain (all C0 codes, quote, backslash, U+007F, "
        "U+2028/9, astral, lone surrogates, +-2^63, 2^64-1, 2^64, -0.0, NaN, +-Inf, 1e308, 5e-324, nesting 1..300, non-string keys) "
        "and the documented rich types; distinct by canonical JSON of the case; non-trivial when at least one line was written")
LEVEL_TEXT = ("Coq theorems about Model/Json.v: encoder output has no newline/raw control byte and is valid UTF-8; the event list of "
              "any message sequence is per message exactly [Write(line+newline); Flush] or nothing; file content at every call boundary "
              "is the newline-terminated encodings in order; text-mode content equals binary content; decode(encode v) = v on the "
              "float-free domain.  Tied to /repo by recording every write/flush a real FileDestination performs on instrumented binary "
              "and text files (directly, through to_file+Logger.write and to_file+log_message) and comparing byte-for-byte with the model "
              "evaluated in Coq; the executable statement (one write ending in exactly one newline then one flush, json.loads(line) equals "
              "the message, binary = text content, nothing written on failure) is evaluated on every recorded run.")
LEVEL_NOTE = ("Trusted: Coq kernel; hand-written model Model/Json.v tied by per-run correspondence; orjson (encoder contract, float "
              "formatting opaque); json.loads as reader; Python harness (tagged-value transport, float_token, expected documented encodings).")


# ============================================================ tagged values
# ["n"] | ["b", 0/1] | ["i", int] | ["f", "nan"|"inf"|"-inf"|float.hex()] | ["s", [cp...]]
# ["a", [v...]] | ["o", [[key, v]...]]   key: ["s", cps] or any scalar tag or ["y", hex] (bytes)
# rich: ["DT", y, m, d, H, M, S, us, utc offset in minutes | None] datetime | ["P", cps] Path | ["D", y, m, d] date | ["T", h, m, s, us] time | ["S", [v...]] set
#       ["C", fre, fim] complex | ["X", v] extension object | ["U"] unsupported object

class ExtObj(object):
    """A caller-defined class only the caller's json_default knows about."""
    def __init__(self, payload):
        self.payload = payload

    def __repr__(self):
        return "ExtObj(...)"


class Unsupported(object):
    def __repr__(self):
        return "Unsupported()"


def _float_of(h):
    if h in ("nan", "inf", "-inf"):
        return float(h)
    return float.fromhex(h)


def _float_tag(f):
    if f != f:
        return ["f", "nan"]
    if f in (float("inf"), float("-inf")):
        return ["f", "inf" if f > 0 else "-inf"]
    return ["f", f.hex()]


def _text(cps):
    return "".join(map(chr, cps))


def to_py(t):
    k = t[0]
    if k == "n":
        return None
    if k == "b":
        return bool(t[1])
    if k == "i":
        return int(t[1])
    if k == "f":
        return _float_of(t[1])
    if k == "s":
        return _text(t[1])
    if k == "a":
        return [to_py(x) for x in t[1]]
    if k == "o":
        return {to_py(kk): to_py(v) for kk, v in t[1]}
    if k == "y":
        return bytes.fromhex(t[1])
    if k == "P":
        from pathlib import Path
        return Path(_text(t[1]))
    if k == "D":
        from datetime import date
        return date(t[1], t[2], t[3])
    if k == "T":
        from datetime import time
        return time(t[1], t[2], t[3], t[4])
    if k == "DT":
        from datetime import datetime, timezone, timedelta
        tz = None if t[8] is None else (timezone.utc if t[8] == 0 else timezone(timedelta(minutes=t[8])))
        return datetime(t[1], t[2], t[3], t[4], t[5], t[6], t[7], tzinfo=tz)
    if k == "S":
        return set(to_py(x) for x in t[1])
    if k == "C":
        return complex(_float_of(t[1]), _float_of(t[2]))
    if k == "X":
        return ExtObj(to_py(t[1]))
    if k == "U":
        return Unsupported()
    raise ValueError("bad tag %r" % (t,))


def to_tag(o):
    """Inverse of to_py for what a destination is offered (snapshot at call time)."""
    from pathlib import Path
    from datetime import date, time
    if o is None:
        return ["n"]
    if o is True or o is False:
        return ["b", int(o)]
    if type(o) is int:
        return ["i", o]
    if type(o) is float:
        return _float_tag(o)
    if type(o) is str:
        return ["s", [ord(c) for c in o]]
    if type(o) in (list, tuple):
        return ["a", [to_tag(x) for x in o]]
    if type(o) is dict:
        return ["o", [[to_tag(k), to_tag(v)] for k, v in o.items()]]
    if type(o) is bytes:
        return ["y", o.hex()]
    if isinstance(o, Path):
        return ["P", [ord(c) for c in str(o)]]
    if type(o).__name__ == "datetime" and isinstance(o, date):
        off = None if o.tzinfo is None else int(o.utcoffset().total_seconds() // 60)
        return ["DT", o.year, o.month, o.day, o.hour, o.minute, o.second, o.microsecond, off]
    if type(o) is date:
        return ["D", o.year, o.month, o.day]
    if type(o) is time and o.tzinfo is None:
        return ["T", o.hour, o.minute, o.second, o.microsecond]
    if type(o) is set:
        return ["S", [to_tag(x) for x in o]]
    if type(o) is complex:
        return ["C", _float_tag(o.real)[1], _float_tag(o.imag)[1]]
    if isinstance(o, ExtObj):
        return ["X", to_tag(o.payload)]
    return ["U"]


# ---------------------------------------------------------------- the documented encoding
def float_token(f):
    """Text orjson writes for a finite float: shortest round-trip digits; exponent form iff
    the decimal exponent is < -5 or >= 16, written e+N / e-N without padding."""
    r = repr(f)
    sign = ""
    if r[0] == "-":
        sign, r = "-", r[1:]
    if "e" in r:
        mant, ex = r.split("e")
        ex = int(ex)
    else:
        mant, ex = r, 0
    ip, _, fp = mant.partition(".")
    digits = ip + fp
    point = len(ip) + ex
    n0 = len(digits) - len(digits.lstrip("0"))
    digits = digits[n0:]
    point -= n0
    digits = digits.rstrip("0")
    if not digits:
        return sign + "0.0"
    e = point - 1
    if -5 <= e < 16:
        if point <= 0:
            return sign + "0." + "0" * (-point) + digits
        if point >= len(digits):
            return sign + digits + "0" * (point - len(digits)) + ".0"
        return sign + digits[:point] + "." + digits[point:]
    return sign + digits[0] + ("." + digits[1:] if len(digits) > 1 else "") + "e" + ("+" if e >= 0 else "-") + str(abs(e))


def _str_tag(s):
    return ["s", [ord(c) for c in s]]


def documented(t, jd, promised=False):
    """The documented JSON-native encoding (tagged) of a tagged value under json_default
    variant ``jd``; raises KeyError("unsupported") when the behaviour is a failure.
    A set becomes ["S*", [...]] (a list in arbitrary order).

    promised=True: what the documentation promises (date/time need eliot's json_default in the
    chain).  promised=False: what the modelled stack does (orjson serialises date and naive time
    itself, in the same isoformat text, before any default function is consulted)."""
    k = t[0]
    if k in ("n", "b", "i", "f", "s"):
        return t
    if k == "a":
        return ["a", [documented(x, jd, promised) for x in t[1]]]
    if k == "o":
        return ["o", [[kk, documented(v, jd, promised)] for kk, v in t[1]]]
    if k == "X":
        if jd in ("ext", "ext_only"):
            return ["o", [[_str_tag("ext"), documented(t[1], jd, promised)], [_str_tag("kind"), _str_tag("X")]]]
        raise KeyError("unsupported")
    if k == "DT":
        # a datetime is a date: documented encoding isoformat() (orjson writes it natively, whatever json_default is)
        s = "%04d-%02d-%02dT%02d:%02d:%02d" % tuple(t[1:7])
        if t[7]:
            s += ".%06d" % t[7]
        if t[8] is not None:
            s += "%s%02d:%02d" % ("+" if t[8] >= 0 else "-", abs(t[8]) // 60, abs(t[8]) % 60)
        return _str_tag(s)
    if k in ("D", "T"):
        if promised and jd == "ext_only":
            raise KeyError("unsupported")
        if k == "D":
            return _str_tag("%04d-%02d-%02d" % (t[1], t[2], t[3]))
        s = "%02d:%02d:%02d" % (t[1], t[2], t[3])
        if t[4]:
            s += ".%06d" % t[4]
        return _str_tag(s)
    if k in ("P", "S", "C"):
        if jd == "ext_only":
            raise KeyError("unsupported")
        if k == "P":
            return ["s", t[1]]
        if k == "S":
            return ["S*", [documented(x, jd, promised) for x in t[1]]]
        return ["o", [[_str_tag("real"), ["f", t[1]]], [_str_tag("imag"), ["f", t[2]]]]]
    raise KeyError("unsupported")


def _depth(t):
    k = t[0]
    if k in ("a", "S*"):
        return 1 + max([_depth(x) for x in t[1]] + [0])
    if k == "o":
        return 1 + max([_depth(v) for _, v in t[1]] + [0])
    return 0


def _native_ok(t):
    """In the JSON-native domain with the stated guards (64-bit, scalar values, str keys)."""
    k = t[0]
    if k in ("n", "b", "f"):
        return True
    if k == "i":
        return INT_MIN <= t[1] < INT_LIM
    if k == "s":
        return all(0 <= c < 0x110000 and not (0xD800 <= c < 0xE000) for c in t[1])
    if k in ("a", "S*"):
        return all(_native_ok(x) for x in t[1])
    if k == "o":
        return all(kk[0] == "s" and _native_ok(kk) and _native_ok(v) for kk, v in t[1])
    return False


def in_domain(t, jd, promised=True):
    """Must this message be written?  (property text + the stated guards)"""
    try:
        d = documented(t, jd, promised)
    except KeyError:
        return False
    if d[0] != "o":
        return False
    if _depth(d) > MAX_DEPTH:
        return False
    return _native_ok(d)


def expected_value(d):
    """tagged documented value -> what json.loads must return (sets as ("set", [...]))."""
    k = d[0]
    if k == "n":
        return None
    if k == "b":
        return bool(d[1])
    if k == "i":
        return d[1]
    if k == "f":
        f = _float_of(d[1])
        return None if (f != f or f in (float("inf"), float("-inf"))) else f
    if k == "s":
        return _text(d[1])
    if k == "a":
        return [expected_value(x) for x in d[1]]
    if k == "S*":
        return ("set", [expected_value(x) for x in d[1]])
    if k == "o":
        return {_text(kk[1]): expected_value(v) for kk, v in d[1]}
    raise ValueError(d)


def same(got, exp):
    """Strict structural equality: types, sign of zero, no int/float/bool confusion."""
    if isinstance(exp, tuple) and exp and exp[0] == "set":
        if type(got) is not list or len(got) != len(exp[1]):
            return False
        left = list(got)
        for e in exp[1]:
            for i, g in enumerate(left):
                if same(g, e):
                    del left[i]
                    break
            else:
                return False
        return True
    if type(got) is not type(exp):
        return False
    if type(exp) is float:
        return got == exp and math.copysign(1.0, got) == math.copysign(1.0, exp)
    if type(exp) is list:
        return len(got) == len(exp) and all(same(g, e) for g, e in zip(got, exp))
    if type(exp) is dict:
        return set(got) == set(exp) and all(same(got[k], exp[k]) for k in exp)
    return got == exp


class _Dup(Exception):
    pass


def _pairs(pairs):
    d = {}
    for k, v in pairs:
        if k in d:
            raise _Dup(k)
        d[k] = v
    return d


def _no_const(name):
    raise ValueError("non-JSON constant %s" % name)


def strict_loads(s):
    return json.loads(s, object_pairs_hook=_pairs, parse_constant=_no_const)


# ============================================================ implementation side
def _make_default(jd):
    from eliot.json import json_default
    if jd == "default":
        return None

    def ext(o):
        if isinstance(o, ExtObj):
            return {"ext": o.payload, "kind": "X"}
        if jd == "ext_only":
            raise TypeError("unsupported by the caller's default")
        return json_default(o)
    return ext


def _recorder(text, sink, filekind="io"):
    """filekind: "io" (behaves like the io classes), "none_write" (write() returns None, as codecs.StreamWriter, Twisted's
    LogFile and many hand-written wrappers do), "mode_lies" (a text-only file whose .mode says "wb", as the streams of
    codecs.open(path, "w", encoding=...) do; the bytes file says "wb" too)"""
    import io
    base = io.StringIO if text else io.BytesIO

    class Rec(base):
        if filekind == "mode_lies":
            mode = "wb"            # truthful for the bytes file, misleading for the text-only one

        def write(self, data):
            n = base.write(self, data)          # a text file raises TypeError on bytes (the mode probe)
            if filekind == "none_write":
                n = None
            if isinstance(data, str):
                sink(["w", "t", data])
            elif isinstance(data, (bytes, bytearray, memoryview)):
                sink(["w", "b", bytes(data).hex()])
            else:
                sink(["w", "?", repr(type(data))])
            return n

        def flush(self):
            sink(["f"])
            return base.flush(self)

        def writelines(self, lines):
            sink(["x", "writelines"])
            return base.writelines(self, lines)

        def close(self):
            sink(["x", "close"])

        def truncate(self, *a):
            sink(["x", "truncate"])
            return base.truncate(self, *a)

        def seek(self, *a):
            sink(["x", "seek"])
            return base.seek(self, *a)
    return Rec()


def _exc(e):
    return "%s: %s" % (type(e).__name__, str(e)[:200])


def _one_run(case, text):
    import eliot
    from eliot import _output
    kind = case["kind"]
    jd = case.get("jd", "default")
    probe, groups = [], []
    cur = [None]

    done = [False]

    def sink(ev):
        if not done[0]:          # the recorder's own finalisation (IOBase.__del__ -> close) is not the library's doing
            (probe if cur[0] is None else cur[0]["events"]).append(ev)

    rec = _recorder(text, sink, case.get("filekind", "io"))
    dests = _output.Destinations()           # pristine global output state
    _output.Logger._destinations = dests
    kw = {}
    default = _make_default(jd)
    if default is not None and case.get("via_encoder"):
        # the deprecated spelling: a JSONEncoder subclass (of the stdlib class, or of eliot's own) whose default() does it
        import json as _json
        import warnings
        from eliot.json import EliotJSONEncoder
        warnings.simplefilter("ignore", DeprecationWarning)
        base = EliotJSONEncoder if case["via_encoder"] == "eliot" else _json.JSONEncoder

        class CallerEncoder(base):
            def default(self, o):
                return default(o)
        kw["encoder"] = CallerEncoder
    elif default is not None:
        kw["json_default"] = default
    out = {"probe": probe, "groups": groups, "ctor_error": None}
    msgs = [to_py(m) for m in case["msgs"]]
    if kind == "direct":
        try:
            dest = eliot.FileDestination(file=rec, **kw)
        except Exception as e:
            out["ctor_error"] = _exc(e)
            done[0] = True
            return out
        for t, m in zip(case["msgs"], msgs):
            g = {"offered": t, "events": [], "raised": None}
            groups.append(g)
            cur[0] = g
            try:
                dest(m)
            except Exception as e:
                g["raised"] = _exc(e)
        cur[0] = None
    else:
        def capture(message):
            g = {"offered": to_tag(message), "events": [], "raised": None}
            groups.append(g)
            cur[0] = g
        dests.add(capture)
        try:
            eliot.to_file(rec, **kw)
        except Exception as e:
            out["ctor_error"] = _exc(e)
            done[0] = True
            return out
        if case.get("globals"):
            dests.addGlobalFields(**to_py(case["globals"]))
        for m in msgs:
            if kind == "logger":
                eliot.Logger().write(m)
            else:
                fields = dict(m)
                mt = fields.pop("message_type", "c10:msg")
                eliot.log_message(mt, **fields)
        cur[0] = None
    out["content"] = rec.getvalue() if text else rec.getvalue().hex()
    done[0] = True
    return out


def impl(case):
    return {"bin": _one_run(case, False), "txt": _one_run(case, True)}


# ============================================================ executable statement
def _check_run(case, run, text):
    """-> (error or None, [line data per group or None])"""
    jd = case.get("jd", "default")
    mode = "text" if text else "binary"
    if run["ctor_error"]:
        return "%s: creating the destination failed: %s" % (mode, run["ctor_error"]), []
    for ev in run["probe"]:
        if ev[0] == "w" and ev[2] not in ("", ):
            return "%s: data written before any message: %r" % (mode, ev), []
        if ev[0] == "x":
            return "%s: unexpected file operation %s" % (mode, ev[1]), []
    datas = []
    whole = "" if text else b""
    for gi, g in enumerate(run["groups"]):
        t, evs = g["offered"], g["events"]
        dom = in_domain(t, jd)
        where = "%s file, message %d" % (mode, gi)
        if not evs:
            if dom:
                return "%s: a message in the domain was not written (%s)" % (where, g["raised"]), datas
            datas.append(None)
            continue
        shape = [e[0] for e in evs]
        if shape != ["w", "f"]:
            return "%s: expected exactly one write then one flush, got %s" % (
                mode, ["write" if e[0] == "w" else "flush" if e[0] == "f" else e[1] for e in evs]), datas
        if g["raised"]:
            return "%s: the call raised (%s) after writing to the file" % (where, g["raised"]), datas
        w = evs[0]
        if w[1] != ("t" if text else "b"):
            return "%s: write received %s data" % (where, {"t": "str", "b": "bytes"}.get(w[1], w[2])), datas
        if text:
            data = w[2]
            try:
                raw = data.encode("utf-8")
            except UnicodeEncodeError as e:
                return "%s: text written is not encodable as UTF-8: %s" % (where, e), datas
        else:
            raw = bytes.fromhex(w[2])
            try:
                raw.decode("utf-8")
            except UnicodeDecodeError as e:
                return "%s: line is not valid UTF-8: %s" % (where, e), datas
        if not raw.endswith(b"\n"):
            return "%s: the write does not end with a newline: ...%r" % (where, raw[-20:]), datas
        if raw.count(b"\n") != 1:
            return "%s: the write contains %d newlines" % (where, raw.count(b"\n")), datas
        line = raw[:-1].decode("utf-8")
        try:
            got = strict_loads(line)
        except _Dup as e:
            return "%s: duplicate key %r in the line" % (where, e.args[0]), datas
        except ValueError as e:
            return "%s: line is not valid JSON (%s): %r" % (where, e, line[:200]), datas
        if type(got) is not dict:
            return "%s: line is not a JSON object: %r" % (where, line[:100]), datas
        if dom or in_domain(t, jd, False):
            exp = expected_value(documented(t, jd))
            if not same(got, exp):
                return "%s: decoded line differs from the message: got %r expected %r" % (where, _brief(got), _brief(exp)), datas
        datas.append(raw)
        whole = whole + (w[2] if text else raw)
    content = run.get("content")
    if content is not None:
        c = content if text else bytes.fromhex(content)
        if c != whole:
            return "%s: file content differs from the recorded writes" % mode, datas
    return None, datas


def _brief(x):
    s = repr(x)
    return s if len(s) < 400 else s[:400] + "..."


def oracle(case, obs):
    eb, db = _check_run(case, obs["bin"], False)
    if eb:
        return eb
    et, dt = _check_run(case, obs["txt"], True)
    if et:
        return et
    kind = case["kind"]
    if kind == "log_message":
        # timestamps/uuids differ between the two runs: compare shapes only
        if [d is None for d in db] != [d is None for d in dt] and not _has_failure(obs):
            return "binary and text files saw different lines written"
        return None
    n = len(case["msgs"])
    if kind == "direct" and (len(db) != n or len(dt) != n):
        return "not every message was offered"
    cmp_b, cmp_t = db, dt
    if kind == "logger":
        cmp_b = [d for d, g in zip(db, obs["bin"]["groups"]) if not _is_failure_msg(g["offered"])]
        cmp_t = [d for d, g in zip(dt, obs["txt"]["groups"]) if not _is_failure_msg(g["offered"])]
        if len(cmp_b) != n or len(cmp_t) != n:
            return "the file destination was offered %d/%d messages, expected %d" % (len(cmp_b), len(cmp_t), n)
    for i, (b, t) in enumerate(zip(cmp_b, cmp_t)):
        if b != t:
            return "message %d: binary file received %r, text file received %r" % (i, _brief(b), _brief(t))
    return None


_FAILURE_KEYS = [_str_tag(k) for k in ("reason", "exception", "message", "task_level", "timestamp")]


def _is_failure_msg(t):
    """An eliot:destination_failure report (C08) the file destination is offered after it failed.
    Recognised by its field names: global fields may overwrite its message_type, and generated
    messages never carry these names."""
    if t[0] != "o":
        return False
    keys = [k for k, _ in t[1]]
    return all(k in keys for k in _FAILURE_KEYS)


def _has_failure(obs):
    return any(_is_failure_msg(g["offered"]) for g in obs["bin"]["groups"] + obs["txt"]["groups"])


# ============================================================ model side
_FCH = {"0": "F0", "1": "F1", "2": "F2", "3": "F3", "4": "F4", "5": "F5", "6": "F6", "7": "F7", "8": "F8",
        "9": "F9", ".": "FDot", "e": "FE", "+": "FPlus", "-": "FMinus"}


def _cps(cps):
    return "[" + ";".join(str(c) for c in cps) + "]%N"


def gallina(t):
    """tagged JSON-native value -> Gallina term of type jv"""
    k = t[0]
    if k == "n":
        return "JNull"
    if k == "b":
        return "(JBool %s)" % ("true" if t[1] else "false")
    if k == "i":
        return "(JInt (%d)%%Z)" % t[1]
    if k == "f":
        if t[1] == "nan":
            return "(JFloat FNaN)"
        if t[1] in ("inf", "-inf"):
            return "(JFloat (FInf %s))" % ("true" if t[1] == "-inf" else "false")
        return "(JFloat (FFin [%s]))" % ";".join(_FCH[c] for c in float_token(_float_of(t[1])))
    if k == "s":
        return "(JStr %s)" % _cps(t[1])
    if k in ("a", "S*"):
        return "(JArr [%s])" % ";".join(gallina(x) for x in t[1])
    if k == "o":
        return "(JObj [%s])" % ";".join(
            "(%s,%s)" % ("KStr %s" % _cps(kk[1]) if kk[0] == "s" else "KOther", gallina(v)) for kk, v in t[1])
    raise ValueError("no model counterpart for %r" % (t,))


def _merge(m, g):
    """dict.update on tagged objects (keys compared as Python keys)."""
    if not g:
        return m
    out = [list(p) for p in m[1]]
    for k, v in g[1]:
        for p in out:
            if p[0] == k:
                p[1] = v
                break
        else:
            out.append([k, v])
    return ["o", out]


def _model_msgs(case):
    """The JSON-native messages the model is run on, or None when there is no counterpart."""
    jd = case.get("jd", "default")
    if case["kind"] == "log_message":
        return None
    out = []
    for m in case["msgs"]:
        if case["kind"] == "logger":
            m = _merge(m, case.get("globals"))
        try:
            d = documented(m, jd)
        except KeyError:
            d = None            # documented failure: a message the model cannot encode
        if d is not None and _has_big_set(d):
            return None
        out.append(d)
    return out


def _has_big_set(d):
    k = d[0]
    if k == "S*":
        return len(d[1]) > 1 or any(_has_big_set(x) for x in d[1])
    if k == "a":
        return any(_has_big_set(x) for x in d[1])
    if k == "o":
        return any(_has_big_set(v) for _, v in d[1])
    return False


_UNENCODABLE = "(JObj [(KOther, JNull)])"


def model_expr(case):
    ms = _model_msgs(case)
    if ms is None:
        return None
    terms = [gallina(d) if d is not None else _UNENCODABLE for d in ms]
    return ("let ms := [%s] in (run Binary ms (dest_open Binary []), run Text ms (dest_open Text []), "
            "map (fun m => snd (dest_call Binary m [])) ms)" % ";".join(terms))


def _model_events(evs):
    out = []
    for e in evs:
        if e == "Flush":
            out.append(["f"])
        else:
            d = e[1]
            if d[0] == "DBytes":
                out.append(["w", "b", bytes(d[1]).hex()])
            else:
                out.append(["w", "t", "".join(map(chr, d[1]))])
    return out


def model_obs(case, v):
    (b, t), raised = v
    return {"bin": _model_events(b), "txt": _model_events(t), "raised": raised}


def project(case, obs):
    out = {}
    for key in ("bin", "txt"):
        run = obs[key]
        evs = list(run["probe"])
        for g in run["groups"]:
            if case["kind"] == "logger" and _is_failure_msg(g["offered"]):
                continue
            evs.extend(g["events"])
        out[key] = evs
    if case["kind"] == "direct":
        out["raised"] = [g["raised"] is not None for g in obs["bin"]["groups"]]
    else:
        # through Logger the exception is absorbed by Destinations.send: raised <-> nothing written
        out["raised"] = [not g["events"] for g in obs["bin"]["groups"] if not _is_failure_msg(g["offered"])]
    return out


# ============================================================ generators
C0 = list(range(32))
CORNER_CPS = [0x22, 0x5C, 0x2F, 0x7F, 0x80, 0xFF, 0x7FF, 0x800, 0xD7FF, 0xE000, 0xFEFF, 0xFFFD, 0xFFFE, 0xFFFF,
              0x2028, 0x2029, 0x10000, 0x1F600, 0x10FFFF, 0x20, 0x27, 0x3C, 0x26, 0x75, 0x6E]
SURROGATES = [0xD800, 0xDBFF, 0xDC00, 0xDFFF, 0xD83D, 0xDE00]
INT_CORNERS = [0, -1, 1, 2 ** 31, 2 ** 53 + 1, 10 ** 18, 2 ** 63 - 1, 2 ** 63, -2 ** 63, -2 ** 63 + 1, 2 ** 64 - 1]
INT_BAD = [2 ** 64, 2 ** 64 + 1, -2 ** 63 - 1, 10 ** 30, -10 ** 30]
FLOAT_CORNERS = [0.0, -0.0, 1.0, -1.5, 0.1, 1 / 3.0, 1e308, 1.7976931348623157e308, 5e-324, 2.2250738585072014e-308,
                 1e-5, 1e-6, 1e-7, 9.999999999999999e-6, 1e15, 1e16, 9999999999999998.0, 1e21, 1e22, 123456789.125,
                 float("nan"), float("inf"), float("-inf")]


def g_cp(rng, bad=0.0):
    r = rng.random()
    if r < bad:
        return rng.choice(SURROGATES)
    if r < 0.25:
        return rng.choice(C0)
    if r < 0.5:
        return rng.choice(CORNER_CPS)
    if r < 0.8:
        return rng.randrange(0x20, 0x7F)
    if r < 0.9:
        c = rng.randrange(0x80, 0x10000)
        return c if not 0xD800 <= c < 0xE000 else 0xE9
    return rng.randrange(0x10000, 0x110000)


def g_str(rng, bad=0.0):
    n = rng.choice([0, 1, 1, 2, 3, 5, 8, 20])
    return ["s", [g_cp(rng, bad) for _ in range(n)]]


def g_float(rng):
    import struct
    r = rng.random()
    if r < 0.6:
        return _float_tag(rng.choice(FLOAT_CORNERS))
    if r < 0.8:
        f = struct.unpack("<d", struct.pack("<Q", rng.getrandbits(64)))[0]
        return _float_tag(f)
    return _float_tag(rng.choice([1, -1]) * rng.random() * 10.0 ** rng.randrange(-20, 20))


def g_int(rng, bad=0.0):
    r = rng.random()
    if r < bad:
        return ["i", rng.choice(INT_BAD)]
    if r < 0.6:
        return ["i", rng.choice(INT_CORNERS)]
    return ["i", rng.randrange(-2 ** 63, 2 ** 64) if r < 0.8 else rng.randrange(-1000, 1000)]


def g_key(rng, bad=0.0):
    if rng.random() < bad:
        return rng.choice([["i", 1], ["n"], ["b", 1], ["f", (1.5).hex()], ["y", "6b"]])
    if rng.random() < 0.5:
        return _str_tag(rng.choice(["a", "b", "key", "message_type", "task_uuid", "x y", ""]))
    return g_str(rng, 0.0)


def g_value(rng, depth, bad):
    """bad: dict of probabilities for out-of-domain ingredients."""
    r = rng.random()
    if depth <= 0 or r < 0.55:
        k = rng.random()
        if k < 0.08:
            return ["n"]
        if k < 0.18:
            return ["b", rng.randrange(2)]
        if k < 0.42:
            return g_int(rng, bad.get("int", 0))
        if k < 0.62:
            return g_float(rng)
        return g_str(rng, bad.get("sur", 0))
    if r < 0.78:
        return ["a", [g_value(rng, depth - 1, bad) for _ in range(rng.choice([0, 1, 2, 3]))]]
    return g_obj(rng, depth - 1, bad, rng.choice([0, 1, 2, 3]))


def g_obj(rng, depth, bad, n):
    seen, out = set(), []
    for _ in range(n):
        k = g_key(rng, bad.get("key", 0))
        ck = json.dumps(k)
        if ck in seen:
            continue
        seen.add(ck)
        out.append([k, g_value(rng, depth, bad)])
    return ["o", out]


def g_chain(rng, n, leaf):
    """n nested containers around leaf."""
    v = leaf
    for _ in range(n):
        if rng.random() < 0.5:
            v = ["a", [v]]
        else:
            v = ["o", [[_str_tag(rng.choice(["k", "", "n"])), v]]]
    return v


def _bad_profile(rng):
    r = rng.random()
    if r < 0.7:
        return {}
    return {rng.choice(["int", "sur", "key"]): rng.choice([0.05, 0.3])}


def g_message(rng):
    return g_obj(rng, rng.choice([1, 2, 3, 4]), _bad_profile(rng), rng.choice([1, 2, 3, 5]))


def _corpus_encode():
    cases = []
    s = _str_tag
    # every C0 code, alone and together, as value and as key
    cases.append({"kind": "direct", "msgs": [["o", [[s("c%d" % c), ["s", [c]]] for c in C0]],
                                              ["o", [[s("all"), ["s", C0 + [0x22, 0x5C, 0x7F, 0x2028, 0x2029, 0x1F600]]]]],
                                              ["o", [[["s", [c, 0x41]], ["n"]] for c in C0]]]})
    cases.append({"kind": "direct", "msgs": [["o", [[s("k%x" % c), ["s", [0x61, c, 0x62]]] for c in CORNER_CPS]]]})
    for c in SURROGATES:
        cases.append({"kind": "direct", "msgs": [["o", [[s("ok"), ["i", 1]]]], ["o", [[s("v"), ["s", [0x61, c]]]]],
                                                  ["o", [[["s", [c]], ["i", 1]]]], ["o", [[s("after"), ["i", 2]]]]]})
    cases.append({"kind": "direct", "msgs": [["o", [[s("pair"), ["s", [0xD83D, 0xDE00]]]]]]})
    cases.append({"kind": "direct", "msgs": [["o", [[s("i%d" % i), ["i", v]] for i, v in enumerate(INT_CORNERS)]]]})
    for v in INT_BAD:
        cases.append({"kind": "direct", "msgs": [["o", [[s("a"), ["i", 1]], [s("big"), ["i", v]]]], ["o", [[s("next"), ["i", 0]]]]]})
        cases.append({"kind": "logger", "msgs": [["o", [[s("a"), ["a", [["i", v]]]]]], ["o", [[s("next"), ["i", 0]]]]]})
    cases.append({"kind": "direct", "msgs": [["o", [[s("f%d" % i), _float_tag(v)] for i, v in enumerate(FLOAT_CORNERS)]]]})
    cases.append({"kind": "logger", "msgs": [["o", [[s("f"), ["a", [_float_tag(v) for v in FLOAT_CORNERS]]]]]]})
    for k in [["i", 1], ["n"], ["b", 1], ["f", (1.5).hex()], ["y", "6b"]]:
        cases.append({"kind": "direct", "msgs": [["o", [[s("a"), ["i", 1]], [k, ["i", 2]]]], ["o", [[s("v"), ["o", [[k, ["n"]]]]]]],
                                                  ["o", [[s("z"), ["n"]]]]]})
    import random
    rng = random.Random(10)
    for n in (1, 2, 100, 252, 253, 254, 255, 256, 300):
        for leaf in (["i", 7], ["a", []], ["o", []], _str_tag("x")):
            for kind in ("direct", "logger"):
                cases.append({"kind": kind, "msgs": [["o", [[s("d"), g_chain(rng, n, leaf)]]], ["o", [[s("after"), ["b", 1]]]]]})
    cases.append({"kind": "direct", "msgs": [["o", []], ["o", [[s(""), _str_tag("")]]], ["o", [[s("e"), ["a", [["a", []], ["o", []]]]]]]]})
    cases.append({"kind": "logger", "globals": ["o", [[s("host"), _str_tag("h\n1")], [s("a"), ["i", 9]]]],
                  "msgs": [["o", [[s("a"), ["i", 1]], [s("b"), ["i", 2]]]], ["o", []]]})
    cases.append({"kind": "log_message", "msgs": [["o", [[s("message_type"), s("t:x")], [s("a"), ["s", [10, 0x1F600]]]]],
                                                   ["o", [[s("big"), ["i", 2 ** 64]]]], ["o", [[s("f"), _float_tag(-0.0)]]]]})
    return cases


def gen_encode(rng, tier):
    n = 400 if tier == "quick" else 6000
    cases = []
    for i in range(n):
        r = rng.random()
        kind = "direct" if r < 0.55 else ("logger" if r < 0.85 else "log_message")
        msgs = [g_message(rng) for _ in range(rng.choice([1, 1, 2, 3, 4]))]
        if rng.random() < 0.06:
            d = rng.choice([10, 100, 250, 252, 253, 254, 255, 300])
            msgs.insert(rng.randrange(len(msgs) + 1),
                        ["o", [[_str_tag("deep"), g_chain(rng, d, rng.choice([["i", 1], ["a", []], g_str(rng)]))]]])
        case = {"kind": kind, "msgs": msgs}
        if kind == "log_message":
            # keyword arguments: string keys that are valid Python str (no lone surrogates needed) only
            for m in msgs:
                m[1][:] = [[k, v] for k, v in m[1] if k[0] == "s" and k[1] != [ord(c) for c in "__eliot_logger__"]]
        if kind != "direct" and rng.random() < 0.4:
            case["globals"] = ["o", [[k, v] for k, v in g_obj(rng, 1, {}, rng.choice([1, 2]))[1] if k[0] == "s"]]
        case["filekind"] = rng.choice(["io", "io", "io", "none_write", "mode_lies"])
        cases.append(case)
    return cases


def describe_encode(case):
    tags = set([case["kind"], "file:" + case.get("filekind", "io")])
    if case.get("globals"):
        tags.add("globals")

    def walk(t, depth):
        k = t[0]
        if k == "s":
            for c in t[1]:
                if c < 32:
                    tags.add("str:C0")
                elif c in (0x22, 0x5C):
                    tags.add("str:quote/backslash")
                elif c == 0x7F:
                    tags.add("str:U+007F")
                elif c in (0x2028, 0x2029):
                    tags.add("str:U+2028/9")
                elif 0xD800 <= c < 0xE000:
                    tags.add("str:lone-surrogate")
                elif c >= 0x10000:
                    tags.add("str:astral")
                elif c >= 0x80:
                    tags.add("str:BMP-non-ascii")
        elif k == "i":
            if not INT_MIN <= t[1] < INT_LIM:
                tags.add("int:outside-64-bit")
            elif t[1] in (2 ** 63 - 1, 2 ** 63, -2 ** 63, 2 ** 64 - 1):
                tags.add("int:boundary")
        elif k == "f":
            tags.add("float:nan/inf" if t[1] in ("nan", "inf", "-inf") else
                     ("float:-0.0" if t[1] == (-0.0).hex() else "float:finite"))
        elif k == "a":
            for x in t[1]:
                walk(x, depth + 1)
        elif k == "o":
            for kk, v in t[1]:
                if kk[0] != "s":
                    tags.add("key:non-string")
                else:
                    walk(kk, depth)
                walk(v, depth + 1)
    for m in case["msgs"]:
        walk(m, 0)
        d = _depth(m)
        if d > MAX_DEPTH:
            tags.add("depth>254")
        elif d >= 250:
            tags.add("depth250..254")
        elif d >= 10:
            tags.add("depth10..249")
    return sorted(tags)


def nontrivial(case, obs):
    wrote = any(g["events"] for g in obs["bin"]["groups"])
    return json.dumps(case, sort_keys=True) if wrote else None


def shrink(case):
    msgs = case["msgs"]
    for i in range(len(msgs)):
        if len(msgs) > 1:
            yield dict(case, msgs=msgs[:i] + msgs[i + 1:])
    if case.get("globals"):
        yield {k: v for k, v in case.items() if k != "globals"}
    for i, m in enumerate(msgs):
        if m[0] == "o":
            for j in range(len(m[1])):
                if len(m[1]) > 1:
                    yield dict(case, msgs=msgs[:i] + [["o", m[1][:j] + m[1][j + 1:]]] + msgs[i + 1:])
            for j, (k, v) in enumerate(m[1]):
                if v[0] in ("a", "o") and v[1]:
                    for x in (v[1] if v[0] == "a" else [p[1] for p in v[1]]):
                        yield dict(case, msgs=msgs[:i] + [["o", m[1][:j] + [[k, x]] + m[1][j + 1:]]] + msgs[i + 1:])
                if v[0] == "s" and len(v[1]) > 1:
                    for c in range(len(v[1])):
                        yield dict(case, msgs=msgs[:i] + [["o", m[1][:j] + [[k, ["s", [v[1][c]]]]] + m[1][j + 1:]]] + msgs[i + 1:])


# ---------------------------------------------------------------- rich family
def g_rich(rng, depth):
    r = rng.random()
    if r < 0.15:
        n = rng.choice([1, 1, 2, 4])
        segs = ["".join(chr(g_cp(rng)) for _ in range(rng.choice([1, 2, 4]))).replace("/", "-").replace("\x00", "0") or "p"
                for _ in range(n)]
        segs = [x if x not in (".", "..") else "d" for x in segs]
        from pathlib import Path
        p = str(Path(rng.choice(["", "/"]) + "/".join(segs)))
        return ["P", [ord(c) for c in p]]
    if r < 0.21:
        return ["D", rng.choice([1, 999, 1970, 2024, 9999]), rng.randrange(1, 13), rng.randrange(1, 29)]
    if r < 0.27:
        # datetimes: naive, UTC, and other offsets
        return ["DT", rng.choice([1970, 2024, 2999]), rng.randrange(1, 13), rng.randrange(1, 29), rng.randrange(24), rng.randrange(60),
                rng.randrange(60), rng.choice([0, 0, 1, 999999]), rng.choice([None, 0, 0, 60, -330, 765])]
    if r < 0.39:
        return ["T", rng.randrange(24), rng.randrange(60), rng.randrange(60), rng.choice([0, 0, 1, 500000, 999999])]
    if r < 0.51:
        return ["C", g_float(rng)[1], g_float(rng)[1]]
    if r < 0.66 and depth > 0:
        n = rng.choice([0, 1, 1, 2, 3])
        elems, seen = [], set()
        for _ in range(n):
            k = rng.random()
            if k < 0.3:
                e = ["i", rng.randrange(-5, 5)]
            elif k < 0.55:
                e = g_str(rng)
            elif k < 0.7:
                e = g_rich_hashable(rng)
            elif k < 0.8:
                e = ["n"]
            else:
                e = _float_tag(rng.choice([0.5, 1e308, -2.25]))
            key = json.dumps(e)
            if key not in seen:
                seen.add(key)
                elems.append(e)
        # Python equality merges 1 and True etc.: keep sets free of such collisions
        return ["S", elems]
    if r < 0.8 and depth > 0:
        return ["X", g_rich_value(rng, depth - 1)]
    if r < 0.86:
        return ["U"]
    return g_value(rng, 1, {})


def g_rich_hashable(rng):
    r = rng.random()
    if r < 0.4:
        return ["P", [ord(c) for c in rng.choice(["a", "a/b", "/tmp/x y", "é/中"])]]
    if r < 0.7:
        return ["D", 2020, rng.randrange(1, 13), rng.randrange(1, 29)]
    return ["T", rng.randrange(24), rng.randrange(60), rng.randrange(60), rng.choice([0, 7])]


def g_rich_value(rng, depth):
    r = rng.random()
    if depth > 0 and r < 0.2:
        return ["a", [g_rich_value(rng, depth - 1) for _ in range(rng.choice([1, 2, 3]))]]
    if depth > 0 and r < 0.4:
        return ["o", [[_str_tag("k%d" % i), g_rich_value(rng, depth - 1)] for i in range(rng.choice([1, 2]))]]
    return g_rich(rng, depth)


def _corpus_rich():
    s = _str_tag
    P = lambda x: ["P", [ord(c) for c in x]]
    base = [
        ["o", [[s("p"), P("a/b c")], [s("root"), P("/")], [s("odd"), P("é\n\"\\")], [s("astral"), P("/x/\U0001F600")]]],
        ["o", [[s("d"), ["D", 2020, 1, 2]], [s("d1"), ["D", 1, 1, 1]], [s("d9"), ["D", 9999, 12, 31]]]],
        ["o", [[s("t"), ["T", 1, 2, 3, 0]], [s("tu"), ["T", 1, 2, 3, 4]], [s("t0"), ["T", 0, 0, 0, 0]], [s("tm"), ["T", 23, 59, 59, 999999]]]],
        ["o", [[s("s0"), ["S", []]], [s("s1"), ["S", [["i", 5]]]], [s("s3"), ["S", [["i", 1], s("a"), P("p")]]],
               [s("sd"), ["S", [["D", 2020, 1, 2], ["T", 1, 2, 3, 0]]]]]],
        ["o", [[s("c"), ["C", (1.0).hex(), (2.0).hex()]], [s("cn"), ["C", "nan", "inf"]], [s("cz"), ["C", (-0.0).hex(), (1e308).hex()]]]],
        ["o", [[s("x"), ["X", ["a", [P("p"), ["S", [["i", 1]]], ["X", ["n"]]]]]]]],
        ["o", [[s("ok"), ["i", 1]], [s("u"), ["U"]]]],
        ["o", [[s("nest"), ["a", [["o", [[s("in"), ["S", [P("q")]]]]], ["C", (0.5).hex(), (-0.5).hex()]]]]]],
    ]
    cases = []
    for jd in ("default", "ext", "ext_only"):
        for kind in ("direct", "logger"):
            cases.append({"kind": kind, "jd": jd, "msgs": base + [["o", [[s("after"), ["i", 1]]]]]})
    return cases


def gen_rich(rng, tier):
    n = 220 if tier == "quick" else 3000
    cases = []
    for i in range(n):
        jd = rng.choice(["default", "default", "ext", "ext", "ext_only"])
        kind = rng.choice(["direct", "direct", "logger", "log_message"])
        msgs = []
        for _ in range(rng.choice([1, 2, 3])):
            fields = [[_str_tag("f%d" % j), g_rich_value(rng, 2)] for j in range(rng.choice([1, 2, 3]))]
            msgs.append(["o", fields])
        cases.append({"kind": kind, "jd": jd, "msgs": msgs, "filekind": rng.choice(["io", "io", "io", "none_write", "mode_lies"])})
        if jd != "default" and i % 3 == 0:
            cases[-1]["via_encoder"] = "eliot" if i % 2 else "stdlib"
    return cases


def describe_rich(case):
    tags = set(["jd:" + case["jd"], case["kind"]])

    def walk(t):
        k = t[0]
        names = {"P": "Path", "D": "date", "DT": "datetime", "T": "time", "S": "set", "C": "complex", "X": "extension-object", "U": "unsupported-object"}
        if k in names:
            tags.add(names[k])
        if k in ("a", "S"):
            for x in t[1]:
                walk(x)
        elif k == "o":
            for _, v in t[1]:
                walk(v)
        elif k == "X":
            walk(t[1])
    for m in case["msgs"]:
        walk(m)
    return sorted(tags)


FAMILIES = [
    Family("encode", gen_encode, impl, model_expr, model_obs, oracle, nontrivial,
           imports=["Model.Json"], project=project, corpus=_corpus_encode(), shrink=shrink,
           describe=describe_encode, shard=60, coq_shard=40),
    Family("rich", gen_rich, impl, model_expr, model_obs, oracle, nontrivial,
           imports=["Model.Json"], project=project, corpus=_corpus_rich(), shrink=shrink,
           describe=describe_rich, shard=60, coq_shard=40),
]


# ---- large messages: the one-write discipline must not depend on the size of the line (oracle only:
# evaluating 10^5-character literals inside Coq would dominate the run) ----
def gen_large(rng, tier):
    out = []
    for size in ([70000, 140000, 300000] if tier == "quick" else [1000, 70000, 131071, 131072, 140000, 300000, 1200000]):
        for kind in ("direct", "logger"):
            big = ["s", [rng.choice([0x61, 0x62, 0xe9, 0x20]) for _ in range(8)] * (size // 8)]
            out.append({"kind": kind, "msgs": [["o", [[_str_tag("n"), ["i", 1]], [_str_tag("big"), big]]],
                                              ["o", [[_str_tag("after"), ["i", 2]]]]]})
    return out


FAMILIES.append(Family("large", gen_large, impl, None, None, oracle,
                       lambda case, obs: "size%d" % len(case["msgs"][0][1][1][1][1]),
                       describe=lambda c: ["large:%dk" % (len(c["msgs"][0][1][1][1][1]) // 1000), c["kind"]], shard=2, case_timeout=60))


# ---- the same dictionary object offered again after the caller changed it; two file destinations with
# different json_default registered together (oracle only) ----
def gen_reuse(rng, tier):
    return [{"n": rng.randrange(2, 6), "mode": rng.choice(["binary", "text"]), "two": rng.random() < 0.5}
            for _ in range(12 if tier == "quick" else 120)]


def impl_reuse(case):
    import io, json as _json
    from eliot import FileDestination, log_message, _output
    out = {}
    # (a) one destination, one dict, mutated between offers
    f = io.BytesIO() if case["mode"] == "binary" else io.StringIO()
    fd = FileDestination(file=f)
    d = {"task_uuid": "u", "task_level": [1], "timestamp": 1.0, "message_type": "progress", "n": 0}
    for i in range(case["n"]):
        d["n"] = i * 10
        d["task_level"] = [i + 1]
        fd(d)
    data = f.getvalue()
    text = data.decode("utf-8") if isinstance(data, bytes) else data
    out["reused"] = [_json.loads(ln).get("n") for ln in text.splitlines()]
    # (b) two file destinations with different json_default, fed by the same logging calls
    if case["two"]:
        dests = _output.Destinations()
        _output.Logger._destinations = dests
        fa, fb = io.BytesIO(), io.BytesIO()

        def custom(o):
            if isinstance(o, complex):
                return "complex:%r/%r" % (o.real, o.imag)
            if isinstance(o, set):
                return {"set": sorted(o)}
            raise TypeError("unsupported")
        dests.add(FileDestination(file=fa), FileDestination(file=fb, json_default=custom))
        log_message(message_type="rich", c=complex(1, 2), s={3})
        la = _json.loads(fa.getvalue().decode().splitlines()[0])
        lb = _json.loads(fb.getvalue().decode().splitlines()[0])
        out["default_enc"] = [la.get("c"), la.get("s")]
        out["custom_enc"] = [lb.get("c"), lb.get("s")]
    return out


def oracle_reuse(case, obs):
    want = [i * 10 for i in range(case["n"])]
    if obs["reused"] != want:
        return "a dictionary offered again after the caller changed it was written as %r, expected %r" % (obs["reused"], want)
    if case["two"]:
        if obs["default_enc"] != [{"real": 1.0, "imag": 2.0}, [3]]:
            return "destination with the default json_default wrote %r" % (obs["default_enc"],)
        if obs["custom_enc"] != ["complex:1.0/2.0", {"set": [3]}]:
            return "destination with the caller's json_default wrote %r (the caller's encoding must be used)" % (obs["custom_enc"],)
    return None


FAMILIES.append(Family("reuse", gen_reuse, impl_reuse, None, None, oracle_reuse,
                       lambda case, obs: json.dumps(case), shard=6, case_timeout=30))
