"""C20 — bundled readers render every message completely and survive foreign input.

Three families:
  format  generated Eliot messages through the real pretty_format / compact_format
  cli     eliot-prettyprint's _main in-process on byte streams mixing Eliot lines with foreign input
  filter  eliot.filter.EliotFilter.run / main with identity, selecting (SKIP) and datetime expressions

The Coq model (Model/Pretty.v) is fed the real outputs of the *external* functions
(pprint.pformat, json.dumps, str, datetime.isoformat, json.loads as line classifier, eval of the
expression) as data, so what is compared is the structure the eliot code is responsible for.
The oracles are written from the property text.
"""
import io
import json
import pprint
import warnings
from datetime import datetime, timedelta, timezone

from lib.framework import Family
from lib.coqbridge import flat

ID = "C20"
PROPS_FILE = "Props/C20.v"
TRUSTED = [
    "pprint.pformat, json.dumps/json.loads, str(), datetime.utcfromtimestamp/isoformat and eval() of the filter "
    "expression are arguments of the model (their real outputs are fed to it as data)",
    "iteration over a binary stream splits it at b'\\n' (io.BytesIO is used both as the fake stdin and to split lines for the model)",
    "_main is run in-process with patched prettyprint.stdin/stdout and sys.argv (the console script is not on PATH); "
    "stdout is an io.StringIO, so encoding errors of a real terminal (lone surrogates) are outside the check",
]
ASSUMPTIONS = [
    "messages are dicts with string keys (pairwise distinct field names)",
    "required fields of lines accepted by eliot-prettyprint are well-typed: task_level iterable, timestamp a number datetime accepts",
    "compact single-line claim: task_uuid, level components and field names contain no newline",
    "eliot.filter input lines are JSON and the expression evaluates without raising",
    "field values of accepted lines nest less deep than pprint can render (about 330 levels; deeper: known finding C20-deep-value-pformat-recursion)",
    "the output stream can encode what is written: a lone surrogate in task_uuid or in a field name (written raw) makes a strict UTF-8 stdout raise UnicodeEncodeError; environment-dependent, outside the model",
]
RULE = ("format: messages drawn from the seed (field names before/between/after the special ones, unicode, "
        "multi-line/tab/long strings, nested values, every subset of action_type/message_type/action_status); "
        "cli: byte streams of 1-10 lines of 9 kinds, default and -c; filter: 8 expressions x generated logs; "
        "non-trivial = distinct canonical case that exercises ordering / foreign input / SKIP")

NL = "\n"
REQUIRED = ("task_uuid", "task_level", "timestamp")
FIRST = ("action_type", "message_type", "action_status")
SPECIAL = REQUIRED + FIRST


# ---------------------------------------------------------------------------
# Python <-> Gallina text

def _armour(s):
    out = []
    for c in s:
        o = ord(c)
        if 32 <= o < 127 and c not in '"~':
            out.append(c)
        else:
            out.append("~%06x" % o)
    return "".join(out)


def US(s):
    """a Python str as Model.Pretty.ustr (list of code points), written as an ASCII-armoured Coq string"""
    if not s:
        return "[]"
    return '(D "%s")' % _armour(s)


def from_coq_text(v):
    """inverse of Model.Pretty.E on a parsed Coq string"""
    s = v[1] if isinstance(v, tuple) and v and v[0] == "#str" else v
    if s == "EmptyString":
        return ""
    out = []
    i = 0
    n = len(s)
    while i < n:
        if s[i] == "~":
            out.append(chr(int(s[i + 1:i + 7], 16)))
            i += 7
        else:
            out.append(s[i])
            i += 1
    return "".join(out)


def opt(x, f):
    return "None" if x is None else "(Some %s)" % f(x)


def ts_text(v):
    """_render_timestamp(message, False) with datetime as the external function; None if datetime refuses"""
    if isinstance(v, str) or v is None or isinstance(v, (list, dict)):
        return None
    try:
        with warnings.catch_warnings():
            warnings.simplefilter("ignore")
            return datetime.utcfromtimestamp(v).isoformat(sep="T") + "Z"
    except Exception:
        return None


def level_strs(v):
    try:
        return [str(x) for x in v]
    except TypeError:
        return None


def dval(key, v):
    """mkD with the external functions' outputs this field can be asked for"""
    if key in REQUIRED:
        st = US(str(v)) if key == "task_uuid" else "[]"
        lv = opt(level_strs(v), lambda l: "[" + ";".join(US(x) for x in l) + "]") if key == "task_level" else "None"
        ts = opt(ts_text(v), US) if key == "timestamp" else "None"
        return "(mkD [] [] %s %s %s)" % (st, lv, ts)
    return "(mkD %s %s [] None None)" % (US(pprint.pformat(v, width=40)), US(json.dumps(v, separators=(",", ":"))))


def coq_msg(pairs):
    return "[" + ";".join("(%s,%s)" % (US(k), dval(k, v)) for k, v in pairs) + "]"


def opt_text(v):
    if v is None:
        return None
    return from_coq_text(v[1])


# ---------------------------------------------------------------------------
# reference rendering used by the oracles (from the property text / documentation)

def ref_block(key, v):
    text = pprint.pformat(v, width=40).replace("\\n", "\n ").replace("\\t", "\t")
    lines = text.split("\n")
    indent = " " * (2 + len(key)) + "| "
    return "  %s: %s\n" % (key, "\n".join([lines[0]] + [indent + l for l in lines[1:]]))


def shown_order(m):
    return [k for k in FIRST if k in m] + sorted(k for k in m if k not in SPECIAL)


def level_of(m):
    return "/" + "/".join(str(x) for x in m["task_level"])


def ref_pretty(m):
    return "%s -> %s\n%s\n%s" % (m["task_uuid"], level_of(m), ts_text(m["timestamp"]),
                                 "".join(ref_block(k, m[k]) for k in shown_order(m)))


def ref_compact(m):
    return "%s%s %s %s" % (m["task_uuid"], level_of(m), ts_text(m["timestamp"]),
                           " ".join("%s=%s" % (k, json.dumps(m[k], separators=(",", ":"))) for k in shown_order(m)))


def json_eq(a, b):
    return json.dumps(a, sort_keys=True) == json.dumps(b, sort_keys=True)


def utc_expected(ts):
    return datetime.fromtimestamp(ts, timezone.utc).replace(tzinfo=None)


def check_ts(shown, ts):
    if not shown.endswith("Z"):
        return "timestamp %r does not end in Z" % shown
    try:
        got = datetime.fromisoformat(shown[:-1])
    except ValueError:
        return "timestamp %r is not an ISO time" % shown
    if got.tzinfo is not None or got != utc_expected(ts):
        return "timestamp shown as %r, the message's time is %s UTC" % (shown, utc_expected(ts).isoformat())
    return None


def _segment(text, pos, firsts, others, match):
    """Can text[pos:] be cut into one part per field: `firsts` in that order, then `others` in any order?
    match(key, pos, last) -> end position or None."""
    if not firsts and not others:
        return pos == len(text)
    cands = [firsts[0]] if firsts else list(others)
    for k in cands:
        nf = firsts[1:] if firsts else firsts
        no = others if firsts else [x for x in others if x != k]
        end = match(k, pos, not nf and not no)
        if end is not None and _segment(text, end, nf, no, match):
            return True
    return False


def check_pretty(text, m):
    """property text, pretty form: header = uuid, level, UTC timestamp; then every other field by name exactly once with
    its value, type and status first"""
    head = "%s -> %s\n" % (m["task_uuid"], level_of(m))
    if not text.startswith(head):
        return "output does not start with task_uuid and task_level (%r...)" % text[:60]
    rest = text[len(head):]
    eol = rest.find("\n")
    if eol < 0:
        return "no timestamp line"
    err = check_ts(rest[:eol], m["timestamp"])
    if err:
        return err
    body = rest[eol + 1:]
    blocks = {k: ref_block(k, m[k]) for k in m if k not in REQUIRED}

    def match(k, pos, last):
        return pos + len(blocks[k]) if body.startswith(blocks[k], pos) else None
    firsts = [k for k in FIRST if k in m]
    others = [k for k in m if k not in SPECIAL]
    if not _segment(body, 0, firsts, others, match):
        missing = [k for k in blocks if blocks[k] not in body]
        if missing:
            return "field(s) %r not shown with their value" % missing
        return "fields are not shown exactly once each with type and status first: %r" % body[:300]
    return None


def check_compact(text, m):
    """compact form: header, then one line of key=value parts whose values are JSON encodings of the field values"""
    head = "%s%s " % (m["task_uuid"], level_of(m))
    if not text.startswith(head):
        return "compact output does not start with task_uuid and task_level (%r...)" % text[:60]
    rest = text[len(head):]
    sp = rest.find(" ")
    if sp < 0:
        return "no timestamp in compact output"
    err = check_ts(rest[:sp], m["timestamp"])
    if err:
        return err
    body = rest[sp + 1:]
    names_ok = all("\n" not in k for k in m) and "\n" not in str(m["task_uuid"]) and "\n" not in level_of(m)
    if names_ok and "\n" in text:
        return "compact output spans several lines: %r" % text[:300]
    dec = json.JSONDecoder()

    def match(k, pos, last):
        pre = k + "="
        if not body.startswith(pre, pos):
            return None
        try:
            val, end = dec.raw_decode(body, pos + len(pre))
        except (ValueError, RecursionError):
            return None
        if not json_eq(val, m[k]):
            return None
        if last:
            return end if end == len(body) else None
        return end + 1 if body.startswith(" ", end) else None
    firsts = [k for k in FIRST if k in m]
    others = [k for k in m if k not in SPECIAL]
    if not _segment(body, 0, firsts, others, match):
        return "compact fields are not key=<JSON of the value> for every field once, type and status first: %r" % body[:300]
    return None


# ---------------------------------------------------------------------------
# generators of values and messages

NAMES_BEFORE = ["A", "0", "_x", "Zeta", "", " ", "!bang", "action", "action_statur", "action_status0", "Task_uuid",
                "J", "SKIP", "datetime", "timedelta"]
NAMES_BETWEEN = ["action_typf", "b", "message", "message_typ", "message_type2", "n", "task", "task_levek",
                 "task_uuid_", "timestam", "timestamp2", "exception", "reason"]
NAMES_AFTER = ["zz", "~", "x", "\u00e9", "\u043a\u043b\u044e\u0447", "\u540d\u524d", "\U0001F600", "\uffff", "timestamp\u00e9"]
NAMES_WEIRD = ["a b", "k=v", "a: b", "tab\there", "quote'\"", "\\n", "|", "  | ", "a=1 b", "\u2028",
               "cpu%", "%s", "%(name)s", "100%%", "%d done", "{0}", "{}", "{name}"]
NAMES_NL = ["with\nnewline", "\n"]

STRINGS = ["", "x", "hello", "line1\nline2", "a\n\nb\n", "tab\tsep", "\ttabs\t\t", "C:\\new\\table", "back\\slash\\",
           "the quick brown fox jumps over the lazy dog and keeps running", "x" * 95, "it's", 'say "hi"', "'\"",
           "\u00e9t\u00e9", "\u043f\u0440\u0438\u0432\u0435\u0442 \u043c\u0438\u0440", "\U0001F600\U0001F600", "\r\n", "\x00\x1f\x7f",
           "first line is long enough to be wrapped by pprint\nsecond\tline", "\\t\\n", "a=b c=d", "  | fake", "\u2028\u2029",
           "Traceback (most recent call last):\n  File \"x.py\", line 1, in <module>\n    boom()\nZeroDivisionError: division by zero\n"]


def gen_string(rng):
    r = rng.random()
    if r < 0.6:
        return rng.choice(STRINGS)
    n = rng.choice([1, 3, 8, 30, 70])
    alphabet = "abcdefghij \n\t\\'\"nt=:|{}[],\u00e9\u4e2d\U0001F600"
    return "".join(rng.choice(alphabet) for _ in range(n))


def gen_value(rng, depth=0, exotic=True, big=False):
    """big=False keeps the text small (quick tier): the Coq side costs about 50 us per character fed to it"""
    r = rng.random()
    if depth >= (3 if big else 2) or r < (0.55 if big else 0.62):
        k = rng.randrange(9)
        if k <= 2:
            return gen_string(rng)
        if k == 3:
            return rng.choice([0, 1, -1, 42, 2 ** 31, -2 ** 63, 10 ** 30, 123456789012345678901234567890123456789012345])
        if k == 4:
            fl = [0.0, -0.0, 1.5, 1e-7, 1e22, 3.141592653589793, -2.5e-300]
            if exotic:
                fl += [float("inf"), float("nan")]
            return rng.choice(fl)
        if k == 5:
            return rng.choice([True, False])
        if k == 6:
            return None
        return rng.choice([[], {}, [[]], {"": ""}])
    if r < 0.78:
        return [gen_value(rng, depth + 1, exotic, big) for _ in range(rng.choice([1, 2, 3, 8, 15] if big else [1, 2, 3, 7]))]
    out = {}
    for _ in range(rng.choice([1, 2, 3, 6, 12] if big else [1, 2, 3, 5])):
        out[rng.choice(NAMES_BETWEEN + NAMES_AFTER + NAMES_WEIRD + ["k%d" % rng.randrange(30)])] = gen_value(rng, depth + 1, exotic, big)
    return out


def gen_uuid(rng):
    r = rng.random()
    if r < 0.6:
        return "%08x-%04x-%04x-%04x-%012x" % (rng.getrandbits(32), rng.getrandbits(16), rng.getrandbits(16),
                                               rng.getrandbits(16), rng.getrandbits(48))
    return rng.choice(["", "u", "uuid with space", "\u00fc\u00fc", "a/b", "x -> y", "\U0001F600", "1", "%s", "{}"])


def gen_level(rng):
    return [rng.choice([1, 1, 2, 3, 9, 10, 12, 100, 2 ** 40]) for _ in range(rng.choice([1, 1, 2, 2, 3, 5, 9]))]


TIMESTAMPS = [0, 0.0, 1, 1.5, 1425356800.0, 1425356936.278875, 1700000000.000001, 1700000000.999999, 1700000000.9999996,
              0.000001, 0.0000004, 1e9, 2 ** 31, 2 ** 31 + 0.5, 253402300799, 253402300799.5, -1, -1.5, -0.000001, -1e9,
              86399.999999, 951782400.0, 1709164800.123456, 4102444800, 17.25]


def gen_timestamp(rng):
    r = rng.random()
    if r < 0.45:
        return rng.choice(TIMESTAMPS)
    if r < 0.8:
        return round(rng.uniform(0, 2e9), rng.choice([0, 1, 3, 6, 6, 7]))
    if r < 0.9:
        return rng.randrange(0, 2 * 10 ** 9)
    return rng.uniform(-2e9, 4e9)


def gen_message(rng, exotic=True, allow_nl_names=True, big=False, nfields=(0, 1, 2, 3, 4, 6, 9)):
    """-> list of [key, value] in dict order"""
    pairs = [["task_uuid", gen_uuid(rng)], ["task_level", gen_level(rng)], ["timestamp", gen_timestamp(rng)]]
    sub = rng.randrange(8) if rng.random() < 0.8 else 7
    if sub & 1:
        pairs.append(["action_type", rng.choice(["app:act", "yourapp:subsystem:frob", "", "multi\nline type", 7])])
    if sub & 2:
        pairs.append(["message_type", rng.choice(["app:msg", "eliot:traceback", "\u00e9", ["not", "a", "string"]])])
    if sub & 4:
        pairs.append(["action_status", rng.choice(["started", "succeeded", "failed", "weird status"])])
    pools = [NAMES_BEFORE, NAMES_BETWEEN, NAMES_AFTER, NAMES_WEIRD] + ([NAMES_NL] if allow_nl_names else [])
    seen = set(k for k, _ in pairs)
    for _ in range(rng.choice(nfields)):
        r = rng.random()
        if r < 0.15:
            k = "f%d" % rng.randrange(100)
        else:
            k = rng.choice(rng.choice(pools))
        if k in seen:
            continue
        seen.add(k)
        pairs.append([k, gen_value(rng, 0, exotic, big)])
    rng.shuffle(pairs)
    return pairs


# ---------------------------------------------------------------------------
# family: format

FORMAT_CORPUS = [
    {"msg": [["task_uuid", "8c668cde-235b-4872-af4e-caea524bd1c0"], ["task_level", [1, 2]], ["timestamp", 1425356936.278875],
             ["message_type", "some:message"], ["x", "y\nz"], ["sys", [1, {"a": "b\tc"}]], ["action_type", "t"],
             ["action_status", "started"], ["A", 1]]},
    {"msg": [["timestamp", 0], ["task_level", [1]], ["task_uuid", ""]]},
    {"msg": [["task_uuid", "u"], ["task_level", [3, 1]], ["timestamp", 1.5], ["action_status", "failed"],
             ["reason", "x" * 100], ["exception", "builtins.ValueError"], ["action_type", "a"]]},
]


def gen_format(rng, tier):
    if tier == "quick":
        return [{"msg": gen_message(rng, nfields=(0, 1, 2, 3, 4, 6))} for _ in range(110)]
    return [{"msg": gen_message(rng, big=True)} for _ in range(2500)]


def impl_format(case):
    from eliot.prettyprint import pretty_format, compact_format
    m = dict((k, v) for k, v in case["msg"])
    out = {"pretty": pretty_format(dict(m)), "compact": compact_format(dict(m))}
    # local time zone: smoke only (depends on TZ)
    try:
        out["local"] = [pretty_format(dict(m), True), compact_format(dict(m), True)]
    except (ValueError, OverflowError, OSError):      # local wall-clock time outside datetime's range
        out["local"] = None
    # the formatters must not change the message they are given
    probe = dict(m)
    pretty_format(probe)
    compact_format(probe)
    out["unchanged"] = json.dumps(probe, sort_keys=True) == json.dumps(m, sort_keys=True) and list(probe) == list(m)
    return out


def model_format(case):
    return "d_format %s" % coq_msg(case["msg"])


def model_obs_format(case, v):
    p, c = flat(v, 2)
    return {"pretty": opt_text(p), "compact": opt_text(c)}


def project_format(case, obs):
    return {"pretty": obs.get("pretty"), "compact": obs.get("compact")}


def oracle_format(case, obs):
    m = dict((k, v) for k, v in case["msg"])
    for key, chk in (("pretty", check_pretty), ("compact", check_compact)):
        if not isinstance(obs.get(key), str):
            return "%s_format did not return a string: %r" % (key, obs.get(key))
        err = chk(obs[key], m)
        if err:
            return "%s_format: %s" % (key, err)
    if not obs.get("unchanged"):
        return "formatting changed the message dictionary"
    # local time: header carries the local wall-clock time without Z, same fields after it
    if obs["local"] is None:
        return None
    lp, lc = obs["local"]
    try:
        local = datetime.fromtimestamp(m["timestamp"]).isoformat(sep="T")
    except Exception:
        return None
    head = "%s -> %s\n%s\n" % (m["task_uuid"], level_of(m), local)
    if not lp.startswith(head):
        return "pretty_format(local_timezone=True) header %r, expected %r" % (lp[:len(head) + 5], head)
    if not lc.startswith("%s%s %s " % (m["task_uuid"], level_of(m), local)):
        return "compact_format(local_timezone=True) header %r" % lc[:80]
    if lp[len(head):] != obs["pretty"].split("\n", 2)[2]:
        return "local-time pretty output shows different fields"
    return None


def nontrivial_format(case, obs):
    keys = [k for k, _ in case["msg"]]
    return json.dumps(case, sort_keys=True) if len(keys) > 3 else None


def describe_format(case):
    keys = [k for k, _ in case["msg"]]
    others = [k for k in keys if k not in SPECIAL]
    tags = ["first:%d" % sum(1 for k in FIRST if k in keys), "others:%d" % min(len(others), 6)]
    if any(k < "action_status" for k in others):
        tags.append("name<special")
    if any("action_type" < k < "timestamp" for k in others):
        tags.append("name-between")
    if any(k > "timestamp" for k in others):
        tags.append("name>special")
    if any(ord(c) > 127 for k in others for c in k):
        tags.append("unicode-name")
    vals = [v for k, v in case["msg"] if k not in REQUIRED]
    if any(isinstance(v, str) and "\n" in v for v in vals):
        tags.append("multiline-str")
    if any(isinstance(v, str) and "\t" in v for v in vals):
        tags.append("tab-str")
    if any(isinstance(v, (list, dict)) and v for v in vals):
        tags.append("nested")
    if any("\n" in pprint.pformat(v, width=40) for v in vals):
        tags.append("pformat-multiline")
    return tags


def shrink_format(case):
    pairs = case["msg"]
    for i, (k, v) in enumerate(pairs):
        if k not in REQUIRED:
            yield {"msg": pairs[:i] + pairs[i + 1:]}
    for i, (k, v) in enumerate(pairs):
        if k not in REQUIRED and not (isinstance(v, int) and v == 1):
            yield {"msg": pairs[:i] + [[k, 1]] + pairs[i + 1:]}


# ---------------------------------------------------------------------------
# family: cli

def split_lines(data):
    return list(io.BytesIO(data))


def classify(raw):
    """('notjson',) | ('other',) | ('obj', dict)  -- json.loads is the external classifier"""
    try:
        v = json.loads(raw)
    except (ValueError, RecursionError):      # ValueError includes UnicodeDecodeError; RecursionError: nested too deeply
        return ("notjson",)
    if isinstance(v, dict):
        return ("obj", v)
    return ("other",)


def well_typed(m):
    return level_strs(m["task_level"]) is not None and ts_text(m["timestamp"]) is not None


def depth_of(v):
    """nesting depth of a decoded JSON value, without recursion"""
    best, stack = 0, [(v, 1)]
    while stack:
        x, d = stack.pop()
        if isinstance(x, dict):
            best = max(best, d)
            stack.extend((y, d + 1) for y in x.values())
        elif isinstance(x, list):
            best = max(best, d)
            stack.extend((y, d + 1) for y in x)
    return best


def cli_deep(lines):
    """an accepted object carries a value nested deeper than pprint can render (known finding; no reference rendering)"""
    return any(c[0] == "obj" and all(k in c[1] for k in REQUIRED) and depth_of(c[1]) > 200 for raw, c in lines)


def line_repr(raw):
    return str(raw.rstrip(b"\n"))


FOREIGN_TEXT = [b"hello world", b"{'a': 1}", b"{", b"[1,", b"tru", b"-", b"}{", b"Traceback (most recent call last):",
                b"2015-03-03 04:28:56 INFO starting", b'{"task_uuid": "x", "task_level": [1], "timestamp": 1', b"\"unterminated",
                b"{\"a\": 1} trailing", b"nul", b"0x10", b"1 2", b"\xef\xbb\xbf", b"'s'", b"{\"a\":1,}", b"[1 2]"]
INVALID_UTF8 = [b"\xff\xfe", b"\xc3(", b'{"a": "\xe2\x82"}', b"\x80abc", b'{"task_uuid": "\xff", "task_level": [1], "timestamp": 0}',
                b"\xed\xa0\x80", b"\xf8\x88\x80\x80\x80", b"a\x00b\x00", b"\x00\x00\x00", b'"\xc0\xaf"', b"\xfe\xff\x00{\x00}",
                b"\xff\xfe{\x00}\x00"]
JSON_OTHER = [b"5", b"-1.5e3", b'"s"', b"true", b"false", b"null", b"[1,2]", b"[]", b"[{}]", b"0", b"1e400", b"NaN", b"Infinity",
              b"-Infinity", b"100000000000000000000000000000", b'""', b'"task_uuid"', b'["task_uuid","task_level","timestamp"]',
              b" 7 ", b"\xef\xbb\xbf5", b'[{"task_uuid":"u","task_level":[1],"timestamp":0}]']
BLANK = [b"", b"  ", b"\r", b"\t", b" \r"]
PARTIAL = [{}, {"task_uuid": "x"}, {"task_uuid": "x", "task_level": [1]}, {"task_level": [1], "timestamp": 0},
           {"task_uuid": "x", "timestamp": 0}, {"a": 1}, {"task_uuid ": "x", "task_level": [1], "timestamp": 0},
           {"TASK_UUID": "x", "task_level": [1], "timestamp": 0}, {"message_type": "m", "action_type": "a", "action_status": "started"},
           {"task_uuid": "x", "task_level": [1], "timestam": 0, "timestamp2": 1}]
ODD_TYPED = [  # accepted and well-typed in the sense of the guard, but not what eliot writes
    {"task_uuid": 5, "task_level": [1], "timestamp": 0}, {"task_uuid": None, "task_level": [], "timestamp": 1},
    {"task_uuid": "u", "task_level": "ab", "timestamp": True}, {"task_uuid": ["l"], "task_level": {"x": 1}, "timestamp": -1.5},
    {"task_uuid": "u", "task_level": [[1], "a\nb", None], "timestamp": 12, "z": 1},
    {"task_uuid": {"a": 1}, "task_level": [1.5, True], "timestamp": 1e9, "action_type": None},
]
ILL_TYPED = [  # outside the stated guard: no claim is checked on streams containing these
    {"task_uuid": "u", "task_level": 5, "timestamp": 0}, {"task_uuid": "u", "task_level": [1], "timestamp": "x"},
    {"task_uuid": "u", "task_level": [1], "timestamp": 1e20}, {"task_uuid": "u", "task_level": [1], "timestamp": None},
    {"task_uuid": "u", "task_level": None, "timestamp": 0},
]

LINE_KINDS = ["eliot", "eliot", "eliot", "bytes", "badutf8", "text", "scalar", "partial", "blank", "oddtyped", "eliot-variant"]
DEEP = 3000          # far above the decoder's nesting limit (about 1500) in any frame depth
DEEP_VALUE = 450     # a value json.loads accepts but pprint cannot render (limit about 330)
KNOWN_DEEP_VALUE = "C20-deep-value-pformat-recursion"


def enc_message(rng, m):
    style = rng.randrange(4)
    if style == 0:
        return json.dumps(m).encode("ascii")
    if style == 1:
        return json.dumps(m, ensure_ascii=False).encode("utf-8", "replace")
    if style == 2:
        return json.dumps(m, separators=(",", ":")).encode("ascii")
    return b" " + json.dumps(m, sort_keys=True).encode("ascii") + b" "


def gen_line(rng, kind, big=False):
    """-> bytes without the terminating newline"""
    nf = (0, 1, 2, 3, 4, 6, 9) if big else (0, 1, 2, 3)
    if kind == "eliot":
        return enc_message(rng, dict(gen_message(rng, exotic=False, big=big, nfields=nf)))
    if kind == "deep":
        return rng.choice([b"[" * DEEP, b'{"a":' * DEEP, b"[" * DEEP + b"1" + b"]" * DEEP,
                           b'{"task_uuid":"u","task_level":[1],"timestamp":0,"x":' + b"[" * DEEP + b"]" * DEEP + b"}"])
    if kind == "eliot-variant":
        raw = json.dumps(dict(gen_message(rng, exotic=False, allow_nl_names=False, big=big, nfields=nf))).encode("ascii")
        r = rng.randrange(4)
        if r == 0:
            return raw + b"\r"                      # CRLF log
        if r == 1:
            return b"\xef\xbb\xbf" + raw            # UTF-8 BOM
        if r == 2:                                  # duplicate keys: the last one counts
            return b'{"task_uuid": "first", "a": 1, ' + raw[1:-1] + b', "a": 2}'
        return raw[:-1] + b', "x": NaN, "y": -Infinity}'
    if kind == "bytes":
        n = rng.choice([1, 2, 5, 20, 60])
        return bytes(rng.choice([rng.randrange(256), rng.randrange(256), 0x22, 0x7b, 0x5c, 0xff, 0x00]) for _ in range(n)).replace(b"\n", b"?")
    if kind == "badutf8":
        return rng.choice(INVALID_UTF8)
    if kind == "text":
        return rng.choice(FOREIGN_TEXT)
    if kind == "scalar":
        return rng.choice(JSON_OTHER)
    if kind == "partial":
        m = dict(rng.choice(PARTIAL))
        if rng.random() < 0.5:
            m["extra"] = gen_value(rng, 1, exotic=False, big=big)
        return json.dumps(m).encode("ascii")
    if kind == "blank":
        return rng.choice(BLANK)
    if kind == "oddtyped":
        return json.dumps(rng.choice(ODD_TYPED)).encode("ascii")
    if kind == "illtyped":
        return json.dumps(rng.choice(ILL_TYPED)).encode("ascii")
    raise ValueError(kind)


_E = b'{"task_uuid": "u", "task_level": [1], "timestamp": 0, "k": "v"}'
_DEEPV = b'{"task_uuid": "u", "task_level": [1], "timestamp": 0, "x": ' + b"[" * DEEP_VALUE + b"]" * DEEP_VALUE + b"}"
CLI_CORPUS = [
    # lines nested too deeply to decode (fixed eebc9b0: reported as Not JSON, the stream goes on)
    {"data": (b"[" * DEEP + b"\n" + _E + b"\n").hex(), "opts": []},
    {"data": (_E + b"\n" + b'{"a":' * DEEP + b"\n" + b"[" * DEEP + b"1" + b"]" * DEEP + b"\n" + _E + b"\n").hex(), "opts": ["-c"]},
    # known finding: a value pprint cannot render (default mode only)
    {"data": (_E + b"\n" + _DEEPV + b"\n" + _E + b"\n").hex(), "opts": []},
    {"data": (_E + b"\n" + _DEEPV + b"\n" + _E + b"\n").hex(), "opts": ["-c"]},
    {"data": (b"5\n" + _E + b"\n").hex(), "opts": []},                      # F4: scalar line, then a message
    {"data": (b"null\n[1,2]\n\"s\"\n" + _E + b"\n").hex(), "opts": ["-c"]},
    {"data": (b"\xff\xfe\n" + _E + b"\nnot json\n{}\n\n" + _E).hex(), "opts": []},
    {"data": b"".hex(), "opts": []},
    {"data": (_E + b"\n").hex(), "opts": ["--compact", "-l"]},
]


def gen_cli(rng, tier):
    big = tier != "quick"
    n = 2000 if big else 90
    cases = []
    for i in range(n):
        kinds = [rng.choice(LINE_KINDS) for _ in range(rng.choice([1, 2, 3, 4, 6, 10] if big else [1, 2, 3, 4, 6]))]
        if rng.random() < 0.04:
            kinds[rng.randrange(len(kinds))] = "illtyped"
        if rng.random() < (0.01 if big else 0.03):
            kinds[rng.randrange(len(kinds))] = "deep"
        data = b"".join(gen_line(rng, k, big) + b"\n" for k in kinds)
        if rng.random() < 0.2 and data:
            data = data[:-1]                         # last line without a newline
        opts = rng.choice([[], [], ["-c"], ["-c"], ["--compact"]])
        cases.append({"data": data.hex(), "opts": opts})
    # lines longer than any plausible read buffer (64 KiB, 128 KiB): one valid Eliot message each, between ordinary lines
    for size, opts in ((66000, []), (140000, ["-c"])) if not big else ((66000, []), (66000, ["-c"]), (140000, []), (140000, ["-c"]), (300000, [])):
        m = {"task_uuid": "long-line", "task_level": [1], "timestamp": 1.5, "message_type": "big", "blob": "x" * size}
        data = gen_line(rng, "eliot", False) + b"\n" + json.dumps(m).encode("ascii") + b"\n" + gen_line(rng, "text", False) + b"\n"
        cases.append({"data": data.hex(), "opts": opts, "long": True})
    return cases


def impl_cli(case):
    import sys
    from eliot import prettyprint
    data = bytes.fromhex(case["data"])
    old = (prettyprint.stdin, prettyprint.stdout, sys.argv)
    out = io.StringIO()
    prettyprint.stdin, prettyprint.stdout = io.BytesIO(data), out
    sys.argv = ["eliot-prettyprint"] + list(case["opts"])
    raised = None
    try:
        try:
            prettyprint._main()
        except BaseException as e:      # SystemExit included: the command must process the whole stream
            raised = "%s: %s" % (type(e).__name__, str(e)[:300])
    finally:
        prettyprint.stdin, prettyprint.stdout, sys.argv = old
    return {"out": out.getvalue(), "raised": raised}


def cli_lines(case):
    return [(raw, classify(raw)) for raw in split_lines(bytes.fromhex(case["data"]))]


def cli_guarded(lines):
    """True iff every accepted object has well-typed required fields (the stated guard)"""
    for raw, c in lines:
        if c[0] == "obj" and all(k in c[1] for k in REQUIRED) and not well_typed(c[1]):
            return False
    return True


def cli_compact(case):
    return any(o in ("-c", "--compact") for o in case["opts"])


def cli_local(case):
    return any(o in ("-l", "--local-timezone") for o in case["opts"])


def model_cli(case):
    if case.get("long") or len(case["data"]) > 40000:
        return None          # a 100 KiB string as a Coq list of characters is too slow to evaluate: statement only
    lines = cli_lines(case)
    if not cli_guarded(lines) or cli_local(case) or cli_deep(lines):
        return None
    parts = []
    for raw, c in lines:
        if c[0] == "notjson":
            d = "NotJson"
        elif c[0] == "other":
            d = "(Json JOther)"
        else:
            d = "(Json (JObj %s))" % coq_msg(list(c[1].items()))
        parts.append("(mkLine %s %s)" % (US(line_repr(raw)), d))
    return "d_main %s [%s]" % ("true" if cli_compact(case) else "false", ";".join(parts))


def model_obs_cli(case, v):
    text, ok = flat(v, 2)
    return {"out": from_coq_text(text), "completed": bool(ok)}


def project_cli(case, obs):
    lines = cli_lines(case)
    if not cli_guarded(lines) or cli_local(case) or cli_deep(lines):
        return obs
    return {"out": obs.get("out"), "completed": obs.get("raised") is None}


def oracle_cli(case, obs):
    lines = cli_lines(case)
    if not cli_guarded(lines):
        return None
    if obs.get("raised") is not None:
        return "eliot-prettyprint stopped with %s after writing %d characters" % (obs["raised"], len(obs.get("out") or ""))
    if cli_local(case):
        return None
    compact = cli_compact(case)
    if cli_deep(lines) and not compact:
        return None          # no reference rendering: pprint cannot render the value in this process either
    expected = []
    for raw, c in lines:
        if c[0] == "notjson":
            expected.append("Not JSON: %s\n\n" % line_repr(raw))
        elif c[0] == "other" or not all(k in c[1] for k in REQUIRED):
            expected.append("Not an Eliot message: %s\n\n" % line_repr(raw))
        else:
            expected.append((ref_compact(c[1]) if compact else ref_pretty(c[1])) + "\n")
    out = obs["out"]
    pos = 0
    for i, piece in enumerate(expected):
        if not out.startswith(piece, pos):
            return "output for input line %d (%s) is %r, expected %r" % (
                i + 1, line_repr(lines[i][0])[:80], out[pos:pos + 200], piece[:200])
        pos += len(piece)
    if pos != len(out):
        return "extra output after the last line: %r" % out[pos:pos + 200]
    return None


def known_cli(case, obs, failure):
    lines = cli_lines(case)
    if "RecursionError" in (obs.get("raised") or "") and cli_deep(lines) and not cli_compact(case):
        return KNOWN_DEEP_VALUE
    return None


def _line_tag(raw, c):
    if c[0] == "notjson" and len(raw) >= DEEP:
        return "not-json:too-deep"
    if c[0] == "notjson":
        try:
            raw.decode("utf-8")
        except UnicodeDecodeError:
            return "not-json:invalid-utf8"
        return "not-json:blank" if not raw.strip() else "not-json:text"
    if c[0] == "other":
        return "json-non-object"
    if not all(k in c[1] for k in REQUIRED):
        return "object-lacking-required"
    return "eliot-line" if well_typed(c[1]) else "ill-typed(guard)"


def describe_cli(case):
    lines = cli_lines(case)
    tags = set(_line_tag(raw, c) for raw, c in lines)
    tags.add("compact" if cli_compact(case) else "pretty")
    if lines and not lines[-1][0].endswith(b"\n"):
        tags.add("no-final-newline")
    if not lines:
        tags.add("empty-stream")
    return sorted(tags)


def nontrivial_cli(case, obs):
    lines = cli_lines(case)
    tags = set(_line_tag(raw, c) for raw, c in lines)
    if not cli_guarded(lines):
        return None
    return json.dumps(case, sort_keys=True) if len(tags - {"eliot-line"}) >= 1 else None


def shrink_cli(case):
    lines = split_lines(bytes.fromhex(case["data"]))
    for i in range(len(lines)):
        yield {"data": b"".join(lines[:i] + lines[i + 1:]).hex(), "opts": case["opts"]}
    if case["opts"]:
        yield {"data": case["data"], "opts": []}


# ---------------------------------------------------------------------------
# family: filter

class _Skip(object):
    pass


SKIP = _Skip()
_T0 = datetime(2020, 1, 2, 3, 4, 5, 678)


def _utc(ts):
    with warnings.catch_warnings():
        warnings.simplefilter("ignore")
        return datetime.utcfromtimestamp(ts)


# name -> (expression text given to eliot.filter, the same function in Python)
EXPRS = {
    "identity": ("J", lambda J: J),
    "select": ("J['field'] if J.get('message_type') == 'my:message' else SKIP",
               lambda J: J["field"] if J.get("message_type") == "my:message" else SKIP),
    "odd-skip": ("SKIP if J['n'] % 2 else J", lambda J: SKIP if J["n"] % 2 else J),
    "all-skip": ("SKIP", lambda J: SKIP),
    "datetime": ("datetime.utcfromtimestamp(J['timestamp'])", lambda J: _utc(J["timestamp"])),
    "nested-datetime": ("{'when': datetime(2020, 1, 2, 3, 4, 5, 678) + timedelta(seconds=J['n']), 'keys': sorted(J)}",
                        lambda J: {"when": _T0 + timedelta(seconds=J["n"]), "keys": sorted(J)}),
    "pair": ("[J['n'], J]", lambda J: [J["n"], J]),
    "level-filter": ("J if len(J['task_level']) > 1 and J['n'] < 50 else SKIP",
                     lambda J: J if len(J["task_level"]) > 1 and J["n"] < 50 else SKIP),
}


def _iso_default(o):
    if isinstance(o, datetime):
        return o.isoformat()
    raise TypeError(repr(o))


def gen_log_message(rng, i, big=False):
    m = dict(gen_message(rng, exotic=False, big=big, nfields=(0, 1, 2, 3, 4, 6, 9) if big else (0, 1, 2)))
    m["n"] = rng.choice([i, rng.randrange(100)])
    if rng.random() < 0.5:
        m["message_type"] = "my:message"
        m["field"] = gen_value(rng, 1, exotic=False, big=big)
    elif rng.random() < 0.3:
        m["message_type"] = "other:message"
    m["timestamp"] = abs(m["timestamp"]) if m["timestamp"] < 0 else m["timestamp"]
    return m


def gen_filter(rng, tier):
    big = tier != "quick"
    n = 1500 if big else 64
    cases = []
    names = sorted(EXPRS)
    for i in range(n):
        k = rng.choice([0, 1, 2, 3, 5, 8] if big else [0, 1, 2, 3, 5])
        lines = []
        for j in range(k):
            m = gen_log_message(rng, j, big)
            style = rng.randrange(3)
            if style == 0:
                raw = json.dumps(m).encode("ascii")
            elif style == 1:
                raw = json.dumps(m, ensure_ascii=False).encode("utf-8", "replace")
            else:
                raw = b"  " + json.dumps(m, separators=(",", ":")).encode("ascii") + b"\r"
            lines.append((raw + b"\n").hex())
        mode = rng.choice(["run", "run", "main", "main-text"])
        cases.append({"expr": names[i % len(names)] if i < 2 * len(names) else rng.choice(names), "lines": lines, "mode": mode})
    # Unicode line/paragraph separators and NEL inside string values (orjson writes them raw): one message, one line
    for mode in ("main", "main-text", "run"):
        ms = [{"task_uuid": "u", "task_level": [1], "timestamp": 1.0, "message_type": "my:message", "n": 1, "field": "a\u2028b"},
              {"task_uuid": "u", "task_level": [2], "timestamp": 2.0, "message_type": "my:message", "n": 2, "field": "c\u2029d\u0085e\x1c\x0b\x0c"},
              {"task_uuid": "u", "task_level": [3], "timestamp": 3.0, "message_type": "other:message", "n": 3}]
        cases.append({"expr": "identity", "mode": mode,
                      "lines": [(json.dumps(m, ensure_ascii=False).encode("utf-8") + b"\n").hex() for m in ms]})
    # usage error of the command: no expression / too many arguments
    cases.append({"expr": "identity", "lines": [], "mode": "main", "argv_extra": -1})
    cases.append({"expr": "identity", "lines": [(b'{"n": 1}\n').hex()], "mode": "main", "argv_extra": 1})
    return cases


def impl_filter(case):
    import eliot.filter as ef
    expr = EXPRS[case["expr"]][0]
    lines = [bytes.fromhex(h) for h in case["lines"]]
    out = io.StringIO()
    err = io.StringIO()
    rc = None
    raised = None
    try:
        if case["mode"] == "run":
            ef.EliotFilter(expr, lines, out).run()
        else:
            class FakeSys(object):
                pass
            fake = FakeSys()
            extra = case.get("argv_extra", 0)
            fake.argv = ["eliot-filter", expr][: 2 + min(extra, 0)] + ["surplus"] * max(extra, 0)
            if case["mode"] == "main-text":
                fake.stdin = io.StringIO(b"".join(lines).decode("utf-8"), newline="\n")
            else:
                fake.stdin = io.BytesIO(b"".join(lines))
            fake.stdout, fake.stderr = out, err
            rc = ef.main(sys=fake)
    except BaseException as e:
        raised = "%s: %s" % (type(e).__name__, str(e)[:300])
    return {"out": out.getvalue(), "rc": rc, "raised": raised, "usage": bool(err.getvalue())}


def filter_values(case):
    """[(decoded line, value or SKIP)] computed by the harness (eval/json.loads are the external functions)"""
    f = EXPRS[case["expr"]][1]
    res = []
    for h in case["lines"]:
        j = json.loads(bytes.fromhex(h))
        res.append((j, f(j)))
    return res


def model_filter(case):
    items = []
    for j, v in filter_values(case):
        if v is SKIP:
            items.append("(Some FSkip)")
        else:
            items.append("(Some (FValue %s))" % US(json.dumps(v, default=_iso_default)))
    ls = "[" + ";".join(items) + "]"
    if case["mode"] == "run":
        return "(0%%N, d_filter %s)" % ls
    return "d_filter_main %d %s" % (2 + case.get("argv_extra", 0), ls)


def model_obs_filter(case, v):
    rc, rest = v
    text, ok = rest
    return {"out": from_coq_text(text), "completed": bool(ok), "rc": rc}


def project_filter(case, obs):
    return {"out": obs.get("out"), "completed": obs.get("raised") is None, "rc": obs.get("rc") or 0}


def oracle_filter(case, obs):
    if obs.get("raised") is not None:
        return "eliot.filter raised %s" % obs["raised"]
    extra = case.get("argv_extra", 0)
    if case["mode"] != "run" and extra != 0:
        if obs["rc"] != 1 or obs["out"] != "" or not obs["usage"]:
            return "wrong number of arguments: rc=%r out=%r usage shown=%r" % (obs["rc"], obs["out"][:80], obs["usage"])
        return None
    if case["mode"] != "run" and obs["rc"] != 0:
        return "main returned %r" % obs["rc"]
    vals = filter_values(case)
    kept = [(j, v) for j, v in vals if v is not SKIP]
    out = obs["out"]
    if out and not out.endswith("\n"):
        return "output does not end with a newline: %r" % out[-60:]
    got = out.split("\n")[:-1] if out else []
    if len(got) != len(kept):
        return "%d output lines for %d input lines of which %d are not skipped" % (len(got), len(vals), len(kept))
    for i, (text, (j, v)) in enumerate(zip(got, kept)):
        try:
            back = json.loads(text)
        except ValueError:
            return "output line %d is not JSON: %r" % (i + 1, text[:200])
        want = json.loads(json.dumps(v, default=_iso_default))
        if not json_eq(back, want):
            return "output line %d decodes to %r, the expression's value is %r" % (i + 1, back, want)
        if case["expr"] == "identity" and not json_eq(back, j):
            return "identity expression did not reproduce message %d" % (i + 1)
    return None


def describe_filter(case):
    if case.get("argv_extra"):
        return ["usage-error"]
    vals = filter_values(case)
    sk = sum(1 for _, v in vals if v is SKIP)
    tag = "none-skipped" if sk == 0 else ("all-skipped" if sk == len(vals) else "some-skipped")
    return ["expr:" + case["expr"], "mode:" + case["mode"], tag if vals else "empty-input"]


def nontrivial_filter(case, obs):
    return json.dumps(case, sort_keys=True) if case["lines"] else None


def shrink_filter(case):
    for i in range(len(case["lines"])):
        c = dict(case)
        c["lines"] = case["lines"][:i] + case["lines"][i + 1:]
        yield c


FAMILIES = [
    Family("format", gen_format, impl_format, model_format, model_obs_format, oracle_format, nontrivial_format,
           imports=["Model.Pretty"], project=project_format, corpus=FORMAT_CORPUS, shrink=shrink_format,
           describe=describe_format, shard=60, coq_shard=20),
    Family("cli", gen_cli, impl_cli, model_cli, model_obs_cli, oracle_cli, nontrivial_cli, known=known_cli,
           imports=["Model.Pretty"], project=project_cli, corpus=CLI_CORPUS, shrink=shrink_cli,
           describe=describe_cli, shard=60, coq_shard=15),
    Family("filter", gen_filter, impl_filter, model_filter, model_obs_filter, oracle_filter, nontrivial_filter,
           imports=["Model.Pretty"], project=project_filter, shrink=shrink_filter,
           describe=describe_filter, shard=60, coq_shard=15),
]

LEVEL_TEXT = ("Coq theorems about the executable model of pretty_format/compact_format/_main/EliotFilter.run: header, "
              "completeness and order of the rendered fields (permutation + sortedness), single-line compact form, "
              "totality and per-line output of the command loop, filter output = encodings of the non-skipped values in "
              "order; tied to /repo by running the real functions (and _main / filter.main in-process) on generated "
              "messages and byte streams and comparing with the model evaluated in Coq.")
LEVEL_NOTE = ("Partial in the sense of DESIGN 11: pprint.pformat, json.dumps/loads, datetime.isoformat and eval of the filter "
              "expression are arguments of the model, fed with their real outputs. Guards stated in the theorems: well-typed "
              "required fields, no newline in names for the one-line claim, JSON input for eliot.filter. Lines nested too deeply for "
              "json.loads (about 1500 levels) are classified Not JSON (regression cases of fix eebc9b0). A well-formed line whose "
              "field value nests deeper than pprint can render (about 330 levels; Eliot cannot emit it) stops the default mode "
              "with RecursionError: known finding C20-deep-value-pformat-recursion, kept as a corpus case. Lone surrogates in "
              "task_uuid / field names versus a strict UTF-8 stdout are environment-dependent and outside the model (stated guard).")


# ---- messages produced by the real logging API (not hand-made dictionaries), rendered by both formatters ----------------
def gen_emitted(rng, tier):
    out = []
    for _ in range(30 if tier == "quick" else 500):
        ops = []
        for _ in range(rng.randrange(1, 6)):
            r = rng.random()
            names = rng.sample(["x", "n", "timestamp", "task_level", "task_uuid", "message_type", "action_type", "action_status",
                                "reason", "exception", "J"], rng.randrange(0, 3))
            fields = [[k, rng.choice(["2024-05-01T12:00:00Z", "warning", 7, 1.5, None, [1, 2], {"a": 1}])] for k in names]
            ops.append([rng.choice(["msg", "msg", "act", "act_fail", "tb"]), fields])
        out.append({"ops": ops})
    return out


def impl_emitted(case):
    import eliot
    from eliot import _output, log_message, start_action, write_traceback
    from eliot.prettyprint import pretty_format, compact_format
    d = _output.Destinations()
    _output.Logger._destinations = d
    got = []
    d.add(lambda m: got.append(dict(m)))
    errors = []
    for kind, fields in case["ops"]:
        kw = {k: v for k, v in fields}
        try:
            if kind == "msg":
                kw.pop("message_type", None)
                log_message("emitted:msg", **kw)
            elif kind in ("act", "act_fail"):
                kw.pop("action_type", None)
                try:
                    with start_action(action_type="emitted:act", **kw):
                        log_message("emitted:inner")
                        if kind == "act_fail":
                            raise ValueError("boom")
                except ValueError:
                    pass
            else:
                try:
                    raise RuntimeError("tb")
                except RuntimeError:
                    write_traceback()
        except BaseException as e:
            errors.append("%s raised %s: %s" % (kind, type(e).__name__, e))
    rendered = []
    for m in got:
        try:
            json.dumps(m)
        except Exception:
            rendered.append(None)
            continue
        r = {"uuid": m.get("task_uuid"), "level": m.get("task_level"), "ts": m.get("timestamp")}
        for name, fn in (("pretty", pretty_format), ("compact", compact_format)):
            try:
                r[name] = fn(dict(m))
            except BaseException as e:
                r[name + "_error"] = "%s: %s" % (type(e).__name__, e)
        rendered.append(r)
    return {"errors": errors, "rendered": rendered, "n": len(got)}


def oracle_emitted(case, obs):
    if obs["errors"]:
        return "a logging call raised: %s" % obs["errors"][0]
    for i, r in enumerate(obs["rendered"]):
        if r is None:
            continue
        if not (isinstance(r["uuid"], str) and isinstance(r["level"], list) and all(isinstance(x, int) for x in r["level"])
                and isinstance(r["ts"], float)):
            return "emitted message %d has task_uuid=%r task_level=%r timestamp=%r" % (i, r["uuid"], r["level"], r["ts"])
        for name in ("pretty", "compact"):
            if name + "_error" in r:
                return "%s_format raised on a message produced by the logging API: %s" % (name, r[name + "_error"])
        lvl = "/" + "/".join(str(x) for x in r["level"])
        head = "%s -> %s\n" % (r["uuid"], lvl)
        if not r["pretty"].startswith(head):
            return "pretty_format of an emitted message starts %r, expected %r" % (r["pretty"][:80], head)
        if not r["compact"].startswith("%s%s " % (r["uuid"], lvl)) or "\n" in r["compact"].rstrip("\n"):
            return "compact_format of an emitted message is %r" % r["compact"][:120]
    return None


FAMILIES.append(Family("emitted", gen_emitted, impl_emitted, None, None, oracle_emitted,
                       lambda case, obs: json.dumps(case) if isinstance(obs, dict) and obs.get("n", 0) >= 2 else None, shard=15, case_timeout=30))
