"""C19 — the threaded writer passes every message to its destination in order, off-thread.

Family "writer": the real ``eliot.logwriter.ThreadedWriter`` (Twisted is absent: a shim of ``Service`` and
``deferToThreadPool`` from lib/stubs is put at the end of sys.path for this check only) runs under the
line-granular scheduler (lib/linesched.py, files = eliot/logwriter.py): a controller thread doing
``startService(); stopService(); wait for the handle`` 1-3 times, 1-3 producer threads calling
``writer(message)``, and the threads the code under test creates itself — ``threading.Thread(target=
self._reader)`` inside startService and the thread of ``deferToThreadPool(..., self._thread.join)`` — which
are handed to pre-allocated scheduler slots, so every line of ``_reader`` is a scheduling point and a
reader blocked on the empty queue / a join on an unfinished reader are known to be disabled.  The executed
run (the linearisation of queue puts/gets, destination calls, start/stop/join) is replayed in the Coq model
(Model/Writer.v) and compared; the oracle is the property text.

Family "registration": the same class with real threads and the real SimpleQueue, driven through
``eliot.log_message`` (registration via addDestination/removeDestination as they are).
"""
import json
import os

from lib.framework import Family
from lib.coqbridge import to_coq, Nat, C, Raw, flat

ID = "C19"
PROPS_FILE = "Props/C19.v"
TRUSTED = [
    "queue.SimpleQueue is a linearizable unbounded FIFO (put never blocks, get blocks exactly when empty); in the scheduled "
    "family it is replaced by a scheduler-aware FIFO of the same semantics (the registration family uses the real one)",
    "threading.Thread.join returns exactly when the thread's target has returned (in the scheduled family the reader thread "
    "and the deferToThreadPool thread are scheduler slots with that semantics)",
    "Twisted is absent from this sandbox: twisted.application.service.Service (running flag) and "
    "twisted.internet.threads.deferToThreadPool (run the callable in a new thread, complete a handle) are a 40-line shim "
    "(lib/stubs/twisted), on sys.path for this check only; the real Deferred/threadpool are not exercised",
]
ASSUMPTIONS = [
    "threads switch at line boundaries of eliot/logwriter.py (finer than the model's steps: one queue operation or one "
    "destination call per model step)",
    "stopService's result is awaited before the next startService (as a Twisted application does)",
    "the wrapped destination raises only Exception subclasses (what the reader loop is written to swallow)",
]
RULE = ("writer: producers (1-3, 0-4 messages each), 1-3 start/stop cycles, failure masks, slow destination (the reader yields "
        "inside the destination), controller dwell; schedules: seed-chosen weighted phases (reader or controller starved so "
        "that stop meets a non-empty queue) and, for five small configurations, every single-preemption schedule of three base "
        "orders; non-trivial = at least one message offered between startService and stopService and passed on; "
        "registration: generated sequential scripts with real threads")
LEVEL_TEXT = ("Coq theorems for all producers, failure masks, schedules and any number of cycles (FIFO hand-over with exact "
              "loss accounting and thread identity, stop waits for and eventually gets the reader's return, faults are local, "
              "per-cycle attribution with racing producers, producers never block; the exit-on-stopped loop refuted) + "
              "correspondence: the real ThreadedWriter under a line-granular scheduler, its executed linearisation replayed "
              "in the model + the statement evaluated on what the real code did.")
LEVEL_NOTE = ("Trusted: Coq kernel; model Model/Writer.v tied by correspondence. Real Twisted Service/deferToThreadPool are "
              "absent and shimmed (lib/stubs/twisted); queue.SimpleQueue (linearizable FIFO) and Thread.join semantics are "
              "trusted, not verified. Preemption inside C code (SimpleQueue.put/get themselves) is not explored.")

STUBS = os.path.join(os.path.dirname(os.path.dirname(os.path.abspath(__file__))), "lib", "stubs")
EXC = ["OSError", "ValueError", "RuntimeError", "UnicodeError", "KeyError"]


def _import_logwriter():
    import sys
    if STUBS not in sys.path:
        sys.path.append(STUBS)          # at the END: a real Twisted, if there were one, would win
    import eliot
    from eliot import _output
    import eliot.logwriter as lw
    # addDestination/removeDestination are bound to the Destinations instance eliot was imported with
    orig = eliot.removeDestination.__self__
    _output.Logger._destinations = orig
    return eliot, lw, orig


# ---------------------------------------------------------------- scheduled family: harness
def _layout(case):
    P, Cn = len(case["producers"]), case["cycles"]
    names = ["C"] + ["P%d" % i for i in range(P)] + ["R%d" % c for c in range(Cn)] + ["J%d" % c for c in range(Cn)]
    return P, Cn, names


def impl_writer(case):
    import builtins
    import queue as queue_mod
    import threading
    eliot, lw, orig = _import_logwriter()
    import twisted.internet.threads as shim_threads
    from lib.linesched import LineScheduler, SchedQueue, SchedLock, Deadlock

    P, Cn, names = _layout(case)
    fails = set(case["fails"])
    blocked_log = []

    class Sched(LineScheduler):
        def block_until(self, pred):
            t = self.me()
            if t is not None and pred():
                blocked_log.append(t)
            return LineScheduler.block_until(self, pred)

    sched = Sched(files=("eliot/logwriter.py",))
    # the writer's stop sentinel, whatever it is called: the module-level plain object() instance
    STOP = getattr(lw, "_STOP", None)
    if STOP is None:
        cands = [v for k, v in vars(lw).items() if type(v) is object]
        STOP = cands[0] if cands else object()

    def desc(item):
        if item is STOP:
            return "STOP"
        if isinstance(item, dict) and "n" in item:
            return item["n"]
        return "?" + type(item).__name__

    class LogQueue(SchedQueue):
        """SimpleQueue semantics; the linearisation log records which item each put/get moved"""

        def put(self, item, block=True, timeout=None):
            self.items.append(item)
            self.sched.log("put", desc(item))

        put_nowait = put

        def get(self, block=True, timeout=None):
            if not block and not self.items:
                raise queue_mod.Empty
            if timeout is not None and not self.items:
                # a timed wait on an empty queue can expire (nothing bounds how long the producers stay away)
                self.sched.log("get-timeout", "-")
                raise queue_mod.Empty
            self.sched.block_until(lambda: not self.items)
            item = self.items.pop(0)
            self.sched.log("get", desc(item))
            return item

        def get_nowait(self):
            return self.get(False)

    class Slot(object):
        def __init__(self):
            self.started = self.finished = False
            self.target, self.args, self.kwargs, self.error = None, (), {}, None

    class Pool(object):
        """threads the code under test creates: each gets the next pre-allocated scheduler slot"""

        def __init__(self, kind, n):
            self.kind, self.slots, self.next, self.closed = kind, [Slot() for _ in range(n)], 0, False

        def body(self, k):
            s = self.slots[k]

            def run():
                sched.block_until(lambda: not (s.started or self.closed))
                if not s.started:
                    return "unused"
                try:
                    s.target(*s.args, **s.kwargs)
                except BaseException as e:       # threading.Thread reports it and the thread ends
                    s.error = type(e).__name__
                finally:
                    s.finished = True
                    sched.log("exit", [self.kind, k, s.error])
                return s.error or "ok"
            return run

        def Thread(self, group=None, target=None, name=None, args=(), kwargs=None, daemon=None):
            if self.next >= len(self.slots):
                raise RuntimeError("harness: more %s threads than start/stop cycles" % self.kind)
            k = self.next
            self.next += 1
            return Handle(self, k, target, args, kwargs or {})

    class Handle(object):
        daemon = True

        def __init__(self, pool, k, target, args, kwargs):
            self.pool, self.k, self.slot = pool, k, pool.slots[k]
            self.slot.target, self.slot.args, self.slot.kwargs = target, args, kwargs
            self.name = "%s-%d" % (pool.kind, k)

        def start(self):
            if self.slot.started:
                raise RuntimeError("threads can only be started once")
            self.slot.started = True
            sched.log("spawn", [self.pool.kind, self.k])

        def join(self, timeout=None):
            if not self.slot.started:
                raise RuntimeError("cannot join thread before it is started")
            sched.block_until(lambda: not self.slot.finished)

        def is_alive(self):
            return self.slot.started and not self.slot.finished

        def setDaemon(self, d):
            pass

    class FakeThreading(object):
        def __init__(self, pool):
            self.Thread = pool.Thread

        def Lock(self):
            return SchedLock(sched)

        def __getattr__(self, name):
            return getattr(threading, name)

    readers, joiners = Pool("R", Cn), Pool("J", Cn)
    calls = []
    idents = {}

    def ident_index():
        i = threading.get_ident()
        return idents.setdefault(i, len(idents))

    def destination(msg):
        t = sched.me()
        sched.log("dest_enter", desc(msg))
        if t is not None:
            for _ in range(case["slow"]):
                sched.gate(t)                 # the slow destination: the calling thread is parked inside it
        m = desc(msg)
        ok = m not in fails
        calls.append([m, names[t] if t is not None else "unscheduled", ident_index(), ok])
        sched.log("call", [m, ok])
        if not ok:
            raise getattr(builtins, EXC[m % len(EXC)])("destination failed on %r" % (m,))

    class Reactor(object):
        def getThreadPool(self):
            return "threadpool"

    writer = lw.ThreadedWriter(destination, Reactor())
    # replace the writer's queue, whatever attribute holds it (a rename must not turn into a hang)
    import queue as _queue_mod
    _replaced = False
    the_queue = LogQueue(sched, "queue")
    for _name, _val in list(vars(writer).items()):
        if isinstance(_val, (_queue_mod.SimpleQueue, _queue_mod.Queue)):
            setattr(writer, _name, the_queue)
            _replaced = True
    if not _replaced:
        writer._queue = the_queue

    def snap():
        return [bool(writer.running), any(d is writer for d in orig._destinations)]

    caller_idents = {}

    def pause(k):
        me = sched.me()
        for _ in range(k):
            sched.gate(me)

    def controller():
        caller_idents["C"] = ident_index()
        try:
            for c in range(Cn):
                pause(case["gap"])
                sched.log("start_called", c)
                writer.startService()
                sched.log("start_returned", [c] + snap())
                pause(case["dwell"])
                sched.log("stop_called", c)
                h = writer.stopService()
                sched.log("stop_returned", [c] + snap())
                sched.block_until(lambda: not h.done.is_set())
                err = getattr(h, "error", None)
                sched.log("joined", [c] + snap() + [type(err).__name__ if err is not None else None])
        finally:
            readers.closed = joiners.closed = True
        return "ok"

    def producer(i):
        def body():
            caller_idents["P%d" % i] = ident_index()
            for m in case["producers"][i]:
                sched.log("offer", m)
                writer({"n": m, "p": i})
                sched.log("offered", m)
            return "ok"
        return body

    targets = [controller] + [producer(i) for i in range(P)] + [readers.body(c) for c in range(Cn)] + \
              [joiners.body(c) for c in range(Cn)]
    old = (lw.threading, shim_threads.threading)
    lw.threading, shim_threads.threading = FakeThreading(readers), FakeThreading(joiners)
    hang = None
    try:
        sched.run(targets, case["sched"], fallback=case.get("fallback", "roundrobin"))
    except Deadlock as e:
        hang = str(e)[:300]
    finally:
        lw.threading, shim_threads.threading = old
        try:
            if any(d is writer for d in orig._destinations):
                orig.remove(writer)
        except Exception:
            pass
    events = [[k, names[t] if t is not None else None, info] for k, t, info in sched.events]
    return {"events": events, "calls": calls, "callers": caller_idents, "hang": hang,
            "results": [[names[t], r] for t, r in enumerate(sched.results)],
            "left": [desc(x) for x in the_queue.items], "final": snap(),
            "blocked": sorted({names[t] for t in blocked_log}), "steps": len(sched.trace)}


# ---------------------------------------------------------------- canonical trace, replay in the model
MODEL_KINDS = ("spawn", "stop_called", "put", "get", "call", "joined")


def canon_trace(obs):
    """the model-level events of the real run, and the thread each one belongs to"""
    out, who = [], []
    for kind, th, info in obs["events"]:
        if kind == "spawn" and info[0] == "R":
            ev = ["start", info[1]]
        elif kind == "stop_called":
            ev = ["unreg", info]
        elif kind == "put":
            ev = ["put", "C" if th == "C" else int(th[1:]) if th and th[0] == "P" else th, info]
        elif kind == "get":
            ev = ["get", int(th[1:]) if th and th[0] == "R" else th, info]
        elif kind == "call":
            ev = ["call", int(th[1:]) if th and th[0] == "R" else th, info[0], info[1]]
        elif kind == "joined":
            ev = ["join", info[0]]
        else:
            continue
        out.append(ev)
        who.append(th)
    return out, who


def _tid(th):
    if th and th[0] == "P":
        return C("Prod", Nat(int(th[1:])))
    if th and th[0] == "R":
        return C("Reader", Nat(int(th[1:])))
    return Raw("Ctl")


def _m_item(x):
    return "STOP" if x == "Stop" else x[1]


def _m_event(e):
    k = e[0]
    if k == "EStart":
        return ["start", e[1]]
    if k == "EUnreg":
        return ["unreg", e[1]]
    if k == "EPut":
        return ["put", "C" if e[1] == "Ctl" else e[1][1] if e[1][0] == "Prod" else "R", _m_item(e[2])]
    if k == "EGet":
        return ["get", e[1], _m_item(e[2])]
    if k == "ECall":
        return ["call", e[1], e[2], e[3]]
    if k == "EJoin":
        return ["join", e[1]]
    return [k] + list(e[1:])


def project_writer(case, obs):
    if obs.get("hang"):
        return {"hang": True}
    trace, _ = canon_trace(obs)
    joins = sum(1 for e in trace if e[0] == "join")
    starts = sum(1 for e in trace if e[0] == "start")
    offered = {m for k, th, m in obs["events"] if k == "offered"}
    return {"trace": trace,
            "log": [[m, th] for m, th, _, ok in obs["calls"] if ok],
            "queue": obs["left"], "running": obs["final"][0], "registered": obs["final"][1],
            "cycle": joins, "todo": case["cycles"] - starts,
            "prods": [[m for m in p if m not in offered] for p in case["producers"]]}


def post_writer(cases, obs_list):
    from lib import coqbridge
    exprs, index = [], []
    for i, (case, obs) in enumerate(zip(cases, obs_list)):
        if obs.get("hang"):
            continue
        _, who = canon_trace(obs)
        exprs.append("observe (run (mask %s) %s %s %s)" % (
            to_coq([Nat(m) for m in case["fails"]]), to_coq([[Nat(m) for m in p] for p in case["producers"]]),
            to_coq(Nat(case["cycles"])), to_coq([_tid(t) for t in who])))
        index.append(i)
    vals = coqbridge.eval_in_coq(["Model.Writer"], exprs, shard=60, jobs=12)
    out = [{"hang": True} if o.get("hang") else None for o in obs_list]
    for i, v in zip(index, vals):
        trace, log, queue, flags, reader, ctl, prods = flat(v, 7)
        (phase, cycle), todo = ctl
        out[i] = {"trace": [_m_event(e) for e in trace],
                  "log": [[m, "R%d" % t[1] if isinstance(t, tuple) and t[0] == "Reader" else str(t)] for m, t in log],
                  "queue": [_m_item(x) for x in queue], "running": flags[0], "registered": flags[1],
                  "cycle": cycle, "todo": todo, "prods": prods}
    return out


# ---------------------------------------------------------------- the statement
def _index(obs):
    ev = obs["events"]
    first = {}
    for i, (k, th, info) in enumerate(ev):
        key = (k, info if not isinstance(info, list) else info[0])
        first.setdefault(key, i)
    return first


def must_messages(case, obs):
    """messages whose whole offer lies between the return of a startService and the call of the next stopService,
    with that cycle: the ones the property speaks about"""
    ix = _index(obs)
    out = {}
    for c in range(case["cycles"]):
        s, t = ix.get(("start_returned", c)), ix.get(("stop_called", c))
        if s is None or t is None:
            continue
        for p in case["producers"]:
            for m in p:
                b, e = ix.get(("offer", m)), ix.get(("offered", m))
                if b is not None and e is not None and s < b and e < t:
                    out[m] = c
    return out


def oracle_writer(case, obs):
    if obs.get("hang"):
        return "run did not finish (stopService's result never fired, or a thread blocked for good): %s" % obs["hang"]
    for name, r in obs["results"]:
        if r is None or r[0] != "ok":
            return "thread %s ended with %r" % (name, r)
        if name[0] == "R" and r[1] not in ("ok", "unused"):
            return "the writer thread %s died with %s" % (name, r[1])
        if name[0] == "J" and r[1] not in ("ok", "unused"):
            return "the thread waiting for the writer thread died with %s" % r[1]
    ev = obs["events"]
    ix = _index(obs)
    all_msgs = [m for p in case["producers"] for m in p]
    passed = [c[0] for c in obs["calls"]]
    for m in passed:
        if m not in all_msgs:
            return "the destination was called with %r, which nobody offered" % (m,)
    for m in set(passed):
        if passed.count(m) > 1:
            return "message %r was passed to the destination %d times" % (m, passed.count(m))
    callers = set(obs["callers"].values())
    for m, th, ident, ok in obs["calls"]:
        if ident in callers or th[0] in "CP":
            return "message %r was passed to the destination on %s, a caller's thread" % (m, th)
    must = must_messages(case, obs)
    callpos = {info[0]: i for i, (k, th, info) in enumerate(ev) if k == "call"}
    for c in range(case["cycles"]):
        j = ix.get(("joined", c))
        if j is None:
            return "stopService's result of cycle %d never fired" % c
        if ev[j][2][3] is not None:
            return "stopService's result of cycle %d failed with %s" % (c, ev[j][2][3])
        s, t = ix.get(("start_called", c)), ix.get(("stop_called", c))
        for m, mc in must.items():
            if mc <= c and (m not in callpos or callpos[m] > j):
                return ("message %r was offered between startService and stopService of cycle %d but %s stopService's "
                        "result of cycle %d fired" % (m, mc, "was never passed to the destination although" if m not in callpos
                                                      else "was passed to the destination only after", c))
        threads = {ident for (m, th, ident, ok) in obs["calls"] if s < callpos.get(m, -1) < j}
        if len(threads) > 1:
            return "cycle %d: the destination was called on %d different threads" % (c, len(threads))
        sr, st = ev[ix[("start_returned", c)]][2], ev[ix[("stop_returned", c)]][2]
        if sr[1:3] != [True, True]:
            return "after startService (cycle %d): running=%r registered=%r" % (c, sr[1], sr[2])
        if st[1:3] != [False, False] or ev[j][2][1:3] != [False, False]:
            return "after stopService (cycle %d): running=%r registered=%r" % (c, st[1], st[2])
    # in the order offered: an offer that completed before another began is passed first
    ms = sorted(must, key=lambda m: callpos[m])
    for a in range(len(ms)):
        for b in range(a + 1, len(ms)):
            if ix[("offered", ms[b])] < ix[("offer", ms[a])]:
                return "message %r was offered (completely) before %r but passed to the destination after it" % (ms[b], ms[a])
    if [n for n in obs["blocked"] if n[0] == "P"]:
        return "a producer had to wait inside writer(message): %r" % obs["blocked"]
    return None


def nontrivial_writer(case, obs):
    if not isinstance(obs, dict) or obs.get("hang") or "events" not in obs:
        return None
    must = must_messages(case, obs)
    passed = {c[0] for c in obs["calls"]}
    return json.dumps(case, sort_keys=True) if must and (set(must) & passed) else None


def stats_writer(case, obs):
    """coverage facts of one run (not part of the verdict; used to measure what the generator reaches)"""
    ev = obs["events"]
    out = set()
    q = 0
    inside = False
    for k, th, info in ev:
        if k == "put":
            q += 1
        elif k == "get":
            q -= 1
        elif k == "stop_called" and q > 0:
            out.add("stop_with_nonempty_queue")
        elif k == "dest_enter":
            inside = True
        elif k == "call":
            inside = False
            if not info[1]:
                out.add("destination_failed")
        elif k == "offered" and inside:
            out.add("offer_completed_while_destination_busy")
    puts = [info for k, th, info in ev if k == "put"]
    if "STOP" in puts and any(x != "STOP" for x in puts[puts.index("STOP"):]):
        out.add("put_after_stop")
    return out


# ---------------------------------------------------------------- generator
def _threads(P, Cn):
    return 1 + P + 2 * Cn


def _mk(kind, producers, cycles, fails, slow, dwell, gap, sched, fallback):
    return {"kind": kind, "producers": producers, "cycles": cycles, "fails": sorted(fails), "slow": slow,
            "dwell": dwell, "gap": gap, "sched": sched, "fallback": fallback}


def _gen_config(rng):
    P = rng.choice([1, 1, 2, 2, 3])
    Cn = rng.choice([1, 1, 2, 2, 3])
    n = 0
    producers = []
    for i in range(P):
        k = rng.choice([0, 1, 2, 3, 4, 5])
        producers.append(list(range(n + 1, n + 1 + k)))
        n += k
    if n == 0:
        producers[0] = [1]
        n = 1
    mode = rng.random()
    if mode < 0.3:
        fails = []
    elif mode < 0.4:
        fails = list(range(1, n + 1))
    else:
        fails = [m for m in range(1, n + 1) if rng.random() < 0.3]
    return producers, Cn, fails


def gen_writer(rng, tier):
    out = []
    # hand-written: one message queued when the service is marked stopped (the witness of C19_exit_on_stopped_refuted)
    out.append(_mk("witness", [[1]], 1, [], 0, 1, 0, [0] * 7 + [1] * 3 + [0] * 30, "finish_first"))
    out.append(_mk("witness", [[1, 2, 3]], 2, [2], 1, 2, 0, [0] * 7 + [1] * 5 + [0] * 30, "finish_first"))
    n_random = 160 if tier == "quick" else 3000
    for _ in range(n_random):
        producers, Cn, fails = _gen_config(rng)
        P = len(producers)
        n = _threads(P, Cn)
        ridx = list(range(1 + P, 1 + P + Cn))
        pidx = list(range(1, 1 + P))
        slow, dwell, gap = rng.choice([0, 0, 1, 2, 3]), rng.choice([0, 2, 3, 4, 6, 10]), rng.choice([0, 0, 1, 2])
        sched = []

        def mix(ws, k):
            if not sum(ws):
                ws[rng.randrange(n)] = 1
            return rng.choices(range(n), weights=ws, k=k)
        if rng.random() < 0.65:
            # structured: per cycle, the controller gets through startService, then producers and the reader run while it
            # dwells (offers between start and stop; reader possibly starved or slow), then the controller stops
            kind = "phased"
            for c in range(Cn):
                if rng.random() < 0.7:
                    sched += [0] * (gap + 5)         # exactly through startService (first gate, gap, its four lines)
                else:
                    w = [0] * n
                    w[0] = 6
                    for t in pidx + ridx:
                        w[t] = rng.choice([0, 0, 1])
                    sched += mix(w, gap + 5 + rng.randrange(0, 4))
                w = [0] * n
                for t in pidx:
                    w[t] = rng.choice([1, 2, 3])
                rw = rng.choice([0, 0, 3, 6, 12])
                for t in ridx:
                    w[t] = rw
                w[0] = rng.choice([0, 0, 0, 1])
                sched += mix(w, rng.randrange(3, 45))
                w = [rng.choice([0, 1]) for _ in range(n)]
                w[0] = 5
                for t in ridx:
                    w[t] = rng.choice([0, 0, 1, 3])
                sched += mix(w, dwell + rng.randrange(2, 14))
                sched += mix([1] * n, rng.randrange(0, 30))
        else:
            kind = "random"
            for _ph in range(rng.randrange(1, 5)):
                w = [rng.choice([0, 1, 1, 3]) for _ in range(n)]
                r = rng.random()
                if r < 0.4:
                    for t in ridx:
                        w[t] = 0             # reader starved: messages queue up, stop meets a non-empty queue
                elif r < 0.55:
                    w[0] = 0                 # controller parked (inside start/stop or dwelling)
                sched += mix(w, rng.randrange(4, 50))
        out.append(_mk(kind, producers, Cn, fails, slow, dwell, gap, sched, "roundrobin"))
    # single-preemption enumeration on small configurations
    small = [([[1, 2]], 1, [], 0, 4), ([[1], [2]], 1, [1], 1, 4), ([[1, 2]], 2, [2], 0, 3), ([[1, 2, 3]], 1, [1, 3], 1, 3),
             ([[1], [2]], 2, [], 0, 4)]
    BIG = 80
    cold, warm, two = [], [], []
    for producers, Cn, fails, slow, dwell in small:
        P = len(producers)
        n = _threads(P, Cn)
        ctl, prods = [0], list(range(1, 1 + P))
        rs, js = list(range(1 + P, 1 + P + Cn)), list(range(1 + P + Cn, n))

        def enum(prefix, orders, ks, dest, kind):
            for order in orders:
                tail = [t for t in order for _ in range(BIG)]
                for k in ks:
                    for t in range(n):
                        if t == order[0] or t in js:
                            continue
                        dest.append(_mk(kind, producers, Cn, fails, slow, dwell, 0, prefix + [order[0]] * k + [t] * BIG + tail,
                                        "finish_first"))
        # from the very beginning: preemptions inside startService/stopService themselves
        enum([], [ctl + prods + rs + js, ctl + rs + js + prods, prods[:1] + ctl + prods[1:] + rs + js], range(0, 15), cold,
             "preempt")
        # the controller is through startService and dwells: offers between start and stop, then one preemption
        enum([0] * 5, [prods + ctl + rs + js, prods[:1] + rs + ctl + prods[1:] + js, ctl + prods + rs + js,
                       prods[:1] + ctl + rs + prods[1:] + js], range(0, 12), warm, "preempt_started")
        # two preemptions: a producer, then the reader for k2 steps (it is left inside the destination), the producer again
        for k1 in range(2, 5):
            for k2 in range(4, 10):
                order = prods + rs + ctl + js
                two.append(_mk("preempt2", producers, Cn, fails, 3, dwell, 0,
                               [0] * 5 + [prods[0]] * k1 + [rs[0]] * k2 + [t for t in order for _ in range(BIG)], "finish_first"))
    if tier == "quick":
        for l, k in ((cold, 70), (warm, 130), (two, 60)):
            rng.shuffle(l)
            del l[k:]
    return out + cold + warm + two


def describe_writer(case):
    return ["kind:%s" % case["kind"], "producers:%d" % len(case["producers"]), "cycles:%d" % case["cycles"],
            "messages:%d" % sum(len(p) for p in case["producers"]),
            "fails:%s" % ("none" if not case["fails"] else "all" if len(case["fails"]) == sum(len(p) for p in case["producers"])
                          else "some"),
            "slow_destination:%d" % case["slow"]]


# ---------------------------------------------------------------- family: registration (real threads, real queue)
def gen_reg(rng, tier):
    n = 12 if tier == "quick" else 150
    out = []
    for _ in range(n):
        script, m = [], 0
        for c in range(rng.randrange(1, 4)):
            for _ in range(rng.randrange(0, 3)):
                m += 1
                script.append(["log", m, rng.choice(["main", "other"])])     # while stopped: not offered to the writer
            script.append(["start"])
            for _ in range(rng.randrange(1, 6)):
                m += 1
                script.append(["log", m, rng.choice(["main", "other"])])
            script.append(["stop"])
        m += 1
        script.append(["log", m, "main"])
        out.append({"script": script, "fails": [k for k in range(1, m + 1) if rng.random() < 0.25], "hold": rng.random() < 0.6})
        if len(out) % 3 == 0:
            out[-1]["twin"] = True
    # a long backlog behind a stalled destination (nothing offered may be dropped however many are waiting), and a
    # destination that stays stalled for seconds after stopService() was called (its result must not fire before the
    # backlog has been written, however long that takes)
    for k in range(2 if tier == "quick" else 6):
        m = rng.choice([1100, 1500, 2600]) if k % 2 == 0 else rng.choice([2001, 3500])
        script = [["start"]] + [["log", i, "main"] for i in range(1, m + 1)] + [["stop"], ["log", m + 1, "main"]]
        out.append({"script": script, "fails": [i for i in range(1, m + 1) if rng.random() < 0.01], "hold": True, "burst": m})
    for k in range(1 if tier == "quick" else 4):
        m = rng.randrange(2, 9)
        script = [["start"]] + [["log", i, rng.choice(["main", "other"])] for i in range(1, m + 1)] + [["stop"]]
        out.append({"script": script, "fails": [], "hold": True, "late_release": rng.choice([5.5, 6.5, 8.0])})
    return out


def impl_reg(case):
    import threading
    eliot, lw, orig = _import_logwriter()
    # the buffering of messages logged before any destination was ever added is not this property's subject
    dummy = lambda message: None
    eliot.add_destinations(dummy)
    eliot.remove_destination(dummy)
    fails = set(case["fails"])
    calls, steps, seen = [], [], []
    release = [threading.Event()]
    lock = threading.Lock()

    def destination(msg):
        n = msg.get("n")
        th = threading.current_thread()          # the object, kept alive: idents are recycled when a thread ends
        if case.get("hold") and not any(th is c for c in caller_threads):
            # slow output: the first write of a cycle does not return until the callers have logged everything
            release[0].wait(10)
        with lock:
            seen.append(th)
            calls.append([n, th, len(steps)])
        if n in fails:
            raise ValueError("destination failed")

    class Reactor(object):
        def getThreadPool(self):
            return None

    writer = lw.ThreadedWriter(destination, Reactor())
    caller_threads = [threading.current_thread()]
    errors = []
    # a second, independent writer alive in the same process at the same time (e.g. one per log file)
    calls2 = []
    writer2 = lw.ThreadedWriter(lambda msg: calls2.append(msg.get("n")), Reactor()) if case.get("twin") else None

    def log(n):
        try:
            eliot.log_message(message_type="c19", n=n)
        except BaseException as e:
            errors.append("log_message raised %s" % type(e).__name__)

    try:
        for op in case["script"]:
            if op[0] == "start":
                release[0] = threading.Event()
                if writer2 is not None:
                    writer2.startService()
                writer.startService()
                steps.append(["start", any(d is writer for d in orig._destinations), bool(writer.running)])
            elif op[0] == "stop":
                early = None
                if case.get("late_release"):
                    # the destination stays stalled for a while after stopService() was called
                    h = writer.stopService()
                    fired = h.done.wait(case["late_release"])
                    with lock:
                        early = [bool(fired), len(calls)]
                    release[0].set()
                else:
                    release[0].set()
                    h = writer.stopService()
                done = h.done.wait(30 if case.get("burst") else 10)
                if writer2 is not None:
                    h2 = writer2.stopService()
                    if not h2.done.wait(10):
                        errors.append("the second writer's stopService did not complete")
                with lock:
                    steps.append(["stop", any(d is writer for d in orig._destinations), bool(writer.running), done,
                                  len(calls), type(h.error).__name__ if h.error is not None else None, early])
            else:
                if op[2] == "main":
                    log(op[1])
                else:
                    t = threading.Thread(target=log, args=(op[1],))
                    caller_threads.append(t)
                    t.start()
                    t.join(10)
                steps.append(["log", op[1]])
    finally:
        if any(d is writer for d in orig._destinations):
            orig.remove(writer)
        if writer2 is not None and any(d is writer2 for d in orig._destinations):
            orig.remove(writer2)
    idx = {}
    return {"calls2": calls2 if writer2 is not None else None, "calls": [[n, idx.setdefault(id(t), len(idx)), any(t is c for c in caller_threads), at] for n, t, at in calls],
            "steps": steps, "errors": errors}


def oracle_reg(case, obs):
    if obs["errors"]:
        return obs["errors"][0]
    want, cycle, started = [], [], False
    si = 0
    per_cycle = []
    for op, st in zip(case["script"], obs["steps"]):
        if op[0] == "start":
            started, cycle = True, []
            if st[1:] != [True, True]:
                return "after startService: registered=%r running=%r" % (st[1], st[2])
        elif op[0] == "stop":
            started = False
            want += cycle
            per_cycle.append(list(cycle))
            if len(st) > 6 and st[6] is not None and st[6][0] and st[6][1] < len(want):
                return ("stopService's result fired while the destination was still stalled: %d of the %d messages offered "
                        "before it had been written" % (st[6][1], len(want)))
            if not st[3]:
                return "stopService's result did not fire within 10 s"
            if st[5] is not None:
                return "stopService's result failed with %s" % st[5]
            if st[1] or st[2]:
                return "after stopService: registered=%r running=%r" % (st[1], st[2])
            got = [c[0] for c in obs["calls"][:st[4]]]
            if got != want:
                return "when stopService's result fired the destination had been passed %r, offered while started: %r" % (got, want)
        elif started:
            cycle.append(op[1])
    if [c[0] for c in obs["calls"]] != want:
        return "destination was passed %r, offered between start and stop: %r" % ([c[0] for c in obs["calls"]], want)
    if obs.get("calls2") is not None and obs["calls2"] != want:
        return "a second writer running at the same time passed %r to its destination; it was offered %r" % (obs["calls2"], want)
    if any(c[2] for c in obs["calls"]):
        return "the destination was called on a caller's thread"
    pos = 0
    for cyc in per_cycle:
        ths = {c[1] for c in obs["calls"][pos:pos + len(cyc)]}
        pos += len(cyc)
        if len(ths) > 1:
            return "one start/stop cycle wrote on %d threads" % len(ths)
    return None


FAMILIES = [
    Family("writer", gen_writer, impl_writer, None, None, oracle_writer, nontrivial_writer, imports=["Model.Writer"],
           project=project_writer, shard=40, case_timeout=30, describe=describe_writer),
    Family("registration", gen_reg, impl_reg, None, None, oracle_reg,
           lambda case, obs: json.dumps(case, sort_keys=True) if isinstance(obs, dict) and obs.get("calls") else None,
           shard=6, case_timeout=60),
]
FAMILIES[0].post_model = post_writer
