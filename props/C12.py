"""C12 — start-up buffering and (un)registration lose and duplicate no message.

Families
  histories  random sequences of log / add_destinations / remove_destination / add_global_fields
             against a fresh real Destinations(); per-destination received sequences compared with
             Model/Core.v run on the same history (and, for never-failing destinations, with the
             declarative spec_received of Model/Handover.v); oracle written from the property text.
  handover   a logging thread and the thread doing the first add, real code under the line scheduler
             (lib/linesched.py); every executed schedule is mapped onto the atomic steps of the
             interleaving model of Model/Handover.v and replayed there (post_model).
"""
import json
import os

from lib import progs
from lib.framework import Family
from lib.coqbridge import to_coq, Nat, Pos, C, flat

ID = "C12"
PROPS_FILE = "Props/C12.v"
TRUSTED = ["line scheduler (lib/linesched.py): sys.settrace line events as preemption points; self._lock replaced by the "
           "scheduler-visible SchedRLock of the same semantics",
           "classification of real line steps into the model's atomic steps by the bytecode of the line about to run "
           "(attribute loads/stores, GET_ITER), by observed effects (a message landing) and by lock events"]
ASSUMPTIONS = ["histories: calls made by one thread outside any action; destinations that mutate the message or log "
               "re-entrantly are outside the model",
               "hand-over: preemption at source-line granularity inside eliot/_output.py and eliot/_action.py "
               "(the interleaving model's atomic steps are single attribute/list operations, each within one line); "
               "one logging thread against one first add; destinations of the race never raise"]
RULE = ("histories: random histories from VERIF_SEED (quick: length <= 60 plus a fixed number with 1001..1100 buffered messages "
        "before the first add; thorough: up to 3000 calls), 1-3 recording destinations per add, some failing by mask, global "
        "fields colliding with message fields and with reserved names; distinct by history, non-trivial when a message was "
        "buffered and later handed over or a destination was added late or removed.  handover: every single-preemption "
        "schedule of send || first add in both directions (0..2 buffered messages) plus seed-chosen multi-preemption "
        "schedules; distinct by executed schedule, non-trivial when the two calls overlapped")
LEVEL_TEXT = ("Coq theorems (C12_history: received sequence = declarative spec for every history; C12_buffer_cap; "
              "C12_global_fields for all destination behaviours; hand-over under the lock: no duplication, no loss, order and "
              "no deadlock for ALL schedules; the legacy unsynchronised hand-over refuted with three witnesses) + "
              "correspondence of per-destination sequences on random histories and of delivered list / buffer / step labels "
              "on every executed schedule + the statement of the property evaluated on the real output.")
LEVEL_NOTE = ("Trusted: Coq kernel; Model/Core.v + Model/Handover.v tied to /repo by per-run correspondence; Python harness and "
              "line scheduler. The interleaving theorems are about one logging thread and one first add with never-failing "
              "destinations; failure reports during the hand-over re-enter send (re-entrant lock) and are covered by the "
              "sequential model only.")

CAP = 1000
SERIAL = 19                      # field f19 carries the serial number of every logged message
GLOBAL_KEYS = [20, 21, 22, 23]   # collide with message fields
MSG_KEYS = [20, 21, 22, 24, 25]
BIG_KEYS = [5, SERIAL, 20, 21, 22, 23]


# =====================================================================================
# histories

def _value(rng):
    if rng.random() < 0.5:
        return {"i": rng.randrange(-3, 50)}
    return {"a": 20 + rng.randrange(progs.N_VALUES)}


def _global_fields(rng):
    out = []
    for _ in range(rng.randrange(1, 3)):
        r = rng.random()
        if r < 0.7:
            out.append([rng.choice(GLOBAL_KEYS), _value(rng)])
        elif r < 0.85:
            # named like reserved keys: message_type / action_type (type-name values), exception / reason / message (ints)
            k = rng.choice([5, 5, 4])
            out.append([k, {"t": rng.choice([1, 10, 11, 12])}])
        else:
            out.append([rng.choice([7, 8, 10]), {"i": rng.randrange(0, 9)}])
    return out


def _gen_history(rng, length, first_add_after=None, fault=0.25, lean=False, equal_dests=False):
    """first_add_after: force that many logs (interspersed with globals) before the first add"""
    hist = []
    st = {"serial": 0, "next_id": 0, "registered": [], "removed": [], "added": False}

    def log():
        st["serial"] += 1
        fs = [[SERIAL, {"i": st["serial"]}]]
        for _ in range(0 if lean and rng.random() < 0.9 else rng.randrange(0, 3)):
            k = rng.choice(MSG_KEYS)
            if all(k != f[0] for f in fs):
                fs.append([k, _value(rng)])
        hist.append(["log", rng.randrange(10, 15), fs])

    def add():
        ds = []
        # add_destinations() with no destination at all is a legal (boundary) call: if it is the first
        # call it still ends the start-up buffering
        nd = 0 if (not lean and rng.random() < 0.08) else (rng.choice([1, 1, 2, 2, 3]) if st["added"] or not lean else 1)
        for _ in range(nd):
            r = rng.random()
            if r > fault:
                b = ["never"]
            elif r > fault * 0.3:
                b = ["mask", [rng.random() < 0.5 for _ in range(rng.randrange(1, 8))]]
            else:
                b = ["always"]
            e = {"id": 100 + st["next_id"], "cls": rng.choice([2, 8, 9]), "text": rng.randrange(1, 9), "sr": False}
            ds.append([st["next_id"], b, e])
            st["registered"].append(st["next_id"])
            st["next_id"] += 1
        st["added"] = True
        hist.append(["add", ds])

    def remove():
        r = rng.random()
        if equal_dests:
            # value-equal destinations: list.remove() takes out the first equal registration, so only the
            # earliest registered one is removed here (then object and position agree); never-registered ids otherwise
            if st["registered"] and r < 0.9:
                i = st["registered"].pop(0)
                st["removed"].append(i)
            else:
                i = st["next_id"] + 5
            hist.append(["remove", i])
            return
        if st["registered"] and r < 0.85:
            i = rng.choice(st["registered"])
            st["registered"].remove(i)
            st["removed"].append(i)
        elif st["removed"] and r < 0.93:
            i = rng.choice(st["removed"])       # already removed: ValueError in the library, nothing changes
        else:
            i = st["next_id"] + 5               # never existed
        hist.append(["remove", i])

    if first_add_after is not None:
        while st["serial"] < first_add_after:
            if rng.random() < 0.01:
                hist.append(["globals", _global_fields(rng)])
            else:
                log()
        if rng.random() < 0.7:
            hist.append(["globals", _global_fields(rng)])
        add()
    p_add = rng.choice([0.04, 0.08, 0.14])
    max_dests = 3 if lean else 7       # every destination's whole trace is printed by Coq: keep the output small
    while len(hist) < length:
        r = rng.random()
        if r < p_add and st["next_id"] < max_dests:
            add()
        elif r < p_add + 0.1:
            remove()
        elif r < p_add + 0.25:
            hist.append(["globals", _global_fields(rng)])
        else:
            log()
    return hist


SHARD = 24      # cases per Coq file; the long histories are spread out, one per file (printing them dominates)


def gen_histories(rng, tier):
    if tier == "quick":
        n_small, n_big, big_hi, tail, n_long = 230, 6, 1100, 30, 0
    else:
        n_small, n_big, big_hi, tail, n_long = 2500, 40, 3000, 200, 60
    small = []
    for k in range(n_small):
        eq = k % 4 == 3
        small.append({"hist": _gen_history(rng, rng.randrange(1, 61), equal_dests=eq)})
        if eq:
            small[-1]["equal_dests"] = True
    big = []
    for k in range(n_big):
        nbuf = CAP + 1 + (k if k < 3 else rng.randrange(0, big_hi - CAP))
        big.append({"hist": _gen_history(rng, nbuf + 20 + rng.randrange(0, tail), first_add_after=nbuf, fault=0.15, lean=True),
                    "big": True})
    for _ in range(n_long):
        big.append({"hist": _gen_history(rng, rng.randrange(200, 3000), lean=True), "big": True})
    out = []
    while small or big:
        if big:
            out.append(big.pop(0))
        out += small[:SHARD - 1]
        small = small[SHARD - 1:]
    return out


def _interp_case(case):
    return {"classes": [], "registry": [], "pre": [o for o in case["hist"] if o[0] != "log"], "prog": [],
            "equal_dests": bool(case.get("equal_dests"))}


def impl_histories(case):
    import eliot
    ic = _interp_case(case)
    it = progs.Interp(ic)
    raised = []
    shared = {}
    for o in case["hist"]:
        try:
            if o[0] == "log" and case.get("raw"):
                # the application writes through Logger.write() from ONE dictionary that it refills for every message
                shared.clear()
                shared.update(it.fields(o[2]))
                shared["message_type"] = progs.type_name(o[1])
                before = dict(shared)
                eliot.Logger().write(shared)
                if list(shared.items()) != list(before.items()):
                    it.notes.append("caller_dict_mutated:the dictionary passed to Logger.write() now has keys %r" % sorted(shared))
            elif o[0] == "log":
                eliot.log_message(message_type=progs.type_name(o[1]), **it.fields(o[2]))
            else:
                it.preop(o)
        except BaseException as e:      # no call of the history may raise (remove of an unknown one is caught in preop)
            raised.append("%s:%s" % (o[0], type(e).__name__))
    ids = progs.all_dest_ids(ic)
    obs = {"dests": [[i, [progs.canon_msg(m, it) for m in it.dests[i].log]] for i in ids], "probes": [], "outcome": None}
    obs = progs.rename_uuids(obs)
    if not any(k < SERIAL for o in case["hist"] if o[0] == "globals" for k, _ in o[1]):
        # (the harness recognises reports by message_type / message, which such global fields override)
        it.check_renders()
    return {"dests": obs["dests"], "notes": it.notes, "raised": raised,
            "buffer_left": 0}


def _c_hop(o):
    if o[0] == "log":
        return C("HLog", progs.c_type(o[1]), progs.c_fields(o[2]))
    if o[0] == "add":
        return C("HAdd", [progs.c_dest(d) for d in o[1]])
    if o[0] == "remove":
        return C("HRemove", Nat(o[1]))
    return C("HGlobals", progs.c_fields(o[1]))


def _never_fails(case):
    return all(d[1][0] == "never" for o in case["hist"] if o[0] == "add" for d in o[1])


def model_histories(case):
    ids = to_coq([Nat(i) for i in progs.all_dest_ids(_interp_case(case))])
    h = to_coq([_c_hop(o) for o in case["hist"]])
    if not _never_fails(case):
        spec = "@nil (list msg)"
    else:
        # (printing is what costs: only the serial numbers of the specification are printed)
        spec = "map (fun i => map (fun m => [(%s, match fget %s m with Some v => v | None => VTime end)]) (spec_received i h)) %s" % (
            to_coq(Pos(SERIAL)), to_coq(Pos(SERIAL)), ids)
    obs = "fst (observe (run (mk_config [] []) (map hop_op h) init_state) %s)" % ids
    if case.get("big"):
        # long histories are about which messages are retained / handed over, in which order, with which global
        # fields: only message_type, the serial number and the fields f20..f23 are printed and compared
        obs = ("map (fun x => (fst x, map (filter (fun kv => existsb (Pos.eqb (fst kv)) %s)) (snd x))) (%s)"
               % (to_coq([Pos(k) for k in BIG_KEYS]), obs))
    return "let h := %s in (%s, %s)" % (h, obs, spec)


def model_obs_histories(case, parsed):
    traces, spec = parsed
    m = {"dests": [[i, [progs.m_msg(x) for x in ms]] for i, ms in traces], "probes": [], "outcome": None}
    out = {"dests": progs.rename_uuids(m)["dests"]}
    if _never_fails(case):
        # the declarative specification evaluated on the same history (theorem C12_history says they are equal)
        s = {"dests": [[i, [progs.m_msg(x) for x in ms]] for (i, _), ms in zip(traces, spec)], "probes": [], "outcome": None}
        want = out["dests"]
        if True:
            want = [[i, [[kv for kv in m if kv[0] == SERIAL] or [[SERIAL, ["time"]]] for m in ms]] for i, ms in want]
        if progs.rename_uuids(s)["dests"] != want:
            out["spec_received_differs_from_run"] = True
    return out


def project_histories(case, obs):
    if case.get("big"):
        return {"dests": [[i, [[kv for kv in m if kv[0] in BIG_KEYS] for m in ms]] for i, ms in obs["dests"]]}
    return {"dests": obs["dests"]}


def _canon_case_value(v):
    if "i" in v:
        return ["i", v["i"]]
    if "t" in v:
        return ["t", v["t"]]
    return ["a", progs.norm_atom(v["a"])]


def oracle_histories(case, obs):
    """the property text, evaluated on what the real destinations received"""
    hist = case["hist"]
    if obs["raised"]:
        return "a call of the history raised: %s" % obs["raised"][0]
    for n in obs["notes"]:
        if n.startswith(("render_mismatch", "caller_dict_mutated", "delivered_message_changed")):
            return n
    # positions
    first_add = next((i for i, o in enumerate(hist) if o[0] == "add"), None)
    reg, rem = {}, {}
    live = set()
    unknown_removes = 0
    for i, o in enumerate(hist):
        if o[0] == "add":
            for d in o[1]:
                reg[d[0]] = i
                live.add(d[0])
        elif o[0] == "remove":
            if o[1] in live:
                live.discard(o[1])
                rem[o[1]] = i
            else:
                unknown_removes += 1
    if obs["notes"].count("remove_unknown") != unknown_removes:
        return "remove_destination raised %d time(s), %d removal(s) of unknown destinations in the history" % (
            obs["notes"].count("remove_unknown"), unknown_removes)
    logs = [(i, o[2][0][1]["i"]) for i, o in enumerate(hist) if o[0] == "log"]      # (position, serial)
    log_pos = {s: i for i, s in logs}
    # global fields in force after each position
    gl, g = [], {}
    for o in hist:
        if o[0] == "globals":
            for k, v in o[1]:
                g[k] = _canon_case_value(v)
        gl.append(dict(g))

    def in_force(pos):      # during the call at position pos: fields set by earlier calls
        return gl[pos - 1] if pos > 0 else {}

    got = dict((i, ms) for i, ms in obs["dests"])
    for did, j in reg.items():
        r = rem.get(did, len(hist))
        buffered = [s for i, s in logs if i < j][-CAP:] if j == first_add else []
        later = [s for i, s in logs if j < i < r]
        want = buffered + later
        ms = got.get(did, [])
        serials = [dict((k, v) for k, v in m)[SERIAL][1] for m in ms if any(k == SERIAL for k, _ in m)]
        for s_ in serials:
            if s_ not in log_pos:
                return "destination %d received a message (serial %r) that was never logged" % (did, s_)
        if serials != want:
            return _explain(did, j, first_add, r, len(hist), buffered, later, serials)
        # every delivered message (failure reports included: they are delivered during the same call as the message
        # they are about) carries all global fields set before its delivery
        when, nbuf = j, 0
        for m in ms:
            d = dict((k, v) for k, v in m)
            if SERIAL in d:
                if nbuf < len(buffered):
                    when = j            # re-sent by the add
                    nbuf += 1
                else:
                    when = log_pos[d[SERIAL][1]]
            for k, v in in_force(when).items():
                if d.get(k) != v:
                    return ("destination %d: message delivered during call %d lacks global field %s=%r set before (has %r)"
                            % (did, when, progs.key_name(k), v, d.get(k)))
    return None


def _explain(did, j, first_add, r, n, buffered, later, serials):
    want = buffered + later
    what = []
    if len(set(serials)) != len(serials):
        what.append("a message was delivered more than once")
    if set(want) - set(serials):
        what.append("%d message(s) lost (first: serial %d)" % (len(set(want) - set(serials)), min(set(want) - set(serials))))
    extra = [s for s in serials if s not in set(want)]
    if extra:
        what.append("%d message(s) it must not receive (first: serial %d; %s)" % (
            len(extra), extra[0], "buffered before a first add that was not its own / before its registration / after its removal"))
    if not what:
        what.append("wrong order")
    return ("destination %d (registered by call %d%s, removed at %s): %s; expected %d buffered + %d later messages, got %d"
            % (did, j, ", the first add" if j == first_add else "", r if r < n else "never", "; ".join(what),
               len(buffered), len(later), len(serials)))


def describe_histories(case):
    hist = case["hist"]
    first_add = next((i for i, o in enumerate(hist) if o[0] == "add"), None)
    nbuf = sum(1 for o in hist[:first_add if first_add is not None else len(hist)] if o[0] == "log")
    out = []
    out.append("no add" if first_add is None else
               "buffered>1000" if nbuf > CAP else "buffered 1..1000" if nbuf else "nothing buffered")
    nadds = sum(1 for o in hist if o[0] == "add")
    out.append("adds:%s" % (nadds if nadds < 3 else "3+"))
    if any(len(o[1]) > 1 for o in hist if o[0] == "add"):
        out.append("several destinations in one add")
    if any(d[1][0] != "never" for o in hist if o[0] == "add" for d in o[1]):
        out.append("failing destination")
    if any(o[0] == "remove" for o in hist):
        out.append("remove")
    if case.get("equal_dests"):
        out.append("value-equal-destinations")
    if any(k < 19 for o in hist if o[0] == "globals" for k, _ in o[1]):
        out.append("global field named like a reserved key")
    if first_add is not None and any(o[0] == "globals" for o in hist[:first_add]) and nbuf:
        out.append("global fields set while buffering")
    return out


def nontrivial_histories(case, obs):
    hist = case["hist"]
    first_add = next((i for i, o in enumerate(hist) if o[0] == "add"), None)
    if first_add is None or not isinstance(obs, dict) or "dests" not in obs:
        return None
    nbuf = sum(1 for o in hist[:first_add] if o[0] == "log")
    nadds = sum(1 for o in hist if o[0] == "add")
    if nbuf or nadds > 1 or any(o[0] == "remove" for o in hist):
        return json.dumps(hist, sort_keys=True)
    return None


def shrink_histories(case):
    hist = case["hist"]
    n = len(hist)
    extra = {"big": True} if case.get("big") else {}
    first_add = next((i for i, o in enumerate(hist) if o[0] == "add"), None)
    if n > 200:
        # long histories: a handful of structured candidates only (each costs a worker run)
        if first_add is not None:
            yield dict(extra, hist=hist[:first_add + 1])
            yield dict(extra, hist=[o for i, o in enumerate(hist) if i >= first_add or o[0] == "log"])
            nlog = sum(1 for o in hist[:first_add] if o[0] == "log")
            for keep in (CAP + 1, CAP, 2):
                if nlog > keep:
                    drop, out = nlog - keep, []
                    for i, o in enumerate(hist):
                        if i < first_add and o[0] == "log" and drop:
                            drop -= 1
                            continue
                        out.append(o)
                    yield dict(extra, hist=out)
        yield dict(extra, hist=hist[:n // 2])
        return
    for size in (n // 2, n // 4, 4, 1):
        if size < 1:
            continue
        for i in range(0, n, size):
            cand = hist[:i] + hist[i + size:]
            if cand and cand != hist:
                yield {"hist": cand}


# =====================================================================================
# handover: send || first add on the real code

FILES = ("eliot/_output.py", "eliot/_action.py")
T_FOR, T_CALL, T_READ, T_SET, T_GRAB, T_REBIND, T_EXTEND, T_TEST, T_BFOR, T_ACQ, T_REL = range(1, 12)
# how many source lines of Destinations carry each statically recognisable atomic step
CANONICAL_SIGNATURE = [(1, 1), (3, 2), (4, 2), (5, 1), (6, 2), (7, 1), (8, 1), (9, 1)]


def _discover_names(D):
    """attribute names of a fresh Destinations(), found by the type of what they hold (so that a rename of a
    private attribute does not change the classification): the 'any destination added yet' flag, the
    destination list, and the message list of the start-up buffer"""
    d0 = D()
    flags = [k for k, v in vars(d0).items() if isinstance(v, bool)]
    lists = [k for k, v in vars(d0).items() if isinstance(v, list) and v and callable(v[0])]
    names = {"flag": flags[0] if len(flags) == 1 else "_any_added",
             "dests": lists[0] if len(lists) == 1 else "_destinations"}
    buf = getattr(d0, names["dests"])[0]
    blists = [k for k, v in vars(buf).items() if isinstance(v, list)]
    names["messages"] = blists[0] if len(blists) == 1 else "messages"
    return names


def _line_tags(code, names=None):
    """line number -> atomic steps of the model that the line performs, from its bytecode"""
    names = names or {"flag": "_any_added", "dests": "_destinations", "messages": "messages"}
    import dis
    by = {}
    for ins in dis.get_instructions(code):
        ln = ins.positions.lineno if ins.positions is not None else None
        if ln is not None:
            by.setdefault(ln, []).append(ins)

    def loads(insl, attr):
        return any(i.opname in ("LOAD_ATTR", "LOAD_METHOD") and i.argval == attr for i in insl)

    def stores(insl, attr):
        return any(i.opname == "STORE_ATTR" and i.argval == attr for i in insl)

    def iters(insl):
        return any(i.opname in ("GET_ITER", "FOR_ITER") for i in insl)

    tags, var = {}, None
    for ln, insl in by.items():
        t = []
        if stores(insl, names["flag"]):
            t.append(T_SET)
        elif loads(insl, names["flag"]):
            t.append(T_READ)
        if loads(insl, names["messages"]):
            t.append(T_GRAB)
            var = next((i.argval for i in insl if i.opname == "STORE_FAST"), None)
        if stores(insl, names["dests"]):
            t.append(T_REBIND)
        if loads(insl, "extend"):
            t.append(T_EXTEND)
        if iters(insl) and loads(insl, names["dests"]):
            t.append(T_FOR)
        tags[ln] = t
    if var is not None:
        for ln, insl in by.items():
            if any(i.opname.startswith("LOAD_FAST") and i.argval == var for i in insl):
                if iters(insl):
                    tags[ln].append(T_BFOR)
                elif any(i.opname.startswith("POP_JUMP") for i in insl):
                    tags[ln].append(T_TEST)
    return tags


def impl_handover(case):
    import eliot
    from eliot import _output, log_message
    from lib.linesched import LineScheduler, Deadlock, segments_to_schedule, SchedRLock
    D = _output.Destinations
    tagmap = {}
    names = _discover_names(D)
    for name, fn in vars(D).items():
        if callable(fn) and hasattr(fn, "__code__"):
            tagmap[name] = _line_tags(fn.__code__, names)
    # The step-exact replay in the model needs every atomic step of the model to be recognisable on
    # exactly the expected number of source lines.  If the code has been restructured so that this no
    # longer holds, the run is still judged by the oracle and compared with the model on what the
    # theorems guarantee for every schedule (delivered list, completion), not step by step.
    from collections import Counter
    sig = Counter(t for tags in tagmap.values() for ts in tags.values() for t in ts)
    classifiable = sorted(sig.items()) == CANONICAL_SIGNATURE
    d = D()
    _output.Logger._destinations = d
    d.addGlobalFields(g=7)
    npre = case["npre"]
    for k in range(1, npre + 1):
        log_message("pre", n=k)
    got = []

    def dest(message):
        got.append(dict(message))
    sched = LineScheduler(files=FILES)
    from lib.linesched import instrument
    instrument(d, sched)          # the hand-over lock, whatever attribute holds it
    bufobj = getattr(d, names["dests"])[0]
    snaps = []

    def snap():
        return (len(getattr(bufobj, names["messages"])), len(got), len(sched.events))

    class Trace(list):
        def append(self, t):
            snaps.append(snap())
            list.append(self, t)
    sched.trace = Trace()
    a = lambda: log_message("concurrent", n=npre + 1)
    b = lambda: d.add(dest)
    try:
        sched.run([a, b], segments_to_schedule(case["segs"]), fallback="finish_first")
    except Deadlock as e:
        return {"deadlock": str(e)[:300], "where": [w[:4] for w in sched.where[-6:]]}
    snaps.append(snap())
    delivered = [m.get("n") for m in got]
    buffer = [m.get("n") for m in getattr(bufobj, names["messages"])]
    log_message("after", n=npre + 2)
    # classify the executed line steps
    labels, msched, pos = [], [], []
    for k, w in enumerate(sched.where):
        t, fname, line, func = w[0], w[1], w[2], w[3]
        tags = list(tagmap.get(func, {}).get(line, [])) if fname == "_output.py" else []
        if snaps[k + 1][0] > snaps[k][0] or snaps[k + 1][1] > snaps[k][1]:
            tags.append(T_CALL)
        for ev in sched.events[snaps[k][2]:snaps[k + 1][2]]:
            tags.append(T_ACQ if ev[0] == "acquire" else T_REL)
        for tg in tags:
            labels.append([t, tg])
            msched.append(t)
        pos.append([t, func, tags])
    # did the two calls overlap?
    ts = list(sched.trace)
    first = {t: ts.index(t) for t in (0, 1) if t in ts}
    last = {t: len(ts) - 1 - ts[::-1].index(t) for t in (0, 1) if t in ts}
    overlap = len(first) == 2 and not (last[0] < first[1] or last[1] < first[0])
    return {"delivered": delivered, "buffer": buffer, "final": [m.get("n") for m in got],
            "fields_ok": all(m.get("g") == 7 for m in got), "results": sched.results,
            "labels": labels, "msched": msched, "overlap": overlap, "classifiable": classifiable,
            "sig": [[t, f] for t, f, tg in _compress(pos)], "steps": len(ts)}


def _compress(pos):
    out = []
    for p in pos:
        if not out or out[-1][:2] != p[:2]:
            out.append(p)
    return out


def project_handover(case, obs):
    if "deadlock" in obs:
        return {"deadlock": True}
    fin = all(r and r[0] == "ok" for r in obs["results"])
    if not obs.get("classifiable", True):
        return {"delivered": obs["delivered"], "finished": fin}
    return {"delivered": obs["delivered"], "buffer": obs["buffer"], "finished": fin, "labels": obs["labels"]}


def post_handover(cases, obs_list):
    from lib import coqbridge
    exprs, idx = [], []
    for i, (case, obs) in enumerate(zip(cases, obs_list)):
        if "deadlock" in obs:
            continue
        npre = case["npre"]
        msched = obs["msched"] if obs.get("classifiable", True) else [0] * 60 + [1] * 200 + [0] * 60
        exprs.append("race_obs %s %d %s" % (to_coq([Nat(k) for k in range(1, npre + 1)]), npre + 1,
                                            to_coq([Nat(t) for t in msched])))
        idx.append(i)
    vals = coqbridge.eval_in_coq(["Model.Core", "Model.Handover"], exprs, shard=60, jobs=12)
    out = [None] * len(cases)
    for i, v in zip(idx, vals):
        delivered, buf, fin, labels = flat(v, 4)
        if not obs_list[i].get("classifiable", True):
            out[i] = {"delivered": list(delivered), "finished": bool(fin)}
            continue
        out[i] = {"delivered": list(delivered), "buffer": list(buf), "finished": bool(fin),
                  "labels": [[t, l] for t, l in labels if l != 0]}
    return out


def oracle_handover(case, obs):
    if "deadlock" in obs:
        return "the two calls did not both return: %s" % obs["deadlock"]
    for t, r in enumerate(obs["results"]):
        if not r or r[0] != "ok":
            return "%s raised: %r" % (["log_message", "add_destinations"][t], r)
    npre = case["npre"]
    want = list(range(1, npre + 3))
    got = obs["final"]
    if len(set(map(str, got))) != len(got):
        return "a message was delivered twice: %r" % (got,)
    missing = [n for n in want if n not in got]
    if missing:
        which = "the concurrently logged message" if missing == [npre + 1] else "message(s) %r" % missing
        return "%s lost across the hand-over: delivered %r, still in the old buffer %r" % (which, got, obs["buffer"])
    if got != want:
        return "delivered out of order: %r (buffered messages must come first, in order)" % (got,)
    if not obs["fields_ok"]:
        return "a delivered message lacks the global field set before"
    return None


def gen_handover(rng, tier):
    out = []
    quick = tier == "quick"
    # every single-preemption schedule, both directions (beyond the end of a call the schedule is serial)
    for npre, na, nb, step in ((1, 64, 56, 1), (0, 64, 30, 1 if not quick else 2), (2, 64, 72, 1 if not quick else 2)):
        for i in range(0, na + 1, step):
            out.append({"npre": npre, "segs": [[0, i], [1, 1000], [0, 1000]]})
        for j in range(0, nb + 1, step):
            out.append({"npre": npre, "segs": [[1, j], [0, 1000], [1, 1000]]})
    # seed-chosen schedules with several preemptions, concentrated where the calls are inside _output.py
    for _ in range(60 if quick else 1500):
        npre = rng.choice([0, 1, 1, 2])
        segs = []
        if rng.random() < 0.7:
            segs.append([0, rng.randrange(30, 46)])     # the logging thread up to around Logger.write / send
        t = rng.randrange(2)
        for _ in range(rng.randrange(1, 12)):
            segs.append([t, rng.randrange(1, 7)])
            t = 1 - t
        out.append({"npre": npre, "segs": segs})
    return out


def nontrivial_handover(case, obs):
    if not isinstance(obs, dict) or "msched" not in obs or not obs.get("overlap"):
        return None
    return json.dumps([case["npre"], obs["msched"]])


def describe_handover(case):
    return ["buffered:%d" % case["npre"], "preemptions:%s" % (len(case["segs"]) - 1 if len(case["segs"]) < 5 else "4+")]


def known_handover(case, obs, failure):
    # the send || first add race (F5) is repaired in /repo: every loss, duplication or reordering is a violation
    return None


def gen_raw_histories(rng, tier, equal_every=0):
    out = []
    for k in range(60 if tier == "quick" else 1000):
        eq = bool(equal_every) and k % equal_every == 0
        out.append({"hist": _gen_history(rng, rng.randrange(3, 50), first_add_after=rng.choice([None, 2, 5, 9]), fault=0.2, equal_dests=eq),
                    "raw": True, "equal_dests": eq})
    for k in range(2 if tier == "quick" else 10):
        nbuf = (CAP + rng.randrange(1, 900)) if k % 2 == 0 else (2 * CAP + rng.randrange(0, 700))     # beyond 1000 and beyond 2000
        out.append({"hist": _gen_history(rng, nbuf + 30, first_add_after=nbuf, fault=0.1, lean=True), "raw": True, "big": True})
    return out


FAMILIES = [
    Family("histories", gen_histories, impl_histories, model_histories, model_obs_histories, oracle_histories,
           nontrivial_histories, imports=["Model.Core", "Model.Prog", "Model.Handover"], project=project_histories,
           shrink=shrink_histories, describe=describe_histories, shard=SHARD, coq_shard=SHARD, case_timeout=30),
    # Logger.write(dict) from one re-used dictionary: no model evaluation (such messages carry no task fields), the statement only
    Family("raw_histories", gen_raw_histories, impl_histories, None, None, oracle_histories, nontrivial_histories,
           describe=describe_histories, shard=SHARD, case_timeout=30),
    Family("handover", gen_handover, impl_handover, None, None, oracle_handover, nontrivial_handover,
           known=known_handover, imports=["Model.Core", "Model.Handover"], project=project_handover,
           describe=describe_handover, shard=40, case_timeout=30),
]
FAMILIES[2].post_model = post_handover


# ---- the same through the PUBLIC functions of the eliot package, in a fresh interpreter (the import-time registry) --------
def gen_public(rng, tier):
    out = []
    for _ in range(8 if tier == "quick" else 80):
        hist, serial, did, live = [], 0, 0, []
        nbuf = rng.choice([0, 1, 3, 7])
        first = True
        for step in range(rng.randrange(4, 16) + nbuf):
            r = rng.random()
            if step < nbuf or r < 0.55:
                serial += 1
                hist.append(["log", rng.randrange(10, 15), [[19, {"i": serial}]]])
            elif r < 0.8 and did < 6:
                n = rng.choice([2, 3]) if first else rng.choice([1, 1, 2])
                ds = []
                for _ in range(n):
                    ds.append([did, []])
                    live.append(did)
                    did += 1
                hist.append(["add", ds, rng.choice(["single", "many"])])
                first = False
            elif r < 0.9 and live:
                hist.append(["remove", live.pop(rng.randrange(len(live)))])
            else:
                hist.append(["globals", [[46, {"i": rng.randrange(3)}]]])
        if first:
            hist.append(["add", [[did, []], [did + 1, []]], "many"])
        out.append({"hist": hist})
    return out


def impl_public(case):
    import subprocess, sys, tempfile
    from lib.framework import ROOT
    d = tempfile.mkdtemp(prefix="pub", dir=os.path.join(ROOT, ".work"))
    try:
        p = os.path.join(d, "hist.json")
        json.dump(case["hist"], open(p, "w"))
        r = subprocess.run([sys.executable, "-m", "lib.public_child", p], cwd=ROOT, stdout=subprocess.PIPE, stderr=subprocess.PIPE,
                           universal_newlines=True, timeout=60, env=dict(os.environ))
        try:
            return json.loads(r.stdout.strip().splitlines()[-1])
        except Exception:
            return {"got": {}, "raised": ["child failed: " + (r.stderr or r.stdout)[-300:]]}
    finally:
        import shutil
        shutil.rmtree(d, ignore_errors=True)


def oracle_public(case, obs):
    if obs["raised"]:
        return "a public call raised: %s" % obs["raised"][0]
    hist = case["hist"]
    first_add = next(i for i, o in enumerate(hist) if o[0] == "add")
    logs = [(i, o[2][0][1]["i"]) for i, o in enumerate(hist) if o[0] == "log"]
    reg, rem = {}, {}
    for i, o in enumerate(hist):
        if o[0] == "add":
            for did, _ in o[1]:
                reg[did] = i
        elif o[0] == "remove":
            rem[o[1]] = i
    for did, j in reg.items():
        r = rem.get(did, len(hist))
        want = ([s for i, s in logs if i < j][-CAP:] if j == first_add else []) + [s for i, s in logs if j < i < r]
        got = obs["got"].get(str(did), [])
        if got != want:
            return ("destination %d (registered by call %d%s through the public API) received serials %r, expected %r"
                    % (did, j, ", the first add" if j == first_add else "", got, want))
    return None


FAMILIES.append(Family("public_api", gen_public, impl_public, None, None, oracle_public,
                       lambda case, obs: json.dumps(case), shard=2, case_timeout=90))
