"""C02 — see properties.jsonl; family: generated logging programs."""
from lib import progs, oracles

ID = "C02"
PROPS_FILE = "Props/C02.v"
TRUSTED = ["uuid4 freshness is modelled by a counter"]
ASSUMPTIONS = ["programs are generated from the documented AST (lib/progs.py); every spawned thread is joined"]
RULE = ("logging programs generated from VERIF_SEED (nesting depth <= 4..8, all API styles, fault stream per property); "
        "distinct by program text, non-trivial when at least 3 messages reached the destinations")
LEVEL_TEXT = 'Coq theorems about the position counter (Model/Core.v) + correspondence of full per-destination message sequences with the model + the placement statement (required keys, uniqueness of (task_uuid, task_level), positions exactly 1..n, start at 1, end at n, emission order = level order) evaluated on what an always-accepting destination received while other destinations fail.'
LEVEL_NOTE = "Trusted: Coq kernel; hand-written model Model/Core.v + Model/Prog.v tied to /repo by per-run correspondence on generated logging programs (real control flow, real threads for hand-offs); Python harness. Partial: the run-wide uniqueness/contiguity invariant over arbitrary operation sequences is being proved (DESIGN section 8); domain excludes finish() while the action is current (known finding F6) and failing field serializers (as the property's quantifier does)."

# F6 (known finding): finish() called while the action is still the current one, with a destination
# failing on that end message: the failure report is placed inside the action, after its end message.
F6_CASE = {"classes": [], "registry": [],
           "pre": [["add", [[1, ["never"], {"id": 90, "cls": 2, "text": 100, "sr": False}],
                            [2, ["on_end"], {"id": 91, "cls": 9, "text": 101, "sr": False}]]]],
           "prog": [["act", 1, "with", False, 10, [[19, {"i": 1}]], None, [[19, {"i": 1}]],
                     [["act", 2, "ctx", False, 11, [[19, {"i": 2}]], None, [[19, {"i": 2}]],
                       [["finish_again", 2, None]], "start_action"]], "start_action"]]}


def _finishes_enclosing(stmts, enclosing=()):
    for st in stmts:
        if st[0] == "finish_again" and st[1] in enclosing:
            return True
        if st[0] == "act" and _finishes_enclosing(st[8], enclosing + (st[1],)):
            return True
        if st[0] in ("try",) and _finishes_enclosing(st[1], enclosing):
            return True
        if st[0] == "reenter" and _finishes_enclosing(st[2], enclosing + (st[1],)):
            return True
        if st[0] == "handoff" and _finishes_enclosing(st[5], (st[3],)):
            return True
    return False


def known(case, obs, failure):
    fails_on_end = any(d[1][0] in ("on_end", "always") for o in case["pre"] if o[0] == "add" for d in o[1])
    if _finishes_enclosing(case["prog"]) and fails_on_end and isinstance(failure, str) and "end message" in failure:
        return "F6-finish-while-current"
    return None


FAMILIES = [
    progs.program_family("programs", oracles.oracle_c02, 120, 2500, deep=dict(depth=7, width=5), **dict(fault=0.6, registry_rate=0.6, p_fault_ser=0.0, depth=4, p_finish_inside=0.06)),
]
FAMILIES[0].corpus = [F6_CASE]
FAMILIES[0].known = known
