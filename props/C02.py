"""C02 — see properties.jsonl; family: generated logging programs."""
from lib import progs, oracles

ID = "C02"
PROPS_FILE = "Props/C02.v"
TRUSTED = ["uuid4 freshness is modelled by a counter"]
ASSUMPTIONS = ["programs are generated from the documented AST (lib/progs.py); every spawned thread is joined"]
RULE = ("logging programs generated from VERIF_SEED (nesting depth <= 4..8, all API styles, fault stream per property); "
        "distinct by program text, non-trivial when at least 3 messages reached the destinations")
LEVEL_TEXT = 'Coq theorems about the position counter (Model/Core.v) + correspondence of full per-destination message sequences with the model + the placement statement (required keys, uniqueness of (task_uuid, task_level), positions exactly 1..n, start at 1, end at n, emission order = level order) evaluated on what an always-accepting destination received while other destinations fail.'
LEVEL_NOTE = "Trusted: Coq kernel; hand-written model Model/Core.v + Model/Prog.v tied to /repo by per-run correspondence on generated logging programs (real control flow, real threads for hand-offs); Python harness. Partial: the run-wide uniqueness/contiguity invariant over arbitrary operation sequences is being proved (DESIGN section 8); domain excludes finish() while the action is current (known finding F6) and failing field serializers (as the property's quantifier does)."

# F6 (known finding): finish() called while the action is still the current one, with a destination
# failing on that end message: the failure report is placed inside the action, after its end message.
F6_CASE = {"classes": [], "registry": [],
           "pre": [["add", [[1, ["never"], {"id": 90, "cls": 2, "text": 100, "sr": False}],
                            [2, ["on_end"], {"id": 91, "cls": 9, "text": 101, "sr": False}]]]],
           "prog": [["act", 1, "with", False, 10, [[19, {"i": 1}]], None, [[19, {"i": 1}]],
                     [["act", 2, "ctx", False, 11, [[19, {"i": 2}]], None, [[19, {"i": 2}]],
                       [["finish_again", 2, None]], "start_action"]], "start_action"]]}


def _finishes_enclosing(stmts, enclosing=()):
    for st in stmts:
        if st[0] == "finish_again" and st[1] in enclosing:
            return True
        if st[0] == "act" and _finishes_enclosing(st[8], enclosing + (st[1],)):
            return True
        if st[0] in ("try", "handler") and _finishes_enclosing(st[1], enclosing):
            return True
        if st[0] == "reenter" and _finishes_enclosing(st[2], enclosing + (st[1],)):
            return True
        if st[0] == "handoff" and _finishes_enclosing(st[5], (st[3],)):
            return True
    return False


def known(case, obs, failure):
    # some destination failed during the run (the report about the end message is what lands after it)
    fails_on_end = isinstance(obs, dict) and any(any(f) for f in obs.get("fails", {}).values())
    if _finishes_enclosing(case["prog"]) and fails_on_end and isinstance(failure, str) and "end message" in failure:
        return "F6-finish-while-current"
    return None


FAMILIES = [
    progs.program_family("programs", oracles.oracle_c02, 120, 2500, deep=dict(depth=7, width=5), **dict(p_reseed=0.3, p_reserved=0.15, fault=0.6, registry_rate=0.6, p_fault_ser=0.0, depth=4, p_finish_inside=0.06)),
]
from lib import oplists
from lib.framework import Family
import json


def gen_scripts(rng, tier):
    n = 60 if tier == "quick" else 1200
    return [oplists.gen_script(rng, late_add=(i % 3 == 0), n_ops=rng.randrange(6, 22)) for i in range(n)]


def oracle_scripts(case, obs):
    bad = oracles.note_failures(obs, ("logging_raised", "foreign_exception"))
    if bad:
        return bad
    return oracles.placement(obs["raw"]["1"]) if "1" in obs["raw"] else None


def known_scripts(case, obs, failure):
    kinds = [o[0] for o in case["ops"]]
    late = "add" in kinds and any(k in ("start", "log", "tb") for k in kinds[:kinds.index("add")])
    failing = any(any(f) for f in obs.get("fails", {}).values()) if isinstance(obs, dict) else False
    if late and failing and isinstance(failure, str) and "emission order" in failure:
        return "F8-buffered-replay-report-order"
    return None


FAMILIES.append(Family("scripts", gen_scripts, oplists.run_case, oplists.model_expr, oplists.model_obs, oracle_scripts,
                       lambda case, obs: json.dumps(case["ops"]) if isinstance(obs, dict) and sum(len(m) for _, m in obs.get("dests", [])) >= 3 else None,
                       known=known_scripts, imports=["Model.Core", "Model.Prog"], project=oplists.project,
                       describe=oplists.describe, shard=30, coq_shard=60))
F8_CASE = {"classes": [], "registry": [],
           "ops": [["start", 1, False, 10, [[19, {"i": 1}]]], ["enter", 1], ["log", 11, []], ["log", 12, []],
                   ["add", [[1, ["never"], {"id": 90, "cls": 2, "text": 100, "sr": False}],
                            [2, ["not_reports"], {"id": 91, "cls": 9, "text": 101, "sr": False}]]],
                   ["exit", 1, None]]}
FAMILIES[1].corpus = [F8_CASE]
FAMILIES[0].corpus = [F6_CASE]
FAMILIES[0].known = known


# ---- an open action logging while another thread performs the first add_destinations() (line-granular schedules) ----
def gen_handover(rng, tier):
    out = []
    quick = tier == "quick"
    for i in range(0, 260, 13 if quick else 4):
        for j in range(0, 66, 6 if quick else 2):
            out.append({"segs": [[0, i], [1, j], [0, 2000], [1, 2000]]})
    for i in range(0, 260, 10 if quick else 3):
        out.append({"segs": [[0, i], [1, 2000], [0, 2000]]})
    for _ in range(40 if quick else 800):
        segs, t = [], rng.randrange(2)
        for _ in range(rng.randrange(2, 10)):
            segs.append([t, rng.randrange(1, 80 if t == 0 else 25)])
            t = 1 - t
        out.append({"segs": segs})
    return out


def impl_handover(case):
    from eliot import _output, log_message, start_action
    from lib.linesched import LineScheduler, Deadlock, segments_to_schedule, instrument
    d = _output.Destinations()
    _output.Logger._destinations = d
    got = []
    sched = LineScheduler(files=("eliot/_output.py",))
    instrument(d, sched)

    def a():
        with start_action(action_type="act"):
            for n in range(1, 6):
                log_message("m", n=n)

    def b():
        d.add(lambda m: got.append(dict(m)))
    try:
        sched.run([a, b], segments_to_schedule([tuple(x) for x in case["segs"]]), fallback="finish_first")
    except Deadlock as e:
        return {"deadlock": str(e)[:300]}
    ts = list(sched.trace)
    overlap = 0 in ts and 1 in ts and not (max(i for i, t in enumerate(ts) if t == 0) < ts.index(1)
                                           or max(i for i, t in enumerate(ts) if t == 1) < ts.index(0))
    return {"results": sched.results, "raw": {"1": [progs.raw_msg(m) for m in got]}, "overlap": overlap}


def oracle_handover(case, obs):
    if "deadlock" in obs:
        return "the two calls dead-locked: %s" % obs["deadlock"]
    for r in obs["results"]:
        if not r or r[0] != "ok":
            return "a call raised: %r" % (r,)
    msgs = obs["raw"]["1"]
    ns = [m.get("n") for m in msgs if m.get("message_type") == "m"]
    if sorted(ns) != [1, 2, 3, 4, 5] or len(msgs) != 7:
        return "the action's 7 messages must each arrive once; got %r" % [[m.get("action_status"), m.get("n")] for m in msgs]
    return oracles.placement(msgs)


FAMILIES.append(Family("handover", gen_handover, impl_handover, None, None, oracle_handover,
                       lambda case, obs: json.dumps(case) if isinstance(obs, dict) and obs.get("overlap") else None,
                       shard=40, case_timeout=30))


# ---- one preserve_context callable invoked by several threads at once: positions stay unique (line-granular schedules) ----
from props import C06 as _c06


def oracle_single_use(case, obs):
    if case.get("no_context") or "raw" not in obs:
        return None
    if obs.get("thread_errors"):
        return "a thread failed: %r" % (obs["thread_errors"][:1],)
    # the callable runs in another thread after the parent action has ended, so only the uniqueness clause applies here
    seen = set()
    for m in obs["raw"]["1"]:
        k = (m.get("task_uuid"), tuple(m.get("task_level") or ()))
        if k in seen:
            return "two messages share (task_uuid, task_level) = %s%r" % (str(k[0])[:8], list(k[1]))
        seen.add(k)
    return None


FAMILIES.append(Family("single_use", _c06.gen_single, _c06.impl_single, None, None, oracle_single_use,
                       lambda case, obs: json.dumps(case) if not case.get("no_context") else None, shard=40, case_timeout=30))


# ---- actions opened inside generators driven round-robin (the generator family of C15): placement needs the contexts kept apart ----
from props import C15 as _c15


def gen_generators(rng, tier):
    return _c15.gen_scripts(rng, tier)[:80 if tier == "quick" else 2500]


FAMILIES.append(Family("generators", gen_generators, _c15.impl_scripts, _c15.model_scripts, _c15.model_obs_scripts,
                       _c15.oracle_scripts, _c15.nontrivial_scripts, imports=["Model.Generators"],
                       project=_c15.project_scripts, shrink=_c15.shrink_scripts, describe=_c15.describe_scripts,
                       shard=100, coq_shard=30))


# fixed feature programs (lib/progs.py CORPUS_FEATURES) run first under every seed
for _f in FAMILIES:
    if _f.name in ("programs", "roundtrip"):
        _f.corpus = list(_f.corpus or []) + [dict(c) for c in progs.CORPUS_FEATURES]


# wide actions: hand-offs taken at positions >= 10 (multi-digit components in serialized task ids)
FAMILIES.append(progs.program_family("wide_handoffs", oracles.oracle_c02, 30, 500, **dict(depth=2, width=16, p_handoff=0.3, p_raise=0.03, fault=0.3, registry_rate=0.2, p_fault_ser=0.0)))
