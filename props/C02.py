"""C02 — see properties.jsonl; family: generated logging programs."""
from lib import progs, oracles

ID = "C02"
PROPS_FILE = "Props/C02.v"
TRUSTED = ["uuid4 freshness is modelled by a counter"]
ASSUMPTIONS = ["programs are generated from the documented AST (lib/progs.py); every spawned thread is joined"]
RULE = ("logging programs generated from VERIF_SEED (nesting depth <= 4..8, all API styles, fault stream per property); "
        "distinct by program text, non-trivial when at least 3 messages reached the destinations")
LEVEL_TEXT = 'Coq theorems about the position counter (Model/Core.v) + correspondence of full per-destination message sequences with the model + the placement statement (required keys, uniqueness of (task_uuid, task_level), positions exactly 1..n, start at 1, end at n, emission order = level order) evaluated on what an always-accepting destination received while other destinations fail.'
LEVEL_NOTE = "Trusted: Coq kernel; hand-written model Model/Core.v + Model/Prog.v tied to /repo by per-run correspondence on generated logging programs (real control flow, real threads for hand-offs); Python harness. Partial: the run-wide uniqueness/contiguity invariant over arbitrary operation sequences is being proved (DESIGN section 8); domain excludes finish() while the action is current (known finding F6) and failing field serializers (as the property's quantifier does)."

FAMILIES = [
    progs.program_family("programs", oracles.oracle_c02, 120, 2500, deep=dict(depth=7, width=5), **dict(fault=0.6, registry_rate=0.6, p_fault_ser=0.0, depth=4)),
]
