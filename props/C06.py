"""C06 — a serialized task id continues the same tree in another thread/process."""
from lib.framework import Family
from lib.coqbridge import Pos, Str, C, Raw, to_coq, flat

ID = "C06"
PROPS_FILE = "Props/C06.v"
TRUSTED = [
    "threading.Lock.acquire(False) is an atomic test-and-set (single-use theorem is relative to it)",
    "uuid4() text contains no '@' (hypothesis no_char at_sign of the id theorems)",
]
ASSUMPTIONS = ["levels produced by the library are lists of positive integers"]
RULE = ("ids: levels/uuids drawn from the seed (depth 0-12, components up to 10^30, digit strings with leading zeros); "
        "non-trivial = distinct (uuid, level) with depth >= 1")


# ---------------------------------------------------------------- family: ids
def gen_ids(rng, tier):
    n = 150 if tier == "quick" else 3000
    cases = [{"uuid": "u", "level": []}, {"uuid": "", "level": [1]}]
    alphabet = "0123456789abcdef-"
    for i in range(n):
        depth = rng.choice([0, 1, 1, 2, 3, 4, 6, 12])
        level = []
        for _ in range(depth):
            k = rng.choice([1, 1, 2, 3, 9, 10, 11, 99, 100, 1000, 2 ** 31, 2 ** 63, 2 ** 64 + 1, 10 ** 30])
            level.append(k + rng.randrange(0, 3))
        uuid = "".join(rng.choice(alphabet) for _ in range(rng.choice([0, 1, 8, 36])))
        cases.append({"uuid": uuid, "level": level, "as_bytes": rng.random() < 0.5})
    # raw strings for fromString: digits and slashes only, non-zero segments
    for i in range(n // 3):
        segs = []
        for _ in range(rng.randrange(0, 6)):
            r = rng.random()
            if r < 0.25:
                segs.append("")
            else:
                segs.append("0" * rng.randrange(0, 3) + str(rng.randrange(1, 10 ** rng.randrange(1, 25))))
        cases.append({"raw": rng.choice(["", "/"]) + "/".join(segs) + rng.choice(["", "/"])})
    return cases


def impl_ids(case):
    from eliot._action import TaskLevel, Action
    from eliot import MemoryLogger
    if "raw" in case:
        return {"back": TaskLevel.fromString(case["raw"]).as_list()}
    level, uuid = case["level"], case["uuid"]
    s = TaskLevel(level=list(level)).toString()
    back = TaskLevel.fromString(s).as_list()
    # the real id path: an action at `level` hands out the id of its next position
    logger = MemoryLogger()
    a = Action(logger, uuid, TaskLevel(level=list(level)), "t")
    tid = a.serialize_task_id()
    tid2 = a.serialize_task_id()
    arg = tid if case.get("as_bytes") else tid.decode("ascii")
    cont = Action.continue_task(logger, task_id=arg)
    start = logger.messages[-1]
    return {"s": s, "back": back, "tid": tid.decode("ascii"), "tid2": tid2.decode("ascii"),
            "cont_uuid": cont.task_uuid, "cont_start_level": start["task_level"],
            "cont_start_uuid": start["task_uuid"], "cont_type": start["action_type"]}


def _coq_str(s):
    return "(list_ascii_of_string %s)" % to_coq(Str(s))


def model_ids(case):
    if "raw" in case:
        return "from_string %s" % _coq_str(case["raw"])
    lv = to_coq([Pos(k) for k in case["level"]])
    u = _coq_str(case["uuid"])
    return ("let l := %s in let u := %s in "
            "(string_of_list_ascii (to_string l), from_string (to_string l), "
            " string_of_list_ascii (make_id u (child l)), string_of_list_ascii (make_id u (next_sibling (child l))),"
            " match parse_id (make_id u (child l)) with Some (u', l') => Some (string_of_list_ascii u', child l') | None => None end)"
            % (lv, u))


def _unstr(v):
    return v[1] if isinstance(v, tuple) and v and v[0] == "#str" else v


def model_obs_ids(case, v):
    if "raw" in case:
        return {"back": v[1] if v is not None else None}
    s, back, tid, tid2, cont = flat(v, 5)
    cont = cont[1] if cont is not None else None
    return {"s": _unstr(s), "back": back[1] if back is not None else None, "tid": _unstr(tid), "tid2": _unstr(tid2),
            "cont_uuid": _unstr(cont[0]) if cont else None,
            "cont_start_level": cont[1] if cont else None}


def project_ids(case, obs):
    if "raw" in case:
        return obs
    return {k: obs[k] for k in ("s", "back", "tid", "tid2", "cont_uuid", "cont_start_level")}


def oracle_ids(case, obs):
    if "raw" in case:
        return None
    level, uuid = case["level"], case["uuid"]
    if obs["back"] != level:
        return "fromString(toString(l)) = %r, expected %r" % (obs["back"], level)
    if obs["tid"] == obs["tid2"]:
        return "two serialize_task_id calls returned the same id %r" % obs["tid"]
    if obs["cont_uuid"] != uuid or obs["cont_start_uuid"] != uuid:
        return "continued action has task_uuid %r, expected %r" % (obs["cont_uuid"], uuid)
    if obs["cont_start_level"] != level + [1, 1]:
        return "continued action starts at %r, expected the reserved position %r + [1]" % (obs["cont_start_level"], level + [1])
    if obs["cont_type"] != "eliot:remote_task":
        return "continued action type %r" % obs["cont_type"]
    return None


def nontrivial_ids(case, obs):
    if "raw" in case:
        return case["raw"] if "/" in case["raw"].strip("/") else None
    return (case["uuid"], tuple(case["level"])) if case["level"] else None


FAMILIES = [
    Family("ids", gen_ids, impl_ids, model_ids, model_obs_ids, oracle_ids, nontrivial_ids,
           imports=["Base.Level"], project=project_ids,
           describe=lambda c: "raw" if "raw" in c else "depth%d" % min(len(c["level"]), 6)),
]

LEVEL_TEXT = ("Coq theorems: TaskLevel string round-trip, task-id round-trip and injectivity for all uuids/levels; "
              "tied to /repo by running the real TaskLevel/serialize_task_id/continue_task on generated ids and comparing "
              "with the model evaluated in Coq.")
LEVEL_NOTE = ("Trusted: Coq kernel; hand-written model (Base/Level.v) tied by correspondence; Python int()/str() on decimal "
              "digit strings; uuid text has no '@'.")
