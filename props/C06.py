"""C06 — a serialized task id continues the same tree in another thread/process."""
import json

from lib import progs
from lib.framework import Family
from lib.coqbridge import Pos, Str, C, Raw, to_coq, flat

ID = "C06"
PROPS_FILE = "Props/C06.v"
TRUSTED = [
    "threading.Lock.acquire(False) is an atomic test-and-set (single-use theorem is relative to it)",
    "uuid4() text contains no '@' (hypothesis no_char at_sign of the id theorems)",
]
ASSUMPTIONS = ["levels produced by the library are lists of positive integers"]
RULE = ("ids: levels/uuids drawn from the seed (depth 0-12, components up to 10^30, digit strings with leading zeros); "
        "single_use: 2-4 real threads invoking one preserve_context callable under the line-granular scheduler (every single-preemption "
        "schedule + random ones); handoff_programs: generated programs with multi-hop hand-offs to threads, logs parsed in shuffled orders; "
        "process: hand-off to real child processes writing their own log files, merged in shuffled orders")


# ---------------------------------------------------------------- family: ids
def gen_ids(rng, tier):
    n = 150 if tier == "quick" else 3000
    cases = [{"uuid": "u", "level": []}, {"uuid": "", "level": [1]}]
    alphabet = "0123456789abcdef-"
    for i in range(n):
        depth = rng.choice([0, 1, 1, 2, 3, 4, 6, 12])
        level = []
        for _ in range(depth):
            k = rng.choice([1, 1, 2, 3, 9, 10, 11, 99, 100, 1000, 2 ** 31, 2 ** 63, 2 ** 64 + 1, 10 ** 30])
            level.append(k + rng.randrange(0, 3))
        uuid = "".join(rng.choice(alphabet) for _ in range(rng.choice([0, 1, 8, 36])))
        cases.append({"uuid": uuid, "level": level, "as_bytes": rng.random() < 0.5})
    # raw strings for fromString: digits and slashes only, non-zero segments
    for i in range(n // 3):
        segs = []
        for _ in range(rng.randrange(0, 6)):
            r = rng.random()
            if r < 0.25:
                segs.append("")
            else:
                segs.append("0" * rng.randrange(0, 3) + str(rng.randrange(1, 10 ** rng.randrange(1, 25))))
        cases.append({"raw": rng.choice(["", "/"]) + "/".join(segs) + rng.choice(["", "/"])})
    return cases


def impl_ids(case):
    from eliot._action import TaskLevel, Action
    from eliot import MemoryLogger
    if "raw" in case:
        return {"back": TaskLevel.fromString(case["raw"]).as_list()}
    level, uuid = case["level"], case["uuid"]
    s = TaskLevel(level=list(level)).toString()
    back = TaskLevel.fromString(s).as_list()
    # the real id path: an action at `level` hands out the id of its next position
    logger = MemoryLogger()
    a = Action(logger, uuid, TaskLevel(level=list(level)), "t")
    tid = a.serialize_task_id()
    tid2 = a.serialize_task_id()
    arg = tid if case.get("as_bytes") else tid.decode("ascii")
    cont = Action.continue_task(logger, task_id=arg)
    start = logger.messages[-1]
    return {"s": s, "back": back, "tid": tid.decode("ascii"), "tid2": tid2.decode("ascii"),
            "cont_uuid": cont.task_uuid, "cont_start_level": start["task_level"],
            "cont_start_uuid": start["task_uuid"], "cont_type": start["action_type"]}


def _coq_str(s):
    return "(list_ascii_of_string %s)" % to_coq(Str(s))


def model_ids(case):
    if "raw" in case:
        return "from_string %s" % _coq_str(case["raw"])
    lv = to_coq([Pos(k) for k in case["level"]])
    u = _coq_str(case["uuid"])
    return ("let l := %s in let u := %s in "
            "(string_of_list_ascii (to_string l), from_string (to_string l), "
            " string_of_list_ascii (make_id u (child l)), string_of_list_ascii (make_id u (next_sibling (child l))),"
            " match parse_id (make_id u (child l)) with Some (u', l') => Some (string_of_list_ascii u', child l') | None => None end)"
            % (lv, u))


def _unstr(v):
    return v[1] if isinstance(v, tuple) and v and v[0] == "#str" else v


def model_obs_ids(case, v):
    if "raw" in case:
        return {"back": v[1] if v is not None else None}
    s, back, tid, tid2, cont = flat(v, 5)
    cont = cont[1] if cont is not None else None
    return {"s": _unstr(s), "back": back[1] if back is not None else None, "tid": _unstr(tid), "tid2": _unstr(tid2),
            "cont_uuid": _unstr(cont[0]) if cont else None,
            "cont_start_level": cont[1] if cont else None}


def project_ids(case, obs):
    if "raw" in case:
        return obs
    return {k: obs[k] for k in ("s", "back", "tid", "tid2", "cont_uuid", "cont_start_level")}


def oracle_ids(case, obs):
    if "raw" in case:
        return None
    level, uuid = case["level"], case["uuid"]
    if obs["back"] != level:
        return "fromString(toString(l)) = %r, expected %r" % (obs["back"], level)
    if obs["tid"] == obs["tid2"]:
        return "two serialize_task_id calls returned the same id %r" % obs["tid"]
    if obs["cont_uuid"] != uuid or obs["cont_start_uuid"] != uuid:
        return "continued action has task_uuid %r, expected %r" % (obs["cont_uuid"], uuid)
    if obs["cont_start_level"] != level + [1, 1]:
        return "continued action starts at %r, expected the reserved position %r + [1]" % (obs["cont_start_level"], level + [1])
    if obs["cont_type"] != "eliot:remote_task":
        return "continued action type %r" % obs["cont_type"]
    return None


def nontrivial_ids(case, obs):
    if "raw" in case:
        return case["raw"] if "/" in case["raw"].strip("/") else None
    return (case["uuid"], tuple(case["level"])) if case["level"] else None


# ---------------------------------------------------------------- family: single_use
def gen_single(rng, tier):
    import itertools
    out = []
    # every single-preemption schedule for two threads (A runs i steps, then B to completion, then A)
    for i in range(0, 40 if tier == "quick" else 120, 1 if tier == "thorough" else 2):
        out.append({"k": 2, "segments": [[0, i], [1, 10000]], "raises": False})
        out.append({"k": 2, "segments": [[1, i], [0, 10000]], "raises": i % 3 == 0})
    n = 40 if tier == "quick" else 800
    for _ in range(n):
        k = rng.choice([2, 3, 4])
        out.append({"k": k, "sched": [rng.randrange(k) for _ in range(rng.randrange(0, 400))], "raises": rng.random() < 0.3})
    out.append({"k": 1, "sched": [], "raises": False, "no_context": True})
    return out


def impl_single(case):
    from lib.linesched import LineScheduler, segments_to_schedule
    import eliot
    from eliot import start_action, preserve_context, _output
    from eliot._action import TooManyCalls
    d = _output.Destinations()
    _output.Logger._destinations = d
    msgs = []
    d.add(msgs.append)
    ran = []

    class Boom(Exception):
        pass
    boom = Boom("app")

    def f(x):
        ran.append(x)
        if case["raises"]:
            raise boom
        return ("result", x)
    if case.get("no_context"):
        return {"same_function": preserve_context(f) is f}
    with start_action(action_type="parent"):
        g = preserve_context(f)
    results = [None] * case["k"]

    def make(t):
        def body():
            try:
                results[t] = ["returned", list(g(t))]
            except TooManyCalls:
                results[t] = ["TooManyCalls"]
            except Boom as e:
                results[t] = ["raised_same" if e is boom else "raised_other"]
        return body
    s = LineScheduler(files=("eliot/_action.py",))
    sched = case.get("sched")
    if sched is None:
        sched = segments_to_schedule([tuple(x) for x in case["segments"]])
    trace = s.run([make(t) for t in range(case["k"])], sched)
    # order in which the threads reached the guard line (first step inside restore_eliot_context)
    order = []
    for t, fn, line, func in s.where:
        if func == "restore_eliot_context" and t not in order:
            order.append(t)
    remote = [m for m in msgs if m.get("action_type") == "eliot:remote_task"]
    return {"results": results, "ran": ran, "guard_order": order, "trace_len": len(trace),
            "remote_starts": sum(1 for m in remote if m["action_status"] == "started"),
            "remote_levels": sorted({tuple(m["task_level"][:-1]) for m in remote}),
            "parent_levels": [m["task_level"] for m in msgs if m.get("action_type") == "parent"],
            "thread_errors": [r for r in s.results if r and r[0] != "ok"],
            "raw": {"1": [progs.raw_msg(m) for m in msgs]}}


def model_single(case):
    return None


def post_single(cases, obs_list):
    from lib import coqbridge
    from lib.coqbridge import Nat
    exprs, idx = [], []
    for i, (case, obs) in enumerate(zip(cases, obs_list)):
        if case.get("no_context"):
            continue
        # the model is driven by the order in which the threads performed their test-and-set
        exprs.append("invoke %s false []" % to_coq([Nat(t) for t in obs["guard_order"]]))
        idx.append(i)
    vals = coqbridge.eval_in_coq(["Model.SingleUse"], exprs)
    out = [None] * len(cases)
    for i, v in zip(idx, vals):
        out[i] = {"outcome": sorted([t, r] for t, r in v)}
    return out


def project_single(case, obs):
    if case.get("no_context"):
        return None
    return {"outcome": sorted([t, ("Ran" if r[0] != "TooManyCalls" else "TooManyCalls")] for t, r in enumerate(obs["results"]) if r is not None)}


def oracle_single(case, obs):
    if case.get("no_context"):
        return None if obs["same_function"] else "preserve_context(f) is not f although there is no current action"
    if obs["thread_errors"]:
        return "a thread died: %r" % obs["thread_errors"]
    res = obs["results"]
    winners = [t for t, r in enumerate(res) if r[0] != "TooManyCalls"]
    if len(obs["ran"]) != 1 or len(winners) != 1:
        return "the function ran %d time(s) for %d concurrent invocations (results %r)" % (len(obs["ran"]), case["k"], res)
    w = winners[0]
    if case["raises"]:
        if res[w] != ["raised_same"]:
            return "the function's exception did not pass through unchanged: %r" % (res[w],)
    elif res[w] != ["returned", ["result", w]]:
        return "the function's result did not pass through: %r" % (res[w],)
    if obs["remote_starts"] != 1:
        return "%d remote actions were started" % obs["remote_starts"]
    if obs["remote_levels"] != [[2]]:
        return "remote action at %r, expected the reserved position [2] of the parent" % (obs["remote_levels"],)
    return None


# ---------------------------------------------------------------- family: process hand-off
def gen_process(rng, tier):
    n = 6 if tier == "quick" else 60
    return [{"depth": rng.randrange(1, 4), "as_text": rng.random() < 0.5, "seed": rng.randrange(1 << 30), "hops": rng.choice([1, 1, 2])}
            for _ in range(n)]


CHILD = r"""
import sys, json
from eliot import to_file, Action, log_message, start_action
tid = sys.argv[1]
if sys.argv[3] == "bytes":
    tid = tid.encode("ascii")
to_file(open(sys.argv[2], "ab"))
with Action.continue_task(task_id=tid) as a:
    log_message(message_type="remote:msg", hop=int(sys.argv[4]))
    with start_action(action_type="remote:inner"):
        pass
    if int(sys.argv[4]) > 1:
        print(a.serialize_task_id().decode("ascii"))
"""


def impl_process(case):
    import io, os, random, subprocess, tempfile, shutil
    from eliot import start_action, log_message, FileDestination, _output
    from eliot.parse import Parser, WrittenAction
    from lib.framework import ROOT, PY
    d = _output.Destinations()
    _output.Logger._destinations = d
    f1 = io.BytesIO()
    d.add(FileDestination(file=f1))
    work = tempfile.mkdtemp(prefix="c06", dir=os.path.join(ROOT, ".work"))
    try:
        files = [os.path.join(work, "remote%d.log" % i) for i in range(case["hops"])]
        env = dict(os.environ)
        ids = []
        with start_action(action_type="root"):
            for _ in range(case["depth"] - 1):
                log_message(message_type="pad")
            with start_action(action_type="origin") as a:
                log_message(message_type="before")
                tid = a.serialize_task_id().decode("ascii")
                log_message(message_type="after")
        ids.append(tid)
        for hop in range(case["hops"]):
            p = subprocess.run([PY, "-c", CHILD, ids[-1], files[hop], "text" if case["as_text"] else "bytes", str(case["hops"] - hop)],
                               capture_output=True, text=True, env=env, cwd=ROOT, timeout=60)
            if p.returncode != 0:
                return {"child_error": p.stderr[-500:]}
            if p.stdout.strip():
                ids.append(p.stdout.strip())
        lines = f1.getvalue().decode().splitlines()
        for fn in files:
            lines += open(fn).read().splitlines()
        rnd = random.Random(case["seed"])
        views = []
        for k in range(3):
            order = list(lines)
            if k:
                rnd.shuffle(order)
            tasks = list(Parser.parse_stream([json.loads(x) for x in order]))

            def dump(n):
                if isinstance(n, WrittenAction):
                    return [n.action_type, n.task_level.as_list(), n.status, [dump(c) for c in n.children]]
                return [n.contents.get("message_type"), n.task_level.as_list()]
            views.append({"n_tasks": len(tasks), "complete": [t.is_complete() for t in tasks], "trees": [dump(t.root()) for t in tasks]})
        return {"ids": ids, "views": views, "n_lines": len(lines)}
    finally:
        shutil.rmtree(work, ignore_errors=True)


def oracle_process(case, obs):
    if "child_error" in obs:
        return "child process failed: %s" % obs["child_error"]
    first = obs["views"][0]
    for v in obs["views"]:
        if v != first:
            return "merged logs parse differently in different merge orders"
    if first["n_tasks"] != 1 or first["complete"] != [True]:
        return "hand-off across processes did not produce one complete task: %r" % (first["complete"],)

    def find(n, typ):
        out = []
        if isinstance(n[3] if len(n) > 3 else None, list):
            if n[0] == typ:
                out.append(n)
            for c in n[3]:
                out += find(c, typ)
        return out
    root = first["trees"][0]
    origin = find(root, "origin")
    if len(origin) != 1:
        return "origin action not found once"
    o = origin[0]
    kids = [(c[0], c[1]) for c in o[3]]
    want = o[1] + [3]
    remote = [c for c in o[3] if c[0] == "eliot:remote_task"]
    if len(remote) != 1 or remote[0][1] != want:
        return "remote task is not the child of the originating action at the reserved position %r: children %r" % (want, kids)
    if [c[0] for c in o[3]] != ["before", "eliot:remote_task", "after"]:
        return "children of the originating action out of order: %r" % ([c[0] for c in o[3]],)
    inner = [c[0] for c in remote[0][3]]
    if inner[:2] != ["remote:msg", "remote:inner"]:
        return "remote sub-tree content wrong: %r" % inner
    if case["hops"] == 2:
        second = [c for c in remote[0][3] if c[0] == "eliot:remote_task"]
        if len(second) != 1:
            return "second hop is not a child of the first remote task"
    tid = obs["ids"][0]
    if tid.split("@")[1] != "/" + "/".join(map(str, want)):
        return "serialized id %r does not name the reserved position %r" % (tid, want)
    return None


# hand-offs inside generated programs (threads; bytes, text and preserve_context; multi-hop), parsed after shuffling
import props.C01 as _c01


def gen_handoff(rng, tier):
    n = 50 if tier == "quick" else 800
    out = []
    for i in range(n):
        case = progs.gen_case(rng, n_dests=1, fault=0.0, registry_rate=0.0, p_fault_ser=0.0, p_typed=0.1, p_handoff=0.35,
                              p_raise=0.15, depth=4 if tier == "quick" or i % 3 else 6, file_dest=True, p_reserved=0.2)
        case["registry"] = []
        case["shuffle_seed"] = rng.randrange(1 << 30)
        out.append(case)
    return out


def nontrivial_handoff(case, obs):
    return json.dumps(case["prog"], sort_keys=True) if '"handoff"' in json.dumps(case["prog"]) else None


FAMILIES = [
    Family("ids", gen_ids, impl_ids, model_ids, model_obs_ids, oracle_ids, nontrivial_ids,
           imports=["Base.Level"], project=project_ids,
           describe=lambda c: "raw" if "raw" in c else "depth%d" % min(len(c["level"]), 6)),
    Family("single_use", gen_single, impl_single, model_single, None, oracle_single,
           lambda case, obs: json.dumps(case) if isinstance(obs, dict) and len(obs.get("guard_order", [])) >= 2 else None,
           project=project_single, shard=30, case_timeout=30,
           describe=lambda c: "threads:%d" % c["k"]),
    Family("handoff_programs", gen_handoff, _c01.impl, _c01.model_expr, _c01.model_obs, _c01.oracle, nontrivial_handoff,
           imports=["Model.Core", "Model.Prog", "Model.Parser", "Model.Roundtrip"], project=_c01.project,
           describe=progs.describe, shrink=progs.shrink, shard=25, coq_shard=40, case_timeout=30),
    Family("process", gen_process, impl_process, None, None, oracle_process,
           lambda case, obs: json.dumps(case), shard=2, case_timeout=60, workers=6),
]
FAMILIES[1].post_model = post_single

LEVEL_TEXT = ("Coq theorems: TaskLevel string round-trip, task-id round-trip and injectivity for all uuids/levels; "
              "tied to /repo by running the real TaskLevel/serialize_task_id/continue_task on generated ids and comparing "
              "with the model evaluated in Coq.")
LEVEL_NOTE = ("Trusted: Coq kernel; hand-written model (Base/Level.v) tied by correspondence; Python int()/str() on decimal "
              "digit strings; uuid text has no '@'.")


# ---- processes forked after eliot was imported: tasks started on both sides of a fork keep distinct task_uuids ----
def gen_forked(rng, tier):
    return [{"children": rng.choice([2, 2, 3]), "tasks": rng.randrange(1, 5), "before": rng.randrange(0, 3)}
            for _ in range(6 if tier == "quick" else 40)]


def impl_forked(case):
    import os
    from eliot import _output, start_action, log_message
    d = _output.Destinations()
    _output.Logger._destinations = d
    got = []
    d.add(lambda m: got.append(m.get("task_uuid")))

    def work(n):
        for _ in range(n):
            with start_action(action_type="forked:task"):
                pass
            log_message("forked:standalone")
    work(case["before"])
    children = []
    for k in range(case["children"]):
        r, w = os.pipe()
        pid = os.fork()
        if pid == 0:
            code = 1
            try:
                os.close(r)
                del got[:]
                work(case["tasks"])
                os.write(w, json.dumps(got).encode("ascii"))
                code = 0
            finally:
                os._exit(code)
        os.close(w)
        data = b""
        while True:
            chunk = os.read(r, 65536)
            if not chunk:
                break
            data += chunk
        os.close(r)
        os.waitpid(pid, 0)
        children.append(json.loads(data.decode("ascii")) if data else None)
    mark = len(got)
    work(case["tasks"])
    return {"parent_before": got[:mark], "parent_after": got[mark:], "children": children}


def oracle_forked(case, obs):
    groups = [("parent before the forks", obs["parent_before"]), ("parent after the forks", obs["parent_after"])]
    for i, c in enumerate(obs["children"]):
        if c is None:
            return "forked child %d produced no result" % i
        groups.append(("forked child %d" % i, c))
    want = {"parent before the forks": 3 * case["before"], "parent after the forks": 3 * case["tasks"]}
    for name, uuids in groups:
        n = want.get(name, 3 * case["tasks"])
        if len(uuids) != n:
            return "%s: %d messages logged, %d reached the destination registered before the fork" % (name, n, len(uuids))
    seen = {}
    for name, uuids in groups:
        # each task of `work` emits start+end (same uuid) and one stand-alone message (its own uuid)
        distinct = []
        for u in uuids:
            if not distinct or distinct[-1] != u:
                distinct.append(u)
        if len(set(distinct)) != len(distinct):
            return "%s: a task_uuid was used for two different tasks: %r" % (name, distinct)
        for u in set(distinct):
            if u in seen:
                return "task_uuid %s was given to a task in %s and to another task in %s" % (u, seen[u], name)
            seen[u] = name
    return None


FAMILIES.append(Family("forked", gen_forked, impl_forked, None, None, oracle_forked,
                       lambda case, obs: json.dumps(case), shard=3, case_timeout=60))
