"""C14 — test-time validation accepts exactly the messages matching their declared types.

Families
  validate  generated MessageType / ActionType definitions (Field.for_types over the JSON classes,
            Field.for_value, Field with a serializer + extra validator from a library implemented on
            both sides) x conforming messages produced by real library use (MessageType.log,
            ActionType with-blocks that succeed or fail, registered extractors, write_traceback,
            untyped log_message) captured by a real MemoryLogger x one single-point deviation
            appended as a hand-made message via logger.write(dict, serializer).
            Observed: the stored messages, check_for_errors before flushing, flush_tracebacks,
            MemoryLogger.validate(), check_for_errors afterwards (exception classes only).
  harness   real unittest.TestCase subclasses with @capture_logging / @validate_logging methods whose
            body logs, flushes, clobbers the default logger and ends in pass / AssertionError /
            RuntimeError / SkipTest, run with unittest.TextTestRunner into a StringIO.
"""
from lib.framework import Family
from lib.coqbridge import Z, Nat, Str, C, Raw, to_coq, flat

ID = "C14"
PROPS_FILE = "Props/C14.v"
TRUSTED = [
    "orjson + eliot.json.json_default decide JSON-encodability; the model's predicate (64-bit ints, str dict keys, "
    "no bytes/arbitrary objects/exceptions) is tied to it by the correspondence only",
    "unittest.TestCase.run / doCleanups semantics (LIFO, every cleanup runs, AssertionError = failure, SkipTest = skip) "
    "as modelled in Model/Validation.v, tied by the harness family",
    "field serializers / extra validators range over a small library implemented on both sides; the theorems quantify "
    "over arbitrary functions",
]
ASSUMPTIONS = [
    "a dict object is written to a MemoryLogger at most once (the library always builds a fresh dict per message)",
    "floats in generated values are quarter-integers; strings are printable ASCII",
    "extractor fields of traceback messages do not use the names reason/traceback/exception/message_type "
    "(bind() would overwrite the declared fields)",
]
RULE = ("validate: type definitions, uses and one deviation drawn from VERIF_SEED; non-trivial = (kind, roles captured, "
        "deviation label, target role); harness: decorator x assertion x body steps x outcome, non-trivial = all of them")

MOD = "props.C14"
CLS = {
    "EValidation": "ValidationError", "EType": "TypeError", "EUnicodeDecode": "UnicodeDecodeError",
    "EKeyError": "KeyError", "EAttribute": "AttributeError", "EValue": "ValueError",
    "EAssertion": "AssertionError", "ERuntime": "RuntimeError", "EUnflushed": "UnflushedTracebacks",
}


# exception classes used by generated programs (their FQPNs appear in messages)
class AppError(Exception):
    pass


class SubAppError(AppError):
    pass


class AppValueError(ValueError):
    pass


EXC_MRO = {
    "AppError": [MOD + ".AppError", "builtins.Exception"],
    "SubAppError": [MOD + ".SubAppError", MOD + ".AppError", "builtins.Exception"],
    "AppValueError": [MOD + ".AppValueError", "builtins.ValueError", "builtins.Exception"],
    "ValueError": ["builtins.ValueError", "builtins.Exception"],
    "RuntimeError": ["builtins.RuntimeError", "builtins.Exception"],
}


def _exc_class(fqpn):
    import builtins
    mod, name = fqpn.rsplit(".", 1)
    if mod == "builtins":
        return getattr(builtins, name)
    return globals()[name]


# ------------------------------------------------------------------ values
# tagged JSON form of a model value:
#  ["n"] ["b",bool] ["i",int] ["f",quarters] ["s",str] ["y",str] ["l",[v]] ["d",[[k,v]]]
#  ["o",enc,id] ["e",mro,text] ["t",mro]
# keys: ["s",name] | ["y",utf8ok,name] | ["o",n]

def val_to_coq(v):
    t = v[0]
    if t == "n":
        return C("JNone")
    if t == "b":
        return C("JBool", bool(v[1]))
    if t == "i":
        return C("JInt", Z(v[1]))
    if t == "f":
        return C("JFloat", Z(v[1]))
    if t == "s":
        return C("JStr", Str(v[1]))
    if t == "y":
        return C("JBytes", Str(v[1]))
    if t == "l":
        return C("JList", [val_to_coq(x) for x in v[1]])
    if t == "d":
        return C("JDict", [(val_to_coq(k), val_to_coq(x)) for k, x in v[1]])
    if t == "o":
        return C("JObj", bool(v[1]), Nat(v[2]))
    if t == "e":
        return C("JExn", [Str(s) for s in v[1]], Str(v[2]))
    if t == "t":
        return C("JExnType", [Str(s) for s in v[1]])
    raise ValueError(v)


def key_to_coq(k):
    if k[0] == "s":
        return C("KStr", Str(k[1]))
    if k[0] == "y":
        return C("KBytes", bool(k[1]), Str(k[2]))
    return C("KOther", Nat(k[1]))


def pairs_to_coq(pairs):
    """a Python dict built from these (key, value) pairs"""
    return Raw("(mdict [" + "; ".join("(%s, %s)" % (to_coq(key_to_coq(k)), to_coq(val_to_coq(v))) for k, v in pairs) + "])")


def _s(x):
    return x[1] if isinstance(x, tuple) and x and x[0] == "#str" else x


def val_from_coq(p):
    if p == "JNone":
        return ["n"]
    h = p[0]
    if h == "JBool":
        return ["b", p[1]]
    if h == "JInt":
        return ["i", p[1]]
    if h == "JFloat":
        return ["f", p[1]]
    if h == "JStr":
        return ["s", _s(p[1])]
    if h == "JBytes":
        return ["y", _s(p[1])]
    if h == "JList":
        return ["l", [val_from_coq(x) for x in p[1]]]
    if h == "JDict":
        return ["d", [[val_from_coq(k), val_from_coq(x)] for k, x in p[1]]]
    if h == "JObj":
        return ["o", p[1], p[2]]
    if h == "JExn":
        return ["e", [_s(s) for s in p[1]], _s(p[2])]
    if h == "JExnType":
        return ["t", [_s(s) for s in p[1]]]
    raise ValueError(p)


def key_from_coq(p):
    if p[0] == "KStr":
        return ["s", _s(p[1])]
    if p[0] == "KBytes":
        return ["y", p[1], _s(p[2])]
    return ["o", p[1]]


class _Objs(object):
    """per-case table of the non-JSON objects, so that the same id is the same object"""

    def __init__(self):
        self.by_id = {}

    def get(self, enc, n):
        from pathlib import Path
        key = (bool(enc), n)
        if key not in self.by_id:
            self.by_id[key] = Path("/p%d" % n) if enc else object()
        return self.by_id[key]

    def find(self, o):
        for (enc, n), x in self.by_id.items():
            if x is o:
                return ["o", enc, n]
        return None


def val_to_py(v, objs):
    t = v[0]
    if t == "n":
        return None
    if t in ("b", "i", "s"):
        return v[1]
    if t == "f":
        return v[1] / 4.0
    if t == "y":
        return v[1].encode("ascii")
    if t == "l":
        return [val_to_py(x, objs) for x in v[1]]
    if t == "d":
        return dict((val_to_py(k, objs), val_to_py(x, objs)) for k, x in v[1])
    if t == "o":
        return objs.get(v[1], v[2])
    raise ValueError(v)


def key_to_py(k):
    if k[0] == "s":
        return k[1]
    if k[0] == "y":
        return k[2].encode("ascii") if k[1] else b"\xff" + k[2].encode("ascii")
    return int(k[1])


def _mro_names(cls):
    return ["%s.%s" % (c.__module__, c.__name__) for c in cls.__mro__ if c not in (BaseException, object)]


def val_from_py(x, objs):
    from pathlib import Path
    if x is None:
        return ["n"]
    if isinstance(x, bool):
        return ["b", x]
    if isinstance(x, int):
        return ["i", x]
    if isinstance(x, float):
        q = x * 4
        return ["f", int(q)] if q == int(q) else ["f?", repr(x)]
    if isinstance(x, str):
        return ["s", x]
    if isinstance(x, bytes):
        return ["y", x.decode("latin1")]
    if isinstance(x, list):
        return ["l", [val_from_py(y, objs) for y in x]]
    if isinstance(x, dict):
        return ["d", [[val_from_py(k, objs), val_from_py(y, objs)] for k, y in x.items()]]
    if isinstance(x, BaseException):
        return ["e", _mro_names(type(x)), str(x)]
    if isinstance(x, type) and issubclass(x, BaseException):
        return ["t", _mro_names(x)]
    found = objs.find(x)
    if found is not None:
        return found
    return ["?", type(x).__name__]


def key_from_py(k):
    if isinstance(k, str):
        return ["s", k]
    if isinstance(k, bytes):
        try:
            k.decode("utf-8")
            return ["y", True, k.decode("ascii")]
        except UnicodeDecodeError:
            return ["y", False, k[1:].decode("ascii")]
    return ["o", k]


def canon_msg(pairs):
    """reserved fields and traceback text carry run-dependent data"""
    out = []
    for k, v in pairs:
        if k in (["s", "task_uuid"], ["s", "timestamp"], ["s", "task_level"]):
            v = ["s", {"task_uuid": "U", "timestamp": "T", "task_level": "L"}[k[1]]]
        out.append([k, v])
    out.sort(key=lambda kv: repr(kv[0]))
    return out


# ------------------------------------------------------------------ the library implemented on both sides
def fdesc_to_coq(f):
    if f["kind"] == "types":
        return C("FTypes", Str(f["key"]), [C(t) for t in f["classes"]], C(f["extra"]))
    if f["kind"] == "value":
        return C("FValue", Str(f["key"]), val_to_coq(f["value"]))
    ser = C("SConst", val_to_coq(f["const"])) if f["ser"] == "SConst" else C(f["ser"])
    return C("FCustom", Str(f["key"]), ser, C(f["extra"]))


def _py_serializer(name, const, objs):
    from eliot import ValidationError

    def s_succ(v):
        if type(v) is not int:
            raise ValidationError(v, "not an int")
        return v + 1

    def s_nonneg(v):
        if type(v) is not int or v < 0:
            raise ValidationError(v, "negative")
        return v

    def s_raise_type(v):
        raise TypeError("serializer refuses")

    def s_raise_value(v):
        raise ValueError("serializer refuses")

    return {
        "SId": lambda v: v,
        "SConst": lambda _: val_to_py(const, objs) if const is not None else None,
        "SSucc": s_succ,
        "SWrap": lambda v: [v],
        "SNonNeg": s_nonneg,
        "SRaiseType": s_raise_type,
        "SRaiseValue": s_raise_value,
    }[name]


def _py_extra(name):
    from eliot import ValidationError

    def mk(pred):
        def validator(v):
            if not pred(v):
                raise ValidationError(v, "rejected by %s" % name)
        return validator

    return {
        "XNone": None,
        "XPositive": mk(lambda v: type(v) is int and v > 0),
        "XEven": mk(lambda v: type(v) is int and v % 2 == 0),
        "XNonEmptyStr": mk(lambda v: type(v) is str and v != ""),
        "XShortList": mk(lambda v: type(v) is list and len(v) <= 2),
        "XRejectAll": mk(lambda v: False),
    }[name]


PYCLASS = {"TNone": None, "TInt": int, "TFloat": float, "TStr": str, "TList": list, "TDict": dict,
           "TBytes": bytes, "TBool": bool}


def field_to_py(f, objs):
    from eliot import Field
    if f["kind"] == "types" and len(f["classes"]) == 1 and f["extra"] == "XNone" and f["classes"][0] != "TNone" \
            and sum(map(ord, f["key"])) % 2 == 0:
        # the shorthand: eliot.fields(name=type); other definitions in this process use the same names with other types
        from eliot import fields as _fields
        return _fields(**{f["key"]: PYCLASS[f["classes"][0]]})[0]
    if f["kind"] == "types":
        return Field.for_types(f["key"], [PYCLASS[t] for t in f["classes"]], "", _py_extra(f["extra"]))
    if f["kind"] == "value":
        return Field.for_value(f["key"], val_to_py(f["value"], objs), "")
    return Field(f["key"], _py_serializer(f["ser"], f.get("const"), objs), "", _py_extra(f["extra"]))


# ------------------------------------------------------------------ family: validate
TAGS = ["TNone", "TInt", "TFloat", "TStr", "TList", "TDict", "TBytes", "TBool"]
GOOD_KEYS = ["x", "y", "count", "path", "name", "reason", "exception", "status"]


def sample_tag(rng, tag):
    """an encodable value of exactly this class (bytes have none)"""
    if tag == "TNone":
        return ["n"]
    if tag == "TInt":
        return ["i", rng.choice([0, 1, -3, 7, 12, 2 ** 40, 2 ** 63, -2 ** 63, 2 ** 64 - 1])]
    if tag == "TFloat":
        return ["f", rng.choice([2, 5, -9, 4, 0])]
    if tag == "TStr":
        return ["s", rng.choice(["", "a", "hello world", "task_uuid", "started"])]
    if tag == "TList":
        return ["l", [sample_tag(rng, rng.choice(["TInt", "TStr", "TNone"])) for _ in range(rng.randrange(0, 3))]]
    if tag == "TDict":
        return ["d", [[["s", "k%d" % i], sample_tag(rng, rng.choice(["TInt", "TStr"]))] for i in range(rng.randrange(0, 3))]]
    if tag == "TBool":
        return ["b", rng.random() < 0.5]
    return ["y", "raw"]


def x_accept(rng, x):
    return {"XPositive": lambda: ["i", rng.choice([1, 2, 9, 2 ** 40])],
            "XEven": lambda: ["i", rng.choice([0, 2, -4, 10])],
            "XNonEmptyStr": lambda: ["s", rng.choice(["a", "zz top"])],
            "XShortList": lambda: ["l", [["i", 1]] * rng.randrange(0, 3)]}[x]()


def x_reject(rng, x):
    return {"XPositive": lambda: ["i", rng.choice([0, -1, -7])],
            "XEven": lambda: ["i", rng.choice([1, 3, -5])],
            "XNonEmptyStr": lambda: ["s", ""],
            "XShortList": lambda: ["l", [["i", 1], ["i", 2], ["i", 3]]]}[x]()


X_TAG = {"XPositive": "TInt", "XEven": "TInt", "XNonEmptyStr": "TStr", "XShortList": "TList"}


def gen_field(rng, key):
    """a satisfiable field: (fdesc, conforming value maker)"""
    r = rng.random()
    if r < 0.55:
        x = rng.choice(["XNone", "XNone", "XNone", "XPositive", "XEven", "XNonEmptyStr", "XShortList"])
        classes = rng.sample(TAGS, rng.randrange(1, 4))
        if x != "XNone" and X_TAG[x] not in classes:
            classes.append(X_TAG[x])
        if all(t == "TBytes" for t in classes):
            classes.append("TStr")
        return {"kind": "types", "key": key, "classes": classes, "extra": x}
    if r < 0.7:
        return {"kind": "value", "key": key,
                "value": rng.choice([["i", 1], ["i", 0], ["s", "fixed"], ["n"], ["b", True], ["f", 4], ["f", 6],
                                     ["l", [["i", 1], ["s", "a"]]], ["d", [[["s", "a"], ["i", 1]]]]])}
    ser, x = rng.choice([("SId", "XNone"), ("SId", "XPositive"), ("SId", "XNonEmptyStr"), ("SSucc", "XNone"),
                         ("SSucc", "XPositive"), ("SSucc", "XEven"), ("SWrap", "XNone"), ("SWrap", "XShortList"),
                         ("SNonNeg", "XNone"), ("SNonNeg", "XEven"), ("SConst", "XNone"), ("SConst", "XPositive")])
    f = {"kind": "custom", "key": key, "ser": ser, "extra": x}
    if ser == "SConst":
        f["const"] = rng.choice([["s", "c"], ["i", 5], ["n"]])
    return f


def conforming_value(rng, f):
    if f["kind"] == "types":
        if f["extra"] != "XNone":
            return x_accept(rng, f["extra"])
        tag = rng.choice([t for t in f["classes"] if t != "TBytes"])
        return sample_tag(rng, tag)
    if f["kind"] == "value":
        v = f["value"]
        if v in (["i", 1], ["b", True], ["f", 4]) and rng.random() < 0.4:
            return rng.choice([["i", 1], ["b", True], ["f", 4]])      # 1 == True == 1.0
        if v == ["i", 0] and rng.random() < 0.4:
            return ["b", False]
        return v
    ser, x = f["ser"], f["extra"]
    if ser == "SNonNeg" and x == "XEven":
        return ["i", rng.choice([0, 2, 10, 2 ** 40])]
    if x != "XNone":
        return x_accept(rng, x)
    if ser == "SSucc":
        return ["i", rng.choice([0, 5, -2, 2 ** 63])]
    if ser == "SNonNeg":
        return ["i", rng.choice([0, 3, 2 ** 40])]
    return sample_tag(rng, rng.choice(["TInt", "TStr", "TNone", "TList", "TFloat"]))


def wrong_value(rng, f):
    """a value the field rejects because of its type / identity; None when there is none"""
    if f["kind"] == "types":
        bad = [t for t in TAGS if t not in f["classes"] and not (t == "TBool" and "TInt" in f["classes"])]
        if rng.random() < 0.2 or not bad:
            return ["o", False, 7]
        return sample_tag(rng, rng.choice(bad))
    if f["kind"] == "value":
        v = f["value"]
        return ["i", 41] if v[0] != "i" else ["s", "other"]
    ser, x = f["ser"], f["extra"]
    if ser in ("SSucc", "SNonNeg"):
        return rng.choice([["s", "five"], ["b", True], ["n"], ["f", 4]])
    if x != "XNone":
        return ["o", False, 7]
    return None


def rejected_value(rng, f):
    """right type, refused by the extra validator / the serializer"""
    if f["kind"] != "value" and f["extra"] != "XNone":
        return x_reject(rng, f["extra"])
    if f["kind"] == "custom" and f["ser"] == "SNonNeg":
        return ["i", -1]
    return None


def unencodable_value(rng, f):
    """accepted by the field, but the serialized message is not JSON"""
    if f["kind"] == "types":
        opts = []
        if f["extra"] in ("XNone", "XPositive") and "TInt" in f["classes"]:
            opts.append(["i", 2 ** 64])
        if f["extra"] == "XEven" and "TInt" in f["classes"]:
            opts.append(["i", 2 ** 70])
        if f["extra"] == "XNone":
            if "TBytes" in f["classes"]:
                opts.append(["y", "raw"])
            if "TDict" in f["classes"]:
                opts.append(["d", [[["i", 1], ["i", 2]]]])
                opts.append(["d", [[["s", "k"], ["y", "b"]]]])
            if "TList" in f["classes"]:
                opts.append(["l", [["i", 1], ["o", False, 3]]])
        if f["extra"] == "XShortList":
            opts.append(["l", [["o", False, 3]]])
        return rng.choice(opts) if opts else None
    if f["kind"] == "custom":
        ser, x = f["ser"], f["extra"]
        if ser in ("SId", "SWrap") and x == "XNone":
            return rng.choice([["o", False, 3], ["y", "raw"], ["i", -2 ** 63 - 1]])
        if ser == "SSucc" and x in ("XNone", "XPositive"):
            return ["i", 2 ** 64 - 1]          # encodable itself, its serialization 2**64 is not
        if ser == "SNonNeg" and x in ("XNone", "XEven"):
            return ["i", 2 ** 64]
    return None


def auto_fields(role, name):
    V = lambda k, s: {"kind": "value", "key": k, "value": ["s", s]}
    if role == "msg":
        return [V("message_type", name)]
    if role == "start":
        return [V("action_type", name), V("action_status", "started")]
    if role == "success":
        return [V("action_type", name), V("action_status", "succeeded")]
    if role == "failure":
        return [V("action_type", name), V("action_status", "failed"),
                {"kind": "types", "key": "reason", "classes": ["TStr"], "extra": "XNone"},
                {"kind": "types", "key": "exception", "classes": ["TStr"], "extra": "XNone"}]
    if role == "tb":
        return [{"kind": "custom", "key": "reason", "ser": "SSafeUnicode", "extra": "XNone"},
                {"kind": "custom", "key": "traceback", "ser": "SSafeUnicode", "extra": "XNone"},
                {"kind": "custom", "key": "exception", "ser": "SExnName", "extra": "XNone"},
                V("message_type", "eliot:traceback")]
    return []


def captured_roles(case):
    """the roles of the messages the use captures, with declared fields and whether extras are allowed"""
    k = case["kind"]
    out = []
    if k == "untyped":
        out.append(("plain", [], True))
    elif k == "message":
        out.append(("msg", case["fields"] + auto_fields("msg", case["name"]), False))
    else:
        out.append(("start", case["fields"] + auto_fields("start", case["name"]), False))
    if case.get("tb"):
        out.append(("tb", auto_fields("tb", ""), True))
    if k == "action":
        if case["end"] == "succeed":
            out.append(("success", case["success_fields"] + auto_fields("success", case["name"]), False))
        else:
            out.append(("failure", auto_fields("failure", case["name"]), True))
    return out


EXTRA_KEYS = ["extra1", "exception", "reason", "traceback", "action_status", "message_type", "action_type",
              "task_uuid2", "errno"]


def gen_deviation(rng, case, kind):
    roles = captured_roles(case)
    i = rng.randrange(len(roles))
    role, declared, allow = roles[i]
    dkeys = [f["key"] for f in declared]
    present = set(dkeys) | {"task_uuid", "task_level", "timestamp"}
    if role == "plain":
        present |= set(k[1] for k, _ in case["values"]) | {"message_type"}
    if kind == "missing":
        if not declared:
            return None
        return {"label": "missing", "op": "del", "i": i, "key": ["s", rng.choice(dkeys)]}
    if kind == "extra":
        cand = [k for k in EXTRA_KEYS if k not in present]
        if role in ("failure", "tb") and case.get("extractor"):
            cand = [k for k in cand if k not in [kk[1] for kk, _ in case["extractor"]["fields"]]]
        key = "exception" if ("exception" in cand and rng.random() < 0.35) else rng.choice(cand)
        return {"label": "extra_allowed" if allow else "extra", "op": "set", "i": i, "key": ["s", key],
                "value": rng.choice([["i", 1], ["s", "v"], ["n"]])}
    if kind in ("wrong", "rejected", "unencodable", "bool_as_int"):
        order = list(declared)
        rng.shuffle(order)
        for f in order:
            if kind == "bool_as_int":
                ok = f["kind"] == "types" and "TInt" in f["classes"] and f["extra"] == "XNone"
                v = ["b", True] if ok else None
            else:
                v = {"wrong": wrong_value, "rejected": rejected_value, "unencodable": unencodable_value}[kind](rng, f)
            if v is not None:
                return {"label": kind, "op": "set", "i": i, "key": ["s", f["key"]], "value": v}
        if kind == "unencodable" and allow:
            cand = [k for k in EXTRA_KEYS if k not in present]
            return {"label": "unencodable", "op": "set", "i": i, "key": ["s", rng.choice(cand)],
                    "value": rng.choice([["o", False, 4], ["y", "b"], ["i", 2 ** 65], ["l", [["o", False, 4]]]])}
        return None
    if kind == "wrong_equal":
        # a value of a class the field does not allow that is EQUAL (==, same hash) to the conforming value the same
        # field accepted a moment ago in the same message position: 1 / 1.0 / True, 0 / 0.0 / False
        vals = dict((k[1], v) for k, v in (case["success_values"] if role == "success" else case["values"]))
        order = [f for f in declared if f["kind"] == "types" and f["extra"] == "XNone" and f["key"] in vals]
        rng.shuffle(order)
        for f in order:
            v, cl = vals[f["key"]], f["classes"]
            alts = []
            if v[0] == "i" and abs(v[1]) < 2 ** 53 and "TFloat" not in cl:
                alts.append(["f", v[1]])
            if v[0] == "f" and "TInt" not in cl:
                alts.append(["i", v[1]])
            if v[0] == "b" and "TInt" not in cl:
                alts.append(["i", int(v[1])])
            if v[0] == "b" and "TFloat" not in cl:
                alts.append(["f", int(v[1])])
            if v[0] in ("i", "f") and v[1] in (0, 1) and "TBool" not in cl and "TInt" not in cl:
                alts.append(["b", bool(v[1])])
            if alts:
                return {"label": "wrong", "op": "set", "i": i, "key": ["s", f["key"]], "value": rng.choice(alts)}
        return None
    if kind == "badkey":
        key = rng.choice([["y", True, "bk"], ["y", False, "bk"], ["o", 5]])
        return {"label": "badkey", "op": "set", "i": i, "key": key, "value": ["i", 1]}
    return None


DEV_KINDS = ["missing", "extra", "wrong", "rejected", "unencodable", "badkey", "bool_as_int", "wrong_equal", "wrong_equal"]
BAD_KEYS = ["_private", "task_uuid", "timestamp", "task_level", "message_type", "action_type", "action_status"]


def gen_typed_case(rng):
    kind = rng.choice(["message", "message", "action", "action", "action", "untyped"])
    name = rng.choice(["app:m", "app:sub:thing", "x", "eliot:traceback2"])
    case = {"kind": kind, "name": name, "fields": [], "success_fields": [], "values": [], "success_values": [],
            "end": None, "exc": None, "extractor": None, "tb": rng.random() < 0.4, "deviation": None, "flush": []}
    keys = rng.sample(GOOD_KEYS, rng.randrange(0, 4))
    if kind == "untyped":
        case["values"] = [[["s", k], sample_tag(rng, rng.choice(["TInt", "TStr", "TList", "TDict", "TNone", "TFloat", "TBool"]))]
                          for k in keys]
    else:
        if kind == "action":
            keys = [k for k in keys if k != "status"] or ["x"]
        case["fields"] = [gen_field(rng, k) for k in keys]
        case["values"] = [[["s", f["key"]], conforming_value(rng, f)] for f in case["fields"]]
    if kind == "message":
        case["via"] = rng.choice(["log", "log", "write_action", "write_logger"])
    exc_name = rng.choice(sorted(EXC_MRO))
    case["exc"] = {"cls": exc_name, "mro": EXC_MRO[exc_name], "text": rng.choice(["boom", "bad thing 7", ""])}
    if kind == "action":
        case["end"] = rng.choice(["succeed", "fail", "fail"])
        skeys = rng.sample(["result", "n", "out", "reason"], rng.randrange(0, 3))
        case["success_fields"] = [gen_field(rng, k) for k in skeys]
        case["success_values"] = [[["s", f["key"]], conforming_value(rng, f)] for f in case["success_fields"]]
    if rng.random() < 0.5 and (case["tb"] or case["end"] == "fail"):
        pool = ["code", "errno", "detail", "extra1"]
        if not case["tb"]:
            pool += ["reason", "exception", "action_status", "task_uuid"]    # overwritten by Action.finish
        ek = rng.sample(pool, rng.randrange(1, 3))
        target = rng.choice(case["exc"]["mro"] + ["builtins.KeyError"])
        case["extractor"] = {"for": target,
                             "fields": [[["s", k], sample_tag(rng, rng.choice(["TInt", "TStr", "TList"]))] for k in ek]}
    return case


def extracted(case):
    x = case.get("extractor")
    if x and x["for"] in case["exc"]["mro"]:
        return x["fields"]
    return []


def gen_validate(rng, tier):
    n = 700 if tier == "quick" else 6000
    cases = []
    # constructor checks of _MessageSerializer
    for key in BAD_KEYS + ["x"]:
        for kind in ("message", "action"):
            if (key, kind) == ("action_status", "message"):
                continue                       # a legal field name for a message type
            c = gen_typed_case(rng)
            c.update(kind=kind, tb=False, extractor=None, end="succeed" if kind == "action" else None,
                     success_fields=[], success_values=[])
            f1 = {"kind": "types", "key": key, "classes": ["TInt"], "extra": "XNone"}
            c["fields"] = [f1] + ([dict(f1)] if key == "x" else [])
            c["values"] = [[["s", key], ["i", 1]]]
            c["ctor_expected"] = "ValueError"
            cases.append(c)
    # fields that no value satisfies: a use can never conform
    for ser, x in (("SRaiseType", "XNone"), ("SRaiseValue", "XNone"), ("SId", "XRejectAll")):
        c = gen_typed_case(rng)
        c.update(kind="message", tb=False, extractor=None, end=None, success_fields=[], success_values=[])
        c["fields"] = [{"kind": "custom", "key": "x", "ser": ser, "extra": x}]
        c["values"] = [[["s", "x"], ["i", 1]]]
        c["unsatisfiable"] = True
        cases.append(c)
    while len(cases) < n:
        c = gen_typed_case(rng)
        if rng.random() > 0.2:
            want = rng.choice(DEV_KINDS)
            for _ in range(40):
                d = gen_deviation(rng, c, want)
                if d is not None and (want != "extra" or d["label"] == "extra" or rng.random() < 0.3):
                    c["deviation"] = d
                    break
                c = gen_typed_case(rng)
        fl = rng.random()
        if fl < 0.45:
            c["flush"] = ["builtins.Exception"]
        elif fl < 0.7:
            c["flush"] = [rng.choice(["builtins.ValueError", MOD + ".AppError", "builtins.RuntimeError"]), "builtins.Exception"]
        elif fl < 0.85:
            c["flush"] = [rng.choice(["builtins.ValueError", MOD + ".AppError", "builtins.RuntimeError"])]
        cases.append(c)
    return cases


def _cls_name(f):
    try:
        f()
        return None
    except BaseException as e:
        return type(e).__name__


def impl_validate(case):
    import eliot
    from eliot import MemoryLogger, MessageType, ActionType, write_traceback, log_message
    from eliot.testing import check_for_errors, swap_logger
    from eliot._errors import _error_extraction
    objs = _Objs()
    saved_registry = dict(_error_extraction.registry)
    saved_default = eliot._output._DEFAULT_LOGGER
    try:
        kind = case["kind"]
        try:
            if kind == "message":
                T = MessageType(case["name"], [field_to_py(f, objs) for f in case["fields"]], "")
            elif kind == "action":
                T = ActionType(case["name"], [field_to_py(f, objs) for f in case["fields"]],
                               [field_to_py(f, objs) for f in case["success_fields"]], "")
            else:
                T = None
        except ValueError:
            return {"ctor": "ValueError"}
        logger = MemoryLogger()
        exc_cls = _exc_class(case["exc"]["mro"][0])
        x = case.get("extractor")
        if x:
            fields = dict((key_to_py(k), val_to_py(v, objs)) for k, v in x["fields"])
            _error_extraction.register_exception_extractor(_exc_class(x["for"]), lambda e: dict(fields))
        values = dict((key_to_py(k), val_to_py(v, objs)) for k, v in case["values"])

        def tb():
            if case.get("tb"):
                try:
                    raise exc_cls(case["exc"]["text"])
                except Exception:
                    write_traceback(logger)

        if kind in ("message", "untyped"):
            prev = swap_logger(logger)
            try:
                if kind == "message" and case.get("via") == "write_action":
                    # the less common spelling: build the message, then write it into an explicitly given action
                    from eliot import Action
                    from eliot._action import TaskLevel
                    holder = Action(logger, "c14-holder-uuid", TaskLevel(level=[]), "c14:holder")
                    T(**values).write(action=holder)
                elif kind == "message" and case.get("via") == "write_logger":
                    T(**values).write(logger)
                elif kind == "message":
                    T.log(**values)
                else:
                    log_message(case["name"], **values)
            finally:
                swap_logger(prev)
            tb()
        else:
            svalues = dict((key_to_py(k), val_to_py(v, objs)) for k, v in case["success_values"])
            try:
                with T(logger, **values) as act:
                    tb()
                    if case["end"] == "succeed":
                        act.add_success_fields(**svalues)
                    else:
                        raise exc_cls(case["exc"]["text"])
            except exc_cls:
                pass
        dev = case.get("deviation")
        if dev:
            d = dict(logger.messages[dev["i"]])
            if dev["op"] == "del":
                del d[key_to_py(dev["key"])]
            else:
                d[key_to_py(dev["key"])] = val_to_py(dev["value"], objs)
            logger.write(d, logger.serializers[dev["i"]])
        msgs = []
        for m, s in zip(logger.messages, logger.serializers):
            pairs = []
            for k, v in m.items():
                kk = key_from_py(k)
                vv = val_from_py(v, objs)
                if kk == ["s", "traceback"] and s is eliot._traceback.TRACEBACK_MESSAGE._serializer and isinstance(v, str) \
                        and v.startswith("Traceback"):
                    vv = ["s", "TB"]
                pairs.append([kk, vv])
            msgs.append(canon_msg(pairs))
        obs = {"ctor": None, "msgs": msgs, "n_tb": len(logger.tracebackMessages)}
        obs["cfe1"] = _cls_name(lambda: check_for_errors(logger))
        obs["flushed"] = []
        for cls in case["flush"]:
            try:
                obs["flushed"].append(len(logger.flush_tracebacks(_exc_class(cls))))
            except Exception as e:
                obs["flushed"].append(type(e).__name__)
        obs["validate"] = _cls_name(logger.validate)
        obs["cfe2"] = _cls_name(lambda: check_for_errors(logger))
        return obs
    finally:
        _error_extraction.registry.clear()
        _error_extraction.registry.update(saved_registry)
        eliot._output._DEFAULT_LOGGER = saved_default


PRELUDE = r"""
Local Open Scope string_scope.
Local Open Scope list_scope.
Definition cls_of {A} (r : result A) : option ecls := match r with Ok _ => None | Raise e => Some e end.
Inductive deviation := DNone | DDel (i : nat) (k : mkey) | DSet (i : nat) (k : mkey) (v : jv).
Definition deviate (L : mlogger) (d : deviation) : mlogger :=
  match d with
  | DNone => L
  | DDel i k => write L (mdel k (nth i (messages L) [])) (nth i (serializers L) None)
  | DSet i k v => write L (mset k v (nth i (messages L) [])) (nth i (serializers L) None)
  end.
Definition observe (L : mlogger) (flush : list string) :=
  let '(La, c1) := check_for_errors L in
  let '(Lb, nfl) := fold_left (fun (st : mlogger * list (result nat)) cls =>
                       let '(L', r) := flush_tracebacks (fst st) cls in
                       (L', snd st ++ [match r with Ok l => Ok (List.length l) | Raise e => Raise e end]))
                     flush (La, []) in
  let '(Lc, v) := logger_validate Lb in
  let '(Ld, c2) := check_for_errors Lc in
  (messages L, List.length (tracebackMessages L), cls_of c1, nfl, cls_of v, cls_of c2).
Definition U := JStr "U".
Definition LV := JStr "L".
Definition TS := JStr "T".
"""


def model_validate(case):
    kind = case["kind"]
    name = to_coq(Str(case["name"]))
    flds = to_coq([fdesc_to_coq(f) for f in case["fields"]]) if case["fields"] else "[]"
    sflds = to_coq([fdesc_to_coq(f) for f in case["success_fields"]]) if case["success_fields"] else "[]"
    vals = to_coq(pairs_to_coq(case["values"]))
    exc = case["exc"]
    mro = to_coq([Str(s) for s in exc["mro"]])
    text = to_coq(Str(exc["text"]))
    ext = to_coq(pairs_to_coq(extracted(case)))
    tbmsg = "(traceback_message U LV TS (JExn %s %s) (JStr \"TB\") (JExnType %s) %s)" % (mro, text, mro, ext)
    writes = []          # (message expr, serializer expr)
    if kind == "untyped":
        head, tail = "", ""
        writes.append(("(log_message (JStr %s) U LV TS %s)" % (name, vals), "None"))
    elif kind == "message":
        head = "match message_type 1 %s (map field_of %s) with None => None | Some sz => Some (" % (name, flds)
        tail = ") end"
        writes.append(("(log_message (JStr %s) U LV TS %s)" % (name, vals), "(Some sz)"))
    else:
        head = "match action_type 1 %s (map field_of %s) (map field_of %s) with None => None | Some a => Some (" % (name, flds, sflds)
        tail = ") end"
        writes.append(("(start_message (JStr %s) U LV TS %s)" % (name, vals), "(Some (s_start a))"))
    if case.get("tb"):
        writes.append((tbmsg, "(Some TRACEBACK_SERIALIZER)"))
    if kind == "action":
        if case["end"] == "succeed":
            writes.append(("(success_message (JStr %s) U LV TS %s)" % (name, to_coq(pairs_to_coq(case["success_values"]))),
                           "(Some (s_success a))"))
        else:
            writes.append(("(failure_message (JStr %s) U LV TS %s %s %s)" % (name, to_coq(Str(exc["mro"][0])), text, ext),
                           "(Some (s_failure a))"))
    L = "new_logger"
    for m, s in writes:
        L = "(write %s %s %s)" % (L, m, s)
    dev = case.get("deviation")
    if not dev:
        d = "DNone"
    elif dev["op"] == "del":
        d = "(DDel %d %s)" % (dev["i"], to_coq(key_to_coq(dev["key"])))
    else:
        d = "(DSet %d %s %s)" % (dev["i"], to_coq(key_to_coq(dev["key"])), to_coq(val_to_coq(dev["value"])))
    flush = to_coq([Str(s) for s in case["flush"]]) if case["flush"] else "[]"
    body = "observe (deviate %s %s) %s" % (L, d, flush)
    if kind == "untyped":
        return "Some (%s)" % body
    return head + body + tail


def _cls(p):
    if p is None:
        return None
    return CLS[p[1]]


def model_obs_validate(case, v):
    if v is None:
        return {"ctor": "ValueError"}
    msgs, n_tb, c1, nfl, val, c2 = flat(v[1], 6)
    out_msgs = [canon_msg([[key_from_coq(k), val_from_coq(x)] for k, x in m]) for m in msgs]
    flushed = [r[1] if r[0] == "Ok" else CLS[r[1]] for r in nfl]
    return {"ctor": None, "msgs": out_msgs, "n_tb": n_tb, "cfe1": _cls(c1), "flushed": flushed,
            "validate": _cls(val), "cfe2": _cls(c2)}


VALID_LABELS = ("extra_allowed", "bool_as_int")


def oracle_validate(case, obs):
    """From the property text: conforming => no error; any single deviation => error;
    unflushed tracebacks => UnflushedTracebacks before validation."""
    if case.get("ctor_expected"):
        if obs.get("ctor") != case["ctor_expected"]:
            return "type definition with an illegal field name was accepted"
        return None
    if obs.get("ctor"):
        return "legal type definition was refused: %s" % obs["ctor"]
    dev = case.get("deviation")
    conforming = not case.get("unsatisfiable") and (dev is None or dev["label"] in VALID_LABELS)
    # the first validation of the stored messages
    first = obs["cfe1"] if obs["n_tb"] == 0 else obs["validate"]
    if obs["n_tb"] > 0:
        if obs["cfe1"] != "UnflushedTracebacks":
            return "%d unflushed traceback(s) but check_for_errors raised %r" % (obs["n_tb"], obs["cfe1"])
    if conforming and first is not None:
        return "messages produced by correct use of the declared type were rejected with %s" % first
    if not conforming and first is None:
        return "deviation %r was not reported" % (dev["label"] if dev else "unsatisfiable field")
    if not conforming and dev and dev["label"] in ("missing", "extra", "rejected") and first != "ValidationError":
        return "deviation %r reported as %s, expected ValidationError" % (dev["label"], first)
    if not conforming and dev and dev["label"] == "unencodable" and first != "TypeError":
        return "non-JSON-encodable value reported as %s, expected TypeError" % first
    # the library-built messages have the promised shape
    roles = captured_roles(case)
    for (role, declared, allow), m in zip(roles, obs["msgs"]):
        keys = [k[1] for k, _ in m if k[0] == "s"]
        for f in declared:
            if f["key"] not in keys:
                return "library-built %s message lacks declared field %r" % (role, f["key"])
        for r in ("task_uuid", "task_level", "timestamp"):
            if r not in keys:
                return "library-built %s message lacks %r" % (role, r)
    return None


def nontrivial_validate(case, obs):
    if obs.get("ctor"):
        return ("ctor", case["kind"], case["fields"][0]["key"])
    dev = case.get("deviation")
    roles = [r for r, _, _ in captured_roles(case)]
    return (case["kind"], tuple(roles), dev["label"] if dev else "none",
            roles[dev["i"]] if dev else None, obs.get("validate"), obs.get("cfe1"))


def describe_validate(case):
    dev = case.get("deviation")
    roles = [r for r, _, _ in captured_roles(case)]
    out = ["kind:" + case["kind"], "dev:" + (dev["label"] if dev else "none")]
    if dev:
        out.append("target:" + roles[dev["i"]])
        if dev["label"] == "extra":
            out.append("extra-key:" + str(dev["key"][1]))
    if case.get("tb"):
        out.append("with-traceback")
        if dev and dev["label"] not in VALID_LABELS:
            out.append("traceback+deviation")
    if extracted(case):
        out.append("extractor-fields")
    if case.get("ctor_expected"):
        out.append("illegal-definition")
    for f in case["fields"] + case["success_fields"]:
        out.append("field:" + f["kind"] + ("+validator" if f.get("extra", "XNone") != "XNone" else ""))
    return out


def shrink_validate(case):
    for k in ("flush",):
        if case[k]:
            c = dict(case)
            c[k] = []
            yield c
    if case.get("extractor"):
        c = dict(case)
        c["extractor"] = None
        yield c
    dev = case.get("deviation")
    if case.get("tb") and not (dev and captured_roles(case)[dev["i"]][0] == "tb"):
        c = dict(case)
        c["tb"] = False
        if dev and dev["i"] > 0:
            c["deviation"] = dict(dev, i=dev["i"] - 1)
        yield c


# ------------------------------------------------------------------ family: harness
STEPS = ["default_ok", "default_bad", "logger_ok", "logger_bad", "tb_default", "tb_logger", "flush", "clobber"]


def gen_harness(rng, tier):
    n = 220 if tier == "quick" else 2500
    cases = []
    for deco in ("capture", "validate"):
        for outcome in ("pass", "fail", "error", "skip"):
            for assertion in ("none", "ok"):
                cases.append({"deco": deco, "assertion": assertion, "steps": [], "outcome": outcome})
            cases.append({"deco": deco, "assertion": "ok", "steps": ["default_bad", "logger_bad"], "outcome": outcome})
            cases.append({"deco": deco, "assertion": "ok", "steps": ["tb_default", "tb_logger"], "outcome": outcome})
            cases.append({"deco": deco, "assertion": "fail", "steps": ["clobber"], "outcome": outcome})
    while len(cases) < n:
        cases.append({"deco": rng.choice(["capture", "capture", "validate"]),
                      "assertion": rng.choice(["none", "ok", "ok", "fail", "error"]),
                      "steps": [rng.choice(STEPS) for _ in range(rng.randrange(0, 5))],
                      "outcome": rng.choice(["pass", "fail", "error", "skip"])})
    return cases


def impl_harness(case):
    import io
    import unittest
    import eliot
    from eliot import MessageType, Field, write_traceback, Logger
    from eliot.testing import capture_logging, validate_logging
    M = MessageType("app:m", [Field.for_types("x", [int], "")], "")
    calls = []

    def assertion(test, logger):
        calls.append(len(logger.messages))
        if case["assertion"] == "fail":
            test.fail("assertion callback fails")
        if case["assertion"] == "error":
            raise ValueError("assertion callback breaks")

    a = None if case["assertion"] == "none" else assertion
    deco = capture_logging(a) if case["deco"] == "capture" else validate_logging(a)

    def body(self, logger):
        for st in case["steps"]:
            if st == "default_ok":
                M.log(x=1)
            elif st == "default_bad":
                M.log(x="one")
            elif st == "logger_ok":
                M.log(x=1, __eliot_logger__=logger)
            elif st == "logger_bad":
                M.log(x="one", __eliot_logger__=logger)
            elif st in ("tb_default", "tb_logger"):
                try:
                    raise RuntimeError("tb")
                except RuntimeError:
                    write_traceback(logger if st == "tb_logger" else None)
            elif st == "flush":
                logger.flush_tracebacks(RuntimeError)
            elif st == "clobber":
                eliot._output._DEFAULT_LOGGER = Logger()
        if case["outcome"] == "fail":
            self.fail("body fails")
        if case["outcome"] == "error":
            raise RuntimeError("body breaks")
        if case["outcome"] == "skip":
            raise unittest.SkipTest("body skips")

    class T(unittest.TestCase):
        test_it = deco(body)

    seen = {"failures": [], "errors": [], "success": 0}

    class R(unittest.TextTestResult):
        def addError(self, test, err):
            seen["errors"].append(err[0].__name__)
            super().addError(test, err)

        def addFailure(self, test, err):
            seen["failures"].append(err[0].__name__)
            super().addFailure(test, err)

        def addSuccess(self, test):
            seen["success"] += 1
            super().addSuccess(test)

    previous = eliot._output._DEFAULT_LOGGER
    try:
        stream = io.StringIO()
        result = unittest.TextTestRunner(stream=stream, resultclass=R, verbosity=0).run(
            unittest.defaultTestLoader.loadTestsFromTestCase(T))
        return {"restored": eliot._output._DEFAULT_LOGGER is previous, "calls": len(calls),
                "failures": seen["failures"], "errors": seen["errors"], "skipped": len(result.skipped),
                "success": seen["success"] == 1, "run": result.testsRun}
    finally:
        eliot._output._DEFAULT_LOGGER = previous


HARNESS_PRELUDE = r"""
Local Open Scope string_scope.
Local Open Scope list_scope.
Definition U := JStr "U".
Definition LV := JStr "L".
Definition TS := JStr "T".
Definition MT : option serializer := message_type 1 "app:m" [for_types "x" [TInt] no_extra].
Definition ok_msg := log_message (JStr "app:m") U LV TS [(K "x", JInt 1)].
Definition bad_msg := log_message (JStr "app:m") U LV TS [(K "x", JStr "one")].
Definition RT := ["builtins.RuntimeError"; "builtins.Exception"].
Definition tb_msg := traceback_message U LV TS (JExn RT "tb") (JStr "TB") (JExnType RT) [].
Definition TBS := Some TRACEBACK_SERIALIZER.
Definition run_case (capture : bool) (a : option assertion) (steps : list step) (o : outcome) :=
  let w0 := init_world in
  let body := lift (body_of steps o) in
  let '(w, r) := run_test (if capture then capture_logging a body else validate_logging a body) w0 in
  (Nat.eqb (default_logger w) (default_logger w0), assertion_calls w, r_failures r, r_errors r, r_skipped r, r_success r).
"""

STEP_COQ = {
    "default_ok": "SWriteDefault ok_msg MT", "default_bad": "SWriteDefault bad_msg MT",
    "logger_ok": "SWriteLogger ok_msg MT", "logger_bad": "SWriteLogger bad_msg MT",
    "tb_default": "SWriteDefault tb_msg TBS", "tb_logger": "SWriteLogger tb_msg TBS",
    "flush": "SFlush \"builtins.RuntimeError\"", "clobber": "SClobber 99",
}


def model_harness(case):
    a = {"none": "None", "ok": "(Some (fun _ => None))", "fail": "(Some (fun _ => Some EAssertion))",
         "error": "(Some (fun _ => Some EValue))"}[case["assertion"]]
    o = {"pass": "OPass", "fail": "OFail", "error": "(OError ERuntime)", "skip": "OSkip"}[case["outcome"]]
    steps = "[" + "; ".join(STEP_COQ[s] for s in case["steps"]) + "]"
    return "run_case %s %s %s %s" % ("true" if case["deco"] == "capture" else "false", a, steps, o)


def model_obs_harness(case, v):
    restored, calls, fails, errs, skipped, success = flat(v, 6)
    return {"restored": restored, "calls": calls, "failures": [CLS[e] for e in fails],
            "errors": [CLS[e] for e in errs], "skipped": skipped, "success": success, "run": 1}


def oracle_harness(case, obs):
    if obs["run"] != 1:
        return "the test did not run"
    if case["deco"] == "capture" and not obs["restored"]:
        return "capture_logging left a different default logger behind (test outcome %s)" % case["outcome"]
    if case["deco"] == "validate" and "clobber" not in case["steps"] and not obs["restored"]:
        return "validate_logging changed the default logger"
    if case["assertion"] != "none":
        want = 0 if case["outcome"] == "skip" else 1
        if obs["calls"] != want:
            return "assertion callback called %d times, expected %d" % (obs["calls"], want)
    # what ended up in the test's own logger
    captures = case["deco"] == "capture"
    tb = 0
    bad = False
    default_is_logger = captures
    for st in case["steps"]:
        to_logger = st.endswith("_logger") or (st.endswith("_default") and default_is_logger)
        if st in ("logger_bad",) or (st == "default_bad" and default_is_logger):
            bad = True
        if st in ("tb_default", "tb_logger") and to_logger:
            tb += 1
        if st == "flush":
            tb = 0
        if st == "clobber":
            default_is_logger = False
    if tb and "UnflushedTracebacks" not in obs["errors"]:
        return "unflushed traceback did not make the test error"
    if not tb and bad and "ValidationError" not in obs["errors"]:
        return "invalid message did not surface as a test error"
    if not tb and not bad and ("ValidationError" in obs["errors"] or "UnflushedTracebacks" in obs["errors"]):
        return "valid logging was reported as an error: %r" % (obs["errors"],)
    exp_fail = (1 if case["outcome"] == "fail" else 0) + (1 if case["assertion"] == "fail" and case["outcome"] != "skip" else 0)
    if len(obs["failures"]) != exp_fail:
        return "expected %d failures, saw %r" % (exp_fail, obs["failures"])
    if obs["skipped"] != (1 if case["outcome"] == "skip" else 0):
        return "skip count %d" % obs["skipped"]
    return None


FAMILIES = [
    Family("validate", gen_validate, impl_validate, model_validate, model_obs_validate, oracle_validate,
           nontrivial_validate, imports=["Model.Validation"], prelude=PRELUDE, describe=describe_validate,
           shrink=shrink_validate, coq_shard=60),
    Family("harness", gen_harness, impl_harness, model_harness, model_obs_harness, oracle_harness,
           lambda c, o: (c["deco"], c["assertion"], tuple(c["steps"]), c["outcome"]),
           imports=["Model.Validation"], prelude=HARNESS_PRELUDE,
           describe=lambda c: ["deco:" + c["deco"], "outcome:" + c["outcome"], "assertion:" + c["assertion"]] +
                              ["step:" + s for s in set(c["steps"])],
           coq_shard=60),
]

LEVEL_TEXT = ("Coq theorems: validate_iff (acceptance = every declared field present and accepted, and no undeclared "
              "field besides the three reserved names unless additional fields are allowed), for_value/for_types "
              "characterised, MemoryLogger.validate fails iff some stored message fails, single deviations are always "
              "reported, library-built start/success/failure/traceback messages conform, tracebacks are checked before "
              "validation, capture_logging restores the default logger for every outcome; tied to /repo by running real "
              "MessageType/ActionType/MemoryLogger/check_for_errors/unittest on generated definitions, uses and deviations.")
LEVEL_NOTE = ("Trusted: Coq kernel; hand-written model Model/Validation.v tied by correspondence; orjson's encodability "
              "and unittest's cleanup semantics are modelled, not proved; serializer/validator functions in the "
              "correspondence come from a small library implemented on both sides.")
