"""C01 — emitted logs parse back to exactly the action tree the program executed."""
import json
import random

from lib import progs, oracles, forests
from lib.framework import Family
from lib.coqbridge import to_coq, Nat

ID = "C01"
PROPS_FILE = "Props/C01.v"
TRUSTED = ["JSON encode/decode between file and parser is the identity on the message abstraction (property C10 covers the codec)",
           "orjson / json.loads"]
ASSUMPTIONS = ["programs are generated from the documented AST (lib/progs.py); no failing destinations or serializers in this family"]
RULE = ("logging programs generated from VERIF_SEED (all API styles, typed and untyped, tasks, tracebacks, hand-offs to threads), written "
        "through a real FileDestination, lines decoded with json.loads and parsed by the real parser in file order and shuffled orders; "
        "non-trivial when the program produced at least one action with a child")
LEVEL_TEXT = ("Coq theorems tying the logging model to the parser model + correspondence: the forest the real parser builds from the real "
              "JSON lines equals the forest the parser model builds from the logging model's messages + the statement: the parsed forest "
              "(shape, child order, types, statuses, field values) equals the interpreter's own record of what the program did.")
LEVEL_NOTE = ("Trusted: Coq kernel; models Core/Prog/Parser tied by correspondence; JSON codec as identity (C10). Partial: the end-to-end "
              "theorem parse(trace(compile p)) = expected p is composed from the C02 placement theorems and the C09 parser theorems as far as Props/C01.v lists.")


def gen(rng, tier):
    n = 100 if tier == "quick" else 2000
    out = []
    for i in range(n):
        kw = dict(fault=0.0, registry_rate=0.5, p_fault_ser=0.0, p_typed=0.35, p_tb=0.08, p_handoff=0.12, p_task=0.1,
                  depth=4, file_dest=True, p_logcall=0.2, p_reseed=0.2, p_reserved=0.2)
        if tier == "thorough" and i % 3 == 0:
            kw.update(depth=7, width=5)
        if i % 5 == 4:
            # wide actions: hand-offs taken at positions >= 10 (multi-digit level components in the task id)
            kw.update(depth=2, width=16, p_handoff=0.3, p_raise=0.03)
        case = progs.gen_case(rng, n_dests=1, **kw)
        # extractors that raise add traceback messages the shadow record does not predict: only field extractors here
        case["registry"] = [r for r in case["registry"] if r[1][0] == "fields"]
        case["shuffle_seed"] = rng.randrange(1 << 30)
        out.append(case)
    return out


def _user_fields(d):
    return {k: v for k, v in d.items() if k.startswith("f") and k[1:].isdigit()}


def dump_rich(node):
    from eliot.parse import WrittenAction
    if isinstance(node, WrittenAction):
        s, e = node.start_message, node.end_message
        return {"k": "A", "type": node.action_type, "status": node.status,
                "start": None if s is None else _user_fields(dict(s.contents)),
                "end": None if e is None else _user_fields(dict(e.contents)),
                "exception": None if e is None else e.contents.get("exception"),
                "reason": None if e is None else e.contents.get("reason"),
                "children": [dump_rich(c) for c in node.children]}
    c = dict(node.contents)
    return {"k": "M", "type": c.get("message_type"), "fields": _user_fields(c)}


def min_id(node):
    from eliot.parse import WrittenAction
    if isinstance(node, WrittenAction):
        ids = [m.contents["id"] for m in (node.start_message, node.end_message) if m is not None]
        ids += [min_id(c) for c in node.children]
        return min(ids) if ids else 10 ** 9
    return node.contents["id"]


def orders_for(case, n):
    rnd = random.Random(case["shuffle_seed"])
    ids = list(range(n))
    orders = [list(ids), list(reversed(ids))]
    o = list(ids)
    rnd.shuffle(o)
    orders.append(o)
    return orders


def impl(case):
    from eliot.parse import Parser
    obs = progs.run_case(case)
    text = obs["files"]["9"]
    lines = text.split("\n")
    res = {"notes": obs["notes"], "outcome": obs["outcome"], "forest": obs["forest"], "n_lines": len(lines) - 1,
           "trailing_newline": text == "" or text.endswith("\n"), "n_dest1": len(obs["raw"]["1"])}
    dicts = []
    for i, ln in enumerate(lines[:-1]):
        d = json.loads(ln)
        d["id"] = i
        dicts.append(d)
    runs = []
    for order in orders_for(case, len(dicts)):
        try:
            tasks = list(Parser.parse_stream([dicts[j] for j in order]))
        except Exception as e:
            runs.append({"error": type(e).__name__})
            continue
        tasks.sort(key=lambda t: min_id(t.root()))
        runs.append({"error": None, "complete": [t.is_complete() for t in tasks],
                     "ids": [forests.dump_real(t.root()) for t in tasks],
                     "rich": [dump_rich(t.root()) for t in tasks]})
    res["runs"] = runs
    return res


def model_expr(case):
    # the same orders; the model needs the number of messages: computed inside Coq from the trace
    pre = [progs.c_preop(o) for o in case.get("pre", [])]
    prog = progs.c_stmts(case["prog"])
    return ("let cfg := %s in let pre := %s in let p := %s in "
            "let n := List.length (trace_of (fst (run_prog cfg pre p)) 1) in (n, roundtrip cfg pre p 1 (seq 0 n), "
            "roundtrip cfg pre p 1 (rev (seq 0 n)))" % (to_coq(progs.c_config(case)), to_coq(pre), to_coq(prog)))


def _model_run(r):
    if r[0] == "PErr":
        return {"error": "error"}
    done, rest = r[1]
    tasks = [forests.model_task(t) for t in list(done) + list(rest)]

    def mid(d):
        if d[0] == "M":
            return d[1]
        ids = [x for x in (d[2], d[3]) if x is not None] + [mid(c) for c in d[4]]
        return min(ids) if ids else 10 ** 9
    tasks.sort(key=lambda t: mid(t[1]))
    return {"error": None, "complete": [t[0] for t in tasks], "ids": [t[1] for t in tasks]}


def model_obs(case, parsed):
    (n, fwd), bwd = parsed
    return {"n": n, "runs": [_model_run(fwd), _model_run(bwd)]}


def project(case, obs):
    return {"n": obs["n_lines"],
            "runs": [({"error": "error"} if r["error"] else {"error": None, "complete": r["complete"], "ids": r["ids"]})
                     for r in obs["runs"][:2]]}


# ---- the executable statement: parsed forest == what the interpreter did --------------------
def expected_node(case, node, exns):
    if node["k"] == "M":
        fields = {}
        ser = dict((k, f) for k, f in (node.get("ser") or []))
        for k, v in node["fields"]:
            if k < 19:
                continue        # an application field named like a reserved one: the library's own value wins
            pv = progs.py_value(v)
            if k in ser:
                ok, pv = oracles.ref_serfn(ser[k], pv)
            fields[progs.key_name(k)] = pv
        return {"k": "M", "type": node["type"], "fields": fields}
    rec = node["rec"]
    sers = node["sers"] or {"start": [], "success": []}
    sd = dict((k, f) for k, f in sers["start"])
    ud = dict((k, f) for k, f in sers["success"])
    start = {}
    for k, v in node["start"]:
        if k < 19:
            continue
        pv = progs.py_value(v)
        if k in sd:
            ok, pv = oracles.ref_serfn(sd[k], pv)
        start[progs.key_name(k)] = pv
    if node.get("api") == "log_call":
        # Python binds the function's unused *args / **kwargs parameters to () and {}
        start["f17"] = []
        start["f18"] = {}
    failed = rec["exc"] is not None
    end, exc_name, reason = {}, None, None
    if failed:
        x = exns[rec["exc"]]
        exc_name = oracles.class_name(case, x["cls"])
        reason = progs.SAFEFAIL if x["sr"] else progs.exn_text(x["text"])
        ext = oracles.expected_extractor(case, x["cls"])
        if ext is not None and ext[0] == "fields":
            for k, v in ext[1]:
                if k >= 19:
                    end[progs.key_name(k)] = progs.py_value(v)
    else:
        for k, v in node["succ"]:
            if k == 7 and not node["sers"]:
                exc_name = progs.py_value(v)      # a success field that happens to be called "exception" / "reason"
            if k == 8 and not node["sers"]:
                reason = progs.py_value(v)
            if k < 19:
                continue
            pv = progs.py_value(v)
            if k in ud:
                ok, pv = oracles.ref_serfn(ud[k], pv)
            end[progs.key_name(k)] = pv
    return {"k": "A", "type": node["type"], "status": "failed" if failed else "succeeded", "start": start, "end": end,
            "exception": exc_name, "reason": reason,
            "children": [expected_node(case, c, exns) for c in node["children"]]}


def same_tree(a, b, path="root"):
    if a["k"] != b["k"]:
        return "%s: parsed a %s where the program made a %s" % (path, a["k"], b["k"])
    if a["type"] != b["type"]:
        return "%s: type %r, program used %r" % (path, a["type"], b["type"])
    if a["k"] == "M":
        if a["type"] == "eliot:traceback":
            return None
        if json.dumps(a["fields"], sort_keys=True) != json.dumps(b["fields"], sort_keys=True):
            return "%s: message fields %r, logged %r" % (path, a["fields"], b["fields"])
        return None
    for key in ("status", "start", "end", "exception", "reason"):
        if json.dumps(a[key], sort_keys=True) != json.dumps(b[key], sort_keys=True):
            return "%s: %s is %r, program did %r" % (path, key, a[key], b[key])
    if len(a["children"]) != len(b["children"]):
        return "%s: %d children parsed, %d logged" % (path, len(a["children"]), len(b["children"]))
    for i, (x, y) in enumerate(zip(a["children"], b["children"])):
        r = same_tree(x, y, "%s/%d" % (path, i))
        if r:
            return r
    return None


def oracle(case, obs):
    bad = oracles.note_failures(obs, ("logging_raised", "foreign_exception"))
    if bad:
        return bad
    if not obs["trailing_newline"]:
        return "log file does not end with a newline"
    if obs["n_lines"] != obs["n_dest1"]:
        return "file has %d lines but %d messages were emitted" % (obs["n_lines"], obs["n_dest1"])
    exns = oracles.all_exns(case["prog"])
    want = [expected_node(case, n, exns) for n in obs["forest"]]
    for r in obs["runs"]:
        if r["error"]:
            return "parser raised %s" % r["error"]
        if not all(r["complete"]):
            return "a task of a finished program is reported incomplete"
        if len(r["rich"]) != len(want):
            return "%d tasks parsed, the program made %d top-level actions/messages" % (len(r["rich"]), len(want))
        for i, (a, b) in enumerate(zip(r["rich"], want)):
            d = same_tree(a, b, "task%d" % i)
            if d:
                return d
    return None


def nontrivial(case, obs):
    def has_child(nodes):
        return any(n["k"] == "A" and n["children"] for n in nodes)
    return json.dumps(case["prog"], sort_keys=True) if isinstance(obs, dict) and has_child(obs.get("forest", [])) else None


# ---- operation-level scripts: actions created in one place and entered elsewhere (also in other threads) ------
from lib import oplists


def gen_scripts(rng, tier):
    n = 60 if tier == "quick" else 1200
    out = []
    for i in range(n):
        if i % 3 == 2:
            out.append(oplists.gen_script_mt(rng, n_ops=rng.randrange(8, 24)))
        else:
            out.append(oplists.gen_script(rng, late_add=(i % 6 == 0), n_ops=rng.randrange(6, 24), fault=0.0,
                                          p_register=0.3 if i % 2 else 0.0, p_exn=0.5 if i % 2 else 0.3))
            for o in out[-1]["ops"]:
                if o[0] == "register" and o[2][0] == "raise":
                    o[2] = ["fields", []]        # (raising extractors add traceback messages of their own: C03/C07 cover them)
    return out


def _dump_script(node):
    from eliot.parse import WrittenAction
    if isinstance(node, WrittenAction):
        s = node.start_message
        h = None if s is None else s.contents.get("f19")
        e = node.end_message
        endf = sorted(k for k in (e.contents if e is not None else {}) if k[:1] == "f" and k[1:].isdigit() and 40 <= int(k[1:]) < 46)
        return {"k": "A", "h": h, "status": node.status, "endf": endf, "children": [_dump_script(c) for c in node.children]}
    c = dict(node.contents)
    return {"k": "M", "type": c.get("message_type"), "fields": _user_fields(c) if c.get("message_type") != "eliot:traceback" else {}}


def _parse_script(runner, obs):
    from eliot.parse import Parser
    ids = oplists.dest_ids(runner_case[0])
    log = list(runner.it.dests[ids[0]].log) if ids else []
    dicts = []
    for i, m in enumerate(log):
        d = dict(m)
        d["id"] = i
        dicts.append(d)
    runs = []
    rnd = random.Random(len(dicts))
    shuffled = list(dicts)
    rnd.shuffle(shuffled)
    for stream in (dicts, list(reversed(dicts)), shuffled):
        try:
            tasks = list(Parser.parse_stream(stream))
        except Exception as e:
            runs.append({"error": type(e).__name__})
            continue
        tasks.sort(key=lambda t: min_id(t.root()))
        runs.append({"error": None, "complete": [t.is_complete() for t in tasks],
                     "ids": [forests.dump_real(t.root()) for t in tasks],
                     "rich": [_dump_script(t.root()) for t in tasks]})
    obs["n_lines"] = len(dicts)
    obs["runs"] = runs


runner_case = [None]


def impl_scripts(case):
    runner_case[0] = case
    return oplists.run_case(case, post=_parse_script)


def model_expr_scripts(case):
    ids = oplists.dest_ids(case)
    return ("let s := %s in let ms := number_from 0 (trace_of s %d) in "
            "(List.length ms, parse_stream ms, parse_stream (rev ms))" % (oplists.model_state_expr(case), ids[0] if ids else 1))


def expected_script_forest(case):
    """what the script did, from its operations alone: every message and every action belongs to the action that
    was current in its execution context when it was logged/started (or to the action named explicitly)"""
    stacks, nodes, roots, finished = {}, {}, [], set()

    def attach(n, parent):
        (nodes[parent]["children"] if parent is not None else roots).append(n)

    reg = []

    def end(h, exn):
        if h in nodes and h not in finished:
            finished.add(h)
            nodes[h]["status"] = "failed" if exn is not None else "succeeded"
            if exn is not None:
                # the fields of the extractor registered (by then) for the nearest class of the exception
                ext = oracles.expected_extractor({"classes": case["classes"], "registry": reg}, exn["cls"])
                if ext is not None and ext[0] == "fields":
                    nodes[h]["endf"] = sorted(progs.key_name(k) for k, _ in ext[1] if k >= 20)
    for c, o in oplists.model_ops(case):
        st = stacks.setdefault(c, [])
        cur = st[-1] if st else None
        k = o[0]
        if k == "start":
            n = {"k": "A", "h": o[1], "status": "started", "endf": [], "children": []}
            nodes[o[1]] = n
            attach(n, None if o[2] else cur)
        elif k in ("enter", "ctxenter", "runenter"):
            st.append(o[1])
        elif k == "exit":
            while st and st[-1] != o[1]:
                st.pop()
            if st:
                st.pop()
            end(o[1], o[2])
        elif k in ("ctxexit", "runexit"):
            if st:
                st.pop()
        elif k == "finish":
            end(o[1], o[2])
        elif k == "log":
            attach({"k": "M", "type": progs.type_name(o[1]), "fields": {progs.key_name(a): progs.py_value(v) for a, v in o[2]}}, cur)
        elif k == "actlog":
            attach({"k": "M", "type": progs.type_name(o[2]), "fields": {progs.key_name(a): progs.py_value(v) for a, v in o[3]}}, o[1])
        elif k == "tb":
            attach({"k": "M", "type": "eliot:traceback", "fields": {}}, cur)
        elif k == "register":
            reg.append([o[1], o[2]])
            if o[2][0] == "raise":
                pass
    return roots


def _same_script_tree(a, b, path):
    if a["k"] != b["k"]:
        return "%s: parsed a %s where the script made a %s" % (path, a["k"], b["k"])
    if a["k"] == "M":
        if a["type"] != b["type"] or json.dumps(a["fields"], sort_keys=True) != json.dumps(b["fields"], sort_keys=True):
            return "%s: parsed message %r %r, the script logged %r %r here" % (path, a["type"], a["fields"], b["type"], b["fields"])
        return None
    if a["h"] != b["h"]:
        return "%s: parsed action #%r where the script started action #%r" % (path, a["h"], b["h"])
    if a["status"] != b["status"]:
        return "%s: action #%r parsed with status %r, the script ended it as %r" % (path, a["h"], a["status"], b["status"])
    if a.get("endf", []) != b.get("endf", []):
        return "%s: action #%r ended with extractor fields %r, the extractor registered by then gives %r" % (path, a["h"], a.get("endf"), b.get("endf"))
    if len(a["children"]) != len(b["children"]):
        return "%s: action #%r has %d children in the parsed tree, %d were logged inside it" % (path, a["h"], len(a["children"]), len(b["children"]))
    for i, (x, y) in enumerate(zip(a["children"], b["children"])):
        r = _same_script_tree(x, y, "%s/%d" % (path, i))
        if r:
            return r
    return None


def oracle_scripts(case, obs):
    bad = oracles.note_failures(obs, ("logging_raised", "foreign_exception", "hang", "thread_failed"))
    if bad:
        return bad
    want = expected_script_forest(case)
    for r in obs["runs"]:
        if r["error"]:
            return "parser raised %s" % r["error"]
        if not all(r["complete"]):
            return "a task of a finished script is reported incomplete"
        if len(r["rich"]) != len(want):
            return "%d tasks parsed, the script made %d top-level actions/messages" % (len(r["rich"]), len(want))
        for i, (a, b) in enumerate(zip(r["rich"], want)):
            d = _same_script_tree(a, b, "task%d" % i)
            if d:
                return d
    return None


def project_scripts(case, obs):
    return {"n": obs["n_lines"],
            "runs": [({"error": "error"} if r["error"] else {"error": None, "complete": r["complete"], "ids": r["ids"]})
                     for r in obs["runs"][:2]]}


def nontrivial_scripts(case, obs):
    kinds = [o[0] for c, o in oplists.ctx_ops(case)]
    return json.dumps(case["ops"]) if "enter" in kinds and isinstance(obs, dict) and obs.get("n_lines", 0) >= 3 else None


FAMILIES = [
    Family("scripts", gen_scripts, impl_scripts, model_expr_scripts, model_obs, oracle_scripts, nontrivial_scripts,
           imports=["Model.Core", "Model.Prog", "Model.Parser", "Model.Roundtrip"], project=project_scripts,
           describe=oplists.describe, shard=30, coq_shard=60, case_timeout=60),
    Family("roundtrip", gen, impl, model_expr, model_obs, oracle, nontrivial,
           imports=["Model.Core", "Model.Prog", "Model.Parser", "Model.Roundtrip"], project=project,
           describe=progs.describe, shrink=progs.shrink, shard=30, coq_shard=40, case_timeout=30),
]



# fixed feature programs (lib/progs.py CORPUS_FEATURES) run first under every seed: here with the file destination
def _c01_corpus():
    out = []
    for k, c in enumerate(progs.CORPUS_FEATURES):
        if any(x[1][0] != "fields" for x in c["registry"]) or "finish_again" in json.dumps(c["prog"]):
            continue        # (explicit finish() inside the block is outside this family's expectation record; C03 has it)
        c = json.loads(json.dumps(c))
        c["pre"] = [["add", [c["pre"][0][1][0], [9, ["file"], {"id": 0, "cls": 15, "text": 1, "sr": False}]]]]
        c["shuffle_seed"] = 1000 + k
        out.append(c)
    return out


for _f in FAMILIES:
    if _f.name == "roundtrip":
        _f.corpus = list(_f.corpus or []) + _c01_corpus()
