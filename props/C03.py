"""C03 — see properties.jsonl; family: generated logging programs."""
from lib import progs, oracles

ID = "C03"
PROPS_FILE = "Props/C03.v"
TRUSTED = []
ASSUMPTIONS = ["programs are generated from the documented AST (lib/progs.py); every spawned thread is joined"]
RULE = ("logging programs generated from VERIF_SEED (nesting depth <= 4..8, all API styles, fault stream per property); "
        "distinct by program text, non-trivial when at least 3 messages reached the destinations")
LEVEL_TEXT = 'Coq theorems about finish (idempotence, one end message) + correspondence + the executable statement: exactly one start and one end per action, end status failed iff the body raised (any class incl. BaseException-only ones), exception/reason/extractor fields of the nearest registered class, field placement, identity of the propagated exception.'
LEVEL_NOTE = 'Trusted: Coq kernel; hand-written model Model/Core.v + Model/Prog.v tied to /repo by per-run correspondence on generated logging programs (real control flow, real threads for hand-offs); Python harness. Extractor-failure recursion (F2) was repaired in /repo (fix: commit); the model is of the repaired code.'

FAMILIES = [
    progs.program_family("programs", oracles.oracle_c03, 120, 2500, deep=dict(depth=6), **dict(p_reserved=0.2, p_finish_inside=0.08, fault=0.4, registry_rate=0.9, p_fault_ser=0.0, p_raise=0.3, p_finish_again=0.15, sr=0.3)),
]
