"""C03 — see properties.jsonl; family: generated logging programs."""
from lib import progs, oracles

ID = "C03"
PROPS_FILE = "Props/C03.v"
TRUSTED = []
ASSUMPTIONS = ["programs are generated from the documented AST (lib/progs.py); every spawned thread is joined"]
RULE = ("logging programs generated from VERIF_SEED (nesting depth <= 4..8, all API styles, fault stream per property); "
        "distinct by program text, non-trivial when at least 3 messages reached the destinations")
LEVEL_TEXT = 'Coq theorems about finish (idempotence, one end message) + correspondence + the executable statement: exactly one start and one end per action, end status failed iff the body raised (any class incl. BaseException-only ones), exception/reason/extractor fields of the nearest registered class, field placement, identity of the propagated exception.'
LEVEL_NOTE = 'Trusted: Coq kernel; hand-written model Model/Core.v + Model/Prog.v tied to /repo by per-run correspondence on generated logging programs (real control flow, real threads for hand-offs); Python harness. Extractor-failure recursion (F2) was repaired in /repo (fix: commit); the model is of the repaired code.'

FAMILIES = [
    progs.program_family("programs", oracles.oracle_c03, 120, 2500, deep=dict(depth=6), **dict(p_reserved=0.2, p_finish_inside=0.2, fault=0.4, registry_rate=0.9, p_fault_ser=0.0, p_raise=0.3, p_finish_again=0.15, sr=0.3, p_handler=0.1)),
]


# ---- operation-level scripts: extractors registered in the middle of the run, explicit finish(exc) -----------
import json
from lib import oplists
from lib.framework import Family


def gen_scripts(rng, tier):
    n = 80 if tier == "quick" else 1500
    return [oplists.gen_script(rng, late_add=(i % 5 == 0), n_ops=rng.randrange(8, 28), fault=0.0 if i % 2 else 0.3,
                               p_register=0.35, p_exn=0.6) for i in range(n)]


def oracle_scripts(case, obs):
    bad = oracles.note_failures(obs, ("logging_raised", "foreign_exception"))
    if bad:
        return bad
    if "1" not in obs["raw"]:
        return None
    msgs = obs["raw"]["1"]
    reg = []
    ended = {}
    for c, o in oplists.ctx_ops(case):
        if o[0] == "register":
            reg = reg + [[o[1], o[2]]]
        elif o[0] in ("exit", "finish") and o[1] not in ended:
            ended[o[1]] = (o[2], list(reg))
    started = [o[1] for c, o in oplists.ctx_ops(case) if o[0] == "start"]
    for h in started:
        starts = [m for m in msgs if m.get("f19") == h and m.get("action_status") == "started"]
        if len(starts) != 1:
            return "action %d logged %d start messages" % (h, len(starts))
        s = starts[0]
        ends = [m for m in msgs if m.get("task_uuid") == s["task_uuid"] and m.get("task_level", [])[:-1] == s["task_level"][:-1]
                and m.get("action_status") in oracles.ENDED]
        if h not in ended:
            if ends:
                return "action %d was never ended but has an end message" % h
            continue
        if len(ends) != 1:
            return "action %d logged %d end messages" % (h, len(ends))
        e = ends[0]
        x, reg_then = ended[h]
        if e.get("action_type") != s.get("action_type"):
            return "action %d end message has another action_type" % h
        if (e["action_status"] == "failed") != (x is not None):
            return "action %d: ended %s but end status is %r" % (h, "with an exception" if x else "normally", e["action_status"])
        extra = {k for k in e if k.startswith("f") and k[1:].isdigit() and 40 <= int(k[1:]) < 46}
        if x is None:
            if "exception" in e or "reason" in e or extra:
                return "action %d succeeded but its end message has exception/reason/extractor fields" % h
            continue
        fake = {"classes": case["classes"], "registry": reg_then}
        if e.get("exception") != oracles.class_name(fake, x["cls"]):
            return "action %d: exception field %r, expected %r" % (h, e.get("exception"), oracles.class_name(fake, x["cls"]))
        want = progs.SAFEFAIL if x["sr"] else progs.exn_text(x["text"])
        if e.get("reason") != want:
            return "action %d: reason %r, expected %r" % (h, e.get("reason"), want)
        ext = oracles.expected_extractor(fake, x["cls"])
        if ext is not None and ext[0] == "fields":
            wantf = {progs.key_name(k): progs.canon_value(progs.py_value(v)) for k, v in ext[1]}
            gotf = {k: progs.canon_value(e[k]) for k in extra}
            if wantf != gotf:
                return ("action %d: extractor fields %r on the failed end, expected %r (those of the nearest class registered "
                        "when the action ended)" % (h, sorted(gotf), sorted(wantf)))
        elif extra:
            return "action %d: unexpected extractor fields %r" % (h, sorted(extra))
    return None


def nontrivial_scripts(case, obs):
    kinds = [o[0] for o in case["ops"]]
    return json.dumps(case["ops"]) if "register" in kinds and isinstance(obs, dict) and sum(len(m) for _, m in obs.get("dests", [])) >= 3 else None


FAMILIES.append(Family("scripts", gen_scripts, oplists.run_case, oplists.model_expr, oplists.model_obs, oracle_scripts, nontrivial_scripts,
                       imports=["Model.Core", "Model.Prog"], project=oplists.project, describe=oplists.describe, shard=30, coq_shard=60))


# ---- actions inside generators: one truthful end when the block is left by close()/throw() (generator model of C15) ----
from props import C15 as _c15


def gen_generators(rng, tier):
    cases = [c for c in _c15.gen_scripts(rng, tier)
             if any(s[0] == "resume" and s[2][0] in ("close", "throw") for s in c["script"])]
    return cases[:80 if tier == "quick" else 2500]


FAMILIES.append(Family("generators", gen_generators, _c15.impl_scripts, _c15.model_scripts, _c15.model_obs_scripts,
                       _c15.oracle_scripts, _c15.nontrivial_scripts, imports=["Model.Generators"],
                       project=_c15.project_scripts, shrink=_c15.shrink_scripts, describe=_c15.describe_scripts,
                       shard=100, coq_shard=30))


# fixed feature programs (lib/progs.py CORPUS_FEATURES) run first under every seed
for _f in FAMILIES:
    if _f.name in ("programs", "roundtrip"):
        _f.corpus = list(_f.corpus or []) + [dict(c) for c in progs.CORPUS_FEATURES]
